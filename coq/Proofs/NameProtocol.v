(* C03 - proofs about Model/NameProtocol.v:
   (1) a checked reachable-set certificate is sound: if a finite set of states
       contains the start state and is closed under every enabled label, every
       run (any length, any oracle answers) stays inside it, never reaches
       Error, and completing from wherever the run stopped yields the expected
       names (induction over the label list);
   (2) every label that is enabled in some state is in the label list the
       certificate was checked with (so "every run" really is every run);
   (3) the boolean [good_names] means: no duplicate, same set, no placeholder;
   (4) layer 2 (guarded name lists) is exactly layer 1 (objects + dict) as long
       as the guard holds. *)
From Coq Require Import String List Bool Arith Lia Permutation.
From PV Require Import Lib.Strings Model.NameProtocol.
Import ListNotations.

(* ---- equality tests ------------------------------------------------------ *)

Lemma nl_eqb_eq : forall a b, nl_eqb a b = true -> a = b.
Proof.
  induction a as [|x a IH]; destruct b as [|y b]; cbn; intros H; try discriminate; auto.
  apply andb_true_iff in H. destruct H as [H1 H2].
  apply String.eqb_eq in H1. subst. f_equal. auto.
Qed.

Lemma pst_eqb_eq : forall a b, pst_eqb a b = true -> a = b.
Proof.
  intros [n1 f1 h1 a1] [n2 f2 h2 a2]. unfold pst_eqb. cbn. intros H.
  repeat (apply andb_true_iff in H; destruct H as [H ?]).
  apply nl_eqb_eq in H. apply Bool.eqb_prop in H2. apply nl_eqb_eq in H1. apply nl_eqb_eq in H0.
  subst. reflexivity.
Qed.

Lemma memP_In : forall s l, memP s l = true -> In s l.
Proof.
  unfold memP. intros s l H. apply existsb_exists in H. destruct H as [x [Hx He]].
  apply pst_eqb_eq in He. subst. exact Hx.
Qed.

Lemma mem_In : forall x l, mem x l = true <-> In x l.
Proof.
  unfold mem. induction l as [|y l IH]; cbn.
  - split; [discriminate | tauto].
  - rewrite orb_true_iff, IH, String.eqb_eq. split; intros [H|H]; auto.
Qed.

(* ---- (1) soundness of the certificate ------------------------------------ *)

Section Closure.
  Variables (L C : Type).
  Variable step : pst -> L -> outcome.
  Variable complete : pst -> C -> outcome.
  Variable labels : list L.
  Variable clabels : list C.
  Variable good : nl -> bool.
  Hypothesis labels_all : forall s l, step s l <> Disabled -> In l labels.
  Hypothesis clabels_all : forall s c, complete s c <> Disabled -> In c clabels.

  Variable S : list pst.
  Hypothesis Hclosed : closed L step labels S = true.
  Hypothesis Hgood : all_good C complete clabels good S = true.

  Lemma run_stays : forall ls s0, In s0 S ->
    match run L step s0 ls with
    | Next s _ => In s S
    | Disabled => True
    | Error => False
    end.
  Proof.
    induction ls as [|l ls IH]; intros s0 H0; cbn.
    - exact H0.
    - destruct (step s0 l) as [s' o| |] eqn:E; auto.
      + apply IH. unfold closed in Hclosed. rewrite forallb_forall in Hclosed.
        specialize (Hclosed s0 H0). rewrite forallb_forall in Hclosed.
        assert (Hin : In l labels) by (apply (labels_all s0); rewrite E; discriminate).
        specialize (Hclosed l Hin). rewrite E in Hclosed. apply memP_In. exact Hclosed.
      + unfold closed in Hclosed. rewrite forallb_forall in Hclosed.
        specialize (Hclosed s0 H0). rewrite forallb_forall in Hclosed.
        assert (Hin : In l labels) by (apply (labels_all s0); rewrite E; discriminate).
        specialize (Hclosed l Hin). rewrite E in Hclosed. discriminate.
  Qed.

  Lemma complete_good : forall s c, In s S ->
    match complete s c with
    | Next s' _ => good (names s') = true
    | Disabled => True
    | Error => False
    end.
  Proof.
    intros s c Hs. destruct (complete s c) as [s' o| |] eqn:E; auto.
    - unfold all_good in Hgood. rewrite forallb_forall in Hgood. specialize (Hgood s Hs).
      rewrite forallb_forall in Hgood.
      assert (Hin : In c clabels) by (apply (clabels_all s); rewrite E; discriminate).
      specialize (Hgood c Hin). rewrite E in Hgood. exact Hgood.
    - unfold all_good in Hgood. rewrite forallb_forall in Hgood. specialize (Hgood s Hs).
      rewrite forallb_forall in Hgood.
      assert (Hin : In c clabels) by (apply (clabels_all s); rewrite E; discriminate).
      specialize (Hgood c Hin). rewrite E in Hgood. discriminate.
  Qed.

  (* every run from a start state inside S: no Error on the way, and whatever
     oracle [complete] is given, it ends with good names *)
  Definition run_ok (s0 : pst) : Prop :=
    forall ls, match run L step s0 ls with
               | Next s _ => forall c, match complete s c with
                                       | Next s' _ => good (names s') = true
                                       | Disabled => True
                                       | Error => False
                                       end
               | Disabled => True
               | Error => False
               end.

  Theorem certificate_sound : forall s0, memP s0 S = true -> run_ok s0.
  Proof.
    intros s0 H0 ls. apply memP_In in H0. pose proof (run_stays ls s0 H0) as Hr.
    destruct (run L step s0 ls) as [s o| |]; auto.
    intros c. apply complete_good. exact Hr.
  Qed.
End Closure.

(* ---- (2) every enabled label is in the checked label list ---------------- *)

Lemma tri_all : forall t, In t tris.
Proof. destruct t; cbn; auto. Qed.

Lemma flabels_all : forall mv s l, flip_step mv s l <> Disabled -> In l (flabels mv).
Proof.
  intros mv s [bn|] H; unfold flabels; apply in_or_app.
  - left. apply in_map. unfold flip_step in H.
    destruct (mem bn (flip_cands mv)) eqn:E.
    + apply mem_In. exact E.
    + exfalso. apply H. reflexivity.
  - right. cbn. auto.
Qed.

Lemma alabels_all : forall h s l, alc_step h s l <> Disabled -> In l alabels.
Proof.
  intros h s [t|t|] _; unfold alabels.
  - apply in_or_app. left. apply in_map, tri_all.
  - apply in_or_app. right. apply in_or_app. left. apply in_map, tri_all.
  - apply in_or_app. right. apply in_or_app. right. cbn. auto.
Qed.

Lemma wlabels_all : forall s l, wat_step s l <> Disabled -> In l wlabels.
Proof.
  intros s [t|t|] _; unfold wlabels.
  - apply in_or_app. left. apply in_map, tri_all.
  - apply in_or_app. right. apply in_or_app. left. apply in_map, tri_all.
  - apply in_or_app. right. apply in_or_app. right. cbn. auto.
Qed.

Lemma clabels_all : forall c s l, carb_step c s l <> Disabled -> In l (clabels_of c).
Proof.
  intros c s [f|d|b] H; unfold clabels_of.
  - apply in_or_app. left. destruct f; cbn; auto.
  - apply in_or_app. right. apply in_or_app. left. apply in_map.
    unfold carb_step in H. destruct (mem d (carb_cands c)) eqn:E; [apply mem_In; exact E | exfalso; apply H; reflexivity].
  - apply in_or_app. right. apply in_or_app. right.
    unfold carb_step, best_ok in H. destruct b as [x|].
    + right. apply (in_map (fun x => CFinalize (Some x))).
      destruct (mem x (carb_cands c)) eqn:E; [apply mem_In; exact E | exfalso; apply H; reflexivity].
    + left. reflexivity.
Qed.

Lemma unit_all : forall (u : unit), In u [tt].
Proof. destruct u; cbn; auto. Qed.

Lemma cbest_all : forall c s b, carb_complete c s b <> Disabled -> In b (cbest c).
Proof.
  intros c s b H. unfold cbest. destruct b as [x|]; [right|left; reflexivity].
  apply in_map. unfold carb_complete, best_ok in H.
  destruct (mem x (carb_cands c)) eqn:E; [apply mem_In; exact E|]. exfalso. apply H. reflexivity.
Qed.

(* ---- (3) meaning of good_names ------------------------------------------- *)

Definition final_ok (expected l : nl) : Prop :=
  NoDup l /\ (forall x, In x l <-> In x expected) /\ (forall x, In x l -> placeholder x = false).

Lemma nodupb_NoDup : forall l, nodupb l = true -> NoDup l.
Proof.
  induction l as [|x l IH]; cbn; intros H; constructor.
  - apply andb_true_iff in H. destruct H as [H _]. intros Hin. apply mem_In in Hin.
    rewrite Hin in H. discriminate.
  - apply andb_true_iff in H. apply IH, H.
Qed.

Lemma good_names_spec : forall e l, good_names e l = true -> final_ok e l.
Proof.
  intros e l H. unfold good_names in H.
  repeat (apply andb_true_iff in H; destruct H as [H ?]).
  rewrite forallb_forall in H0, H1, H2.
  split; [apply nodupb_NoDup; exact H|]. split.
  - intros x; split; intros Hx.
    + apply mem_In. apply H2. exact Hx.
    + apply mem_In. apply H1. exact Hx.
  - intros x Hx. specialize (H0 x Hx). destruct (placeholder x); [discriminate|reflexivity].
Qed.

(* ---- instance level ------------------------------------------------------ *)

(* what a passed instance check means, for each protocol *)
Definition proto_ok (L C : Type) (step : pst -> L -> outcome) (complete : pst -> C -> outcome)
                    (expected : nl) (st : outcome) : Prop :=
  match st with
  | Error => False
  | Disabled => True
  | Next s0 _ =>
      forall ls, match run L step s0 ls with
                 | Next s _ => forall c, match complete s c with
                                         | Next s' _ => final_ok expected (names s')
                                         | Disabled => True
                                         | Error => False
                                         end
                 | Disabled => True
                 | Error => False
                 end
  end.

Lemma lift_good : forall (L C : Type) step complete e s0,
  run_ok L C step complete (good_names e) s0 ->
  forall ls, match run L step s0 ls with
             | Next s _ => forall c, match complete s c with
                                     | Next s' _ => final_ok e (names s')
                                     | Disabled => True
                                     | Error => False
                                     end
             | Disabled => True
             | Error => False
             end.
Proof.
  intros L C step complete e s0 H ls. specialize (H ls).
  destruct (run L step s0 ls); auto. intros c. specialize (H c).
  destruct (complete s c); auto. apply good_names_spec. exact H.
Qed.

Theorem flip_instance_sound : forall i mv o, i_kind i = KFlip mv -> check_from i o = true ->
  proto_ok _ _ (flip_step mv) flip_complete (i_expected i) o.
Proof.
  intros i mv o Hk H. unfold check_from in H. destruct o as [s0 ops| |]; cbn; auto; try discriminate.
  rewrite Hk in H. repeat (apply andb_true_iff in H; destruct H as [H ?]).
  apply lift_good.
  eapply (certificate_sound _ _ (flip_step mv) flip_complete (flabels mv) [tt]); eauto.
  - apply flabels_all.
  - intros s c _. apply unit_all.
Qed.

Theorem alc_instance_sound : forall i h o, i_kind i = KAlc h -> check_from i o = true ->
  proto_ok _ _ (alc_step h) (alc_complete h) (i_expected i) o.
Proof.
  intros i h o Hk H. unfold check_from in H. destruct o as [s0 ops| |]; cbn; auto; try discriminate.
  rewrite Hk in H. repeat (apply andb_true_iff in H; destruct H as [H ?]).
  apply lift_good.
  eapply (certificate_sound _ _ (alc_step h) (alc_complete h) alabels [tt]); eauto.
  - apply alabels_all.
  - intros s c _. apply unit_all.
Qed.

Theorem wat_instance_sound : forall i o, i_kind i = KWat -> check_from i o = true ->
  proto_ok _ _ wat_step wat_complete (i_expected i) o.
Proof.
  intros i o Hk H. unfold check_from in H. destruct o as [s0 ops| |]; cbn; auto; try discriminate.
  rewrite Hk in H. repeat (apply andb_true_iff in H; destruct H as [H ?]).
  apply lift_good.
  eapply (certificate_sound _ _ wat_step wat_complete wlabels [tt]); eauto.
  - apply wlabels_all.
  - intros s c _. apply unit_all.
Qed.

Theorem carb_instance_sound : forall i c o, i_kind i = KCarb c -> check_from i o = true ->
  proto_ok _ _ (carb_step c) (carb_complete c) (i_expected i) o.
Proof.
  intros i c o Hk H. unfold check_from in H. destruct o as [s0 ops| |]; cbn; auto; try discriminate.
  rewrite Hk in H. repeat (apply andb_true_iff in H; destruct H as [H ?]).
  apply lift_good.
  eapply (certificate_sound _ _ (carb_step c) (carb_complete c) (clabels_of c) (cbest c)); eauto.
  - apply clabels_all.
  - apply cbest_all.
Qed.

(* a residue with no hydrogen-bond partner is only finalized; if that fixes it
   (so that it is never completed) its names are already final *)
Lemma nohb_sound : forall (L : Type) (step : pst -> L -> outcome) e fl s0 l,
  nohb_good L step (good_names e) fl s0 = true -> In l fl ->
  match step s0 l with
  | Next s' _ => fixed s' = true -> final_ok e (names s')
  | Disabled => True
  | Error => False
  end.
Proof.
  intros L step e fl s0 l H Hin. unfold nohb_good in H. rewrite forallb_forall in H.
  specialize (H l Hin). destruct (step s0 l) as [s' o| |]; auto; try discriminate.
  intros Hf. rewrite Hf in H. apply good_names_spec. exact H.
Qed.

(* table level: all instances of a list pass => each one is sound *)
Lemma instance_starts_ok : forall l i o, all_instances_ok l = true -> In i l -> In o (starts i) ->
  check_from i o = true.
Proof.
  intros l i o H Hi Ho. unfold all_instances_ok in H. rewrite forallb_forall in H.
  specialize (H i Hi). unfold check_instance in H. rewrite forallb_forall in H. apply H, Ho.
Qed.

Theorem flip_table_sound : forall l i mv, all_instances_ok l = true -> In i l -> i_kind i = KFlip mv ->
  proto_ok _ _ (flip_step mv) flip_complete (i_expected i) (flip_start (i_base i) mv).
Proof.
  intros l i mv H Hi Hk. apply flip_instance_sound; auto.
  eapply instance_starts_ok; eauto. unfold starts. rewrite Hk. cbn. auto.
Qed.

Theorem alc_table_sound : forall l i h, all_instances_ok l = true -> In i l -> i_kind i = KAlc h ->
  proto_ok _ _ (alc_step h) (alc_complete h) (i_expected i) (alc_start h (i_base i)).
Proof.
  intros l i h H Hi Hk. apply alc_instance_sound; auto.
  eapply instance_starts_ok; eauto. unfold starts. rewrite Hk. cbn. auto.
Qed.

Theorem wat_table_sound : forall l i, all_instances_ok l = true -> In i l -> i_kind i = KWat ->
  proto_ok _ _ wat_step wat_complete (i_expected i) (wat_start (i_base i)).
Proof.
  intros l i H Hi Hk. apply wat_instance_sound; auto.
  eapply instance_starts_ok; eauto. unfold starts. rewrite Hk. cbn. auto.
Qed.

Theorem carb_table_sound : forall l i c ord lf, all_instances_ok l = true -> In i l -> i_kind i = KCarb c ->
  proto_ok _ _ (carb_step c) (carb_complete c) (i_expected i) (carb_start c ord lf (i_base i)).
Proof.
  intros l i c ord lf H Hi Hk.
  destruct ord, lf.
  - apply carb_instance_sound; auto. eapply instance_starts_ok; eauto. unfold starts. rewrite Hk. cbn. auto.
  - unfold carb_start. cbn. exact I.
  - apply carb_instance_sound; auto. eapply instance_starts_ok; eauto. unfold starts. rewrite Hk. cbn. auto.
  - apply carb_instance_sound; auto. eapply instance_starts_ok; eauto. unfold starts. rewrite Hk. cbn. auto.
Qed.

(* ---- patch table ---------------------------------------------------------- *)

Lemma same_set_spec : forall a b, same_set a b = true -> NoDup a /\ forall x, In x a <-> In x b.
Proof.
  intros a b H. unfold same_set in H. repeat (apply andb_true_iff in H; destruct H as [H ?]).
  rewrite forallb_forall in H, H1. split; [apply nodupb_NoDup; auto|].
  intros x; split; intros Hx; apply mem_In; auto.
Qed.

Theorem patch_table_sound : forall l p, patches_ok l = true -> In p l -> p_runtime p = true ->
  (p_key p = "5TERM"%string -> NoDup (heavy_removed p) /\ forall x, In x (heavy_removed p) <-> In x phosphate) /\
  (p_key p <> "5TERM"%string -> forall x, In x (p_remove p) -> is_hyd x = true).
Proof.
  intros l p H Hp Hr. unfold patches_ok in H. apply andb_true_iff in H. destruct H as [H _].
  rewrite forallb_forall in H. specialize (H p Hp). unfold patch_ok in H. rewrite Hr in H.
  split.
  - intros Hk. rewrite Hk in H. cbn in H. apply same_set_spec. exact H.
  - intros Hk x Hx. destruct (String.eqb (p_key p) "5TERM") eqn:E.
    + apply String.eqb_eq in E. contradiction.
    + destruct (is_hyd x) eqn:Ex; auto.
      assert (Hin : In x (heavy_removed p)) by (unfold heavy_removed; apply filter_In; rewrite Ex; auto).
      destruct (heavy_removed p); [destruct Hin | discriminate].
Qed.

(* ---- residues that are finalized but never completed ---------------------- *)

Theorem flip_nohb_sound : forall l i mv, all_instances_ok l = true -> In i l -> i_kind i = KFlip mv ->
  match flip_start (i_base i) mv with
  | Next s0 _ => match flip_step mv s0 FFinalize with
                 | Next s' _ => fixed s' = true -> final_ok (i_expected i) (names s')
                 | Disabled => True
                 | Error => False
                 end
  | _ => True
  end.
Proof.
  intros l i mv H Hi Hk.
  assert (Hc : check_from i (flip_start (i_base i) mv) = true).
  { eapply instance_starts_ok; eauto. unfold starts. rewrite Hk. cbn. auto. }
  destruct (flip_start (i_base i) mv) as [s0 o| |]; auto.
  unfold check_from in Hc. rewrite Hk in Hc. repeat (apply andb_true_iff in Hc; destruct Hc as [Hc ?]).
  eapply (nohb_sound _ (flip_step mv)); eauto. cbn. auto.
Qed.

Theorem wat_nohb_sound : forall l i, all_instances_ok l = true -> In i l -> i_kind i = KWat ->
  match wat_start (i_base i) with
  | Next s0 _ => match wat_step s0 WFinalize with
                 | Next s' _ => fixed s' = true -> final_ok (i_expected i) (names s')
                 | Disabled => True
                 | Error => False
                 end
  | _ => True
  end.
Proof.
  intros l i H Hi Hk.
  assert (Hc : check_from i (wat_start (i_base i)) = true).
  { eapply instance_starts_ok; eauto. unfold starts. rewrite Hk. cbn. auto. }
  destruct (wat_start (i_base i)) as [s0 o| |]; auto.
  unfold check_from in Hc. rewrite Hk in Hc. repeat (apply andb_true_iff in Hc; destruct Hc as [Hc ?]).
  eapply (nohb_sound _ wat_step); eauto. cbn. auto.
Qed.

(* ---- partition (C01's result restated for C03) ---------------------------- *)
From Coq Require Import Permutation.
From PV Require Import Model.ForceField Proofs.ForceField.

Theorem partition_no_loss_no_dup : forall (A : Type) (m : ffmap) (rs : list (@res A)),
  Permutation (map fst (fst (assign m rs)) ++ snd (assign m rs)) (all_atoms rs) /\
  (NoDup (all_atoms rs) -> NoDup (map fst (fst (assign m rs)) ++ snd (assign m rs))).
Proof.
  intros A m rs. pose proof (@assign_partition A m rs) as P. split; [exact P|].
  intros Hn. eapply Permutation_NoDup; [apply Permutation_sym; exact P | exact Hn].
Qed.

(* ======================================================================
   Parametric protocol theorems (arbitrary residues)
   ====================================================================== *)
(* ---- name-list lemmas ------------------------------------------------------ *)

Lemma In_remove_first : forall x l y, NoDup l -> (In y (remove_first x l) <-> In y l /\ y <> x).
Proof.
  induction l as [|z l IH]; cbn; intros y Hn.
  - tauto.
  - inversion Hn as [|? ? Hz Hl]; subst. destruct (String.eqb x z) eqn:E.
    + apply String.eqb_eq in E. subst z. split.
      * intros Hy. split; [auto|]. intros ->. contradiction.
      * intros [[->|Hy] Hne]; [congruence|auto].
    + apply String.eqb_neq in E. cbn. rewrite IH by auto. split.
      * intros [->|[Hy Hne]]; split; auto.
      * intros [[->|Hy] Hne]; auto.
Qed.

Lemma NoDup_remove_first : forall x l, NoDup l -> NoDup (remove_first x l).
Proof.
  induction l as [|z l IH]; cbn; intros Hn; auto.
  inversion Hn; subst. destruct (String.eqb x z); auto.
  constructor; auto. rewrite In_remove_first by auto. tauto.
Qed.

Lemma remove_first_notin : forall x l, ~ In x l -> remove_first x l = l.
Proof.
  induction l as [|z l IH]; cbn; intros H; auto.
  destruct (String.eqb x z) eqn:E.
  - apply String.eqb_eq in E. subst. tauto.
  - f_equal. apply IH. tauto.
Qed.

Lemma remove_first_app_last : forall x l, ~ In x l -> remove_first x (l ++ [x]) = l.
Proof.
  induction l as [|z l IH]; cbn; intros H.
  - rewrite String.eqb_refl. reflexivity.
  - destruct (String.eqb x z) eqn:E.
    + apply String.eqb_eq in E. subst. tauto.
    + f_equal. apply IH. tauto.
Qed.

Lemma In_replace_first : forall o n l y, NoDup l -> In o l ->
  (In y (replace_first o n l) <-> (In y l /\ y <> o) \/ y = n).
Proof.
  induction l as [|z l IH]; cbn; intros y Hn Ho; [tauto|].
  inversion Hn as [|? ? Hz Hl]; subst. destruct (String.eqb o z) eqn:E.
  - apply String.eqb_eq in E. subst z. cbn. split.
    + intros [->|Hy]; auto. left. split; auto. intros ->. contradiction.
    + intros [[[->|Hy] Hne]| ->]; auto. congruence.
  - apply String.eqb_neq in E. destruct Ho as [->|Ho]; [congruence|]. cbn. rewrite IH by auto. split.
    + intros [->|[[Hy Hne]| ->]]; auto.
    + intros [[[->|Hy] Hne]| ->]; auto.
Qed.

Lemma NoDup_replace_first : forall o n l, NoDup l -> ~ In n l -> NoDup (replace_first o n l).
Proof.
  induction l as [|z l IH]; cbn; intros Hn Hnn; auto.
  inversion Hn as [|? ? Hz Hl]; subst. destruct (String.eqb o z) eqn:E.
  - constructor; auto.
  - constructor; [|apply IH; auto].
    intros Hin. destruct (in_dec string_dec o l) as [Ho|Ho].
    + apply In_replace_first in Hin; auto. destruct Hin as [[Hin _]| ->]; auto.
    + assert (replace_first o n l = l) as Hr.
      { clear -Ho. induction l as [|q l IH]; cbn; auto. destruct (String.eqb o q) eqn:E.
        - apply String.eqb_eq in E. subst. cbn in Ho. tauto.
        - f_equal. apply IH. cbn in Ho. tauto. }
      rewrite Hr in Hin. auto.
Qed.

Lemma NoDup_app_last : forall (l : nl) x, NoDup l -> ~ In x l -> NoDup (l ++ [x]).
Proof.
  intros l x Hn Hx.
  apply Permutation.Permutation_NoDup with (l := x :: l).
  - apply Permutation.Permutation_cons_append.
  - constructor; auto.
Qed.

Lemma has_In : forall n w, has n w = true <-> In n (w_names w).
Proof. intros. unfold has. apply mem_In. Qed.

Lemma has_false : forall n w, has n w = false <-> ~ In n (w_names w).
Proof.
  intros. rewrite <- has_In. split.
  - intros H H1. rewrite H in H1. discriminate.
  - intros H. destruct (has n w); auto. exfalso. apply H. reflexivity.
Qed.

Lemma cr_spec : forall n w, ~ In n (w_names w) ->
  exists w', cr n w = Some w' /\ w_names w' = (w_names w ++ [n])%list.
Proof.
  intros n w H. unfold cr. apply has_false in H. unfold has in H. rewrite H. eexists. split; reflexivity.
Qed.

Lemma rm_spec : forall n w, In n (w_names w) ->
  exists w', rm n w = Some w' /\ w_names w' = remove_first n (w_names w).
Proof.
  intros n w H. unfold rm. apply has_In in H. unfold has in H. rewrite H. eexists. split; reflexivity.
Qed.

Lemma rn_spec : forall o n w, In o (w_names w) -> ~ In n (w_names w) ->
  exists w', rn o n w = Some w' /\ w_names w' = replace_first o n (w_names w).
Proof.
  intros o n w Ho Hn. unfold rn. apply has_In in Ho. apply has_false in Hn. unfold has in *.
  rewrite Ho, Hn. cbn. eexists. split; reflexivity.
Qed.

(* ---- removing every name that satisfies p, iterating a snapshot ----------- *)

Definition rm_pred (p : string -> bool) (todo : nl) (w : W) : option W :=
  fold_left (fun acc a => acc >>= fun w' => if p a then rm a w' else Some w') todo (Some w).

Lemma rm_pred_spec : forall p todo w, NoDup (w_names w) -> NoDup todo ->
  (forall a, In a todo -> p a = true -> In a (w_names w)) ->
  exists w', rm_pred p todo w = Some w' /\ NoDup (w_names w') /\
             forall y, In y (w_names w') <-> In y (w_names w) /\ ~ (p y = true /\ In y todo).
Proof.
  unfold rm_pred. induction todo as [|a r IH]; intros w Hn Hnt Hin.
  - exists w. cbn. split; auto. split; auto. intros y. tauto.
  - inversion Hnt as [|? ? Ha Hr]; subst. cbn [fold_left bind]. destruct (p a) eqn:Ep.
    + destruct (rm_spec a w) as [w1 [E1 N1]]; [apply Hin; cbn; auto|]. rewrite E1.
      destruct (IH w1) as [w' [E' [Nd' S']]].
      * rewrite N1. apply NoDup_remove_first; auto.
      * auto.
      * intros b Hb Hpb. rewrite N1. apply In_remove_first; auto. split; [apply Hin; cbn; auto|].
        intros ->. contradiction.
      * exists w'. split; auto. split; auto. intros y. rewrite S', N1, In_remove_first by auto. cbn. split.
        -- intros [[Hy Hne] Hnp]. split; auto. intros [Hp [->|Hyr]]; [congruence|tauto].
        -- intros [Hy Hnp]. split; [split; auto|].
           ++ intros ->. apply Hnp. auto.
           ++ intros [Hp Hyr]. apply Hnp. auto.
    + destruct (IH w) as [w' [E' [Nd' S']]]; auto.
      * intros b Hb Hpb. apply Hin; cbn; auto.
      * exists w'. split; auto. split; auto. intros y. rewrite S'. cbn. split.
        -- intros [Hy Hnp]. split; auto. intros [Hp [->|Hyr]]; [congruence|tauto].
        -- intros [Hy Hnp]. split; auto. intros [Hp Hyr]. apply Hnp. auto.
Qed.

(* ---- Alcoholic, for arbitrary residues ------------------------------------ *)


Section AlcParam.
  Variables (h : string) (base : nl).
  Hypothesis Hwf : wf_alc h base = true.

  Let base' := remove_first h base.
  Definition T3 (x : string) : Prop := x = h \/ x = "LP1"%string \/ x = "LP2"%string.

  Definition AInv (l : nl) : Prop :=
    NoDup l /\ (forall x, In x base' -> In x l) /\ (forall x, In x l -> In x base' \/ T3 x).

  Lemma wf_alc_parts : NoDup base /\ (forall x, In x base -> placeholder x = false) /\ placeholder h = false.
  Proof.
    pose proof Hwf as W. unfold wf_alc in W. apply andb_true_iff in W. destruct W as [W W3].
    apply andb_true_iff in W. destruct W as [W1 W2].
    split; [apply nodupb_NoDup; auto|]. split.
    - intros x Hx. rewrite forallb_forall in W2. specialize (W2 x Hx). destruct (placeholder x); auto; discriminate.
    - destruct (placeholder h); auto; discriminate.
  Qed.

  Lemma base'_props : NoDup base' /\ ~ In h base' /\ (forall x, In x base' -> placeholder x = false).
  Proof.
    destruct wf_alc_parts as [Hn [Hp _]]. unfold base'. split; [apply NoDup_remove_first; auto|]. split.
    - rewrite In_remove_first by auto. tauto.
    - intros x Hx. apply In_remove_first in Hx; auto. apply Hp. tauto.
  Qed.

  Lemma AInv_add : forall l n, AInv l -> ~ In n l -> T3 n -> AInv (l ++ [n]).
  Proof.
    intros l n [Hn [Hb Hs]] Hni Ht. split; [apply NoDup_app_last; auto|]. split.
    - intros x Hx. apply in_or_app. left. auto.
    - intros x Hx. apply in_app_or in Hx. destruct Hx as [Hx|[<-|[]]]; auto.
  Qed.

  Lemma try_create_inv : forall t n w, AInv (w_names w) -> ~ In n (w_names w) -> T3 n ->
    exists w', try_create t n w = Some w' /\ AInv (w_names w').
  Proof.
    intros t n w Hi Hni Ht. destruct t; cbn [try_create].
    - exists w. auto.
    - destruct (cr_spec n w Hni) as [w1 [E1 N1]]. rewrite E1. cbn [bind].
      destruct (rm_spec n w1) as [w2 [E2 N2]]; [rewrite N1; apply in_or_app; right; cbn; auto|].
      exists w2. split; auto. rewrite N2, N1, remove_first_app_last; auto.
    - destruct (cr_spec n w Hni) as [w1 [E1 N1]]. exists w1. split; auto. rewrite N1. apply AInv_add; auto.
  Qed.

  Definition PInv (s : pst) : Prop := AInv (names s) /\ fixed s = false.

  Lemma fin_inv : forall s fx w, AInv (w_names w) -> fx = false ->
    exists s' o, fin s fx (hl s) (al s) (Some w) = Next s' o /\ PInv s'.
  Proof. intros s fx w Hi Hf. eexists. eexists. split; [reflexivity|]. split; cbn; auto. Qed.

  Lemma alc_step_inv : forall s l, PInv s -> exists s' o, alc_step h s l = Next s' o /\ PInv s'.
  Proof.
    intros s l [Hi Hf]. assert (Hs : w_names (start s) = names s) by reflexivity.
    destruct l as [t|t|]; cbn [alc_step].
    - unfold alc_try_donor. destruct (has h (start s)) eqn:Eh.
      + apply fin_inv; auto.
      + destruct (in13 _).
        * destruct (try_create_inv t h (start s)) as [w' [E' I']]; auto.
          { apply has_false; auto. } { left; auto. }
          rewrite E'. apply fin_inv; auto.
        * apply fin_inv; auto.
    - unfold alc_try_acceptor, lp_name. destruct (has "LP2" (start s)) eqn:E2.
      + apply fin_inv; auto.
      + destruct (has "LP1" (start s)) eqn:E1.
        * destruct (in13 _); [|apply fin_inv; auto].
          destruct (try_create_inv t "LP2"%string (start s)) as [w' [E' I']]; auto.
          { apply has_false; auto. } { right; right; auto. }
          rewrite E'. apply fin_inv; auto.
        * destruct (in13 _); [|apply fin_inv; auto].
          destruct (try_create_inv t "LP1"%string (start s)) as [w' [E' I']]; auto.
          { apply has_false; auto. } { right; left; auto. }
          rewrite E'. apply fin_inv; auto.
    - unfold alc_finalize. rewrite Hf. destruct (has h (start s)) eqn:Eh; [apply fin_inv; auto|].
      destruct (in13 _); [|apply fin_inv; auto].
      destruct (cr_spec h (start s)) as [w1 [E1 N1]]; [apply has_false; auto|]. rewrite E1.
      apply fin_inv; auto. rewrite N1. apply AInv_add; auto. { apply has_false in Eh. auto. } left; auto.
  Qed.

  Lemma alc_run_inv : forall ls s, PInv s ->
    exists s' o, run _ (alc_step h) s ls = Next s' o /\ PInv s'.
  Proof.
    induction ls as [|l ls IH]; intros s Hs; cbn [run].
    - eexists. eexists. split; [reflexivity|auto].
    - destruct (alc_step_inv s l Hs) as [s1 [o1 [E1 I1]]]. rewrite E1. apply IH. auto.
  Qed.

  Lemma alc_start_inv : exists s0 o, alc_start h base = Next s0 o /\ PInv s0.
  Proof.
    destruct wf_alc_parts as [Hn [Hp Hph]]. destruct base'_props as [Hn' [Hh' Hp']].
    unfold alc_start. destruct (has h (mkW base [])) eqn:Eh.
    - destruct (rm_spec h (mkW base [])) as [w1 [E1 N1]]; [apply has_In; auto|]. rewrite E1.
      eexists. eexists. split; [reflexivity|]. unfold PInv. cbn [names fixed]. split; [|reflexivity].
      rewrite N1. cbn [w_names]. fold base'. unfold AInv. split; [auto|]. split; auto.
    - eexists. eexists. split; [reflexivity|]. unfold PInv. cbn [names fixed]. split; [|reflexivity].
      apply has_false in Eh. cbn in Eh. assert (base' = base) as Hb by (apply remove_first_notin; auto).
      unfold AInv. rewrite Hb. split; [auto|]. split; auto.
  Qed.

  Lemma alc_bonds_in13 : forall w, has h w = false -> in13 (alc_bonds h w) = true.
  Proof.
    intros w Eh. unfold alc_bonds, count_present. cbn [filter]. rewrite Eh.
    destruct (has "LP1" w), (has "LP2" w); reflexivity.
  Qed.

  Lemma isLP_placeholder : forall x, isLP x = true -> placeholder x = true.
  Proof. intros x H. unfold placeholder. rewrite H. destruct (isF x); reflexivity. Qed.

  Lemma alc_complete_ok : forall s, PInv s ->
    exists s' o, alc_complete h s tt = Next s' o /\ final_ok (alc_expected h base) (names s').
  Proof.
    intros s [Hi Hf]. destruct wf_alc_parts as [Hn [Hp Hph]]. destruct base'_props as [Hn' [Hh' Hp']].
    unfold alc_complete.
    assert (exists w1, alc_finalize h (fixed s) (start s) = Some w1 /\ AInv (w_names w1) /\ In h (w_names w1)) as [w1 [E1 [I1 H1]]].
    { unfold alc_finalize. rewrite Hf. destruct (has h (start s)) eqn:Eh.
      - exists (start s). split; auto. split; auto. apply has_In in Eh. auto.
      - rewrite alc_bonds_in13 by auto. destruct (cr_spec h (start s)) as [w1 [E1 N1]]; [apply has_false; auto|].
        exists w1. split; auto. rewrite N1. split.
        + apply AInv_add; auto. { apply has_false in Eh. auto. } left; auto.
        + apply in_or_app. right. cbn. auto. }
    rewrite E1. cbn [bind]. destruct I1 as [Nd1 [Hb1 Hs1]].
    destruct (rm_pred_spec isLP (w_names w1) w1) as [w2 [E2 [Nd2 S2]]]; auto.
    unfold remove_lps. unfold rm_pred in E2. rewrite E2. eexists. eexists. split; [reflexivity|]. cbn [names].
    assert (HLP1 : isLP "LP1" = true) by reflexivity. assert (HLP2 : isLP "LP2" = true) by reflexivity.
    assert (Hhlp : isLP h = false).
    { destruct (isLP h) eqn:E; auto. apply isLP_placeholder in E. congruence. }
    split; [auto|]. split.
    - intros x. rewrite S2. unfold alc_expected. fold base'. split.
      + intros [Hx Hnp]. apply in_or_app. destruct (Hs1 x Hx) as [Hb|[->|[->| ->]]]; auto.
        * right. cbn. auto.
        * exfalso. apply Hnp. auto.
        * exfalso. apply Hnp. auto.
      + intros Hx. apply in_app_or in Hx. destruct Hx as [Hx|[<-|[]]].
        * split; auto. intros [Hl _]. apply isLP_placeholder in Hl. rewrite Hp' in Hl; auto. discriminate.
        * split; auto. intros [Hl _]. congruence.
    - intros x Hx. apply S2 in Hx. destruct Hx as [Hx Hnp].
      destruct (Hs1 x Hx) as [Hb|[->|[->| ->]]]; auto.
      + exfalso. apply Hnp. auto.
      + exfalso. apply Hnp. auto.
  Qed.

  Theorem alc_names_param : proto_ok _ _ (alc_step h) (alc_complete h) (alc_expected h base) (alc_start h base).
  Proof.
    destruct alc_start_inv as [s0 [o0 [E0 I0]]]. rewrite E0. cbn [proto_ok]. intros ls.
    destruct (alc_run_inv ls s0 I0) as [s [o [E I]]]. rewrite E. intros [].
    destruct (alc_complete_ok s I) as [s' [o' [E' F']]]. rewrite E'. exact F'.
  Qed.
End AlcParam.

(* ---- Water, for arbitrary residues ---------------------------------------- *)


Section WatParam.
  Variable base : nl.
  Hypothesis Hwf : wf_wat base = true.
  Local Open Scope string_scope.

  Definition T4 (x : string) : Prop := x = "H1" \/ x = "H2" \/ x = "LP1" \/ x = "LP2".

  Definition WInv (l : nl) : Prop :=
    NoDup l /\ (forall x, In x base -> In x l) /\ (forall x, In x l -> In x base \/ T4 x) /\
    (In "H2" l -> In "H1" l).

  Lemma wf_wat_parts : NoDup base /\ (forall x, In x base -> placeholder x = false) /\ (In "H2" base -> In "H1" base).
  Proof.
    pose proof Hwf as W. unfold wf_wat in W. apply andb_true_iff in W. destruct W as [W W3].
    apply andb_true_iff in W. destruct W as [W1 W2].
    split; [apply nodupb_NoDup; auto|]. split.
    - intros x Hx. rewrite forallb_forall in W2. specialize (W2 x Hx). destruct (placeholder x); auto; discriminate.
    - intros H2. apply mem_In in H2. rewrite H2 in W3. cbn in W3. apply mem_In. auto.
  Qed.

  Lemma WInv_add : forall l n, WInv l -> ~ In n l -> T4 n -> (n = "H2" -> In "H1" l) -> WInv (l ++ [n])%list.
  Proof.
    intros l n [Hn [Hb [Hs H21]]] Hni Ht Hh. split; [apply NoDup_app_last; auto|]. split; [|split].
    - intros x Hx. apply in_or_app. left. auto.
    - intros x Hx. apply in_app_or in Hx. destruct Hx as [Hx|[<-|[]]]; auto.
    - intros H2. apply in_or_app. left. apply in_app_or in H2. destruct H2 as [H2|[E|[]]]; auto.
  Qed.

  Lemma try_create_invW : forall t n w, WInv (w_names w) -> ~ In n (w_names w) -> T4 n ->
    (n = "H2" -> In "H1" (w_names w)) ->
    exists w', try_create t n w = Some w' /\ WInv (w_names w') /\ (forall x, In x (w_names w) -> In x (w_names w')).
  Proof.
    intros t n w Hi Hni Ht Hh. destruct t; cbn [try_create].
    - exists w. auto.
    - destruct (cr_spec n w Hni) as [w1 [E1 N1]]. rewrite E1. cbn [bind].
      destruct (rm_spec n w1) as [w2 [E2 N2]]; [rewrite N1; apply in_or_app; right; cbn; auto|].
      exists w2. split; auto. rewrite N2, N1, remove_first_app_last; auto.
    - destruct (cr_spec n w Hni) as [w1 [E1 N1]]. exists w1. split; auto. rewrite N1. split.
      + apply WInv_add; auto.
      + intros x Hx. apply in_or_app. auto.
  Qed.

  Definition PInvW (s : pst) : Prop :=
    WInv (names s) /\ (fixed s = true -> In "H1" (names s) /\ In "H2" (names s)).

  Lemma finW : forall s w, WInv (w_names w) -> (forall x, In x (names s) -> In x (w_names w)) -> PInvW s ->
    exists s' o, fin s (fixed s) (hl s) (al s) (Some w) = Next s' o /\ PInvW s'.
  Proof.
    intros s w Hi Hsub [_ Hf]. eexists. eexists. split; [reflexivity|]. split; cbn [names fixed]; auto.
    intros F. destruct (Hf F). split; auto.
  Qed.

  (* finalize *)
  Lemma wat_finalize_unfold : forall f fx w, wat_finalize (S f) fx w =
      if fx then Some (w, fx)
      else if has "H2" w then Some (w, fx)
      else
        let addname := if has "H1" w then "H2" else "H1" in
        let isH1 := negb (has "H1" w) in
        match wat_bonds w with
        | 0 => cr addname w >>= wat_finalize f fx
        | 1 => cr addname w >>= fun w1 =>
                 (if isH1 then wat_finalize f fx w1 else Some (w1, fx)) >>= fun r => Some (fst r, true)
        | 2 => cr addname w >>= fun w1 => if isH1 then wat_finalize f fx w1 else Some (w1, fx)
        | 3 => cr addname w >>= fun w1 => Some (w1, fx)
        | _ => Some (w, fx)
        end.
  Proof. reflexivity. Qed.

  Lemma wat_fin_H2 : forall f w, has "H1" w = true -> has "H2" w = false ->
    exists w1 fx, wat_finalize (S f) false w = Some (w1, fx) /\ w_names w1 = (w_names w ++ ["H2"])%list.
  Proof.
    intros f w E1 E2. destruct (cr_spec "H2" w) as [w1 [C1 N1]]; [apply has_false; auto|].
    rewrite wat_finalize_unfold. rewrite E2, E1. cbn [negb].
    unfold wat_bonds, count_present. cbn [filter]. rewrite E1, E2.
    destruct (has "LP1" w), (has "LP2" w); cbn [List.length]; cbv zeta; rewrite C1; cbn [bind fst snd];
      eexists; eexists; (split; [reflexivity|exact N1]).
  Qed.

  Lemma wat_fin_H1 : forall f w, has "H1" w = false -> has "H2" w = false ->
    exists w2 fx, wat_finalize (S (S f)) false w = Some (w2, fx) /\ w_names w2 = ((w_names w ++ ["H1"]) ++ ["H2"])%list.
  Proof.
    intros f w E1 E2. destruct (cr_spec "H1" w) as [w1 [C1 N1]]; [apply has_false; auto|].
    assert (H1' : has "H1" w1 = true) by (apply has_In; rewrite N1; apply in_or_app; right; cbn; auto).
    assert (H2' : has "H2" w1 = false).
    { apply has_false. rewrite N1. intros H. apply in_app_or in H. destruct H as [H|[H|[]]]; [|discriminate].
      apply has_false in E2. auto. }
    destruct (wat_fin_H2 f w1 H1' H2') as [w2 [fx [F2 N2]]].
    rewrite wat_finalize_unfold. rewrite E2, E1. cbn [negb].
    unfold wat_bonds, count_present. cbn [filter]. rewrite E1, E2.
    destruct (has "LP1" w), (has "LP2" w); cbn [List.length]; cbv zeta; rewrite C1; cbn [bind];
      rewrite F2; cbn [bind fst snd];
      eexists; eexists; (split; [reflexivity|rewrite N2, N1; reflexivity]).
  Qed.

  Lemma wat_finalize_spec : forall w fx, WInv (w_names w) -> (fx = true -> In "H1" (w_names w) /\ In "H2" (w_names w)) ->
    exists w' fx', wat_finalize 4 fx w = Some (w', fx') /\ WInv (w_names w') /\
                   In "H1" (w_names w') /\ In "H2" (w_names w') /\ (forall x, In x (w_names w) -> In x (w_names w')).
  Proof.
    intros w fx Hi Hf. destruct fx.
    - destruct (Hf eq_refl). exists w, true. split; [reflexivity|]. auto 6.
    - destruct (has "H2" w) eqn:E2.
      + exists w, false. change 4 with (S 3). rewrite wat_finalize_unfold. rewrite E2. apply has_In in E2.
        destruct Hi as [? [? [? H21]]]. repeat split; auto.
      + destruct (has "H1" w) eqn:E1.
        * destruct (wat_fin_H2 3 w E1 E2) as [w1 [fx [F N]]]. exists w1, fx. split; auto. rewrite N.
          apply has_In in E1. apply has_false in E2.
          split; [apply WInv_add; auto; right; left; auto|].
          split; [apply in_or_app; auto|]. split; [apply in_or_app; right; cbn; auto|].
          intros x Hx. apply in_or_app. auto.
        * destruct (wat_fin_H1 2 w E1 E2) as [w2 [fx [F N]]]. exists w2, fx. split; auto. rewrite N.
          apply has_false in E1. apply has_false in E2.
          assert (WInv (w_names w ++ ["H1"])%list) as I1.
          { apply WInv_add; auto. left; auto. intros; discriminate. }
          split.
          { apply WInv_add; auto.
            - intros H. apply in_app_or in H. destruct H as [H|[H|[]]]; [auto|discriminate].
            - right; left; auto.
            - intros _. apply in_or_app. right. cbn. auto. }
          split; [apply in_or_app; left; apply in_or_app; right; cbn; auto|].
          split; [apply in_or_app; right; cbn; auto|].
          intros x Hx. apply in_or_app. left. apply in_or_app. auto.
  Qed.

  Lemma wat_step_inv : forall s l, PInvW s -> exists s' o, wat_step s l = Next s' o /\ PInvW s'.
  Proof.
    intros s l Hp. pose proof Hp as [Hi Hf]. destruct l as [t|t|]; cbn [wat_step].
    - unfold wat_try_donor, wat_hname. destruct (has "H2" (start s)) eqn:E2; [apply finW; auto|].
      destruct (has "H1" (start s)) eqn:E1.
      + destruct (le3 _); [|apply finW; auto].
        destruct (try_create_invW t "H2" (start s)) as [w' [E' [I' S']]]; auto.
        { apply has_false; auto. } { right; left; auto. } { intros _. apply has_In in E1. auto. }
        rewrite E'. apply finW; auto.
      + destruct (le3 _); [|apply finW; auto].
        destruct (try_create_invW t "H1" (start s)) as [w' [E' [I' S']]]; auto.
        { apply has_false; auto. } { left; auto. } { intros; discriminate. }
        rewrite E'. apply finW; auto.
    - unfold wat_try_acceptor, lp_name. destruct (has "LP2" (start s)) eqn:E2; [apply finW; auto|].
      destruct (has "LP1" (start s)) eqn:E1.
      + destruct (le3 _); [|apply finW; auto].
        destruct (try_create_invW t "LP2" (start s)) as [w' [E' [I' S']]]; auto.
        { apply has_false; auto. } { right; right; right; auto. } { intros; discriminate. }
        rewrite E'. apply finW; auto.
      + destruct (le3 _); [|apply finW; auto].
        destruct (try_create_invW t "LP1" (start s)) as [w' [E' [I' S']]]; auto.
        { apply has_false; auto. } { right; right; left; auto. } { intros; discriminate. }
        rewrite E'. apply finW; auto.
    - destruct (wat_finalize_spec (start s) (fixed s)) as [w' [fx' [E' [I' [H1 [H2 S']]]]]]; auto.
      rewrite E'. cbn [fin2]. eexists. eexists. split; [reflexivity|]. split; cbn [names fixed]; auto.
  Qed.

  Lemma wat_run_inv : forall ls s, PInvW s -> exists s' o, run _ wat_step s ls = Next s' o /\ PInvW s'.
  Proof.
    induction ls as [|l ls IH]; intros s Hs; cbn [run].
    - eexists. eexists. split; [reflexivity|auto].
    - destruct (wat_step_inv s l Hs) as [s1 [o1 [E1 I1]]]. rewrite E1. apply IH. auto.
  Qed.

  Lemma isLP_placeholder' : forall x, isLP x = true -> placeholder x = true.
  Proof. intros x H. unfold placeholder. rewrite H. destruct (isF x); reflexivity. Qed.

  Lemma wat_complete_ok : forall s, PInvW s ->
    exists s' o, wat_complete s tt = Next s' o /\ final_ok (wat_expected base) (names s').
  Proof.
    intros s [Hi Hf]. destruct wf_wat_parts as [Hn [Hp H21]].
    unfold wat_complete.
    destruct (wat_finalize_spec (start s) (fixed s)) as [w1 [fx1 [E1 [I1 [HH1 [HH2 S1]]]]]]; auto.
    rewrite E1. cbn [bind fst snd]. destruct I1 as [Nd1 [Hb1 [Hs1 _]]].
    destruct (rm_pred_spec isLP (w_names w1) w1) as [w2 [E2 [Nd2 S2]]]; auto.
    unfold remove_lps. unfold rm_pred in E2. rewrite E2. cbn [bind fin2].
    eexists. eexists. split; [reflexivity|]. cbn [names].
    assert (HLP1 : isLP "LP1" = true) by reflexivity. assert (HLP2 : isLP "LP2" = true) by reflexivity.
    assert (HnH1 : isLP "H1" = false) by reflexivity. assert (HnH2 : isLP "H2" = false) by reflexivity.
    assert (Hexp : forall x, In x (wat_expected base) <-> In x base \/ x = "H1" \/ x = "H2").
    { intros x. unfold wat_expected. rewrite !in_app_iff. split.
      - intros [H|[H|H]]; auto.
        + destruct (mem "H1" base); cbn in H; [tauto|]. destruct H as [<-|[]]; auto.
        + destruct (mem "H2" base); cbn in H; [tauto|]. destruct H as [<-|[]]; auto.
      - intros [H|[->| ->]]; auto.
        + destruct (mem "H1" base) eqn:E; [left; apply mem_In; auto|right; left; cbn; auto].
        + destruct (mem "H2" base) eqn:E; [left; apply mem_In; auto|right; right; cbn; auto]. }
    split; [auto|]. split.
    - intros x. rewrite S2, Hexp. split.
      + intros [Hx Hnp]. destruct (Hs1 x Hx) as [Hb|[->|[->|[->| ->]]]]; auto; exfalso; apply Hnp; auto.
      + intros [Hx|[->| ->]].
        * split; auto. intros [Hl _]. apply isLP_placeholder' in Hl. rewrite Hp in Hl; auto. discriminate.
        * split; auto. intros [Hl _]. congruence.
        * split; auto. intros [Hl _]. congruence.
    - intros x Hx. apply S2 in Hx. destruct Hx as [Hx Hnp].
      destruct (Hs1 x Hx) as [Hb|[->|[->|[->| ->]]]]; auto; exfalso; apply Hnp; auto.
  Qed.

  Theorem wat_names_param : proto_ok _ _ wat_step wat_complete (wat_expected base) (wat_start base).
  Proof.
    destruct wf_wat_parts as [Hn [Hp H21]].
    unfold wat_start. cbn [proto_ok]. intros ls.
    assert (I0 : PInvW (mkP base false [] [])).
    { split; cbn [names fixed]; [|discriminate]. unfold WInv. split; [auto|]. split; [auto|]. split; [auto|exact H21]. }
    destruct (wat_run_inv ls _ I0) as [s [o [E I]]]. rewrite E. intros [].
    destruct (wat_complete_ok s I) as [s' [o' [E' F']]]. rewrite E'. exact F'.
  Qed.
End WatParam.

(* ---- Flip: string facts and the three loops ------------------------------- *)

Lemma isF_app : forall m, isF (m ++ FLIPs) = true.
Proof.
  intros m. unfold isF, ends_with, slen. rewrite length_app. cbn [String.length FLIPs].
  replace (String.length m + 4 - 4) with (String.length m) by lia.
  rewrite drop_app_exact. rewrite String.eqb_refl. rewrite andb_true_r. apply Nat.leb_le. lia.
Qed.

Lemma unF_app : forall m, unF (m ++ FLIPs) = m.
Proof.
  intros m. unfold unF, chop, slen. rewrite length_app. cbn [String.length FLIPs].
  replace (String.length m + 4 - 4) with (String.length m) by lia. apply take_app_exact.
Qed.

Definition fix1 (todo : nl) (w : W) : option W :=
  fold_left (fun acc a => acc >>= fun w' =>
     if isF a then (if has (unF a) w' then rm (unF a) w' else Some w') else Some w') todo (Some w).

Lemma fix1_spec : forall todo w, NoDup (w_names w) ->
  exists w', fix1 todo w = Some w' /\ NoDup (w_names w') /\
    forall y, In y (w_names w') <-> In y (w_names w) /\ ~ (exists a, In a todo /\ isF a = true /\ unF a = y).
Proof.
  unfold fix1. induction todo as [|a r IH]; intros w Hn.
  - exists w. cbn. split; auto. split; auto. intros y. split; [intros H; split; auto; intros [a [[] _]]|tauto].
  - cbn [fold_left bind]. destruct (isF a) eqn:Ef.
    + destruct (has (unF a) w) eqn:Eh.
      * destruct (rm_spec (unF a) w) as [w1 [E1 N1]]; [apply has_In; auto|]. rewrite E1.
        destruct (IH w1) as [w' [E' [Nd' S']]]; [rewrite N1; apply NoDup_remove_first; auto|].
        exists w'. split; auto. split; auto. intros y. rewrite S', N1, In_remove_first by auto. split.
        -- intros [[Hy Hne] Hnp]. split; auto. intros [b [[<-|Hb] [Hfb Hub]]]; [congruence|].
           apply Hnp. exists b. auto.
        -- intros [Hy Hnp]. split; [split; auto|].
           ++ intros ->. apply Hnp. exists a. cbn. auto.
           ++ intros [b [Hb [Hfb Hub]]]. apply Hnp. exists b. cbn. auto.
      * destruct (IH w) as [w' [E' [Nd' S']]]; auto.
        exists w'. split; auto. split; auto. intros y. rewrite S'. apply has_false in Eh. split.
        -- intros [Hy Hnp]. split; auto. intros [b [[<-|Hb] [Hfb Hub]]]; [congruence|].
           apply Hnp. exists b. auto.
        -- intros [Hy Hnp]. split; auto. intros [b [Hb [Hfb Hub]]]. apply Hnp. exists b. cbn. auto.
    + destruct (IH w) as [w' [E' [Nd' S']]]; auto.
      exists w'. split; auto. split; auto. intros y. rewrite S'. split.
      -- intros [Hy Hnp]. split; auto. intros [b [[<-|Hb] [Hfb Hub]]]; [congruence|].
         apply Hnp. exists b. auto.
      -- intros [Hy Hnp]. split; auto. intros [b [Hb [Hfb Hub]]]. apply Hnp. exists b. cbn. auto.
Qed.

Definition fbody (todo : nl) (w : W) : option W :=
  fold_left (fun acc a => acc >>= fun w' =>
     if isF a then rm (unF a) w' >>= rn a (unF a) else Some w') todo (Some w).

Definition unF_inj (todo : nl) : Prop :=
  forall a b, In a todo -> In b todo -> isF a = true -> isF b = true -> unF a = unF b -> a = b.

Lemma fbody_spec : forall todo w, NoDup (w_names w) -> NoDup todo -> unF_inj todo ->
  (forall a, In a todo -> isF a = true -> In a (w_names w) /\ In (unF a) (w_names w) /\ isF (unF a) = false) ->
  exists w', fbody todo w = Some w' /\ NoDup (w_names w') /\
    forall y, In y (w_names w') <-> In y (w_names w) /\ ~ (isF y = true /\ In y todo).
Proof.
  unfold fbody. induction todo as [|a r IH]; intros w Hn Hnt Hinj Hpre.
  - exists w. cbn. split; auto. split; auto. intros y. tauto.
  - inversion Hnt as [|? ? Ha Hr]; subst. cbn [fold_left bind].
    assert (Hinj' : unF_inj r) by (intros x y Hx Hy; apply Hinj; cbn; auto).
    destruct (isF a) eqn:Ef.
    + destruct (Hpre a) as [Ha1 [Ha2 Ha3]]; cbn; auto.
      assert (Hne : a <> unF a) by (intros E; rewrite <- E in Ha3; congruence).
      destruct (rm_spec (unF a) w Ha2) as [w1 [E1 N1]]. rewrite E1. cbn [bind].
      assert (Hn1 : NoDup (w_names w1)) by (rewrite N1; apply NoDup_remove_first; auto).
      destruct (rn_spec a (unF a) w1) as [w2 [E2 N2]].
      { rewrite N1. apply In_remove_first; auto. }
      { rewrite N1. rewrite In_remove_first by auto. tauto. }
      rewrite E2.
      assert (Hn2 : NoDup (w_names w2)).
      { rewrite N2. apply NoDup_replace_first; auto. rewrite N1. rewrite In_remove_first by auto. tauto. }
      assert (Hin1 : In a (w_names w1)) by (rewrite N1; apply In_remove_first; auto).
      assert (S2 : forall y, In y (w_names w2) <-> In y (w_names w) /\ y <> a).
      { intros y. rewrite N2, In_replace_first by auto. rewrite N1, In_remove_first by auto. split.
        - intros [[[Hy H1] H2]| ->]; auto.
        - intros [Hy Hya]. destruct (string_dec y (unF a)) as [->|Hd]; auto. }
      destruct (IH w2) as [w' [E' [Nd' S']]]; auto.
      * intros b Hb Hfb. destruct (Hpre b) as [Hb1 [Hb2 Hb3]]; cbn; auto.
        split; [|split; auto].
        -- apply S2. split; auto. intros ->. contradiction.
        -- apply S2. split; auto. intros E. rewrite E in Hb3. congruence.
      * exists w'. split; auto. split; auto. intros y. rewrite S', S2. cbn. split.
        -- intros [[Hy Hne'] Hnp]. split; auto. intros [Hfy [<-|Hyr]]; [congruence|tauto].
        -- intros [Hy Hnp]. split; [split; auto|].
           ++ intros ->. apply Hnp. auto.
           ++ intros [Hfy Hyr]. apply Hnp. auto.
    + destruct (IH w) as [w' [E' [Nd' S']]]; auto.
      * intros b Hb Hfb. apply Hpre; cbn; auto.
      * exists w'. split; auto. split; auto. intros y. rewrite S'. cbn. split.
        -- intros [Hy Hnp]. split; auto. intros [Hfy [<-|Hyr]]; [congruence|tauto].
        -- intros [Hy Hnp]. split; auto. intros [Hfy Hyr]. apply Hnp. auto.
Qed.

Definition rrest (todo : nl) (w : W) : option W :=
  fold_left (fun acc a => acc >>= fun w' => if isF a then rn a (unF a) w' else Some w') todo (Some w).

Lemma rrest_spec : forall todo w, NoDup (w_names w) -> NoDup todo -> unF_inj todo ->
  (forall a, In a todo -> isF a = true -> In a (w_names w) /\ ~ In (unF a) (w_names w) /\ isF (unF a) = false) ->
  exists w', rrest todo w = Some w' /\ NoDup (w_names w') /\
    forall y, In y (w_names w') <-> (In y (w_names w) /\ ~ (isF y = true /\ In y todo)) \/
                                    (exists a, In a todo /\ isF a = true /\ y = unF a).
Proof.
  unfold rrest. induction todo as [|a r IH]; intros w Hn Hnt Hinj Hpre.
  - exists w. cbn. split; auto. split; auto. intros y. split; [tauto|]. intros [H|[a [[] _]]]. tauto.
  - inversion Hnt as [|? ? Ha Hr]; subst. cbn [fold_left bind].
    assert (Hinj' : unF_inj r) by (intros x y Hx Hy; apply Hinj; cbn; auto).
    destruct (isF a) eqn:Ef.
    + destruct (Hpre a) as [Ha1 [Ha2 Ha3]]; cbn; auto.
      destruct (rn_spec a (unF a) w Ha1 Ha2) as [w2 [E2 N2]]. rewrite E2.
      assert (Hn2 : NoDup (w_names w2)) by (rewrite N2; apply NoDup_replace_first; auto).
      assert (S2 : forall y, In y (w_names w2) <-> (In y (w_names w) /\ y <> a) \/ y = unF a).
      { intros y. rewrite N2. apply In_replace_first; auto. }
      destruct (IH w2) as [w' [E' [Nd' S']]]; auto.
      * intros b Hb Hfb. destruct (Hpre b) as [Hb1 [Hb2 Hb3]]; cbn; auto.
        split; [|split; auto].
        -- apply S2. left. split; auto. intros ->. contradiction.
        -- rewrite S2. intros [[H1 H2]|H3]; [tauto|].
           assert (b = a) by (apply Hinj; cbn; auto). subst. contradiction.
      * exists w'. split; auto. split; auto. intros y. rewrite S', S2. cbn. split.
        -- intros [[[[Hy Hne]| ->] Hnp]|[b [Hb [Hfb ->]]]].
           ++ left. split; auto. intros [Hfy [<-|Hyr]]; [congruence|tauto].
           ++ right. exists a. auto.
           ++ right. exists b. auto.
        -- intros [[Hy Hnp]|[b [[<-|Hb] [Hfb ->]]]].
           ++ left. split.
              ** left. split; auto. intros ->. apply Hnp. auto.
              ** intros [Hfy Hyr]. apply Hnp. auto.
           ++ left. split; [right; auto|]. intros [Hfy _]. congruence.
           ++ right. exists b. auto.
    + destruct (IH w) as [w' [E' [Nd' S']]]; auto.
      * intros b Hb Hfb. apply Hpre; cbn; auto.
      * exists w'. split; auto. split; auto. intros y. rewrite S'. cbn. split.
        -- intros [[Hy Hnp]|[b [Hb [Hfb ->]]]].
           ++ left. split; auto. intros [Hfy [<-|Hyr]]; [congruence|tauto].
           ++ right. exists b. auto.
        -- intros [[Hy Hnp]|[b [[<-|Hb] [Hfb ->]]]].
           ++ left. split; auto. intros [Hfy Hyr]. apply Hnp. auto.
           ++ congruence.
           ++ right. exists b. auto.
Qed.

(* ---- Flip, for arbitrary residues ------------------------------------------ *)


Section FlipParam.
  Variables (base mv : nl).
  Hypothesis Hwf : wf_flip base mv = true.

  Definition Fl (m : string) : string := (m ++ FLIPs)%string.

  Lemma wf_flip_parts : NoDup base /\ NoDup mv /\ (forall m, In m mv -> In m base) /\
                        (forall x, In x base -> placeholder x = false).
  Proof.
    pose proof Hwf as W. unfold wf_flip in W. apply andb_true_iff in W. destruct W as [W W4].
    apply andb_true_iff in W. destruct W as [W W3]. apply andb_true_iff in W. destruct W as [W1 W2].
    split; [apply nodupb_NoDup; auto|]. split; [apply nodupb_NoDup; auto|]. split.
    - intros m Hm. rewrite forallb_forall in W3. apply mem_In. auto.
    - intros x Hx. rewrite forallb_forall in W4. specialize (W4 x Hx). destruct (placeholder x); auto; discriminate.
  Qed.

  Lemma base_notF : forall x, In x base -> isF x = false.
  Proof.
    intros x Hx. destruct wf_flip_parts as [_ [_ [_ Hp]]]. specialize (Hp x Hx).
    unfold placeholder in Hp. destruct (isF x); auto.
  Qed.

  Lemma mv_notF : forall m, In m mv -> isF m = false.
  Proof. intros m Hm. apply base_notF. destruct wf_flip_parts as [_ [_ [H _]]]. auto. Qed.

  Lemma Fl_inj : forall a b, Fl a = Fl b -> a = b.
  Proof. intros a b H. apply (f_equal unF) in H. unfold Fl in H. rewrite !unF_app in H. auto. Qed.

  Definition Frame (l : nl) : Prop :=
    NoDup l /\ (forall x, In x l -> In x base \/ exists m, In m mv /\ x = Fl m) /\
    (forall b, In b base -> ~ In b mv -> In b l).
  Definition Both (l : nl) := forall m, In m mv -> In m l /\ In (Fl m) l.
  Definition Orig (l : nl) := forall m, In m mv -> In m l /\ ~ In (Fl m) l.
  Definition FlipO (l : nl) := forall m, In m mv -> ~ In m l /\ In (Fl m) l.
  Definition FInv (s : pst) : Prop :=
    Frame (names s) /\ ((fixed s = false /\ Both (names s)) \/
                        (fixed s = true /\ (Orig (names s) \/ FlipO (names s)))).

  Lemma F_char : forall l x, Frame l -> In x l -> (isF x = true <-> exists m, In m mv /\ x = Fl m).
  Proof.
    intros l x [_ [He _]] Hx. split.
    - intros Hf. destruct (He x Hx) as [Hb|Hm]; auto. apply base_notF in Hb. congruence.
    - intros [m [_ ->]]. apply isF_app.
  Qed.

  Lemma notF_base : forall l x, Frame l -> In x l -> isF x = false -> In x base.
  Proof.
    intros l x [_ [He _]] Hx Hf. destruct (He x Hx) as [Hb|[m [_ ->]]]; auto.
    unfold Fl in Hf. rewrite isF_app in Hf. discriminate.
  Qed.

  Lemma inj_l : forall l, Frame l -> unF_inj l.
  Proof.
    intros l Hfr a b Ha Hb Hfa Hfb E.
    apply (F_char l a Hfr Ha) in Hfa. apply (F_char l b Hfr Hb) in Hfb.
    destruct Hfa as [m [_ ->]]. destruct Hfb as [m' [_ ->]]. unfold Fl in E. rewrite !unF_app in E. subst. auto.
  Qed.

  Lemma init_spec : forall ms w, NoDup ms -> NoDup (w_names w) -> (forall m, In m ms -> ~ In (Fl m) (w_names w)) ->
    exists w', flip_init ms w = Some w' /\ w_names w' = (w_names w ++ map Fl ms)%list /\ NoDup (w_names w').
  Proof.
    unfold flip_init. induction ms as [|m r IH]; intros w Hnm Hn Hfresh.
    - exists w. cbn. rewrite app_nil_r. auto.
    - inversion Hnm as [|? ? Hm Hr]; subst. cbn [fold_left bind].
      destruct (cr_spec (m ++ FLIPs)%string w) as [w1 [E1 N1]]; [apply (Hfresh m); cbn; auto|]. rewrite E1.
      destruct (IH w1) as [w' [E' [N' Nd']]]; auto.
      + rewrite N1. apply NoDup_app_last; auto. apply (Hfresh m). cbn; auto.
      + intros m' Hm' Hin. rewrite N1 in Hin. apply in_app_or in Hin. destruct Hin as [Hin|[E|[]]].
        * apply (Hfresh m'); cbn; auto.
        * apply Fl_inj in E. subst. contradiction.
      + exists w'. split; auto. split; auto. rewrite N', N1. rewrite <- app_assoc. reflexivity.
  Qed.

  Lemma flip_start_inv : exists s0 o, flip_start base mv = Next s0 o /\ FInv s0.
  Proof.
    destruct wf_flip_parts as [Hnb [Hnm [Hsub Hp]]].
    destruct (init_spec mv (mkW base [])) as [w' [E' [N' Nd']]]; auto.
    { intros m Hm Hin. cbn in Hin. apply base_notF in Hin. unfold Fl in Hin. rewrite isF_app in Hin. discriminate. }
    unfold flip_start. rewrite E'. cbn [fin]. eexists. eexists. split; [reflexivity|].
    cbn [w_names] in N'. split; cbn [names fixed].
    - split; [auto|]. split.
      + intros x Hx. rewrite N' in Hx. apply in_app_or in Hx. destruct Hx as [Hx|Hx]; auto.
        apply in_map_iff in Hx. destruct Hx as [m [<- Hm]]. right. exists m. auto.
      + intros b Hb _. rewrite N'. apply in_or_app. auto.
    - left. split; auto. intros m Hm. rewrite N'. split; apply in_or_app; [left; auto|right; apply in_map; auto].
  Qed.

  (* the two ways a fixed residue is reached, from the set characterisation *)
  Lemma orig_from_nonF : forall l l', Frame l -> (forall m, In m mv -> In m l) -> NoDup l' ->
    (forall y, In y l' <-> In y l /\ isF y = false) -> Frame l' /\ Orig l'.
  Proof.
    intros l l' Hfr Hm Hn Hs. pose proof Hfr as [_ [He Hb]]. split.
    - split; auto. split.
      + intros x Hx. apply Hs in Hx. apply He. tauto.
      + intros b Hb1 Hb2. apply Hs. split; auto. apply base_notF; auto.
    - intros m Hmm. split.
      + apply Hs. split; auto. apply mv_notF; auto.
      + intros Hin. apply Hs in Hin. destruct Hin as [_ Hf]. unfold Fl in Hf. rewrite isF_app in Hf. discriminate.
  Qed.

  Lemma nonF_iff : forall (l : nl) y, (In y l /\ ~ (isF y = true /\ In y l)) <-> (In y l /\ isF y = false).
  Proof.
    intros l y. split.
    - intros [Hy Hn]. split; auto. destruct (isF y); auto. exfalso. auto.
    - intros [Hy Hf]. split; auto. intros [Ht _]. congruence.
  Qed.

  Lemma bn_in_mv : forall bn, mem bn (flip_cands mv) = true -> isF bn = false -> In bn mv.
  Proof.
    intros bn Hc Hf. apply mem_In in Hc. unfold flip_cands in Hc. apply in_app_or in Hc.
    destruct Hc as [H|H]; auto. apply in_map_iff in H. destruct H as [m [<- _]]. rewrite isF_app in Hf. discriminate.
  Qed.

  Lemma flip_step_inv : forall s l, FInv s ->
    flip_step mv s l = Disabled \/ exists s' o, flip_step mv s l = Next s' o /\ FInv s'.
  Proof.
    intros s l [Hfr Hmode]. pose proof Hfr as [Hnd [He Hbm]].
    assert (Hs : w_names (start s) = names s) by reflexivity.
    destruct l as [bn|]; unfold flip_step.
    - destruct (mem bn (flip_cands mv)) eqn:Ec; [|left; reflexivity].
      destruct (mem bn (names s)) eqn:El; [|left; reflexivity]. cbn [negb orb]. right.
      apply mem_In in El. destruct (isF bn) eqn:Eb.
      + (* a FLIP copy made the bond: the originals go *)
        change (fix_flip true (start s)) with (fix1 (names s) (start s)).
        destruct (fix1_spec (names s) (start s)) as [w' [E' [Nd' S']]]; auto. rewrite E'. cbn [fin].
        eexists. eexists. split; [reflexivity|]. cbn [w_names] in S'.
        assert (HFl : forall m, In m mv -> In (Fl m) (names s) -> In (Fl m) (w_names w')).
        { intros m Hm Hin. apply S'. split; auto. intros [a [Ha [Hfa Hua]]].
          apply (F_char _ a Hfr Ha) in Hfa. destruct Hfa as [m2 [Hm2 ->]]. unfold Fl in Hua at 1. rewrite unF_app in Hua.
          apply mv_notF in Hm2. rewrite Hua in Hm2. unfold Fl in Hm2. rewrite isF_app in Hm2. discriminate. }
        assert (Hgone : forall m, In m mv -> In (Fl m) (names s) -> ~ In m (w_names w')).
        { intros m Hm Hin Hin'. apply S' in Hin'. destruct Hin' as [_ Hn]. apply Hn. exists (Fl m).
          split; auto. split; [apply isF_app|apply unF_app]. }
        split; cbn [names fixed].
        * split; auto. split.
          -- intros x Hx. apply S' in Hx. apply He. tauto.
          -- intros b Hb1 Hb2. apply S'. split; auto. intros [a [Ha [Hfa Hua]]].
             apply (F_char _ a Hfr Ha) in Hfa. destruct Hfa as [m2 [Hm2 ->]]. unfold Fl in Hua. rewrite unF_app in Hua. subst. contradiction.
        * right. split; auto. right. intros m Hm.
          destruct Hmode as [[_ HB]|[_ [HO|HF]]].
          -- destruct (HB m Hm) as [H1 H2]. split; [apply Hgone; auto|apply HFl; auto].
          -- exfalso. apply (F_char _ bn Hfr El) in Eb. destruct Eb as [m2 [Hm2 ->]]. destruct (HO m2 Hm2). contradiction.
          -- destruct (HF m Hm) as [H1 H2]. split; [intros Hin; apply S' in Hin; tauto|apply HFl; auto].
      + (* an original atom made the bond: the FLIP copies go *)
        change (fix_flip false (start s)) with (rm_pred isF (names s) (start s)).
        destruct (rm_pred_spec isF (names s) (start s)) as [w' [E' [Nd' S']]]; auto. rewrite E'. cbn [fin].
        eexists. eexists. split; [reflexivity|]. cbn [w_names] in S'.
        assert (Hall : forall m, In m mv -> In m (names s)).
        { intros m Hm. destruct Hmode as [[_ HB]|[_ [HO|HF]]].
          - apply HB; auto. - apply HO; auto.
          - exfalso. apply bn_in_mv in Ec; auto. destruct (HF bn Ec). contradiction. }
        destruct (orig_from_nonF (names s) (w_names w') Hfr Hall Nd') as [Hfr' HO'].
        { intros y. rewrite S'. apply nonF_iff. }
        split; cbn [names fixed]; auto.
    - right. destruct (fixed s) eqn:Ef.
      + eexists. eexists. split; [reflexivity|]. split; auto. rewrite Ef. exact Hmode.
      + destruct Hmode as [[_ HB]|[Hc _]]; [|congruence].
        change (flip_finalize_body (start s)) with (fbody (names s) (start s)).
        destruct (fbody_spec (names s) (start s)) as [w' [E' [Nd' S']]]; auto.
        { apply inj_l; auto. }
        { intros a Ha Hfa. apply (F_char _ a Hfr Ha) in Hfa. destruct Hfa as [m [Hm ->]].
          unfold Fl at 2 3. rewrite unF_app. destruct (HB m Hm). split; auto. split; auto. apply mv_notF; auto. }
        rewrite E'. cbn [fin]. eexists. eexists. split; [reflexivity|]. cbn [w_names] in S'.
        destruct (orig_from_nonF (names s) (w_names w') Hfr (fun m Hm => proj1 (HB m Hm)) Nd') as [Hfr' HO'].
        { intros y. rewrite S'. apply nonF_iff. }
        split; cbn [names fixed]; auto.
  Qed.

  Lemma flip_run_inv : forall ls s, FInv s ->
    match run _ (flip_step mv) s ls with
    | Next s' _ => FInv s'
    | Disabled => True
    | Error => False
    end.
  Proof.
    induction ls as [|l ls IH]; intros s Hs; cbn [run]; auto.
    destruct (flip_step_inv s l Hs) as [E|[s1 [o1 [E I1]]]]; rewrite E; auto. apply IH. auto.
  Qed.

  Lemma final_from_nonF : forall l l', Frame l -> (forall m, In m mv -> In m l) -> NoDup l' ->
    (forall y, In y l' <-> In y l /\ isF y = false) -> final_ok base l'.
  Proof.
    intros l l' Hfr Hm Hn Hs. pose proof Hfr as [_ [He Hb]]. destruct wf_flip_parts as [_ [_ [Hsub Hp]]].
    split; auto. split.
    - intros y. rewrite Hs. split.
      + intros [Hy Hf]. eapply notF_base; eauto.
      + intros Hy. split; [|apply base_notF; auto].
        destruct (in_dec string_dec y mv); auto.
    - intros y Hy. apply Hs in Hy. apply Hp. destruct Hy. eapply notF_base; eauto.
  Qed.

  Lemma rrest_noF : forall l w, w_names w = l -> NoDup l -> (forall a, In a l -> isF a = false) ->
    exists w', flip_rename_rest w = Some w' /\ NoDup (w_names w') /\ forall y, In y (w_names w') <-> In y l.
  Proof.
    intros l w Hw Hn Hno. subst l. change (flip_rename_rest w) with (rrest (w_names w) w).
    destruct (rrest_spec (w_names w) w) as [w' [E' [Nd' S']]]; auto.
    - intros a b Ha _ Hfa. rewrite Hno in Hfa; auto. discriminate.
    - intros a Ha Hfa. rewrite Hno in Hfa; auto. discriminate.
    - exists w'. split; auto. split; auto. intros y. rewrite S'. split.
      + intros [[Hy _]|[a [Ha [Hfa _]]]]; auto. rewrite Hno in Hfa; auto. discriminate.
      + intros Hy. left. split; auto. intros [Hf _]. rewrite Hno in Hf; auto. discriminate.
  Qed.

  Lemma flip_complete_ok : forall s, FInv s ->
    exists s' o, flip_complete s tt = Next s' o /\ final_ok base (names s').
  Proof.
    intros s [Hfr Hmode]. pose proof Hfr as [Hnd [He Hbm]]. destruct wf_flip_parts as [_ [_ [Hsub Hp]]].
    unfold flip_complete. destruct Hmode as [[Ef HB]|[Ef [HO|HF]]]; rewrite Ef.
    - change (flip_finalize_body (start s)) with (fbody (names s) (start s)).
      destruct (fbody_spec (names s) (start s)) as [w1 [E1 [Nd1 S1]]]; auto.
      { apply inj_l; auto. }
      { intros a Ha Hfa. apply (F_char _ a Hfr Ha) in Hfa. destruct Hfa as [m [Hm ->]].
        unfold Fl at 2 3. rewrite unF_app. destruct (HB m Hm). split; auto. split; auto. apply mv_notF; auto. }
      rewrite E1. cbn [bind]. cbn [w_names] in S1.
      destruct (rrest_noF (w_names w1) (mkW (w_names w1) (w_log w1))) as [w2 [E2 [Nd2 S2]]]; auto.
      { intros a Ha. apply S1 in Ha. destruct Ha as [Ha Hn]. destruct (isF a); auto. exfalso. auto. }
      rewrite E2. cbn [fin]. eexists. eexists. split; [reflexivity|]. cbn [names].
      apply (final_from_nonF (names s)); auto.
      { intros m Hm. apply HB; auto. }
      intros y. rewrite S2, S1. apply nonF_iff.
    - cbn [bind].
      assert (HnoF : forall a, In a (names s) -> isF a = false).
      { intros a Ha. destruct (isF a) eqn:E; auto. apply (F_char _ a Hfr Ha) in E. destruct E as [m [Hm ->]].
        destruct (HO m Hm). contradiction. }
      destruct (rrest_noF (names s) (mkW (w_names (start s)) (w_log (start s)))) as [w2 [E2 [Nd2 S2]]]; auto.
      rewrite E2. cbn [fin]. eexists. eexists. split; [reflexivity|]. cbn [names].
      apply (final_from_nonF (names s)); auto.
      { intros m Hm. apply HO; auto. }
      intros y. rewrite S2. split; [intros Hy; split; auto|tauto].
    - cbn [bind].
      change (flip_rename_rest (mkW (w_names (start s)) (w_log (start s)))) with (rrest (names s) (mkW (names s) [])).
      destruct (rrest_spec (names s) (mkW (names s) [])) as [w2 [E2 [Nd2 S2]]]; auto.
      { apply inj_l; auto. }
      { intros a Ha Hfa. cbn [w_names]. apply (F_char _ a Hfr Ha) in Hfa. destruct Hfa as [m [Hm ->]].
        unfold Fl at 2 3. rewrite unF_app. destruct (HF m Hm). split; auto. split; auto. apply mv_notF; auto. }
      rewrite E2. cbn [fin]. eexists. eexists. split; [reflexivity|]. cbn [names]. cbn [w_names] in S2.
      split; auto. split.
      + intros y. rewrite S2. split.
        * intros [[Hy Hn]|[a [Ha [Hfa ->]]]].
          -- eapply notF_base; eauto. destruct (isF y); auto. exfalso. auto.
          -- apply (F_char _ a Hfr Ha) in Hfa. destruct Hfa as [m [Hm ->]]. unfold Fl. rewrite unF_app. auto.
        * intros Hy. destruct (in_dec string_dec y mv) as [Hm|Hm].
          -- right. exists (Fl y). destruct (HF y Hm). split; auto. split; [apply isF_app|symmetry; apply unF_app].
          -- left. split; auto. intros [Hf _]. rewrite base_notF in Hf; auto. discriminate.
      + intros y Hy. apply S2 in Hy. apply Hp. destruct Hy as [[Hy Hn]|[a [Ha [Hfa ->]]]].
        * eapply notF_base; eauto. destruct (isF y); auto. exfalso. auto.
        * apply (F_char _ a Hfr Ha) in Hfa. destruct Hfa as [m [Hm ->]]. unfold Fl. rewrite unF_app. auto.
  Qed.

  Theorem flip_names_param : proto_ok _ _ (flip_step mv) flip_complete base (flip_start base mv).
  Proof.
    destruct flip_start_inv as [s0 [o0 [E0 I0]]]. rewrite E0. cbn [proto_ok]. intros ls.
    pose proof (flip_run_inv ls s0 I0) as Hr. destruct (run _ (flip_step mv) s0 ls) as [s o| |]; auto.
    intros []. destruct (flip_complete_ok s Hr) as [s' [o' [E' F']]]. rewrite E'. exact F'.
  Qed.
End FlipParam.

(* ======================================================================
   Layer 2 (guarded name lists) = layer 1 (object list + dict) while the guards hold
   ====================================================================== *)

Definition WFres (s : NameProtocol.res) : Prop :=
  NoDup (map fst (r_atoms s)) /\
  (forall n i, r_map s n = Some i <-> In (i, n) (r_atoms s)) /\
  (forall i n, In (i, n) (r_atoms s) -> i < r_fresh s).

Lemma nodup_snd : forall (l : list (nat * string)), NoDup (map fst l) ->
  (forall i j n, In (i, n) l -> In (j, n) l -> i = j) -> NoDup (map snd l).
Proof.
  induction l as [|[i n] l IH]; cbn; intros Hn Hf; constructor.
  - intros Hin. apply in_map_iff in Hin. destruct Hin as [[j m] [E Hj]]. cbn in E. subst m.
    assert (i = j) by (apply (Hf i j n); auto). subst j.
    inversion Hn; subst. apply H1. apply in_map_iff. exists (i, n). auto.
  - inversion Hn; subst. apply IH; auto. intros a b m Ha Hb. apply (Hf a b m); auto.
Qed.

Lemma WFres_names_nodup : forall s, WFres s -> NoDup (res_names s).
Proof.
  intros s [Hn [Hm _]]. apply nodup_snd; auto. intros i j n Hi Hj.
  apply Hm in Hi. apply Hm in Hj. congruence.
Qed.

Lemma WFres_has : forall s n, WFres s -> (res_has n s = true <-> In n (res_names s)).
Proof.
  intros s n [_ [Hm _]]. unfold res_has, res_names. split.
  - destruct (r_map s n) as [i|] eqn:E; [|discriminate]. intros _. apply Hm in E.
    apply in_map_iff. exists (i, n). auto.
  - intros Hin. apply in_map_iff in Hin. destruct Hin as [[i m] [E Hi]]. cbn in E. subst m.
    apply Hm in Hi. rewrite Hi. reflexivity.
Qed.

Lemma WFres_empty : WFres res_empty.
Proof.
  split; [constructor|]. split.
  - intros n i. cbn. split; [discriminate|tauto].
  - intros i n [].
Qed.

Lemma NoDup_app_last_nat : forall (l : list nat) x, NoDup l -> ~ In x l -> NoDup (l ++ [x]).
Proof.
  intros l x Hn Hx. apply Permutation.Permutation_NoDup with (l := x :: l).
  - apply Permutation.Permutation_cons_append.
  - constructor; auto.
Qed.

Lemma create_ok : forall s n, WFres s -> ~ In n (res_names s) ->
  WFres (res_create n s) /\ res_names (res_create n s) = (res_names s ++ [n])%list.
Proof.
  intros s n [Hn [Hm Hf]] Hni. split; [|unfold res_names, res_create; cbn; rewrite map_app; reflexivity].
  split; [|split]; cbn [res_create r_atoms r_map r_fresh].
  - rewrite map_app. cbn. apply NoDup_app_last_nat; auto.
    intros Hin. apply in_map_iff in Hin. destruct Hin as [[i m] [E Hi]]. cbn in E. subst i.
    apply Hf in Hi. lia.
  - intros n' i. unfold upd. rewrite in_app_iff. cbn. destruct (String.eqb n' n) eqn:E.
    + apply String.eqb_eq in E. subst n'. split.
      * intros H. inversion H; subst. auto.
      * intros [Hi|[Hi|[]]]; [|inversion Hi; auto].
        exfalso. apply Hni. apply in_map_iff. exists (i, n). auto.
    + apply String.eqb_neq in E. rewrite Hm. split; auto.
      intros [Hi|[Hi|[]]]; auto. inversion Hi; subst. congruence.
  - intros i m Hi. apply in_app_or in Hi. destruct Hi as [Hi|[Hi|[]]].
    + apply Hf in Hi. lia.
    + inversion Hi; subst. lia.
Qed.

Lemma remove_id_spec : forall (l : list (nat * string)) i n, NoDup (map fst l) -> NoDup (map snd l) -> In (i, n) l ->
  map snd (remove_id i l) = remove_first n (map snd l) /\
  (forall j m, In (j, m) (remove_id i l) <-> In (j, m) l /\ j <> i) /\
  NoDup (map fst (remove_id i l)).
Proof.
  induction l as [|[j m] l IH]; cbn; intros i n Hnf Hns Hin; [tauto|].
  inversion Hnf as [|? ? Hj Hl]; subst. inversion Hns as [|? ? Hm Hl2]; subst.
  destruct (Nat.eqb j i) eqn:E.
  - apply Nat.eqb_eq in E. subst j.
    assert (m = n).
    { destruct Hin as [H|H]; [inversion H; auto|]. exfalso. apply Hj. apply in_map_iff. exists (i, n). auto. }
    subst m. rewrite String.eqb_refl. split; auto. split; auto.
    intros j m. split.
    + intros H. split; auto. intros ->. apply Hj. apply in_map_iff. exists (i, m). auto.
    + intros [[H|H] Hne]; auto. inversion H; subst. congruence.
  - apply Nat.eqb_neq in E. destruct Hin as [H|H]; [inversion H; subst; congruence|].
    assert (n <> m).
    { intros ->. apply Hm. apply in_map_iff. exists (i, m). auto. }
    destruct (String.eqb n m) eqn:E2; [apply String.eqb_eq in E2; congruence|].
    destruct (IH i n Hl Hl2 H) as [I1 [I2 I3]]. cbn. split; [rewrite I1; reflexivity|]. split.
    + intros j' m'. rewrite I2. split.
      * intros [Hh|[Hh Hne]]; auto. inversion Hh; subst. auto.
      * intros [[Hh|Hh] Hne]; auto.
    + constructor; auto. intros Hc. apply in_map_iff in Hc. destruct Hc as [[j' m'] [Ej Hj']]. cbn in Ej. subst j'.
      apply I2 in Hj'. destruct Hj' as [Hj' _]. apply Hj. apply in_map_iff. exists (j, m'). auto.
Qed.

Lemma nodup_fst_fun : forall (l : list (nat * string)) i a b, NoDup (map fst l) ->
  In (i, a) l -> In (i, b) l -> a = b.
Proof.
  induction l as [|[j m] l IH]; cbn; intros i a b Hn Ha Hb; [tauto|].
  inversion Hn as [|? ? Hj Hl]; subst.
  destruct Ha as [Ha|Ha]; destruct Hb as [Hb|Hb].
  - inversion Ha; inversion Hb; subst; auto.
  - inversion Ha; subst. exfalso. apply Hj. apply in_map_iff. exists (i, b). auto.
  - inversion Hb; subst. exfalso. apply Hj. apply in_map_iff. exists (i, a). auto.
  - eapply IH; eauto.
Qed.

Lemma remove_ok : forall s n, WFres s -> In n (res_names s) ->
  exists s', res_remove n s = Some s' /\ WFres s' /\ res_names s' = remove_first n (res_names s).
Proof.
  intros s n Hw Hin. pose proof (WFres_names_nodup s Hw) as Hnn. pose proof Hw as [Hn [Hm Hf]].
  unfold res_names in Hin. apply in_map_iff in Hin. destruct Hin as [[i m] [E Hi]]. cbn in E. subst m.
  pose proof Hi as Hi'. apply Hm in Hi'. unfold res_remove. rewrite Hi'.
  destruct (remove_id_spec (r_atoms s) i n Hn Hnn Hi) as [R1 [R2 R3]].
  eexists. split; [reflexivity|]. split; [|exact R1].
  split; [|split]; cbn [r_atoms r_map r_fresh]; auto.
  - intros n' j. unfold upd. rewrite R2. destruct (String.eqb n' n) eqn:E.
    + apply String.eqb_eq in E. subst n'. split; [discriminate|].
      intros [Hj Hne]. apply Hm in Hj. congruence.
    + apply String.eqb_neq in E. rewrite Hm. split; [|tauto].
      intros Hj. split; auto. intros ->. apply E. apply (nodup_fst_fun (r_atoms s) i n' n); auto.
  - intros j m Hj. apply R2 in Hj. apply (Hf j m). tauto.
Qed.

Lemma rename_ok : forall s o n, WFres s -> In o (res_names s) -> ~ In n (res_names s) ->
  exists s', res_rename o n s = Some s' /\ WFres s' /\ res_names s' = replace_first o n (res_names s).
Proof.
  intros s o n Hw Hin Hni. pose proof (WFres_names_nodup s Hw) as Hnn. pose proof Hw as [Hn [Hm Hf]].
  unfold res_names in Hin. apply in_map_iff in Hin. destruct Hin as [[i m] [E Hi]]. cbn in E. subst m.
  pose proof Hi as Hi'. apply Hm in Hi'. unfold res_rename. rewrite Hi'.
  eexists. split; [reflexivity|].
  set (f := fun a : nat * string => if Nat.eqb (fst a) i then (i, n) else a).
  assert (Hfst : map fst (map f (r_atoms s)) = map fst (r_atoms s)).
  { rewrite map_map. apply map_ext. intros [j m]. unfold f. cbn. destruct (Nat.eqb j i) eqn:E; auto.
    apply Nat.eqb_eq in E. subst. reflexivity. }
  assert (Hin' : forall j m, In (j, m) (map f (r_atoms s)) <-> (In (j, m) (r_atoms s) /\ j <> i) \/ (j = i /\ m = n)).
  { intros j m. rewrite in_map_iff. split.
    - intros [[j' m'] [E Hj]]. unfold f in E. cbn in E. destruct (Nat.eqb j' i) eqn:E2.
      + inversion E; subst. auto.
      + inversion E; subst. apply Nat.eqb_neq in E2. auto.
    - intros [[Hj Hne]|[-> ->]].
      + exists (j, m). split; auto. unfold f. cbn. apply Nat.eqb_neq in Hne. rewrite Hne. reflexivity.
      + exists (i, o). split; auto. unfold f. cbn. rewrite Nat.eqb_refl. reflexivity. }
  split.
  - split; [|split]; cbn [r_atoms r_map r_fresh].
    + rewrite Hfst. auto.
    + intros n' j. rewrite Hin'. unfold upd.
      assert (Hon : o <> n) by (intros ->; apply Hni; apply in_map_iff; exists (i, n); auto).
      destruct (String.eqb n' o) eqn:E1.
      * apply String.eqb_eq in E1. subst n'. split; [discriminate|].
        intros [[Hj Hne]|[_ Hc]]; [|congruence]. apply Hm in Hj. congruence.
      * apply String.eqb_neq in E1. destruct (String.eqb n' n) eqn:E2.
        -- apply String.eqb_eq in E2. subst n'. split.
           ++ intros Hs. inversion Hs; subst. auto.
           ++ intros [[Hj _]|[-> _]]; auto. exfalso. apply Hni. apply in_map_iff. exists (j, n). auto.
        -- apply String.eqb_neq in E2. rewrite Hm. split.
           ++ intros Hj. left. split; auto. intros ->. apply E1. apply (nodup_fst_fun (r_atoms s) i n' o); auto.
           ++ intros [[Hj _]|[_ Hc]]; [auto|congruence].
    + intros j m Hj. apply Hin' in Hj. destruct Hj as [[Hj _]|[-> _]]; eauto.
  - unfold res_names in *. cbn [r_atoms]. clear -Hn Hnn Hi. revert Hn Hnn Hi.
    induction (r_atoms s) as [|[j m] l IH]; cbn; intros Hn Hnn Hi; [tauto|].
    inversion Hn as [|? ? Hj Hl]; subst. inversion Hnn as [|? ? Hm Hl2]; subst.
    destruct (Nat.eqb j i) eqn:E.
    + apply Nat.eqb_eq in E. subst j.
      assert (Hmo : m = o).
      { destruct Hi as [Hx|Hx]; [inversion Hx; auto|]. exfalso. apply Hj. apply in_map_iff. exists (i, o). auto. }
      subst m. rewrite String.eqb_refl. unfold f at 1. cbn. rewrite Nat.eqb_refl. cbn. f_equal.
      (* the rest is unchanged: no other atom has id i *)
      clear -Hj. induction l as [|[j m] l IH]; cbn; auto. cbn in Hj.
      unfold f at 1. cbn. destruct (Nat.eqb j i) eqn:E; [apply Nat.eqb_eq in E; subst; tauto|].
      cbn. f_equal. apply IH. tauto.
    + apply Nat.eqb_neq in E. destruct Hi as [Hx|Hx]; [inversion Hx; subst; congruence|].
      assert (Hom : o <> m) by (intros ->; apply Hm; apply in_map_iff; exists (i, m); auto).
      destruct (String.eqb o m) eqn:E2; [apply String.eqb_eq in E2; congruence|].
      unfold f at 1. cbn. apply Nat.eqb_neq in E. rewrite E. cbn. f_equal. apply IH; auto.
Qed.

Lemma keyerror_ok : forall s n x, WFres s -> ~ In n (res_names s) ->
  res_remove n s = None /\ res_rename n x s = None.
Proof.
  intros s n x Hw Hni. pose proof Hw as [_ [Hm _]]. unfold res_remove, res_rename.
  destruct (r_map s n) as [i|] eqn:E; auto. exfalso. apply Hni. apply Hm in E.
  apply in_map_iff. exists (i, n). auto.
Qed.

(* operation sequences: as long as every guard of the name-list layer holds, the
   object-list + dict layer does not raise, its dict and list stay consistent (WFres:
   no duplicate objects, dict = exactly the (name, object) pairs of the list, hence no
   duplicate names and has_atom = membership), and both layers list the same names in
   the same order *)
Definition rop_of (o : op) : rop :=
  match o with Create n => RCreate n | Remove n => RRemove n | Rename a b => RRename a b end.

Fixpoint apply_ops (w : W) (l : list op) : option W :=
  match l with
  | [] => Some w
  | o :: r => match apply_op w o with Some w' => apply_ops w' r | None => None end
  end.

Theorem layers_agree : forall ops s w w', WFres s -> res_names s = w_names w ->
  apply_ops w ops = Some w' ->
  exists s', res_run s (map rop_of ops) = Some s' /\ WFres s' /\ res_names s' = w_names w' /\
             NoDup (w_names w') /\ (forall n, res_has n s' = mem n (w_names w')).
Proof.
  induction ops as [|o ops IH]; intros s w w' Hw Hn Ha; cbn in Ha.
  - inversion Ha; subst. exists s. cbn. split; auto. split; auto. split; auto. split.
    + rewrite <- Hn. apply WFres_names_nodup; auto.
    + intros n. rewrite <- Hn. destruct (mem n (res_names s)) eqn:E.
      * apply WFres_has; auto. apply mem_In; auto.
      * destruct (res_has n s) eqn:E2; auto. apply WFres_has in E2; auto. apply mem_In in E2. congruence.
  - destruct (apply_op w o) as [w1|] eqn:E1; [|discriminate].
    destruct o as [n|n|a b]; cbn [apply_op] in E1; cbn [map rop_of res_run].
    + unfold cr in E1. destruct (mem n (w_names w)) eqn:Em; [discriminate|]. inversion E1; subst w1. clear E1.
      assert (Hni : ~ In n (res_names s)) by (rewrite Hn; intros H; apply mem_In in H; congruence).
      destruct (create_ok s n Hw Hni) as [Hw1 Hn1]. eapply (IH _ _ _ Hw1); [|exact Ha]. cbn [w_names]. rewrite Hn1, Hn. reflexivity.
    + unfold rm in E1. destruct (mem n (w_names w)) eqn:Em; [|discriminate]. inversion E1; subst w1. clear E1.
      assert (Hin : In n (res_names s)) by (rewrite Hn; apply mem_In; auto).
      destruct (remove_ok s n Hw Hin) as [s1 [R1 [Hw1 Hn1]]]. rewrite R1. eapply (IH _ _ _ Hw1); [|exact Ha].
      cbn [w_names]. rewrite Hn1, Hn. reflexivity.
    + unfold rn in E1. destruct (mem a (w_names w)) eqn:Ea; [|discriminate].
      destruct (mem b (w_names w)) eqn:Eb; [discriminate|]. cbn in E1. inversion E1; subst w1. clear E1.
      assert (Hin : In a (res_names s)) by (rewrite Hn; apply mem_In; auto).
      assert (Hni : ~ In b (res_names s)) by (rewrite Hn; intros H; apply mem_In in H; congruence).
      destruct (rename_ok s a b Hw Hin Hni) as [s1 [R1 [Hw1 Hn1]]]. rewrite R1. eapply (IH _ _ _ Hw1); [|exact Ha].
      cbn [w_names]. rewrite Hn1, Hn. reflexivity.
Qed.

(* ---- the table theorems as corollaries of the parametric ones --------------- *)

Definition all_instances_wf (l : list instance) : bool := forallb inst_wf l.

Theorem flip_table_param : forall l i mv, all_instances_wf l = true -> In i l -> i_kind i = KFlip mv ->
  proto_ok _ _ (flip_step mv) flip_complete (i_expected i) (flip_start (i_base i) mv).
Proof.
  intros l i mv H Hi Hk. unfold all_instances_wf in H. rewrite forallb_forall in H. specialize (H i Hi).
  unfold inst_wf in H. rewrite Hk in H. apply andb_true_iff in H. destruct H as [Hw He].
  apply nl_eqb_eq in He. rewrite He. apply flip_names_param. exact Hw.
Qed.

Theorem alc_table_param : forall l i h, all_instances_wf l = true -> In i l -> i_kind i = KAlc h ->
  proto_ok _ _ (alc_step h) (alc_complete h) (i_expected i) (alc_start h (i_base i)).
Proof.
  intros l i h H Hi Hk. unfold all_instances_wf in H. rewrite forallb_forall in H. specialize (H i Hi).
  unfold inst_wf in H. rewrite Hk in H. apply andb_true_iff in H. destruct H as [Hw He].
  apply nl_eqb_eq in He. rewrite He. apply alc_names_param. exact Hw.
Qed.

Theorem wat_table_param : forall l i, all_instances_wf l = true -> In i l -> i_kind i = KWat ->
  proto_ok _ _ wat_step wat_complete (i_expected i) (wat_start (i_base i)).
Proof.
  intros l i H Hi Hk. unfold all_instances_wf in H. rewrite forallb_forall in H. specialize (H i Hi).
  unfold inst_wf in H. rewrite Hk in H. apply andb_true_iff in H. destruct H as [Hw He].
  apply nl_eqb_eq in He. rewrite He. apply wat_names_param. exact Hw.
Qed.

(* ======================================================================
   repair_heavy + add_hydrogens accounting (name level)
   ====================================================================== *)

Lemma remove_first_app_mid : forall a (k r : nl), ~ In a k -> remove_first a (k ++ a :: r) = (k ++ r)%list.
Proof.
  induction k as [|z k IH]; cbn; intros r H.
  - rewrite String.eqb_refl. reflexivity.
  - destruct (String.eqb a z) eqn:E; [apply String.eqb_eq in E; subst; tauto|]. f_equal. apply IH. tauto.
Qed.

Lemma mem_false_notin : forall x (l : nl), mem x l = false <-> ~ In x l.
Proof.
  intros. rewrite <- mem_In. destruct (mem x l); split; intros H; try discriminate; auto.
  exfalso. apply H. reflexivity.
Qed.

Lemma NoDup_app_intro : forall (a b : nl), NoDup a -> NoDup b -> (forall x, In x a -> In x b -> False) -> NoDup (a ++ b).
Proof.
  induction a as [|z a IH]; cbn; intros b Ha Hb Hd; auto.
  inversion Ha; subst. constructor.
  - intros Hc. apply in_app_or in Hc. destruct Hc; [contradiction|]. apply (Hd z); auto.
  - apply IH; auto. intros x Hx. apply Hd. auto.
Qed.

Section RepairProofs.
  Variable ref : nl.
  Let inref (a : string) : bool := mem a ref.
  Variables feasv hfeasv : string -> nl -> bool.
  Hypothesis feasv_true : forall a l, feasv a l = true.
  Hypothesis hfeasv_true : forall a l, hfeasv a l = true.

  Lemma keep_alias_false : forall a cur, mem "OP1" cur = false -> mem "OP2" cur = false -> keep_alias a cur = false.
  Proof. intros a cur H1 H2. unfold keep_alias. rewrite H1, H2. rewrite !andb_false_r. reflexivity. Qed.

  Lemma drop_extras_spec : forall todo kept log logged,
    NoDup (kept ++ todo) -> mem "OP1" (kept ++ todo) = false -> mem "OP2" (kept ++ todo) = false ->
    exists w', drop_extras ref todo (mkW (kept ++ todo) log) logged =
                 Some (w', (logged ++ filter (fun a => negb (inref a)) todo)%list) /\
               w_names w' = (kept ++ filter inref todo)%list.
  Proof.
    induction todo as [|a r IH]; intros kept log logged Hn H1 H2.
    - cbn. rewrite !app_nil_r. eexists. split; reflexivity.
    - cbn [drop_extras]. cbn [w_names]. rewrite keep_alias_false by auto. cbn [filter]. unfold inref at 1 3. fold (inref a).
      destruct (inref a) eqn:Ei; cbn [negb].
      + replace (kept ++ a :: r)%list with ((kept ++ [a]) ++ r)%list in * by (rewrite <- app_assoc; reflexivity).
        destruct (IH (kept ++ [a])%list log logged Hn H1 H2) as [w' [E' N']].
        exists w'. rewrite E'. split; auto. rewrite N'. rewrite <- app_assoc. reflexivity.
      + assert (Hni : ~ In a kept).
        { apply NoDup_remove_2 in Hn. intros Hc. apply Hn. apply in_or_app. auto. }
        unfold rm. cbn [w_names w_log].
        assert (Hm : mem a (kept ++ a :: r) = true) by (apply mem_In; apply in_or_app; right; cbn; auto).
        rewrite Hm. rewrite remove_first_app_mid by auto.
        assert (Hn' : NoDup (kept ++ r)) by (apply NoDup_remove_1 in Hn; auto).
        assert (H1' : mem "OP1" (kept ++ r) = false).
        { apply mem_false_notin. apply mem_false_notin in H1. intros Hc. apply H1.
          apply in_app_or in Hc. apply in_or_app. destruct Hc; auto. right. cbn. auto. }
        assert (H2' : mem "OP2" (kept ++ r) = false).
        { apply mem_false_notin. apply mem_false_notin in H2. intros Hc. apply H2.
          apply in_app_or in Hc. apply in_or_app. destruct Hc; auto. right. cbn. auto. }
        destruct (IH kept (log ++ [Remove a])%list (logged ++ [a])%list Hn' H1' H2') as [w' [E' N']].
        exists w'. rewrite E'. split; auto. rewrite <- app_assoc. reflexivity.
  Qed.

  Lemma rebuild_always : forall missing fuel n seen w logged,
    List.length missing < fuel -> NoDup (w_names w ++ missing) ->
    exists w', rebuild feasv fuel n missing seen w logged = RDone w' logged /\
               w_names w' = (w_names w ++ missing)%list.
  Proof.
    induction missing as [|a r IH]; intros fuel n seen w logged Hf Hn.
    - destruct fuel; [cbn in Hf; lia|]. cbn. rewrite app_nil_r. eexists. split; reflexivity.
    - destruct fuel; [cbn in Hf; lia|]. cbn [rebuild]. rewrite feasv_true.
      destruct (cr_spec a w) as [w1 [E1 N1]].
      { apply NoDup_remove_2 in Hn. intros Hc. apply Hn. apply in_or_app. auto. }
      rewrite E1. destruct (IH fuel n seen w1 logged) as [w' [E' N']].
      + cbn in Hf. lia.
      + rewrite N1. rewrite <- app_assoc. exact Hn.
      + exists w'. split; auto. rewrite N', N1. rewrite <- app_assoc. reflexivity.
  Qed.

  Lemma add_h_spec : forall ssb todo w, NoDup (w_names w) ->
    exists w', fold_left (fun acc r => acc >>= fun w' =>
        if is_hyd r && negb (has r w') && negb (ssb && String.eqb r "HG")
        then (if hfeasv r (w_names w') then cr r w' else Some w') else Some w') todo (Some w) = Some w' /\
      NoDup (w_names w') /\
      forall x, In x (w_names w') <-> In x (w_names w) \/
                                      (In x todo /\ is_hyd x = true /\ ~ (ssb = true /\ x = "HG"%string)).
  Proof.
    induction todo as [|r todo IH]; intros w Hn.
    - exists w. cbn. split; auto. split; auto. intros x. tauto.
    - cbn [fold_left bind].
      destruct (is_hyd r && negb (has r w) && negb (ssb && String.eqb r "HG")) eqn:Ec.
      + rewrite hfeasv_true.
        apply andb_true_iff in Ec. destruct Ec as [Ec E3]. apply andb_true_iff in Ec. destruct Ec as [E1 E2].
        apply negb_true_iff in E2. apply negb_true_iff in E3.
        destruct (cr_spec r w) as [w1 [C1 N1]]; [apply has_false; auto|]. rewrite C1.
        destruct (IH w1) as [w' [E' [Nd' S']]].
        { rewrite N1. apply NoDup_app_last; auto. apply has_false; auto. }
        exists w'. split; auto. split; auto. intros x. rewrite S', N1, in_app_iff. cbn [In]. split.
        * intros [[H|[<-|[]]]|[H1 H2]].
          -- left. exact H.
          -- right. split; [left; reflexivity|]. split; [exact E1|]. intros [Hs Hg]. subst. cbn in E3. discriminate.
          -- right. split; [right; exact H1|exact H2].
        * intros [H|[[<-|H] H2]].
          -- left. left. exact H.
          -- left. right. left. reflexivity.
          -- right. split; auto.
      + destruct (IH w Hn) as [w' [E' [Nd' S']]]. exists w'. split; auto. split; auto.
        intros x. rewrite S'. cbn [In]. split.
        * intros [H|[H1 H2]]; [left; exact H|right; split; [right; exact H1|exact H2]].
        * intros [H|[[<-|H] [H2 H3]]]; [left; exact H| |right; split; [exact H|split; [exact H2|exact H3]]].
          left. apply andb_false_iff in Ec. destruct Ec as [Ec|Ec].
          -- apply andb_false_iff in Ec. destruct Ec as [Ec|Ec]; [congruence|].
             apply negb_false_iff in Ec. apply has_In. auto.
          -- apply negb_false_iff in Ec. apply andb_true_iff in Ec. destruct Ec as [-> Ec].
             apply String.eqb_eq in Ec. exfalso. apply H3. auto.
  Qed.

  (* for every residue (any names, any extra or missing atoms, no OP1/OP2 aliasing): if the
     rebuild oracles never fail, repair_heavy logs and deletes exactly the names outside the
     reference, never raises, and after add_hydrogens the residue holds exactly the
     reference's atoms (pseudo atoms excepted; HG of a bridged cysteine is not built) *)
  Theorem repair_add_complete : forall ns ssb,
    NoDup ns -> NoDup ref -> mem "OP1" ns = false -> mem "OP2" ns = false ->
    (forall x, In x ns -> is_pseudo x = false) ->
    exists w logged, repair_heavy ref feasv true ns = RDone w logged /\
      logged = filter (fun a => negb (mem a ref)) ns /\
      exists w', add_hydrogens ref hfeasv ssb w = Some w' /\ NoDup (w_names w') /\
        forall x, In x (w_names w') <->
                  In x ref /\ is_pseudo x = false /\ ~ (ssb = true /\ x = "HG"%string /\ ~ In x ns).
  Proof.
    intros ns ssb Hn Hr H1 H2 Hps. unfold repair_heavy. cbn [negb].
    destruct (drop_extras_spec ns [] [] []) as [w1 [E1 N1]]; auto.
    cbn [app] in E1, N1. rewrite E1.
    set (miss := missing_heavy ref ns).
    assert (Hmiss : forall x, In x miss <-> In x ref /\ is_hyd x = false /\ is_pseudo x = false /\ ~ In x ns).
    { intros x. unfold miss, missing_heavy. rewrite filter_In.
      assert (Ha : phos_alias x ns = false) by (unfold phos_alias; rewrite H1, H2; rewrite !andb_false_r; reflexivity).
      rewrite Ha. cbn [negb]. rewrite andb_true_r. rewrite !andb_true_iff, !negb_true_iff. rewrite mem_false_notin. tauto. }
    assert (Hnd2 : NoDup (w_names w1 ++ miss)).
    { rewrite N1. apply NoDup_app_intro.
      - apply NoDup_filter. auto.
      - unfold miss, missing_heavy. apply NoDup_filter. auto.
      - intros x Hx Hm. apply filter_In in Hx. apply Hmiss in Hm. tauto. }
    destruct (rebuild_always miss (repair_fuel (List.length miss)) (List.length miss) [] w1
                (filter (fun a => negb (inref a)) ns)) as [w2 [E2 N2]]; auto.
    { unfold repair_fuel. lia. }
    fold miss. rewrite E2. exists w2. eexists. split; [reflexivity|]. split; [reflexivity|].
    unfold add_hydrogens.
    destruct (add_h_spec ssb ref w2) as [w3 [E3 [Nd3 S3]]]; [rewrite N2; auto|].
    exists w3. split; [exact E3|]. split; auto.
    intros x. rewrite S3, N2, N1, in_app_iff, filter_In, Hmiss. unfold inref. split.
    - intros [[[Hx Hm]|[Hx [Hh [Hp Hni]]]]|[Hx [Hh Hs]]].
      + apply mem_In in Hm. split; auto. split; auto. intros [_ [_ Hc]]. auto.
      + split; auto. split; auto. intros [_ [-> _]]. cbn in Hh. discriminate.
      + split; auto. split.
        * unfold is_pseudo. destruct (String.eqb x "N+1") eqn:Ea; [apply String.eqb_eq in Ea; subst; cbn in Hh; discriminate|].
          destruct (String.eqb x "C-1") eqn:Eb; [apply String.eqb_eq in Eb; subst; cbn in Hh; discriminate|]. reflexivity.
        * intros [Hs1 [Hs2 _]]. apply Hs. auto.
    - intros [Hx [Hp Hs]]. destruct (in_dec string_dec x ns) as [Hi|Hi].
      + left. left. split; auto. apply mem_In. auto.
      + destruct (is_hyd x) eqn:Eh.
        * right. split; auto. split; auto. intros [Hs1 Hs2]. apply Hs. auto.
        * left. right. auto.
  Qed.
End RepairProofs.

Lemma rtemplates_meaning : forall l t, rtemplates_ok l = true -> In t l ->
  rebuild_from_backbone_ok t = true /\ rebuild_single_ok t = true.
Proof.
  intros l t H Ht. unfold rtemplates_ok in H. rewrite forallb_forall in H. specialize (H t Ht).
  apply andb_true_iff in H. exact H.
Qed.

(* ======================================================================
   The pipeline for one residue, end to end at name level
   ====================================================================== *)

Definition seteq (a b : nl) : Prop := NoDup a /\ NoDup b /\ forall x, In x a <-> In x b.

Lemma seteq_mem : forall a b x, seteq a b -> mem x a = mem x b.
Proof.
  intros a b x [_ [_ H]]. destruct (mem x b) eqn:E.
  - apply mem_In. apply H. apply mem_In. auto.
  - apply mem_false_notin. apply mem_false_notin in E. intros Hc. apply E. apply H. auto.
Qed.

Lemma seteq_remove_first : forall a b x, seteq a b -> seteq (remove_first x a) (remove_first x b).
Proof.
  intros a b x [Ha [Hb H]]. split; [apply NoDup_remove_first; auto|]. split; [apply NoDup_remove_first; auto|].
  intros y. rewrite !In_remove_first by auto. rewrite H. tauto.
Qed.

Lemma seteq_cleanup : forall cl a b, seteq a b -> seteq (cleanup_names cl a) (cleanup_names cl b).
Proof.
  intros [c|] a b H; cbn [cleanup_names]; auto.
  rewrite (seteq_mem a b (c_h1 c) H), (seteq_mem a b (c_h2 c) H).
  destruct (mem (c_h1 c) b && mem (c_h2 c) b); auto. apply seteq_remove_first; auto.
Qed.

Lemma seteq_his : forall his a b, seteq a b -> seteq (his_names his a) (his_names his b).
Proof.
  intros [[|]|] a b H; cbn [his_names]; auto.
  - rewrite (seteq_mem a b "HE2"%string H). destruct (mem "HE2" b); auto. apply seteq_remove_first; auto.
  - rewrite (seteq_mem a b "HD1"%string H). destruct (mem "HD1" b); auto. apply seteq_remove_first; auto.
Qed.

Lemma cleanup_sub : forall cl l x, NoDup l -> In x (cleanup_names cl l) -> In x l.
Proof.
  intros [c|] l x Hn; cbn [cleanup_names]; auto.
  destruct (mem (c_h1 c) l && mem (c_h2 c) l); auto. rewrite In_remove_first by auto. tauto.
Qed.

Lemma his_sub : forall his l x, NoDup l -> In x (his_names his l) -> In x l.
Proof.
  intros [[|]|] l x Hn; cbn [his_names]; auto.
  - destruct (mem "HE2" l); auto. rewrite In_remove_first by auto. tauto.
  - destruct (mem "HD1" l); auto. rewrite In_remove_first by auto. tauto.
Qed.

Lemma NoDup_nodupb : forall l, NoDup l -> nodupb l = true.
Proof.
  induction l as [|x l IH]; cbn; intros H; auto. inversion H; subst.
  rewrite IH by auto. rewrite andb_true_r. apply negb_true_iff. apply mem_false_notin. auto.
Qed.

Lemma hyd_not_pseudo : forall x, is_hyd x = true -> is_pseudo x = false.
Proof.
  intros x Hh. unfold is_pseudo.
  destruct (String.eqb x "N+1") eqn:Ea; [apply String.eqb_eq in Ea; subst; cbn in Hh; discriminate|].
  destruct (String.eqb x "C-1") eqn:Eb; [apply String.eqb_eq in Eb; subst; cbn in Hh; discriminate|]. reflexivity.
Qed.

Lemma alc_expected_set : forall h l x, NoDup l -> (In x (alc_expected h l) <-> (In x l /\ x <> h) \/ x = h).
Proof.
  intros h l x Hn. unfold alc_expected. rewrite in_app_iff, In_remove_first by auto. cbn. split.
  - intros [H|[H|[]]]; auto.
  - intros [H|H]; auto.
Qed.

Lemma alc_expected_nodup : forall h l, NoDup l -> NoDup (alc_expected h l).
Proof.
  intros h l Hn. unfold alc_expected. apply NoDup_app_last; [apply NoDup_remove_first; auto|].
  rewrite In_remove_first by auto. tauto.
Qed.

Lemma wat_expected_set : forall l x, In x (wat_expected l) <-> In x l \/ x = "H1"%string \/ x = "H2"%string.
Proof.
  intros l x. unfold wat_expected. rewrite !in_app_iff. split.
  - intros [H|[H|H]]; auto.
    + destruct (mem "H1" l); cbn in H; [tauto|]. destruct H as [<-|[]]; auto.
    + destruct (mem "H2" l); cbn in H; [tauto|]. destruct H as [<-|[]]; auto.
  - intros [H|[->| ->]]; auto.
    + destruct (mem "H1" l) eqn:E; [left; apply mem_In; auto|right; left; cbn; auto].
    + destruct (mem "H2" l) eqn:E; [left; apply mem_In; auto|right; right; cbn; auto].
Qed.

Lemma wat_expected_nodup : forall l, NoDup l -> NoDup (wat_expected l).
Proof.
  intros l Hn. unfold wat_expected.
  destruct (mem "H1" l) eqn:E1; destruct (mem "H2" l) eqn:E2; cbn [app]; rewrite ?app_nil_r; auto.
  - apply NoDup_app_last; auto. apply mem_false_notin; auto.
  - apply NoDup_app_last; auto. apply mem_false_notin; auto.
  - replace (l ++ ["H1"%string; "H2"%string])%list with ((l ++ ["H1"%string]) ++ ["H2"%string])%list
      by (rewrite <- app_assoc; reflexivity).
    apply NoDup_app_last.
    + apply NoDup_app_last; auto. apply mem_false_notin; auto.
    + intros H. apply in_app_or in H. destruct H as [H|[H|[]]]; [|discriminate].
      apply mem_false_notin in E2. auto.
Qed.

(* expected_of respects set equality, for the kinds covered parametrically *)
Lemma expected_of_seteq : forall k a b, seteq a b ->
  match k with PCarb _ _ _ => True | _ => seteq (expected_of k a) (expected_of k b) end.
Proof.
  intros k a b H. pose proof H as [Ha [Hb Hs]]. destruct k as [|mv|h| |c o lf]; cbn [expected_of]; auto.
  - split; [apply alc_expected_nodup; auto|]. split; [apply alc_expected_nodup; auto|].
    intros x. rewrite !alc_expected_set by auto. rewrite Hs. tauto.
  - split; [apply wat_expected_nodup; auto|]. split; [apply wat_expected_nodup; auto|].
    intros x. rewrite !wat_expected_set. rewrite Hs. tauto.
Qed.

Lemma filter_all : forall (f : string -> bool) l, (forall x, In x l -> f x = true) ->
  filter f l = l /\ filter (fun x => negb (f x)) l = [].
Proof.
  induction l as [|a l IH]; cbn; intros H; auto.
  rewrite (H a) by auto. cbn. destruct IH as [I1 I2]; [intros; apply H; auto|]. rewrite I1, I2. auto.
Qed.

(* ---- stage: the optimisation protocol ------------------------------------------ *)

Lemma proto_ok_stage : forall (L C : Type) (step : pst -> L -> outcome) (complete : pst -> C -> outcome) E st ls c,
  proto_ok L C step complete E st ->
  match st with
  | Next s0 _ => match after (run L step s0 ls) (fun s => complete s c) with
                 | POk l' => final_ok E l' | PDisabled => True | PErr => False end
  | Disabled => True
  | Error => False
  end.
Proof.
  intros L C step complete E st ls c H. destruct st as [s0 o| |]; cbn in *; auto.
  specialize (H ls). unfold after. destruct (run L step s0 ls) as [s o'| |]; auto.
  specialize (H c). destruct (complete s c); auto.
Qed.

Lemma proto_stage_good : forall k ls l R,
  NoDup l -> (forall x, In x l <-> In x R) -> (forall x, In x l -> placeholder x = false) ->
  wf_kind k R = true ->
  match proto_stage k ls l with
  | POk l' => final_ok (expected_of k l) l'
  | PDisabled => True
  | PErr => False
  end.
Proof.
  intros k ls l R Hn Hs Hp Hw.
  assert (Hnb : nodupb l = true) by (apply NoDup_nodupb; auto).
  assert (Hpb : forallb (fun x => negb (placeholder x)) l = true).
  { apply forallb_forall. intros x Hx. rewrite Hp; auto. }
  destruct k as [|mv|h| |c o lf]; cbn [proto_stage wf_kind expected_of] in *.
  - split; auto. split; [tauto|auto].
  - destruct ls as [|xs|xs|xs|xs bb]; auto. apply andb_true_iff in Hw. destruct Hw as [W1 W2].
    assert (Hwf : wf_flip l mv = true).
    { unfold wf_flip. rewrite Hnb, W1, Hpb. cbn. rewrite andb_true_r. apply forallb_forall. intros m Hm.
      rewrite forallb_forall in W2. apply mem_In. apply Hs. apply mem_In. auto. }
    pose proof (proto_ok_stage _ _ _ _ _ _ xs tt (flip_names_param l mv Hwf)) as H.
    destruct (flip_start l mv); auto.
  - destruct ls as [|xs|xs|xs|xs bb]; auto.
    assert (Hwf : wf_alc h l = true) by (unfold wf_alc; rewrite Hnb, Hpb, Hw; reflexivity).
    pose proof (proto_ok_stage _ _ _ _ _ _ xs tt (alc_names_param h l Hwf)) as H.
    destruct (alc_start h l); auto.
  - destruct ls as [|xs|xs|xs|xs bb]; auto.
    assert (Hwf : wf_wat l = true).
    { unfold wf_wat. rewrite Hnb, Hpb. cbn [andb].
      assert (E1 : mem "H1" l = mem "H1" R).
      { destruct (mem "H1" R) eqn:E; [apply mem_In; apply Hs; apply mem_In; auto|].
        apply mem_false_notin. apply mem_false_notin in E. intros Hc. apply E. apply Hs. auto. }
      assert (E2 : mem "H2" l = mem "H2" R).
      { destruct (mem "H2" R) eqn:E; [apply mem_In; apply Hs; apply mem_In; auto|].
        apply mem_false_notin. apply mem_false_notin in E. intros Hc. apply E. apply Hs. auto. }
      rewrite E1, E2. exact Hw. }
    pose proof (proto_ok_stage _ _ _ _ _ _ xs tt (wat_names_param l Hwf)) as H.
    unfold wat_start in *. exact H.
  - discriminate.
Qed.

(* ---- stage: repair_heavy + add_hydrogens ----------------------------------------- *)

Section PipelineProofs.
  Variable ref : nl.
  Variables feas hfeas : string -> nl -> bool.
  Variable entry : string -> bool.
  Hypothesis feas_true : forall a l, feas a l = true.
  Hypothesis hfeas_true : forall a l, hfeas a l = true.

  Lemma wf_input_parts : forall l0 am, wf_input ref l0 am = true ->
    NoDup l0 /\ NoDup ref /\ mem "OP1" l0 = false /\ mem "OP2" l0 = false /\
    (forall x, In x l0 -> is_pseudo x = false) /\ (forall x, In x ref -> placeholder x = false) /\
    (am = true \/ ((forall x, In x l0 -> In x ref) /\ missing_heavy ref l0 = [])).
  Proof.
    intros l0 am H. unfold wf_input in H.
    apply andb_true_iff in H. destruct H as [H H7]. apply andb_true_iff in H. destruct H as [H H6].
    apply andb_true_iff in H. destruct H as [H H5]. apply andb_true_iff in H. destruct H as [H H4].
    apply andb_true_iff in H. destruct H as [H H3]. apply andb_true_iff in H. destruct H as [H1 H2].
    split; [apply nodupb_NoDup; auto|]. split; [apply nodupb_NoDup; auto|].
    split; [apply negb_true_iff; auto|]. split; [apply negb_true_iff; auto|]. split; [|split].
    - intros x Hx. rewrite forallb_forall in H5. specialize (H5 x Hx). apply negb_true_iff; auto.
    - intros x Hx. rewrite forallb_forall in H6. specialize (H6 x Hx). apply negb_true_iff; auto.
    - destruct am; [left; auto|right]. cbn in H7. apply andb_true_iff in H7. destruct H7 as [Ha Hb]. split.
      + intros x Hx. rewrite forallb_forall in Ha. apply mem_In. auto.
      + destruct (missing_heavy ref l0); auto. discriminate.
  Qed.

  Lemma ref_atoms_In : forall ssb l0 x, In x (ref_atoms ref ssb l0) <->
    In x ref /\ is_pseudo x = false /\ ~ (ssb = true /\ x = "HG"%string /\ ~ In x l0).
  Proof.
    intros ssb l0 x. unfold ref_atoms. rewrite filter_In, andb_true_iff, !negb_true_iff. split.
    - intros [Hx [Hp Hc]]. split; auto. split; auto. intros [-> [-> Hn]].
      apply mem_false_notin in Hn. rewrite Hn in Hc. cbn in Hc. discriminate.
    - intros [Hx [Hp Hc]]. split; auto. split; auto.
      destruct ssb; cbn; auto. destruct (String.eqb x "HG") eqn:E; cbn; auto.
      apply String.eqb_eq in E. subst. destruct (mem "HG" l0) eqn:Em; cbn; auto.
      exfalso. apply Hc. split; auto. split; auto. apply mem_false_notin. auto.
  Qed.

  Lemma stage12 : forall l0 am ssb, wf_input ref l0 am = true ->
    exists w1 lg w3, repair_heavy ref feas am l0 = RDone w1 lg /\
      add_hydrogens ref hfeas ssb w1 = Some w3 /\ NoDup (w_names w3) /\
      (forall x, In x (w_names w3) <-> In x (ref_atoms ref ssb l0)) /\
      lg = (if am then filter (fun a => negb (mem a ref)) l0 else []).
  Proof.
    intros l0 am ssb Hw. destruct (wf_input_parts l0 am Hw) as [Hn [Hr [H1 [H2 [Hps [Hph Hcase]]]]]].
    destruct am.
    - destruct (repair_add_complete ref feas hfeas feas_true hfeas_true l0 ssb Hn Hr H1 H2 Hps)
        as [w1 [lg [E1 [Elg [w3 [E3 [Nd3 S3]]]]]]].
      exists w1, lg, w3. split; auto. split; auto. split; auto. split; auto.
      intros x. rewrite S3, ref_atoms_In. tauto.
    - destruct Hcase as [Hc|[Hsub Hmiss]]; [discriminate|].
      unfold repair_heavy. cbn [negb].
      destruct (add_h_spec ref hfeas hfeas_true ssb ref (mkW l0 [])) as [w3 [E3 [Nd3 S3]]]; auto.
      exists (mkW l0 []), [], w3. split; auto. split; [exact E3|]. split; auto. split; auto.
      intros x. rewrite S3, ref_atoms_In. cbn [w_names]. split.
      + intros [Hx|[Hx [Hh Hs]]].
        * split; auto. split; auto. intros [_ [_ Hc]]. auto.
        * split; auto. split; [apply hyd_not_pseudo; auto|]. intros [Hs1 [Hs2 _]]. apply Hs. auto.
      + intros [Hx [Hp Hs]]. destruct (in_dec string_dec x l0) as [Hi|Hi]; auto.
        destruct (is_hyd x) eqn:Eh.
        * right. split; auto. split; auto. intros [Hs1 Hs2]. apply Hs. auto.
        * exfalso. assert (Hm : In x (missing_heavy ref l0)).
          { unfold missing_heavy. apply filter_In. split; auto.
            assert (Ha : phos_alias x l0 = false) by (unfold phos_alias; rewrite H1, H2; rewrite !andb_false_r; reflexivity).
            rewrite Eh, Hp, Ha. cbn. apply negb_true_iff. apply mem_false_notin. auto. }
          rewrite Hmiss in Hm. destruct Hm.
  Qed.

  (* what a finished pipeline run must look like *)
  Definition pipeline_ok (l0 : nl) (am : bool) (Expected : nl) (r : pres) : Prop :=
    match r with
    | PRes final written un lg =>
        NoDup final /\ (forall x, In x final <-> In x Expected) /\
        written = final /\ un = [] /\ (forall x, In x final -> placeholder x = false) /\
        lg = (if am then filter (fun a => negb (mem a ref)) l0 else []) /\
        (forall x, In x l0 -> In x ref -> is_hyd x = false -> count_occ string_dec final x = 1)
    | PFail why => why = "oracle stream does not fit the protocol"%string
    end.

  Lemma eff_kind_wf : forall opt k R, wf_kind k R = true -> wf_kind (eff_kind opt k) R = true.
  Proof. intros opt k R H. unfold eff_kind. destruct opt; auto. destruct k; auto. Qed.

  Theorem pipeline_written_set : forall ps1 ns w0 am ssb opt k ls cl his,
    apply_patches ps1 (mkW ns []) = Some w0 ->
    let l0 := w_names w0 in
    let R := ref_atoms ref ssb l0 in
    wf_input ref l0 am = true ->
    wf_kind k R = true ->
    (forall c, cl = Some c -> is_hyd (c_h1 c) = true) ->
    (forall x, In x (expected_final opt k cl his R) -> entry x = true) ->
    pipeline_ok l0 am (expected_final opt k cl his R)
      (pipeline_names ref feas hfeas entry (MFull opt) ps1 [] am ssb k ls cl his ns).
  Proof.
    intros ps1 ns w0 am ssb opt k ls cl his Hp l0 R Hw Hk Hcl Hent.
    destruct (wf_input_parts l0 am Hw) as [Hn [Hr [H1 [H2 [Hps [Hph Hcase]]]]]].
    destruct (stage12 l0 am ssb Hw) as [w1 [lg [w3 [E1 [E3 [Nd3 [S3 Elg]]]]]]].
    unfold pipeline_names. rewrite Hp. fold l0. rewrite E1. cbn [apply_patches fold_left]. rewrite E3.
    fold (eff_kind opt k).
    assert (HR : NoDup R) by (unfold R, ref_atoms; apply NoDup_filter; auto).
    assert (Hph3 : forall x, In x (w_names w3) -> placeholder x = false).
    { intros x Hx. apply S3 in Hx. apply ref_atoms_In in Hx. apply Hph. tauto. }
    pose proof (proto_stage_good (eff_kind opt k) ls (w_names w3) R Nd3 S3 Hph3 (eff_kind_wf opt k R Hk)) as Hg.
    assert (Hnc : match eff_kind opt k with PCarb _ _ _ => False | _ => True end).
    { pose proof (eff_kind_wf opt k R Hk) as Hk'. destruct (eff_kind opt k); auto. discriminate. }
    destruct (proto_stage (eff_kind opt k) ls (w_names w3)) as [l4| |]; [|reflexivity|contradiction].
    destruct Hg as [Nd4 [S4 P4]].
    (* l4 is set-equal to the expectation computed from R *)
    assert (Hse : seteq l4 (expected_of (eff_kind opt k) R)).
    { assert (H13 : seteq (w_names w3) R) by (split; auto).
      pose proof (expected_of_seteq (eff_kind opt k) (w_names w3) R H13) as He.
      destruct (eff_kind opt k) eqn:Ek; try contradiction;
        destruct He as [Ha [Hb Hs]]; (split; [auto|]; split; [auto|]; intros x; rewrite S4; apply Hs). }
    pose proof (seteq_his his _ _ (seteq_cleanup cl _ _ Hse)) as [Nf [Ne Sf]].
    fold (expected_final opt k cl his R) in Ne, Sf.
    unfold partition.
    assert (Hall : forall x, In x (his_names his (cleanup_names cl l4)) -> entry x = true).
    { intros x Hx. apply Hent. apply Sf. auto. }
    destruct (filter_all entry _ Hall) as [F1 F2]. rewrite F1, F2. cbn [pipeline_ok].
    split; auto. split; auto. split; auto. split; auto. split.
    - intros x Hx. apply P4. eapply cleanup_sub; eauto. eapply his_sub; eauto.
      destruct Hse as [Ha _]. clear -Ha. destruct cl as [c|]; cbn [cleanup_names]; auto.
      destruct (mem (c_h1 c) l4 && mem (c_h2 c) l4); auto. apply NoDup_remove_first; auto.
    - split; auto. intros x Hx0 Hxr Hh. apply NoDup_count_occ'; auto. apply Sf.
      (* x is a reference atom, so it is in R and in the expectation; cleanup / set_state only drop hydrogens *)
      assert (HxR : In x R).
      { apply ref_atoms_In. split; auto. split; auto. intros [_ [_ Hc]]. auto. }
      assert (HxE : In x (expected_of (eff_kind opt k) R)).
      { destruct (eff_kind opt k); cbn [expected_of]; auto.
        - apply alc_expected_set; auto. destruct (string_dec x h); auto.
        - apply wat_expected_set. auto.
        - contradiction. }
      assert (HE : NoDup (expected_of (eff_kind opt k) R)) by (destruct Hse as [_ [Hb _]]; auto).
      unfold expected_final.
      assert (HxC : In x (cleanup_names cl (expected_of (eff_kind opt k) R))).
      { destruct cl as [c|]; cbn [cleanup_names]; auto.
        destruct (mem (c_h1 c) _ && mem (c_h2 c) _); auto. apply In_remove_first; auto. split; auto.
        intros ->. rewrite (Hcl c eq_refl) in Hh. discriminate. }
      assert (HC : NoDup (cleanup_names cl (expected_of (eff_kind opt k) R))).
      { destruct cl as [c|]; cbn [cleanup_names]; auto.
        destruct (mem (c_h1 c) _ && mem (c_h2 c) _); auto. apply NoDup_remove_first; auto. }
      destruct his as [[|]|]; cbn [his_names]; auto.
      + destruct (mem "HE2" _); auto. apply In_remove_first; auto. split; auto. intros ->. cbn in Hh. discriminate.
      + destruct (mem "HD1" _); auto. apply In_remove_first; auto. split; auto. intros ->. cbn in Hh. discriminate.
  Qed.

  (* --clean: every atom left after the terminus patches is printed, nothing is added *)
  Theorem pipeline_clean : forall ps1 ps2 ns w0 am ssb k ls cl his,
    apply_patches ps1 (mkW ns []) = Some w0 ->
    pipeline_names ref feas hfeas entry MClean ps1 ps2 am ssb k ls cl his ns = PRes (w_names w0) (w_names w0) [] [].
  Proof. intros. unfold pipeline_names. rewrite H. reflexivity. Qed.

  (* --assign-only: no repair, no hydrogens, no optimisation: the written names are the
     current names that have an entry; every other one is reported unassigned *)
  Theorem pipeline_assign_only : forall ps1 ps2 ns w0 w1 am ssb k ls cl his,
    apply_patches ps1 (mkW ns []) = Some w0 -> apply_patches ps2 w0 = Some w1 -> NoDup (w_names w1) ->
    exists final written un,
      pipeline_names ref feas hfeas entry MAssignOnly ps1 ps2 am ssb k ls cl his ns = PRes final written un [] /\
      final = his_names his (w_names w1) /\ written = filter entry final /\
      un = filter (fun x => negb (entry x)) final /\
      (forall x, In x written -> In x (w_names w1) /\ entry x = true).
  Proof.
    intros ps1 ps2 ns w0 w1 am ssb k ls cl his H0 H1 Hn. unfold pipeline_names. rewrite H0, H1. unfold partition.
    eexists. eexists. eexists. split; [reflexivity|]. split; auto. split; auto. split; auto.
    intros x Hx. apply filter_In in Hx. destruct Hx as [Hx He]. split; auto. eapply his_sub; eauto.
  Qed.
End PipelineProofs.

(* carboxylic residues: the protocol stage is certified per table instance (atom list as the
   pipeline presents it when the Carboxylic object is constructed) *)
Theorem pipeline_carb_stage : forall l i c ord lf ls best, all_instances_ok l = true -> In i l -> i_kind i = KCarb c ->
  match proto_stage (PCarb c ord lf) (LCarb ls best) (i_base i) with
  | POk l' => final_ok (i_expected i) l'
  | PDisabled => True
  | PErr => False
  end.
Proof.
  intros l i c ord lf ls best H Hi Hk. cbn [proto_stage].
  pose proof (proto_ok_stage _ _ _ _ _ _ ls best (carb_table_sound l i c ord lf H Hi Hk)) as Hp.
  destruct (carb_start c ord lf (i_base i)); auto.
Qed.

(* a concrete case that passes the boolean guard and whose expected names all have an entry *)
Theorem pcase_sound : forall (entry : string -> bool) c feas hfeas ls,
  (forall a l, feas a l = true) -> (forall a l, hfeas a l = true) ->
  pcase_guard c = true -> pcase_entries entry c = true ->
  exists w0 e, apply_patches (pc_ps1 c) (mkW (pc_ns c) []) = Some w0 /\ pcase_expected c = Some e /\
    pipeline_ok (pc_ref c) (w_names w0) false e
      (pipeline_names (pc_ref c) feas hfeas entry (MFull true) (pc_ps1 c) [] false (pc_ssb c)
                      (pc_kind c) ls (pc_cl c) (pc_his c) (pc_ns c)).
Proof.
  intros entry c feas hfeas ls Hf Hh Hg He. unfold pcase_guard in Hg. unfold pcase_entries, pcase_expected in *.
  destruct (apply_patches (pc_ps1 c) (mkW (pc_ns c) [])) as [w0|] eqn:E; [|discriminate].
  apply andb_true_iff in Hg. destruct Hg as [Hg H3]. apply andb_true_iff in Hg. destruct Hg as [H1 H2].
  exists w0. eexists. split; auto. split; [reflexivity|].
  apply (pipeline_written_set (pc_ref c) feas hfeas entry Hf Hh (pc_ps1 c) (pc_ns c) w0 false (pc_ssb c) true
           (pc_kind c) ls (pc_cl c) (pc_his c) E H1 H2).
  - intros x Hx. rewrite Hx in H3. exact H3.
  - intros x Hx. rewrite forallb_forall in He. apply He. exact Hx.
Qed.

Theorem pcases_ff_sound : forall (l : list pcase) (ent : pcase -> string -> bool),
  forallb pcase_guard l = true ->
  forall c, In c (filter (fun c => pcase_entries (ent c) c) l) ->
  forall feas hfeas ls, (forall a x, feas a x = true) -> (forall a x, hfeas a x = true) ->
  exists w0 e, apply_patches (pc_ps1 c) (mkW (pc_ns c) []) = Some w0 /\ pcase_expected c = Some e /\
    pipeline_ok (pc_ref c) (w_names w0) false e
      (pipeline_names (pc_ref c) feas hfeas (ent c) (MFull true) (pc_ps1 c) [] false (pc_ssb c)
                      (pc_kind c) ls (pc_cl c) (pc_his c) (pc_ns c)).
Proof.
  intros l ent Hg c Hc feas hfeas ls Hf Hh. apply filter_In in Hc. destruct Hc as [Hc He].
  rewrite forallb_forall in Hg. apply pcase_sound; auto.
Qed.

(* ---- residue constructors: dedupe after the alias rename -------------------------- *)

Lemma init_fold_spec : forall alt recs acc, NoDup acc ->
  NoDup (fold_left (init_step alt) recs acc) /\
  fold_left (init_step alt) recs acc = (acc ++ first_occ acc (map (canon alt) recs))%list /\
  (forall x, In x (fold_left (init_step alt) recs acc) <-> In x acc \/ In x (map (canon alt) recs)).
Proof.
  induction recs as [|n recs IH]; intros acc Hn; cbn [fold_left map first_occ].
  - rewrite app_nil_r. split; auto. split; auto. intros x. cbn. tauto.
  - unfold init_step at 2 4 6. cbv zeta. destruct (mem (canon alt n) acc) eqn:E.
    + destruct (IH acc Hn) as [I1 [I2 I3]]. split; auto. split; auto.
      intros x. rewrite I3. cbn. split; [tauto|]. intros [H|[<-|H]]; auto. left. apply mem_In. auto.
    + assert (Hn' : NoDup (acc ++ [canon alt n])) by (apply NoDup_app_last; auto; apply mem_false_notin; auto).
      destruct (IH _ Hn') as [I1 [I2 I3]]. split; auto. split.
      * rewrite I2. rewrite <- app_assoc. reflexivity.
      * intros x. rewrite I3, in_app_iff. cbn. tauto.
Qed.

Theorem residue_init_nodup : forall alt recs,
  NoDup (residue_init alt recs) /\
  residue_init alt recs = first_occ [] (map (canon alt) recs) /\
  (forall x, In x (residue_init alt recs) <-> In x (map (canon alt) recs)).
Proof.
  intros alt recs. destruct (init_fold_spec alt recs [] (NoDup_nil _)) as [H1 [H2 H3]].
  unfold residue_init. split; auto. split; auto. intros x. rewrite H3. cbn. tauto.
Qed.

Lemma res_init_fold : forall alt recs s acc, WFres s -> res_names s = acc ->
  WFres (fold_left (res_init_step alt) recs s) /\
  res_names (fold_left (res_init_step alt) recs s) = fold_left (init_step alt) recs acc.
Proof.
  induction recs as [|n recs IH]; intros s acc Hw Hn; cbn [fold_left]; auto.
  unfold res_init_step at 2 4, init_step at 2. cbv zeta. destruct (mem (canon alt n) acc) eqn:E.
  - assert (Hh : res_has (canon alt n) s = true) by (apply WFres_has; auto; rewrite Hn; apply mem_In; auto).
    rewrite Hh. apply IH; auto.
  - assert (Hni : ~ In (canon alt n) (res_names s)) by (rewrite Hn; apply mem_false_notin; auto).
    assert (Hh : res_has (canon alt n) s = false).
    { destruct (res_has (canon alt n) s) eqn:E2; auto. apply WFres_has in E2; auto. contradiction. }
    rewrite Hh. destruct (create_ok s (canon alt n) Hw Hni) as [Hw' Hn']. apply IH; auto. rewrite Hn', Hn. reflexivity.
Qed.

(* the object-list + dict constructor builds a consistent residue with exactly those names *)
Theorem res_init_agrees : forall alt recs,
  WFres (res_init alt recs) /\ res_names (res_init alt recs) = residue_init alt recs.
Proof. intros. apply (res_init_fold alt recs res_empty []); [apply WFres_empty|reflexivity]. Qed.

(* splitting at hidden chain ends only regroups: the strands, in order, are the chain *)
Theorem split_at_concat : forall (A : Type) (mark : A -> bool) rs cur,
  concat (split_at A mark cur rs) = (cur ++ rs)%list.
Proof.
  induction rs as [|r rest IH]; intros cur; cbn [split_at].
  - rewrite app_nil_r. destruct cur; cbn; [reflexivity|rewrite app_nil_r; reflexivity].
  - destruct (mark r); cbn [concat]; rewrite IH; cbn [app]; rewrite <- app_assoc; reflexivity.
Qed.

Theorem split_at_nonempty : forall (A : Type) (mark : A -> bool) rs cur s,
  In s (split_at A mark cur rs) -> s <> [].
Proof.
  induction rs as [|r rest IH]; intros cur s H; cbn [split_at] in H.
  - destruct cur; [destruct H|]. destruct H as [<-|[]]. discriminate.
  - destruct (mark r).
    + destruct H as [<-|H]; [destruct cur; discriminate|]. eapply IH; eauto.
    + eapply IH; eauto.
Qed.
