(* C14: pdb2pqr's call-site protocols keep the cell list truthful. *)
From Coq Require Import ZArith List Bool Arith Lia String.
From PV Require Import Model.Cells Proofs.Cells Model.CellsUse Generated.C14Sites.
Import ListNotations.
Local Open Scope Z_scope.

(* the source still has exactly the call-site skeletons the model was written from *)
(* every loop over a block of neighbours iterates it where it was queried (unconditionally, for
   the loop's own subject): the static half of "the block used for atom a was queried for a" *)
Theorem blocks_used_where_queried : forallb (fun r => snd r) query_use = true.
Proof. vm_compute. reflexivity. Qed.

Theorem sites_table_matches_model : table_eqb sites modelled_sites = true.
Proof. vm_compute. reflexivity. Qed.

Section P.
  Variables size D : Z.
  Hypothesis Hsize : 0 < size.
  Hypothesis HD : 0 < D.

  Notation Inv := (Inv size D).

  (* cell list c is truthful about the atoms pr of the structure, except that
     the one atom x (if any) is in the structure but not registered *)
  Definition consistent (c : state) (pr : nat -> bool) (x : option nat) : Prop :=
    Inv c /\
    (forall a, cell_of c a <> None -> pr a = true) /\
    (forall a, pr a = true -> cell_of c a <> None \/ x = Some a) /\
    (forall h, x = Some h -> cell_of c h = None /\ pr h = true).

  Definition qok (q : qentry) : Prop := consistent (q_cs q) (q_present q) None /\ q_used q = q_atom q.

  Definition alloc (u : ustate) : Prop :=
    forall a, (next u <= a)%nat -> present u a = false /\ bonds u a = [].

  Definition Core (x : option nat) (u : ustate) : Prop :=
    consistent (cs u) (present u) x /\ Forall qok (qlog u).

  Definition GoodX (x : option nat) (u : ustate) : Prop := alloc u /\ Core x u.
  Definition Good : ustate -> Prop := GoodX None.

  (* ---- cell-level facts --------------------------------------------------- *)

  Lemma cell_of_add c h a : cell_of (add_cell size D c h) a = if Nat.eqb h a then Some (key_of size D (posn c h)) else cell_of c a.
  Proof. reflexivity. Qed.

  Lemma cell_none_dec (c : state) a : {cell_of c a = None} + {cell_of c a <> None}.
  Proof. destruct (cell_of c a); [right; discriminate | left; reflexivity]. Qed.

  Lemma C_add c pr h : consistent c pr (Some h) -> consistent (add_cell size D c h) pr None.
  Proof.
    intros (I & G & A & X). destruct (X h eq_refl) as [Hc Hp].
    split; [apply inv_add; assumption|]. split; [|split].
    - intros a. rewrite cell_of_add. destruct (Nat.eqb h a) eqn:E.
      + apply Nat.eqb_eq in E. subst a. auto.
      + apply G.
    - intros a Ha. left. rewrite cell_of_add. destruct (Nat.eqb h a) eqn:E; [discriminate|].
      destruct (A a Ha) as [R | [= ->]]; [exact R|]. rewrite Nat.eqb_refl in E. discriminate.
    - intros ? [=].
  Qed.

  Lemma cell_of_remove c a b : cell_of (remove_cell c a) b = if Nat.eqb a b then None else cell_of c b.
  Proof.
    unfold remove_cell. destruct (cell_of c a) eqn:E; cbn [cell_of]; unfold upd.
    - reflexivity.
    - destruct (Nat.eqb a b) eqn:Eb; [apply Nat.eqb_eq in Eb; subst b; exact E | reflexivity].
  Qed.

  Lemma C_remove c pr a : consistent c pr None -> pr a = true -> consistent (remove_cell c a) pr (Some a).
  Proof.
    intros (I & G & A & X) Hp.
    split; [apply inv_remove; assumption|]. split; [|split].
    - intros b. rewrite cell_of_remove. destruct (Nat.eqb a b); [congruence | apply G].
    - intros b Hb. rewrite cell_of_remove. destruct (Nat.eqb a b) eqn:E.
      + apply Nat.eqb_eq in E. subst b. right. reflexivity.
      + destruct (A b Hb) as [R | [=]]. left. exact R.
    - intros h [= <-]. rewrite cell_of_remove, Nat.eqb_refl. auto.
  Qed.

  Lemma C_remove_absent c pr a : consistent c pr None -> pr a = false -> remove_cell c a = c.
  Proof.
    intros (I & G & A & X) Hp. unfold remove_cell.
    destruct (cell_of c a) eqn:E; [|reflexivity].
    assert (pr a = true) by (apply G; congruence). congruence.
  Qed.

  Lemma C_write c pr x a p : consistent c pr x -> cell_of c a = None -> consistent (move c a p) pr x.
  Proof.
    intros (I & G & A & X) Hc. split; [apply inv_move; assumption|]. cbn [move cell_of]. auto.
  Qed.

  Lemma upd_true_other (pr : nat -> bool) h v a : a <> h -> upd Nat.eqb pr h v a = pr a.
  Proof. intros H. unfold upd. destruct (Nat.eqb h a) eqn:E; [apply Nat.eqb_eq in E; congruence | reflexivity]. Qed.

  Lemma upd_same (pr : nat -> bool) h v : upd Nat.eqb pr h v h = v.
  Proof. unfold upd. now rewrite Nat.eqb_refl. Qed.

  Lemma C_create c pr h p : consistent c pr None -> pr h = false ->
    consistent (move c h p) (upd Nat.eqb pr h true) (Some h).
  Proof.
    intros (I & G & A & X) Hp.
    assert (Hc : cell_of c h = None).
    { destruct (cell_none_dec c h) as [E | E]; [exact E|]. apply G in E. congruence. }
    split; [apply inv_move; assumption|]. cbn [move cell_of]. split; [|split].
    - intros a Ha. destruct (Nat.eq_dec a h) as [-> | N]; [apply upd_same | rewrite upd_true_other by assumption; auto].
    - intros a Ha. destruct (Nat.eq_dec a h) as [-> | N]; [right; reflexivity|].
      rewrite upd_true_other in Ha by assumption. destruct (A a Ha) as [R | [=]]. left. exact R.
    - intros ? [= <-]. split; [assumption | apply upd_same].
  Qed.

  Lemma C_delete c pr x h : consistent c pr x -> cell_of c h = None -> (x = None \/ x = Some h) ->
    consistent c (upd Nat.eqb pr h false) None.
  Proof.
    intros (I & G & A & X) Hc Hx. split; [assumption|]. split; [|split].
    - intros a Ha. destruct (Nat.eq_dec a h) as [-> | N]; [congruence|].
      rewrite upd_true_other by assumption. auto.
    - intros a Ha. destruct (Nat.eq_dec a h) as [-> | N]; [rewrite upd_same in Ha; discriminate|].
      rewrite upd_true_other in Ha by assumption. destruct (A a Ha) as [R | E]; [left; exact R|].
      destruct Hx as [Hx | Hx]; rewrite Hx in E; [discriminate | injection E as ->; congruence].
    - intros ? [=].
  Qed.


  (* ---- bond lists ---------------------------------------------------------- *)

  Lemma link1_other a b bd c : c <> a -> link1 a b bd c = bd c.
  Proof.
    intros H. unfold link1. destruct (mem b (bd a)); [reflexivity|].
    apply upd_nat_other. congruence.
  Qed.

  Lemma mem_in a l : mem a l = true <-> In a l.
  Proof.
    unfold mem. rewrite existsb_exists. split.
    - intros (x & Hx & E). apply Nat.eqb_eq in E. now subst x.
    - intros H. exists a. split; [assumption | apply Nat.eqb_refl].
  Qed.

  Lemma link1_self a b bd : link1 a b bd a = bd a \/ (link1 a b bd a = (bd a ++ [b])%list /\ ~ In b (bd a)).
  Proof.
    unfold link1. destruct (mem b (bd a)) eqn:E; [left; reflexivity|].
    right. split; [apply upd_nat_same|]. intros H. apply mem_in in H. congruence.
  Qed.

  Lemma fold_link_frame h : forall bs bd a, a <> h -> ~ In a bs ->
    fold_left (fun bd b => link1 b h (link1 h b bd)) bs bd a = bd a.
  Proof.
    induction bs as [|b r IH]; intros bd a Ha Hn; cbn [fold_left]; [reflexivity|].
    rewrite IH by (try assumption; intros H; apply Hn; right; exact H).
    rewrite link1_other by (intros ->; apply Hn; left; reflexivity).
    apply link1_other. assumption.
  Qed.

  (* after create_atom the bond list of any OTHER atom is unchanged or got the new atom appended *)
  Lemma fold_link_grow h : forall bs bd0 bd a, a <> h ->
    (bd a = bd0 a \/ bd a = (bd0 a ++ [h])%list) ->
    let bd' := fold_left (fun bd b => link1 b h (link1 h b bd)) bs bd in
    bd' a = bd0 a \/ bd' a = (bd0 a ++ [h])%list.
  Proof.
    induction bs as [|b r IH]; intros bd0 bd a Ha H; cbn [fold_left]; [exact H|].
    apply IH; [assumption|].
    destruct (Nat.eq_dec a b) as [-> | N].
    - destruct (link1_self b h (link1 h b bd)) as [E | [E Hn]]; rewrite E; rewrite link1_other by assumption.
      + exact H.
      + rewrite link1_other in Hn by assumption. destruct H as [H | H]; rewrite H in *.
        * right. reflexivity.
        * exfalso. apply Hn. apply in_or_app. right. left. reflexivity.
    - rewrite link1_other by assumption. rewrite link1_other by assumption. exact H.
  Qed.

  Lemma create_bonds u p bs a : a <> next u ->
    bonds (u_create p bs u) a = bonds u a \/ bonds (u_create p bs u) a = (bonds u a ++ [next u])%list.
  Proof.
    intros Ha. unfold u_create. cbn [bonds].
    assert (E : upd Nat.eqb (bonds u) (next u) [] a = bonds u a) by (apply upd_nat_other; congruence).
    pose proof (fold_link_grow (next u) (filter (present u) bs) (upd Nat.eqb (bonds u) (next u) [])
                  (upd Nat.eqb (bonds u) (next u) []) a Ha (or_introl eq_refl)) as H.
    cbv zeta in H. rewrite E in H. exact H.
  Qed.

  Lemma fold_del_nil h : forall l (bd : nat -> list nat) a, bd a = [] ->
    fold_left (fun bd b => upd Nat.eqb bd b (remove_first h (bd b))) l bd a = [].
  Proof.
    induction l as [|b r IH]; intros bd a H; cbn [fold_left]; [exact H|].
    apply IH. destruct (Nat.eq_dec b a) as [-> | N].
    - rewrite upd_nat_same, H. reflexivity.
    - rewrite upd_nat_other by assumption. exact H.
  Qed.

  (* ---- allocation --------------------------------------------------------- *)

  Lemma alloc_create u p bs : alloc u -> alloc (u_create p bs u).
  Proof.
    intros A a Ha. unfold u_create in *. cbn [next present bonds] in *.
    assert (a <> next u) by lia. destruct (A a ltac:(lia)) as [Hp Hb]. split.
    - rewrite upd_nat_other by congruence. exact Hp.
    - rewrite fold_link_frame; [rewrite upd_nat_other by congruence; exact Hb | assumption |].
      intros H1. apply filter_In in H1 as [_ H1]. congruence.
  Qed.

  Lemma alloc_delete u h : alloc u -> alloc (u_delete h u).
  Proof.
    intros A a Ha. unfold u_delete in *. cbn [next present bonds] in *.
    destruct (A a Ha) as [Hp Hb]. split.
    - destruct (Nat.eq_dec h a) as [-> | N]; [apply upd_nat_same | rewrite upd_nat_other by assumption; exact Hp].
    - apply fold_del_nil. exact Hb.
  Qed.

  Lemma alloc_link u a b : alloc u -> alloc (u_link a b u).
  Proof.
    intros A c Hc.
    assert (E : next (u_link a b u) = next u) by (unfold u_link; destruct (present u a && present u b); reflexivity).
    rewrite E in Hc. destruct (A c Hc) as [Hp Hb]. unfold u_link.
    destruct (present u a) eqn:Pa; destruct (present u b) eqn:Pb; cbn [andb]; try (split; assumption).
    cbn [present bonds]. split; [exact Hp|].
    rewrite !link1_other by congruence. exact Hb.
  Qed.

  (* ---- primitives keep the invariant ---------------------------------------- *)

  Lemma P_add h u : GoodX (Some h) u -> Good (u_add size D h u).
  Proof.
    intros [A G]. split; [exact A|]. destruct G as [C Q].
    split; [apply C_add; exact C | exact Q].
  Qed.

  Lemma P_remove a u : Good u -> present u a = true -> GoodX (Some a) (u_remove a u).
  Proof.
    intros [A G] Hp. split; [exact A|]. destruct G as [C Q].
    split; [apply C_remove; assumption | exact Q].
  Qed.

  Lemma P_remove_absent a u : Good u -> present u a = false -> Good (u_remove a u).
  Proof.
    intros [A G] Hp. split; [exact A|]. destruct G as [C Q].
    split; [|exact Q]. cbn [cs u_remove present]. rewrite (C_remove_absent _ _ _ C Hp). exact C.
  Qed.

  Lemma P_write_some h p u : GoodX (Some h) u -> GoodX (Some h) (u_write h p u).
  Proof.
    intros [A G]. split; [exact A|]. destruct G as [C Q].
    split; [|exact Q]. apply C_write; [exact C|]. destruct C as (_ & _ & _ & X). apply (X h eq_refl).
  Qed.

  Lemma P_create p bs u : Good u -> GoodX (Some (next u)) (u_create p bs u).
  Proof.
    intros [A G]. split; [apply alloc_create; exact A|]. destruct G as [C Q].
    split; [|exact Q]. apply C_create; [exact C|]. apply (A (next u)). lia.
  Qed.

  Lemma P_delete_some h u : GoodX (Some h) u -> Good (u_delete h u).
  Proof.
    intros [A G]. split; [apply alloc_delete; exact A|]. destruct G as [C Q].
    split; [|exact Q]. cbn [cs present u_delete]. eapply C_delete; [exact C | | right; reflexivity].
    destruct C as (_ & _ & _ & X). apply (X h eq_refl).
  Qed.

  Lemma P_delete_absent a u : Good u -> present u a = false -> Good (u_delete a u).
  Proof.
    intros [A G] Hp. split; [apply alloc_delete; exact A|]. destruct G as [C Q].
    split; [|exact Q]. cbn [cs present u_delete]. eapply C_delete; [exact C | | left; reflexivity].
    destruct C as (_ & N & _ & _). destruct (cell_none_dec (cs u) a) as [E | E]; [exact E|].
    apply N in E. congruence.
  Qed.

  Lemma P_query a u : Good u -> Good (u_query a u).
  Proof.
    intros [A G]. split; [exact A|]. destruct G as [C Q].
    split; [exact C|]. unfold u_query, u_use. cbn [qlog]. constructor; [split; [exact C | reflexivity] | exact Q].
  Qed.

  Lemma P_link x a b u : GoodX x u -> GoodX x (u_link a b u).
  Proof.
    intros [A G]. split; [apply alloc_link; exact A|]. unfold u_link.
    destruct (present u a && present u b); exact G.
  Qed.

  (* ---- recurring shapes ---------------------------------------------------------- *)

  Lemma P_rewrite a p u : Good u -> Good (rewrite size D a p u).
  Proof.
    intros G. unfold rewrite. destruct (present u a) eqn:E; [|exact G].
    apply P_add, P_write_some, P_remove; assumption.
  Qed.

  Lemma P_remove_delete a u : Good u -> Good (remove_delete a u).
  Proof.
    intros G. unfold remove_delete. destruct (present u a) eqn:E.
    - apply P_delete_some, P_remove; assumption.
    - apply P_delete_absent; [apply P_remove_absent; assumption | exact E].
  Qed.

  Lemma P_create_add p bs u : Good u -> Good (create_add size D p bs u).
  Proof.
    intros G. unfold create_add.
    replace (next u) with (next u) by reflexivity.
    apply P_add. apply P_create. exact G.
  Qed.

  Lemma for_each_ind {A} (P : ustate -> Prop) (body : A -> ustate -> ustate) l :
    (forall x u, P u -> P (body x u)) -> forall u, P u -> P (for_each l body u).
  Proof.
    intros H. unfold for_each. induction l as [|x r IH]; intros u Hu; cbn [fold_left]; [exact Hu|].
    apply IH. apply H. exact Hu.
  Qed.

  Lemma for_i_ind (P : ustate -> Prop) (body : nat -> ustate -> ustate) n :
    (forall i u, P u -> P (body i u)) -> forall u, P u -> P (for_i n body u).
  Proof.
    intros H. unfold for_i. generalize (seq 0 n). induction l as [|x r IH]; intros u Hu; cbn [fold_left]; [exact Hu|].
    apply IH. apply H. exact Hu.
  Qed.

  Lemma P_remove_delete_all l u : Good u -> Good (remove_delete_all l u).
  Proof. apply for_each_ind. intros. apply P_remove_delete. assumption. Qed.

  Lemma P_set_dihedral atoms f u : Good u -> Good (set_dihedral_angle size D atoms f u).
  Proof. apply for_each_ind. intros. apply P_rewrite. assumption. Qed.

  Lemma P_queries qs u : Good u -> Good (for_each qs u_query u).
  Proof. apply for_each_ind. intros. apply P_query. assumption. Qed.

  (* ---- rotations ------------------------------------------------------------------ *)

  Definition writes (l : list nat) (f : nat -> pos) (u : ustate) : ustate :=
    fold_left (fun u m => u_write m (f m) u) l u.

  Lemma rotate_writes pv atom f u : u_rotate pv atom f u = writes (moved u pv atom) f u.
  Proof. reflexivity. Qed.

  (* u' differs from u at most in the coordinates of the atoms ms *)
  Definition frame (ms : list nat) (u u' : ustate) : Prop :=
    present u' = present u /\ bonds u' = bonds u /\ next u' = next u /\
    qlog u' = qlog u /\ cellmap (cs u') = cellmap (cs u) /\ cell_of (cs u') = cell_of (cs u) /\
    forall a, ~ In a ms -> posn (cs u') a = posn (cs u) a.

  Lemma frame_refl ms u : frame ms u u.
  Proof. repeat split. Qed.

  Lemma frame_trans ms u1 u2 u3 : frame ms u1 u2 -> frame ms u2 u3 -> frame ms u1 u3.
  Proof.
    intros (a1 & a2 & a3 & a5 & a6 & a7 & a8) (b1 & b2 & b3 & b5 & b6 & b7 & b8).
    repeat split; try congruence. intros a Ha. rewrite b8, a8 by assumption. reflexivity.
  Qed.

  Lemma frame_write ms a p u : In a ms -> frame ms u (u_write a p u).
  Proof.
    intros H. repeat split. intros b Hb. cbn [cs u_write move posn].
    apply upd_nat_other. intros ->. contradiction.
  Qed.

  Lemma frame_writes ms f : forall l u, (forall m, In m l -> In m ms) -> frame ms u (writes l f u).
  Proof.
    induction l as [|m r IH]; intros u H; cbn [writes fold_left]; [apply frame_refl|].
    eapply frame_trans; [apply (frame_write ms m (f m) u); apply H; left; reflexivity|].
    apply IH. intros x Hx. apply H. right. exact Hx.
  Qed.

  Lemma moved_frame ms u u' pv atom : frame ms u u' -> moved u' pv atom = moved u pv atom.
  Proof. intros (_ & E & _). unfold moved. rewrite E. reflexivity. Qed.

  Lemma frame_rot_n n pv atom g u :
    frame (moved u pv atom) u (for_i n (fun i => u_rotate pv atom (g i)) u).
  Proof.
    set (ms := moved u pv atom).
    apply (for_i_ind (fun u' => frame ms u u')); [|apply frame_refl].
    intros i u' F. eapply frame_trans; [exact F|].
    rewrite rotate_writes. apply frame_writes. rewrite (moved_frame ms u u') by assumption. auto.
  Qed.

  (* rotating while the only rotated atom is the unregistered one *)
  Lemma P_writes_some h f : forall l u, (forall m, In m l -> m = h) ->
    GoodX (Some h) u -> GoodX (Some h) (writes l f u).
  Proof.
    induction l as [|m r IH]; intros u H G; cbn [writes fold_left]; [exact G|].
    apply IH; [intros x Hx; apply H; right; exact Hx|].
    rewrite (H m (or_introl eq_refl)). apply P_write_some. exact G.
  Qed.

  (* bond list = the pivot, possibly followed by h *)
  Definition pv_h (pv h : nat) (l : list nat) : Prop := l = [pv] \/ l = [pv; h].

  Lemma moved_pv_h u pv h atom : pv_h pv h (bonds u atom) -> forall m, In m (moved u pv atom) -> m = h.
  Proof.
    intros H m Hm. unfold moved in Hm. apply filter_In in Hm as [Hi Hn].
    apply negb_true_iff, Nat.eqb_neq in Hn.
    destruct H as [H | H]; rewrite H in Hi; cbn [In] in Hi; intuition congruence.
  Qed.

  Lemma P_rotate_some pv h atom f u : pv_h pv h (bonds u atom) ->
    GoodX (Some h) u -> GoodX (Some h) (u_rotate pv atom f u) /\ bonds (u_rotate pv atom f u) = bonds u.
  Proof.
    intros B G. rewrite rotate_writes. split.
    - apply P_writes_some; [apply (moved_pv_h u pv h atom B) | exact G].
    - apply (frame_writes (moved u pv atom)). auto.
  Qed.

  Lemma P_rot_n_some n pv h atom f u : pv_h pv h (bonds u atom) ->
    GoodX (Some h) u ->
    GoodX (Some h) (for_i n (fun i => u_rotate pv atom (f i)) u) /\
    bonds (for_i n (fun i => u_rotate pv atom (f i)) u) = bonds u.
  Proof.
    intros B G.
    apply (for_i_ind (fun u' => GoodX (Some h) u' /\ bonds u' = bonds u)); [|split; [exact G | reflexivity]].
    intros i u' [G' E]. destruct (P_rotate_some pv h atom (f i) u') as [G2 E2]; [rewrite E; exact B | exact G' |].
    split; [exact G2 | congruence].
  Qed.

  Lemma hd_pv_h pv h l : pv_h pv h l -> hd 0%nat l = pv.
  Proof. intros [-> | ->]; reflexivity. Qed.

  (* create_atom on an atom whose bond list is just the pivot *)
  Lemma create_pv_h u p bs atom pv : alloc u -> bonds u atom = [pv] ->
    pv_h pv (next u) (bonds (u_create p bs u) atom).
  Proof.
    intros A B.
    assert (atom <> next u).
    { intros ->. destruct (A (next u) (le_n _)) as [_ E]. congruence. }
    destruct (create_bonds u p bs atom H) as [E | E]; rewrite E, B; [left | right]; reflexivity.
  Qed.

  (* ---- optimize.py -------------------------------------------------------------------- *)

  Lemma P_try_single_h donor h f best pv u : pv_h pv h (bonds u donor) -> GoodX (Some h) u ->
    Good (try_single_alcoholic_h size D donor h f best u).
  Proof.
    intros B G. unfold try_single_alcoholic_h. rewrite (hd_pv_h pv h _ B).
    destruct (P_rot_n_some 72 pv h donor f u B G) as [G' _].
    destruct best as [p|]; [apply P_add, P_write_some | apply P_delete_some]; exact G'.
  Qed.

  Lemma P_try_single_lp acc h hb f best pv u : pv_h pv h (bonds u acc) -> GoodX (Some h) u ->
    Good (try_single_alcoholic_lp size D acc h hb f best u).
  Proof.
    intros B G. unfold try_single_alcoholic_lp. rewrite (hd_pv_h pv h _ B).
    destruct hb; cbn [negb]; [|apply P_delete_some; exact G].
    destruct (P_rot_n_some 72 pv h acc f u B G) as [G' _].
    destruct best as [p|]; [apply P_add, P_write_some | apply P_delete_some]; exact G'.
  Qed.

  Lemma P_two_h loc1 loc2 bs best u : Good u -> Good (try_positions_with_two_bonds_h size D loc1 loc2 bs best u).
  Proof.
    intros G. unfold try_positions_with_two_bonds_h.
    pose proof (P_write_some _ loc2 _ (P_create loc1 bs u G)) as G1.
    destruct best as [p|]; [apply P_add, P_write_some | apply P_delete_some]; exact G1.
  Qed.

  Lemma P_two_lp acc hb loc1 loc2 bs best u : Good u -> Good (try_positions_with_two_bonds_lp size D acc hb loc1 loc2 bs best u).
  Proof.
    intros G. unfold try_positions_with_two_bonds_lp. destruct hb; cbn [negb]; [|exact G].
    pose proof (P_write_some _ loc2 _ (P_create loc1 bs u G)) as G1.
    destruct best as [p|]; [apply P_link, P_add, P_write_some | apply P_delete_some]; exact G1.
  Qed.

  Lemma P_three_h loc bs hb u : Good u -> Good (try_positions_three_bonds_h size D loc bs hb u).
  Proof.
    intros G. unfold try_positions_three_bonds_h.
    destruct hb; [apply P_add | apply P_delete_some]; apply P_create; exact G.
  Qed.

  Lemma P_three_lp acc hb loc bs ok u : Good u -> Good (try_positions_three_bonds_lp size D acc hb loc bs ok u).
  Proof.
    intros G. unfold try_positions_three_bonds_lp. destruct hb; cbn [negb]; [|exact G].
    destruct ok; cbn [negb]; [apply P_link, P_add | apply P_delete_some]; apply P_create; exact G.
  Qed.

  (* get_positions_with_two_bonds / get_position_with_three_bonds: registered atoms are
     rotated three times; the cell list stays truthful exactly when each of them ends in
     the cell it is listed in - that is what the ghost flag records *)
  Lemma consistent_frame ms u u' pr x : frame ms u u' -> consistent (cs u) pr x ->
    (forall m k, In m ms -> cell_of (cs u) m = Some k -> k = key_of size D (posn (cs u') m)) ->
    consistent (cs u') pr x.
  Proof.
    intros (_ & _ & _ & _ & Em & Ec & Ep) ([F I B N] & G & A & X) H.
    split; [|rewrite Ec; auto].
    split.
    - intros a k Ha. rewrite Ec in Ha. destruct (in_dec Nat.eq_dec a ms) as [Hi | Hi].
      + apply (H a k Hi Ha).
      + rewrite Ep by assumption. apply F. exact Ha.
    - intros a k. rewrite Ec, Em. apply I.
    - intros a k. rewrite Ec, Em. apply B.
    - intros k. rewrite Em. apply N.
  Qed.

  Lemma writes_last (p : nat -> pos) : forall l u a, In a l -> posn (cs (writes l p u)) a = p a.
  Proof.
    induction l as [|m r IH]; intros u a Ha; [contradiction|]. cbn [writes fold_left].
    destruct (in_dec Nat.eq_dec a r) as [Hr | Hr]; [apply IH; exact Hr|].
    destruct Ha as [-> | Ha]; [|contradiction].
    destruct (frame_writes r p r (u_write a (p a) u) (fun m H => H)) as (_ & _ & _ & _ & _ & _ & E).
    fold (writes r p (u_write a (p a) u)). rewrite E by assumption.
    cbn [cs u_write move posn]. apply upd_nat_same.
  Qed.

  Lemma P_rot3 atom g u : Good u -> Good (rot3 atom g u).
  Proof.
    intros [A G]. unfold rot3.
    set (pv := hd 0%nat (bonds u atom)). set (ms := moved u pv atom).
    set (u' := for_i 2 (fun i => u_rotate pv atom (g i)) u).
    change (for_each ms (fun m => u_write m (posn (cs u) m)) u') with (writes ms (posn (cs u)) u').
    set (u2 := writes ms (posn (cs u)) u').
    assert (F : frame ms u u2).
    { eapply frame_trans; [apply (frame_rot_n 2 pv atom g u) | apply frame_writes; auto]. }
    assert (R : forall m, In m ms -> posn (cs u2) m = posn (cs u) m) by (intros m Hm; apply writes_last; exact Hm).
    pose proof F as (F1 & F2 & F3 & F5 & F6 & F7 & F8).
    split.
    - intros a Ha. rewrite F1, F2. apply A. rewrite <- F3. exact Ha.
    - destruct G as [C Q]. split; [|rewrite F5; exact Q].
      rewrite F1. apply (consistent_frame ms u u2); [exact F | exact C |].
      intros m k Hm Hk. rewrite (R m Hm). destruct C as ([Fr _ _ _] & _). apply Fr. exact Hk.
  Qed.

  (* ---- try_donor / try_acceptor --------------------------------------------------------- *)

  Lemma bonds_len1 (l : list nat) : List.length l = 1%nat -> exists pv, l = [pv].
  Proof. destruct l as [|a [|b r]]; cbn; try discriminate. intros _. exists a. reflexivity. Qed.

  Ltac by_len u a :=
    let E := fresh "E" in
    destruct (List.length (bonds u a)) as [|[|[|[|?]]]] eqn:E.

  Lemma P_alcoholic_try_donor o donor u : Good u -> Good (alcoholic_try_donor size D o donor u).
  Proof.
    intros G. unfold alcoholic_try_donor. destruct (t_enabled o); cbn [negb]; [|exact G].
    by_len u donor; try exact G.
    - destruct (bonds_len1 _ E) as [pv B].
      apply (P_try_single_h donor (next u) _ _ pv); [apply create_pv_h; [apply G | exact B] | apply P_create; exact G].
    - apply P_two_h, P_rot3, G.
    - apply P_three_h, P_rot3, G.
  Qed.

  Lemma P_alcoholic_try_acceptor o acc u : Good u -> Good (alcoholic_try_acceptor size D o acc u).
  Proof.
    intros G. unfold alcoholic_try_acceptor. destruct (t_enabled o); cbn [negb]; [|exact G].
    by_len u acc; try exact G.
    - destruct (bonds_len1 _ E) as [pv B].
      apply (P_try_single_lp acc (next u) _ _ _ pv); [apply create_pv_h; [apply G | exact B] | apply P_create; exact G].
    - apply P_two_lp, P_rot3, G.
    - apply P_three_lp, P_rot3, G.
  Qed.

  Lemma P_water_try_donor o donor u : Good u -> Good (water_try_donor size D o donor u).
  Proof.
    intros G. unfold water_try_donor. destruct (t_enabled o); cbn [negb]; [|exact G].
    by_len u donor; try exact G.
    - unfold make_atom_with_no_bonds. destruct (t_hbond o); [apply P_create_add, G | apply P_remove_delete, P_create_add, G].
    - destruct (bonds_len1 _ E) as [pv B].
      apply (P_try_single_h donor (next u) _ _ pv); [apply create_pv_h; [apply G | exact B] | apply P_create; exact G].
    - apply P_two_h, P_rot3, G.
    - apply P_three_h, P_rot3, G.
  Qed.

  Lemma P_water_try_acceptor o acc u : Good u -> Good (water_try_acceptor size D o acc u).
  Proof.
    intros G. unfold water_try_acceptor. destruct (t_enabled o); cbn [negb]; [|exact G].
    by_len u acc; try exact G.
    - unfold make_atom_with_no_bonds. destruct (t_hbond o); [apply P_create_add, G | exact G].
    - destruct (bonds_len1 _ E) as [pv B].
      apply (P_try_single_lp acc (next u) _ _ _ pv); [apply create_pv_h; [apply G | exact B] | apply P_create; exact G].
    - apply P_two_lp, P_rot3, G.
    - apply P_three_lp, P_rot3, G.
  Qed.

  (* ---- finalize ------------------------------------------------------------------------- *)

  (* the 18-step loop of Alcoholic.finalize / Water.finalize: remove_cell(h);
     rotate; add_cell(h); get_near_cells(qa) *)
  Lemma P_loop18 n pv h atom qa f u : Good u -> present u h = true -> pv_h pv h (bonds u atom) ->
    let u' := for_i n (fun i u => u_query qa (u_add size D h (u_rotate pv atom (f i) (u_remove h u)))) u in
    Good u' /\ present u' h = true.
  Proof.
    intros G Hp B. cbv zeta.
    assert (K : let u' := for_i n (fun i u => u_query qa (u_add size D h (u_rotate pv atom (f i) (u_remove h u)))) u in
                Good u' /\ present u' h = true /\ bonds u' = bonds u).
    { apply (for_i_ind (fun u' => Good u' /\ present u' h = true /\ bonds u' = bonds u)); [|auto].
      intros i u' (G' & Hp' & E).
      pose proof (P_remove h u' G' Hp') as G1.
      destruct (P_rotate_some pv h atom (f i) (u_remove h u')) as [G2 E2]; [cbn [bonds u_remove]; rewrite E; exact B | exact G1 |].
      split; [apply P_query, P_add; exact G2|]. unfold u_query, u_use. cbn [present bonds u_add].
      rewrite rotate_writes.
      destruct (frame_writes (moved (u_remove h u') pv atom) (f i) (moved (u_remove h u') pv atom) (u_remove h u') (fun m H => H)) as (F1 & F2 & _).
      rewrite F1, F2. cbn [present bonds u_remove]. auto. }
    cbv zeta in K. destruct K as (K1 & K2 & _). auto.
  Qed.

  Lemma present_create u p bs : present (u_create p bs u) (next u) = true.
  Proof. unfold u_create. cbn [present]. apply upd_nat_same. Qed.

  Lemma P_best best h u : Good u -> Good (match best with Some p => rewrite size D h p u | None => u end).
  Proof. intros G. destruct best; [apply P_rewrite|]; exact G. Qed.

  Lemma P_alcoholic_finalize o atom u : Good u -> Good (alcoholic_finalize size D o atom u).
  Proof.
    intros G. unfold alcoholic_finalize. destruct (f_skip o); [exact G|].
    destruct (List.length (bonds u atom)) as [|[|[|[|?]]]] eqn:E; try exact G.
    - destruct (bonds_len1 _ E) as [pv B]. rewrite B. cbn [hd].
      apply P_best.
      apply (P_loop18 18 pv (next u) atom atom).
      + apply P_add, P_create, G.
      + cbn [present u_add]. apply present_create.
      + cbn [bonds u_add]. apply create_pv_h; [apply G | exact B].
    - set (u1 := get_positions_with_two_bonds atom (f_rot o) u).
      assert (G1 : Good u1) by (apply P_rot3; exact G).
      destruct (f_back o); [apply P_rewrite|]; apply P_rewrite, P_query, P_create_add, G1.
    - apply P_create_add, P_rot3, G.
  Qed.

  Lemma P_water_finalize fuel o atom : forall u, Good u -> Good (water_finalize size D fuel o atom u).
  Proof.
    induction fuel as [|k IH]; intros u G; cbn [water_finalize]; [exact G|].
    destruct (f_skip (o k)); [exact G|].
    destruct (List.length (bonds u atom)) as [|[|[|[|?]]]] eqn:E; try exact G.
    - apply IH, P_create_add, P_query, G.
    - destruct (bonds_len1 _ E) as [pv B]. rewrite B. cbn [hd].
      assert (G1 : Good (match f_best (o k) with
                         | Some p => rewrite size D (next u) p
                             (for_i 18 (fun i u0 => u_query (next u) (u_add size D (next u) (u_rotate pv atom (f_rot (o k) i) (u_remove (next u) u0))))
                                (u_add size D (next u) (make_atom_with_one_bond (f_p0 (o k)) (atom :: f_bs (o k)) u)))
                         | None => for_i 18 (fun i u0 => u_query (next u) (u_add size D (next u) (u_rotate pv atom (f_rot (o k) i) (u_remove (next u) u0))))
                                (u_add size D (next u) (make_atom_with_one_bond (f_p0 (o k)) (atom :: f_bs (o k)) u))
                         end)).
      { apply P_best. apply (P_loop18 18 pv (next u) atom (next u)).
        - apply P_add, P_create, G.
        - cbn [present u_add]. apply present_create.
        - cbn [bonds u_add]. apply create_pv_h; [apply G | exact B]. }
      destruct (f_again (o k)); [apply IH|]; exact G1.
    - set (u1 := get_positions_with_two_bonds atom (f_rot (o k)) u).
      assert (G1 : Good u1) by (apply P_rot3; exact G).
      assert (G2 : Good (u_query (next u1) (create_add size D (f_p0 (o k)) (f_bs (o k)) u1))) by (apply P_query, P_create_add, G1).
      destruct (f_near (o k)).
      + destruct (f_back (o k)); destruct (f_again (o k)); try apply IH; try apply P_rewrite; try apply P_query; try apply P_rewrite; exact G2.
      + destruct (f_again (o k)); [apply IH|]; exact G2.
    - apply P_create_add, P_rot3, G.
  Qed.

  (* ---- structures.py --------------------------------------------------------------------- *)

  Lemma P_flip_init atoms f news u : Good u -> Good (flip_init size D atoms f news u).
  Proof.
    intros G. unfold flip_init. apply for_each_ind; [intros; apply P_create_add; assumption|].
    apply P_set_dihedral, G.
  Qed.

  Lemma P_flip_finalize fixed dels u : Good u -> Good (flip_finalize fixed dels u).
  Proof. intros G. unfold flip_finalize. destruct fixed; [exact G | apply P_remove_delete_all, G]. Qed.

  Lemma P_alcoholic_init has a u : Good u -> Good (alcoholic_init has a u).
  Proof. intros G. unfold alcoholic_init. destruct has; [apply P_remove_delete|]; exact G. Qed.

  Lemma P_try_both_undo mine other ok undo u :
    (forall u, Good u -> Good (mine u)) -> (forall u, Good u -> Good (other u)) ->
    Good u -> Good (try_both_undo mine other ok undo u).
  Proof.
    intros Hm Ho G. unfold try_both_undo. destruct ok; [apply Ho, Hm, G|].
    destruct undo; [apply P_remove_delete|]; apply Ho, Hm, G.
  Qed.

  Lemma P_carboxylic_init steps u : Good u -> Good (carboxylic_init size D steps u).
  Proof.
    unfold carboxylic_init. apply for_each_ind. intros [[d1 d2] n] u' G.
    apply P_create_add, P_set_dihedral, P_set_dihedral, G.
  Qed.

  Lemma P_carboxylic_rename del u : Good u -> Good (carboxylic_rename del u).
  Proof. intros G. destruct del; [apply P_remove_delete|]; exact G. Qed.

  Lemma P_carboxylic_fix dels ren u : Good u -> Good (carboxylic_fix dels ren u).
  Proof. intros G. apply P_carboxylic_rename, P_remove_delete_all, G. Qed.

  Lemma P_carboxylic_try_acceptor del ren u : Good u -> Good (carboxylic_try_acceptor del ren u).
  Proof.
    intros G. unfold carboxylic_try_acceptor.
    assert (G1 : Good (match del with Some a => remove_delete a u | None => u end)) by (destruct del; [apply P_remove_delete|]; exact G).
    destruct ren; [apply P_carboxylic_rename|]; exact G1.
  Qed.

  Lemma P_carboxylic_finalize fixed qs dels ren u : Good u -> Good (carboxylic_finalize fixed qs dels ren u).
  Proof.
    intros G. unfold carboxylic_finalize. destruct fixed; [exact G|].
    assert (G1 : Good (remove_delete_all dels (for_each qs u_query u))) by (apply P_remove_delete_all, P_queries, G).
    destruct ren; [apply P_carboxylic_rename|]; exact G1.
  Qed.

  Lemma P_debump_run sc u : Good u -> Good (debump_run size D sc u).
  Proof.
    unfold debump_run. apply for_each_ind. intros [[atoms f] | a] u' G; [apply P_set_dihedral | apply P_query]; exact G.
  Qed.

  (* ---- histories ---------------------------------------------------------------------------- *)

  Theorem run_call_good c u : Good u -> Good (run_call size D c u).
  Proof.
    intros G. destruct c; cbn [run_call].
    - apply P_set_dihedral, G.
    - apply P_debump_run, G.
    - apply P_queries, G.
    - apply P_flip_init, G.
    - apply P_remove_delete_all, G.
    - apply P_flip_finalize, G.
    - apply P_alcoholic_init, G.
    - apply P_alcoholic_try_donor, G.
    - apply P_alcoholic_try_acceptor, G.
    - apply P_water_try_donor, G.
    - apply P_water_try_acceptor, G.
    - apply P_remove_delete, G.
    - apply P_alcoholic_finalize, G.
    - apply P_water_finalize, G.
    - apply P_remove_delete_all, G.
    - apply P_carboxylic_init, G.
    - apply P_carboxylic_try_acceptor, G.
    - apply P_carboxylic_fix, G.
    - apply P_carboxylic_finalize, G.
  Qed.

  Theorem run_calls_good cl : forall u, Good u -> Good (run_calls size D cl u).
  Proof.
    unfold run_calls. induction cl as [|c r IH]; intros u G; cbn [fold_left]; [exact G|].
    apply IH, run_call_good, G.
  Qed.

  (* assign_cells on a new Cells object *)
  Lemma assign_aux : forall l u, Inv (cs u) -> NoDup l -> (forall a, In a l -> cell_of (cs u) a = None) ->
    let u' := for_each l (u_add size D) u in
    Inv (cs u') /\ (forall a, cell_of (cs u') a <> None <-> cell_of (cs u) a <> None \/ In a l) /\
    present u' = present u /\ bonds u' = bonds u /\ next u' = next u /\ qlog u' = qlog u.
  Proof.
    induction l as [|a r IH]; intros u I N H; cbv zeta; unfold for_each; cbn [fold_left].
    - split; [exact I|]. split; [intros a; cbn [In]; tauto|]. repeat split.
    - inversion N as [|? ? Na Nr]; subst.
      destruct (IH (u_add size D a u)) as (I1 & R1 & E1 & E2 & E3 & E5).
      + cbn [cs u_add]. apply inv_add; [exact I | apply H; left; reflexivity].
      + exact Nr.
      + intros b Hb. cbn [cs u_add]. rewrite cell_of_add.
        destruct (Nat.eqb a b) eqn:E; [apply Nat.eqb_eq in E; subst b; contradiction|]. apply H. right. exact Hb.
      + unfold for_each in *. split; [exact I1|]. split; [|auto].
        intros b. rewrite R1. cbn [cs u_add]. rewrite cell_of_add. destruct (Nat.eqb a b) eqn:E.
        * apply Nat.eqb_eq in E. subst b. split; [intros _; right; left; reflexivity | intros _; left; discriminate].
        * cbn [In]. apply Nat.eqb_neq in E. intuition congruence.
  Qed.

  Theorem P_assign atoms u0 : NoDup atoms -> (forall a, In a atoms <-> present u0 a = true) -> alloc u0 ->
    Good (assign_cells size D atoms u0).
  Proof.
    intros N H A. unfold assign_cells.
    set (b := mkU (mk (fun _ => []) (fun _ => None) (posn (cs u0))) (present u0) (bonds u0) (next u0) []).
    destruct (assign_aux atoms b) as (I1 & R1 & E1 & E2 & E3 & E5).
    - cbn [cs b]. apply (inv_init size D).
    - exact N.
    - reflexivity.
    - split.
      + intros a Ha. rewrite E3 in Ha. rewrite E1, E2. apply A. exact Ha.
      + split; [|rewrite E5; constructor].
        split; [exact I1|]. rewrite E1. cbn [present b]. split; [|split].
        * intros a Ha. apply R1 in Ha as [Ha | Ha]; [cbn in Ha; congruence | apply H; exact Ha].
        * intros a Ha. left. apply R1. right. apply H. exact Ha.
        * intros ? [=].
  Qed.

  (* a truthful cell list answers like brute force over the atoms of the structure *)
  Theorem consistent_query_exact c pr a b c0 :
    consistent c pr None -> 0 <= c0 <= D * size -> pr a = true ->
    (In b (filter (within c0 c a) (get_near_cells size c a)) <->
     pr b = true /\ b <> a /\ within c0 c a b = true).
  Proof.
    intros (I & G & A & _) Hc Ha.
    assert (Ra : registered c a) by (destruct (A a Ha) as [R | [=]]; exact R).
    rewrite (query_exact size D Hsize HD c a b c0 I Hc Ra). unfold registered. split.
    - intros (R & N & W). auto.
    - intros (P & N & W). destruct (A b P) as [R | [=]]. auto.
  Qed.

  Theorem histories_of_protocols atoms u0 cl :
    NoDup atoms -> (forall a, In a atoms <-> present u0 a = true) -> alloc u0 ->
    let u := run_calls size D cl (assign_cells size D atoms u0) in
    (forall q, In q (qlog u) -> q_used q = q_atom q) /\
    (forall q, In q (qlog u) -> q_present q (q_used q) = true ->
       forall b c0, 0 <= c0 <= D * size ->
       (In b (filter (within c0 (q_cs q) (q_used q)) (get_near_cells size (q_cs q) (q_atom q))) <->
        q_present q b = true /\ b <> q_used q /\ within c0 (q_cs q) (q_used q) b = true)) /\
    (forall a, present u a = true -> forall b c0, 0 <= c0 <= D * size ->
       (In b (filter (within c0 (cs u) a) (get_near_cells size (cs u) a)) <->
        present u b = true /\ b <> a /\ within c0 (cs u) a b = true)).
  Proof.
    intros N H A u.
    destruct (run_calls_good cl _ (P_assign atoms u0 N H A)) as [_ G]. fold u in G.
    destruct G as [C Q]. rewrite Forall_forall in Q. split; [|split].
    - intros q Hq. apply (Q q Hq).
    - intros q Hq Ha b c0 Hc. destruct (Q q Hq) as [Cq E]. rewrite E in *.
      apply consistent_query_exact; auto.
    - intros a Ha b c0 Hc. apply consistent_query_exact; auto.
  Qed.
End P.

(* ---- why the block must be the one queried for the atom it is used for ----------------------- *)

(* atoms 0 and 1 of one group lie in different cells (x = 4.5 and x = 5.5, size 5, D = 10);
   atom 2 at x = 10.4 is 4.9 from atom 1 and 5.9 from atom 0.  The block
   queried for atom 0 and reused for atom 1 does not contain atom 2 (it lies two cells from
   atom 0), although atom 2 is within range of atom 1; the block queried for atom 1 has it. *)
Definition reuse_u : ustate :=
  assign_cells 5 10 [0%nat; 1%nat; 2%nat]
    (mkU (mk (fun _ => []) (fun _ => None)
             (fun a => match a with 0%nat => (45, 0, 0) | 1%nat => (55, 0, 0) | _ => (104, 0, 0) end))
         (fun a => Nat.ltb a 3) (fun _ => []) 3 []).

Theorem block_reuse_misses :
  Good 5 10 reuse_u /\
  let q := mkQ 0%nat 1%nat (cs reuse_u) (present reuse_u) in
  q_present q 2%nat = true /\ within 50 (q_cs q) (q_used q) 2%nat = true /\
  ~ In 2%nat (get_near_cells 5 (q_cs q) (q_atom q)) /\
  In 2%nat (get_near_cells 5 (q_cs q) (q_used q)).
Proof.
  split.
  - apply P_assign; try lia.
    + repeat constructor; cbn; intuition lia.
    + intros a. cbn [present In]. destruct a as [|[|[|a]]]; cbn; intuition (try lia; try discriminate).
    + intros a Ha. cbn [next present bonds] in *. split; [apply Nat.ltb_ge; exact Ha | reflexivity].
  - vm_compute. repeat split; try reflexivity; intuition discriminate.
Qed.

(* ---- C14-F6 regression: a registered atom on a cell boundary ---------------------------- *)

(* water oxygen 0 with H1 = 1 (pivot) and H2 = 2 at x = 5.0 exactly (cell 5); atom 3 at
   x = 0.5.  Coordinates are numerators over D = 10, cell size 5.  Whatever the two
   rotations produce, H2 is written back to x = 5.0 and the query from atom 3 finds it.
   (Before e1a3cf3 a third rotation brought it back to 4.999999999999999, listed in cell 5
   but lying in cell 0.) *)
Definition f6_u0 : ustate :=
  mkU (mk (fun _ => []) (fun _ => None)
          (fun a => match a with 0%nat => (40, 0, 0) | 1%nat => (38, 8, 0) | 2%nat => (50, 0, 0) | _ => (5, 0, 0) end))
      (fun a => Nat.ltb a 4) (fun a => match a with 0%nat => [1%nat; 2%nat] | 1%nat => [0%nat] | 2%nat => [0%nat] | _ => [] end)
      4 [].
Definition f6_u : ustate := assign_cells 5 10 [0%nat; 1%nat; 2%nat; 3%nat] f6_u0.
Definition f6_g (i m : nat) : pos := match i with 0%nat => (41, 9, 3) | _ => (41, -2, -9) end.

Example get_positions_regression :
  let u' := get_positions_with_two_bonds 0%nat f6_g f6_u in
  posn (cs u') 2%nat = (50, 0, 0) /\ cell_of (cs u') 2%nat = Some (5, 0, 0) /\
  filter (within 50 (cs u') 3%nat) (get_near_cells 5 (cs u') 3%nat) = [0%nat; 1%nat; 2%nat].
Proof. vm_compute. repeat split. Qed.

(* non-vacuity of the history theorem: a window with a rotation, a created and
   re-bucketed hydrogen, a get_positions call and queries, with a non-empty answer *)
Example history_nonvacuous :
  let o := mkFin false (42, 5, 0) [0%nat] (fun i m => (42, 5, Z.of_nat i)) (Some (43, 4, 1)) (0, 0, 0) false true false in
  let t := mkTry true (41, -3, 2) [0%nat] (fun i m => (60, 60, Z.of_nat i)) true true (39, 2, -5) (Some (41, -3, 2)) in
  let u0 := mkU (mk (fun _ => []) (fun _ => None)
                    (fun a => match a with 0%nat => (40, 0, 0) | 1%nat => (38, 8, 0) | _ => (-1, 0, 0) end))
                (fun a => Nat.ltb a 3) (fun a => match a with 0%nat => [1%nat] | 1%nat => [0%nat] | _ => [] end) 3 [] in
  let u := run_calls 5 10 [CSetDihedral [1%nat] (fun _ => (38, 9, 1)); CAlcFinalize o 0%nat; CAlcTryAcceptor t 0%nat; CDetect [0%nat]] (assign_cells 5 10 [0%nat; 1%nat; 2%nat] u0) in
  List.length (qlog u) = 19%nat /\ present u 3%nat = true /\ present u 4%nat = true /\
  posn (cs u) 3%nat = (43, 4, 1) /\
  filter (within 50 (cs u) 0%nat) (get_near_cells 5 (cs u) 0%nat) = [2%nat; 4%nat; 1%nat; 3%nat].
Proof. vm_compute. repeat split. Qed.

Theorem T_protocol_assign_cells_disciplined : forall size D, 0 < size -> 0 < D ->
  forall atoms u0, NoDup atoms -> (forall a, In a atoms <-> present u0 a = true) -> alloc u0 ->
  Good size D (assign_cells size D atoms u0).
Proof. intros size D Hs HD atoms u0 N H A. exact (P_assign size D atoms u0 N H A). Qed.

Theorem T_protocol_carboxylic_disciplined : forall size D u, Good size D u ->
  (forall steps, Good size D (carboxylic_init size D steps u)) /\
  (forall del ren, Good size D (carboxylic_try_acceptor del ren u)) /\
  (forall dels ren, Good size D (carboxylic_fix dels ren u)) /\
  (forall fixed qs dels ren, Good size D (carboxylic_finalize fixed qs dels ren u)).
Proof.
  intros size D u G. split; [|split; [|split]]; intros.
  - apply P_carboxylic_init, G.
  - apply P_carboxylic_try_acceptor, G.
  - apply P_carboxylic_fix, G.
  - apply P_carboxylic_finalize, G.
Qed.

Theorem T_protocol_try_donor_acceptor_disciplined : forall size D o a u, Good size D u ->
  Good size D (alcoholic_try_donor size D o a u) /\ Good size D (alcoholic_try_acceptor size D o a u) /\
  Good size D (water_try_donor size D o a u) /\ Good size D (water_try_acceptor size D o a u).
Proof.
  intros size D o a u G. split; [|split; [|split]].
  - apply P_alcoholic_try_donor, G.
  - apply P_alcoholic_try_acceptor, G.
  - apply P_water_try_donor, G.
  - apply P_water_try_acceptor, G.
Qed.

Theorem T_protocol_finalize_disciplined : forall size D u, Good size D u ->
  (forall o atom, Good size D (alcoholic_finalize size D o atom u)) /\
  (forall fuel o atom, Good size D (water_finalize size D fuel o atom u)).
Proof.
  intros size D u G. split; intros.
  - apply P_alcoholic_finalize, G.
  - apply P_water_finalize, G.
Qed.

Theorem T_protocol_get_positions_disciplined : forall size D atom g u,
  Good size D u ->
  Good size D (get_positions_with_two_bonds atom g u) /\
  Good size D (get_position_with_three_bonds atom g u).
Proof. intros. split; apply P_rot3; assumption. Qed.
