(* Proofs about the cell-list model (C14). *)
From Coq Require Import ZArith List Bool Arith Lia.
From PV Require Import Model.Cells.
Import ListNotations.
Local Open Scope Z_scope.

(* ---- integer division helpers ------------------------------------------ *)

Lemma div_close S a b : 0 < S -> a <= b -> b - a < S -> a / S <= b / S <= a / S + 1.
Proof.
  intros HS Hab Hd. split.
  - apply Z.div_le_mono; lia.
  - assert (H : b / S <= (a + 1 * S) / S) by (apply Z.div_le_mono; lia).
    rewrite Z.div_add in H by lia. exact H.
Qed.

Lemma neg_div size n : 0 < size -> 0 <= n -> (- n - 1) / size = - (n / size) - 1.
Proof.
  intros Hs Hn. symmetry.
  apply (Z.div_unique_pos (- n - 1) size (- (n / size) - 1) (size - n mod size - 1)).
  - pose proof (Z.mod_pos_bound n size Hs). lia.
  - pose proof (Z.div_mod n size ltac:(lia)). nia.
Qed.

(* the code's two-step bucket is the cell index of width D*size, times size *)
Theorem key_code_idx size D m :
  0 < size -> 0 < D -> key_code size D m = idx (D * size) m * size.
Proof.
  intros Hs HD. unfold key_code, idx. destruct (m <? 0) eqn:E.
  - apply Z.ltb_lt in E.
    replace m with (- (- m)) at 1 by lia.
    rewrite Z.quot_opp_l by lia. rewrite Z.quot_div_nonneg by lia.
    rewrite neg_div by (try apply Z.div_pos; lia).
    rewrite Z.div_div by lia. reflexivity.
  - apply Z.ltb_ge in E. rewrite Z.quot_div_nonneg by lia.
    rewrite Z.div_div by lia. reflexivity.
Qed.

Theorem idx_mono S m1 m2 : 0 < S -> m1 <= m2 -> idx S m1 <= idx S m2.
Proof.
  intros HS H. unfold idx.
  destruct (m1 <? 0) eqn:E1; destruct (m2 <? 0) eqn:E2;
    try apply Z.ltb_lt in E1; try apply Z.ltb_lt in E2;
    try apply Z.ltb_ge in E1; try apply Z.ltb_ge in E2.
  - assert ((- m2) / S <= (- m1) / S) by (apply Z.div_le_mono; lia). lia.
  - assert (0 <= (- m1) / S) by (apply Z.div_pos; lia).
    assert (0 <= m2 / S) by (apply Z.div_pos; lia). lia.
  - lia.
  - apply Z.div_le_mono; lia.
Qed.

(* two coordinates closer than one cell width are in the same or adjacent cells *)
Theorem idx_adjacent S m1 m2 :
  0 < S -> Z.abs (m1 - m2) < S -> Z.abs (idx S m1 - idx S m2) <= 1.
Proof.
  intros HS H.
  assert (W : forall a b, a <= b -> b - a < S -> Z.abs (idx S a - idx S b) <= 1).
  { intros a b Hab Hd. unfold idx.
    destruct (a <? 0) eqn:E1; destruct (b <? 0) eqn:E2;
      try apply Z.ltb_lt in E1; try apply Z.ltb_lt in E2;
      try apply Z.ltb_ge in E1; try apply Z.ltb_ge in E2.
    - pose proof (div_close S (- b) (- a) HS ltac:(lia) ltac:(lia)). lia.
    - rewrite (Z.div_small (- a) S) by lia. rewrite (Z.div_small b S) by lia. lia.
    - lia.
    - pose proof (div_close S a b HS Hab Hd). lia. }
  destruct (Z.le_ge_cases m1 m2) as [L | L].
  - apply W; lia.
  - rewrite <- Z.abs_opp. replace (- (idx S m1 - idx S m2)) with (idx S m2 - idx S m1) by lia.
    apply W; lia.
Qed.

Lemma key_code_adjacent size D m1 m2 :
  0 < size -> 0 < D -> Z.abs (m1 - m2) < D * size ->
  In (key_code size D m2 - key_code size D m1) (offsets size).
Proof.
  intros Hs HD H. rewrite !key_code_idx by assumption.
  pose proof (idx_adjacent (D * size) m1 m2 ltac:(nia) H) as A.
  unfold offsets. cbn [In].
  assert (C : idx (D * size) m2 - idx (D * size) m1 = -1 \/
              idx (D * size) m2 - idx (D * size) m1 = 0 \/
              idx (D * size) m2 - idx (D * size) m1 = 1) by lia.
  destruct C as [C | [C | C]]; [left | right; left | right; right; left]; nia.
Qed.

Lemma sq_lt_abs d c S : 0 <= c <= S -> d * d < c * c -> Z.abs d < S.
Proof. intros Hc H. nia. Qed.

(* ---- maps --------------------------------------------------------------- *)

Lemma key_eqb_eq a b : key_eqb a b = true <-> a = b.
Proof.
  destruct a as [[a1 a2] a3], b as [[b1 b2] b3]. unfold key_eqb.
  rewrite !andb_true_iff, !Z.eqb_eq. split.
  - intros [[-> ->] ->]. reflexivity.
  - intros [= -> -> ->]. auto.
Qed.

Lemma key_eqb_refl a : key_eqb a a = true.
Proof. apply key_eqb_eq. reflexivity. Qed.

Lemma key_eqb_neq a b : a <> b -> key_eqb a b = false.
Proof. intros H. destruct (key_eqb a b) eqn:E; [apply key_eqb_eq in E; contradiction | reflexivity]. Qed.

Lemma key_dec (a b : key) : {a = b} + {a <> b}.
Proof. repeat decide equality. Qed.

Lemma upd_key_same {B} (f : key -> B) k v : upd key_eqb f k v k = v.
Proof. unfold upd. now rewrite key_eqb_refl. Qed.

Lemma upd_key_other {B} (f : key -> B) k v k' : k <> k' -> upd key_eqb f k v k' = f k'.
Proof. intros H. unfold upd. now rewrite key_eqb_neq. Qed.

Lemma upd_nat_same {B} (f : nat -> B) a v : upd Nat.eqb f a v a = v.
Proof. unfold upd. now rewrite Nat.eqb_refl. Qed.

Lemma upd_nat_other {B} (f : nat -> B) a v b : a <> b -> upd Nat.eqb f a v b = f b.
Proof. intros H. unfold upd. apply Nat.eqb_neq in H. now rewrite H. Qed.

Lemma remove_first_in a b l : In b (remove_first a l) -> In b l.
Proof.
  induction l as [|x r IH]; simpl; [tauto|].
  destruct (Nat.eqb a x); simpl; intuition.
Qed.

Lemma remove_first_nodup a l : NoDup l -> NoDup (remove_first a l) /\ ~ In a (remove_first a l).
Proof.
  induction 1 as [|x r Hx Hr IH]; simpl.
  - split; [constructor | tauto].
  - destruct (Nat.eqb a x) eqn:E.
    + apply Nat.eqb_eq in E. subst x. split; assumption.
    + apply Nat.eqb_neq in E. destruct IH as [IH1 IH2]. split.
      * constructor; [|assumption]. intros H. apply Hx. eapply remove_first_in; eauto.
      * simpl. intuition.
Qed.

Lemma remove_first_keep a b l : a <> b -> In b l -> In b (remove_first a l).
Proof.
  intros Hab. induction l as [|x r IH]; simpl; [tauto|].
  destruct (Nat.eqb a x) eqn:E.
  - apply Nat.eqb_eq in E. subst x. intros [H | H]; [congruence | assumption].
  - simpl. intuition.
Qed.

Lemma NoDup_app_1 {A} (l1 l2 : list A) :
  NoDup l1 -> NoDup l2 -> (forall x, In x l1 -> In x l2 -> False) -> NoDup (l1 ++ l2).
Proof.
  induction 1 as [|x r Hx Hr IH]; intros H2 Hd; simpl; [assumption|].
  constructor.
  - intros H. apply in_app_or in H as [H | H]; [contradiction | apply (Hd x); [left; reflexivity | assumption]].
  - apply IH; [assumption|]. intros y Hy1 Hy2. apply (Hd y); [right; assumption | assumption].
Qed.

(* ---- invariant ------------------------------------------------------------ *)

Section Inv.
  Variables size D : Z.
  Hypothesis Hsize : 0 < size.
  Hypothesis HD : 0 < D.

  Definition registered (s : state) (a : nat) : Prop := cell_of s a <> None.

  Record Inv (s : state) : Prop := {
    inv_fresh : forall a k, cell_of s a = Some k -> k = key_of size D (posn s a);
    inv_in : forall a k, cell_of s a = Some k -> In a (cellmap s k);
    inv_back : forall a k, In a (cellmap s k) -> cell_of s a = Some k;
    inv_nodup : forall k, NoDup (cellmap s k)
  }.

  Lemma inv_init p0 : Inv (init p0).
  Proof. split; simpl; try discriminate; try tauto. constructor. Qed.

  (* the discipline under which the cell map stays truthful *)
  Definition disciplined (s : state) (o : op) : Prop :=
    match o with
    | Add a => cell_of s a = None
    | Remove _ => True
    | Move a _ => cell_of s a = None
    end.

  Lemma inv_add s a : Inv s -> cell_of s a = None -> Inv (add_cell size D s a).
  Proof.
    intros [F I B N] Ha. unfold add_cell.
    set (k := key_of size D (posn s a)).
    split; cbn [cellmap cell_of posn].
    - intros b kb H. destruct (Nat.eq_dec a b) as [<- | Hab].
      + rewrite upd_nat_same in H. injection H as <-. reflexivity.
      + rewrite upd_nat_other in H by assumption. auto.
    - intros b kb H. destruct (Nat.eq_dec a b) as [<- | Hab].
      + rewrite upd_nat_same in H. injection H as <-. rewrite upd_key_same.
        apply in_or_app. right. left. reflexivity.
      + rewrite upd_nat_other in H by assumption.
        destruct (key_dec k kb) as [<- | Hk].
        * rewrite upd_key_same. apply in_or_app. left. auto.
        * rewrite upd_key_other by assumption. auto.
    - intros b kb H. destruct (key_dec k kb) as [<- | Hk].
      + rewrite upd_key_same in H. apply in_app_or in H as [H | [<- | []]].
        * assert (a <> b) by (intros <-; rewrite (B _ _ H) in Ha; discriminate).
          rewrite upd_nat_other by assumption. auto.
        * now rewrite upd_nat_same.
      + rewrite upd_key_other in H by assumption.
        assert (a <> b) by (intros <-; rewrite (B _ _ H) in Ha; discriminate).
        rewrite upd_nat_other by assumption. auto.
    - intros kb. destruct (key_dec k kb) as [<- | Hk].
      + rewrite upd_key_same. apply NoDup_app_1; [apply N | repeat constructor; simpl; tauto |].
        intros x Hx [<- | []]. rewrite (B _ _ Hx) in Ha. discriminate.
      + rewrite upd_key_other by assumption. apply N.
  Qed.

  Lemma inv_remove s a : Inv s -> Inv (remove_cell s a).
  Proof.
    intros [F I B N]. unfold remove_cell. destruct (cell_of s a) as [k|] eqn:Ha.
    2: { split; assumption. }
    destruct (remove_first_nodup a _ (N k)) as [N1 N2].
    split; cbn [cellmap cell_of posn].
    - intros b kb H. destruct (Nat.eq_dec a b) as [<- | Hab].
      + rewrite upd_nat_same in H. discriminate.
      + rewrite upd_nat_other in H by assumption. auto.
    - intros b kb H. destruct (Nat.eq_dec a b) as [<- | Hab].
      + rewrite upd_nat_same in H. discriminate.
      + rewrite upd_nat_other in H by assumption.
        destruct (key_dec k kb) as [<- | Hk].
        * rewrite upd_key_same. apply remove_first_keep; auto.
        * rewrite upd_key_other by assumption. auto.
    - intros b kb H. destruct (key_dec k kb) as [<- | Hk].
      + rewrite upd_key_same in H.
        assert (a <> b) by (intros <-; contradiction).
        rewrite upd_nat_other by assumption. apply B. eapply remove_first_in; eauto.
      + rewrite upd_key_other in H by assumption.
        assert (a <> b) by (intros <-; rewrite (B _ _ H) in Ha; congruence).
        rewrite upd_nat_other by assumption. auto.
    - intros kb. destruct (key_dec k kb) as [<- | Hk].
      + now rewrite upd_key_same.
      + rewrite upd_key_other by assumption. apply N.
  Qed.

  Lemma inv_move s a p : Inv s -> cell_of s a = None -> Inv (move s a p).
  Proof.
    intros [F I B N] Ha. split; cbn [cellmap cell_of posn move]; try assumption.
    intros b kb H. assert (a <> b) by (intros <-; congruence).
    rewrite upd_nat_other by assumption. auto.
  Qed.

  Theorem inv_step s o : Inv s -> disciplined s o -> Inv (step size D s o).
  Proof.
    intros HI Hd. destruct o as [a | a | a p]; cbn [step].
    - apply inv_add; assumption.
    - apply inv_remove; assumption.
    - apply inv_move; assumption.
  Qed.

  (* discipline along a whole history *)
  Fixpoint disciplined_run (s : state) (ops : list op) : Prop :=
    match ops with
    | [] => True
    | o :: r => disciplined s o /\ disciplined_run (step size D s o) r
    end.

  Theorem inv_run ops : forall s, Inv s -> disciplined_run s ops -> Inv (run size D s ops).
  Proof.
    induction ops as [|o r IH]; intros s HI Hd; [exact HI|].
    destruct Hd as [Ho Hr]. cbn [run fold_left]. apply IH; [apply inv_step|]; assumption.
  Qed.

  (* ---- queries ---------------------------------------------------------- *)

  Lemma in_neighbour_keys x y z i j l :
    In i (offsets size) -> In j (offsets size) -> In l (offsets size) ->
    In (x + i, y + j, z + l) (neighbour_keys size (x, y, z)).
  Proof.
    intros Hi Hj Hl. unfold neighbour_keys.
    apply in_flat_map. exists i. split; [assumption|].
    apply in_flat_map. exists j. split; [assumption|].
    apply in_map_iff. exists l. split; [reflexivity | assumption].
  Qed.

  Lemma close_keys c p q :
    0 <= c <= D * size -> sqdist p q <? c * c = true ->
    In (key_of size D q) (neighbour_keys size (key_of size D p)).
  Proof.
    intros Hc H. apply Z.ltb_lt in H.
    destruct p as [[x1 y1] z1], q as [[x2 y2] z2]. unfold sqdist in H. cbn [key_of].
    pose proof (Z.square_nonneg (x1 - x2)) as Sx. pose proof (Z.square_nonneg (y1 - y2)) as Sy.
    pose proof (Z.square_nonneg (z1 - z2)) as Sz.
    assert (Z.abs (x1 - x2) < D * size) by (apply (sq_lt_abs _ c); [lia | lia]).
    assert (Z.abs (y1 - y2) < D * size) by (apply (sq_lt_abs _ c); [lia | lia]).
    assert (Z.abs (z1 - z2) < D * size) by (apply (sq_lt_abs _ c); [lia | lia]).
    replace (key_code size D x2) with (key_code size D x1 + (key_code size D x2 - key_code size D x1)) by lia.
    replace (key_code size D y2) with (key_code size D y1 + (key_code size D y2 - key_code size D y1)) by lia.
    replace (key_code size D z2) with (key_code size D z1 + (key_code size D z2 - key_code size D z1)) by lia.
    apply in_neighbour_keys; apply key_code_adjacent; assumption.
  Qed.

  (* completeness: every registered atom closer than the cutoff is returned *)
  Theorem query_complete s a b c :
    Inv s -> 0 <= c <= D * size ->
    registered s a -> registered s b -> b <> a ->
    within c s a b = true ->
    In b (get_near_cells size s a).
  Proof.
    intros [F I B N] Hc Ra Rb Hne Hw. unfold registered in *. unfold get_near_cells.
    destruct (cell_of s a) as [ka|] eqn:Ea; [|congruence].
    destruct (cell_of s b) as [kb|] eqn:Eb; [|congruence].
    apply in_flat_map. exists kb. split.
    - rewrite (F _ _ Ea), (F _ _ Eb). eapply close_keys; eauto.
    - apply filter_In. split; [auto|].
      apply negb_true_iff. apply Nat.eqb_neq. congruence.
  Qed.

  (* soundness: nothing but registered other atoms is returned *)
  Theorem query_sound s a b :
    Inv s -> In b (get_near_cells size s a) -> registered s b /\ b <> a.
  Proof.
    intros [F I B N] H. unfold get_near_cells in H.
    destruct (cell_of s a) as [ka|]; [|contradiction].
    apply in_flat_map in H as [k [_ H]]. apply filter_In in H as [H1 H2].
    split.
    - unfold registered. rewrite (B _ _ H1). discriminate.
    - apply negb_true_iff, Nat.eqb_neq in H2. congruence.
  Qed.

  (* after distance filtering the answer is the brute-force all-pairs answer *)
  Theorem query_exact s a b c :
    Inv s -> 0 <= c <= D * size -> registered s a ->
    (In b (filter (within c s a) (get_near_cells size s a)) <->
     registered s b /\ b <> a /\ within c s a b = true).
  Proof.
    intros HI Hc Ra. rewrite filter_In. split.
    - intros [H1 H2]. destruct (query_sound _ _ _ HI H1). auto.
    - intros [Rb [Hne Hw]]. split; [|assumption]. eapply query_complete; eauto.
  Qed.

  (* no atom is reported twice *)
  Lemma offsets_nodup : NoDup (offsets size).
  Proof.
    unfold offsets. repeat constructor; simpl; intuition lia.
  Qed.

  Lemma NoDup_flat_map {A B} (f : A -> list B) (l : list A) :
    NoDup l -> (forall x, In x l -> NoDup (f x)) ->
    (forall x y b, In x l -> In y l -> In b (f x) -> In b (f y) -> x = y) ->
    NoDup (flat_map f l).
  Proof.
    induction 1 as [|x r Hx Hr IH]; intros Hf Hdis; simpl; [constructor|].
    apply NoDup_app_1.
    - apply Hf. left; reflexivity.
    - apply IH; [intros; apply Hf; right; assumption|].
      intros; eapply Hdis; eauto; right; assumption.
    - intros b Hb1 Hb2. apply in_flat_map in Hb2 as [y [Hy Hb2]].
      assert (x = y) by (eapply Hdis; eauto; [left; reflexivity | right; assumption]).
      subst y. contradiction.
  Qed.

  Lemma NoDup_map_inj {A B} (f : A -> B) l :
    (forall x y, f x = f y -> x = y) -> NoDup l -> NoDup (map f l).
  Proof.
    intros Hinj. induction 1 as [|x r Hx Hr IH]; simpl; constructor; [|assumption].
    intros H. apply in_map_iff in H as [y [Hy1 Hy2]]. apply Hinj in Hy1. subst y. contradiction.
  Qed.

  Lemma neighbour_keys_nodup k : NoDup (neighbour_keys size k).
  Proof.
    destruct k as [[x y] z]. unfold neighbour_keys.
    apply NoDup_flat_map; [apply offsets_nodup | |].
    - intros i _. apply NoDup_flat_map; [apply offsets_nodup | |].
      + intros j _. apply NoDup_map_inj; [|apply offsets_nodup].
        intros a b [= H]. lia.
      + intros j1 j2 b _ _ H1 H2. apply in_map_iff in H1 as [l1 [<- _]].
        apply in_map_iff in H2 as [l2 [[= E1 E2] _]]. lia.
    - intros i1 i2 b _ _ H1 H2.
      apply in_flat_map in H1 as [j1 [_ H1]]. apply in_map_iff in H1 as [l1 [<- _]].
      apply in_flat_map in H2 as [j2 [_ H2]]. apply in_map_iff in H2 as [l2 [[= E1 E2 E3] _]]. lia.
  Qed.

  Theorem query_nodup s a : Inv s -> NoDup (get_near_cells size s a).
  Proof.
    intros [F I B N]. unfold get_near_cells. destruct (cell_of s a) as [ka|]; [|constructor].
    apply NoDup_flat_map; [apply neighbour_keys_nodup | |].
    - intros k _. apply NoDup_filter. apply N.
    - intros k1 k2 b _ _ H1 H2. apply filter_In in H1 as [H1 _]. apply filter_In in H2 as [H2 _].
      apply B in H1. apply B in H2. congruence.
  Qed.

  (* the statement for every state reachable by a disciplined history *)
  Theorem reachable_query_exact p0 ops a b c :
    disciplined_run (init p0) ops ->
    0 <= c <= D * size ->
    let s := run size D (init p0) ops in
    registered s a ->
    (In b (filter (within c s a) (get_near_cells size s a)) <->
     registered s b /\ b <> a /\ within c s a b = true) /\
    NoDup (get_near_cells size s a).
  Proof.
    intros Hd Hc s Ra.
    assert (HI : Inv s) by (apply inv_run; [apply inv_init | assumption]).
    split; [apply query_exact; assumption | apply query_nodup; assumption].
  Qed.
End Inv.

(* Without the discipline the property fails: an atom moved while registered
   is missed by a query although it is within range. size 5, D 1. *)
Theorem undisciplined_miss :
  exists (p0 : nat -> pos) (ops : list op) (a b : nat),
    let s := run 5 1 (init p0) ops in
    cell_of s a <> None /\ cell_of s b <> None /\ b <> a /\
    within 5 s a b = true /\ ~ In b (get_near_cells 5 s a).
Proof.
  exists (fun n => if Nat.eqb n 0 then (0, 0, 0) else (100, 0, 0)).
  exists [Add 0%nat; Add 1%nat; Move 1%nat (1, 0, 0)], 0%nat, 1%nat.
  cbv zeta. repeat split; try discriminate.
  vm_compute. intuition discriminate.
Qed.

(* non-vacuity: a disciplined history with a non-empty answer *)
Example nonvacuous :
  let p0 := fun n : nat => match n with 0%nat => (-3, 0, 7) | 1%nat => (1, -4, 9) | _ => (40, 40, 40) end in
  let ops := [Add 0%nat; Add 1%nat; Add 2%nat; Remove 1%nat; Move 1%nat (1, -2, 9); Add 1%nat] in
  disciplined_run 5 1 (init p0) ops /\
  filter (within 5 (run 5 1 (init p0) ops) 0%nat) (get_near_cells 5 (run 5 1 (init p0) ops) 0%nat) = [1%nat].
Proof. vm_compute. repeat split; reflexivity. Qed.
