(* The flip motion over the reals: the rotation of Debump.set_dihedral_angle
   (Model/Quatfit.v rotate_about) by 180 degrees, c = cos = -1, s = sin = 0. *)
From Coq Require Import Reals List Lra Nsatz.
From PV Require Import Model.ForceField Model.Topology Model.Moves Model.Quatfit Model.Flip.
From PV Require Import Proofs.Quatfit Proofs.Moves Proofs.Flip.
Import ListNotations.
Local Open Scope R_scope.

(* rotate p by 180 degrees about the line through o (the atom b) and a (the pivot c) *)
Definition rot180 (o a p : Rpt) : Rpt := rotate_about RA (-1) 0 o a p.

Lemma dist2_self (x : Rpt) : dist2 x x = 0.
Proof. destruct x as [[x0 x1] x2]. unfold dist2. unf. ring. Qed.

Lemma rot180_iso o a p p' :
  dot3 RA (psub RA a o) (psub RA a o) <> 0 -> dist2 (rot180 o a p) (rot180 o a p') = dist2 p p'.
Proof. intros H. apply rotate_about_isometry; [exact H | lra]. Qed.

Lemma rot180_fix_o o a : dot3 RA (psub RA a o) (psub RA a o) <> 0 -> rot180 o a o = o.
Proof.
  intros H. apply dist2_zero.
  destruct (set_dihedral_distances (-1) 0 o a o o 0 H ltac:(lra)) as [H0 _].
  unfold rot180. rewrite H0. apply dist2_self.
Qed.

Lemma rot180_fix_a o a : dot3 RA (psub RA a o) (psub RA a o) <> 0 -> rot180 o a a = a.
Proof.
  intros H. apply dist2_zero.
  destruct (set_dihedral_distances (-1) 0 o a a a 0 H ltac:(lra)) as [_ [H1 _]].
  unfold rot180. rewrite H1. apply dist2_self.
Qed.

(* flipping twice is the identity *)
Lemma rot180_involution o a p :
  dot3 RA (psub RA a o) (psub RA a o) <> 0 -> rot180 o a (rot180 o a p) = p.
Proof.
  intros H. unfold rot180, rotate_about.
  set (l := normalize RA (psub RA a o)).
  assert (Hl : dot3 RA l l = 1) by (apply normalize_unit; exact H).
  clearbody l. destruct l as [[l0 l1] l2], o as [[o0 o1] o2], p as [[p0 p1] p2]. clear H.
  unf. apply pt_eq; nsatz.
Qed.

(* both outcomes of a flip are rigid: Debump.set_dihedral_angle's rotation by 180 degrees about the
   b - c bond, residue.atoms over R^3 *)
Theorem flip_rigid_R (keep : id -> bool) (g : graph) (b c : id) (M : list id) (HO : id) (is_c_term : bool)
        (atoms0 : list (fatom Rpt)) (pb pc : Rpt) (ops : list fop) :
  (forall a, In a atoms0 -> fa_flip a = false) ->
  (is_c_term = false \/ mem HO M = false) ->
  coords_of atoms0 b = Some pb -> coords_of atoms0 c = Some pc ->
  dot3 RA (psub RA pc pb) (psub RA pc pb) <> 0 ->
  rigid_ok keep g b c M = true ->
  let final := coords_of (fst (flip_run (rot180 pb pc) M (copy_names HO is_c_term M) ops atoms0)) in
  (forall u v pu pv, In u (nodes g) -> In v (nbrs g u) -> keep u = true -> keep v = true ->
     coords_of atoms0 u = Some pu -> coords_of atoms0 v = Some pv ->
     exists pu' pv', final u = Some pu' /\ final v = Some pv' /\ dist2 pu' pv' = dist2 pu pv) /\
  (forall u v w pu pw, In v (nodes g) -> In u (nbrs g v) -> In w (nbrs g v) ->
     keep u = true -> keep v = true -> keep w = true ->
     coords_of atoms0 u = Some pu -> coords_of atoms0 w = Some pw ->
     exists pu' pw', final u = Some pu' /\ final w = Some pw' /\ dist2 pu' pw' = dist2 pu pw).
Proof.
  intros Hp Hho Hb Hc Hne Hok.
  apply (flip_rigid dist2 (rot180 pb pc) (fun x y => rot180_iso pb pc x y Hne) keep g b c M
           (copy_names HO is_c_term M) atoms0 Hp
           (fun n Hn _ => copy_names_cover HO is_c_term M n Hho Hn)
           pb pc Hb Hc (rot180_fix_o pb pc Hne) (rot180_fix_a pb pc Hne) Hok).
Qed.

Theorem rot180_facts (o a : Rpt) :
  dot3 RA (psub RA a o) (psub RA a o) <> 0 ->
  (forall p, rot180 o a (rot180 o a p) = p) /\
  (forall p q, dist2 (rot180 o a p) (rot180 o a q) = dist2 p q) /\
  rot180 o a o = o /\ rot180 o a a = a.
Proof.
  intros H. split; [intros p; apply rot180_involution; exact H|].
  split; [intros p q; apply rot180_iso; exact H|]. split; [apply rot180_fix_o | apply rot180_fix_a]; exact H.
Qed.
