(* C15, second layer: theorems about the Jacobi iteration of quatfit.jacobi
   itself (model: Model/Quatfit.v [jrot], [jsweeps], [jsort_step], [jacobi]),
   over the exact field R.

   What is proved here
     - one plane rotation [jrot] is an orthogonal similarity of the symmetric
       matrix the code maintains (strict upper triangle of amat + dvec) and
       multiplies vmat by the same plane rotation; over R the code's angle is
       the exact annihilating one, for every input;
     - hence trace / Frobenius norm are kept and the off-diagonal mass drops by
       2*a_pq^2 per rotation (classical Jacobi identity);
     - by induction over all pivot sequences and all fuel values: at every exit
       of [jsweeps] V is orthogonal and V^T A0 V = A_current;
     - the selection sort puts a column belonging to a maximal dvec entry at
       position 3.
   Proofs/QuatfitExit.v continues: exact exit => unit eigenvectors, the column
   picked by qtrfit is a unit maximiser of q^T A0 q, [eigen_contract] of
   [fit_exact_image] discharged; residual identity for inexact exits.
   NOT proved anywhere: that the off-diagonal mass reaches the threshold within
   the 30 sweeps (convergence), the effect of the non-zero threshold 1e-12
   beyond the residual identity, and rounding. *)
From Coq Require Import Reals List ZArith Lra Lia Nsatz Psatz Bool.
From PV Require Import Model.Quatfit Proofs.Quatfit.
Import ListNotations.
Local Open Scope R_scope.

Notation Rmat := (mat (A := R)).
Notation Rvec := (vec (A := R)).
Notation Rjstate := (jstate (A := R)).

(* ------------------------------------------------------------------ *)
(* 4x4 matrices as index functions; only indices 0..3 matter            *)

Definition fmat : Type := nat -> nat -> R.

Definition tab4 (f : fmat) : Rmat :=
  [[f 0 0; f 0 1; f 0 2; f 0 3]; [f 1 0; f 1 1; f 1 2; f 1 3];
   [f 2 0; f 2 1; f 2 2; f 2 3]; [f 3 0; f 3 1; f 3 2; f 3 3]]%nat.
Definition tabv (d : nat -> R) : Rvec := [d 0; d 1; d 2; d 3]%nat.

(* "m is a 4x4 list of lists", "v has 4 entries" *)
Definition wf4 (m : Rmat) : Prop := m = tab4 (mget RA m).
Definition wfv (v : Rvec) : Prop := v = tabv (vget RA v).
Definition wfst (st : Rjstate) : Prop :=
  let '(am, vm, dv) := st in wf4 am /\ wf4 vm /\ wfv dv.

Lemma wf4_lengths : forall m : Rmat,
  length m = 4%nat -> Forall (fun r => length r = 4%nat) m -> wf4 m.
Proof.
  intros m Hl Hr. unfold wf4.
  destruct m as [| r0 [| r1 [| r2 [| r3 [| ? ?]]]]]; try discriminate Hl.
  inversion Hr as [| ? ? H0 Hr1]; subst. inversion Hr1 as [| ? ? H1 Hr2]; subst.
  inversion Hr2 as [| ? ? H2 Hr3]; subst. inversion Hr3 as [| ? ? H3 _]; subst.
  destruct r0 as [| ? [| ? [| ? [| ? [| ? ?]]]]]; try discriminate H0.
  destruct r1 as [| ? [| ? [| ? [| ? [| ? ?]]]]]; try discriminate H1.
  destruct r2 as [| ? [| ? [| ? [| ? [| ? ?]]]]]; try discriminate H2.
  destruct r3 as [| ? [| ? [| ? [| ? [| ? ?]]]]]; try discriminate H3.
  reflexivity.
Qed.

Definition meq (X Y : fmat) : Prop :=
  forall i j, (i < 4)%nat -> (j < 4)%nat -> X i j = Y i j.
Definition mI : fmat := fun i j => if (i =? j)%nat then 1 else 0.
Definition mT (X : fmat) : fmat := fun i j => X j i.
Definition mmul (X Y : fmat) : fmat :=
  fun i j => X i 0%nat * Y 0%nat j + X i 1%nat * Y 1%nat j + X i 2%nat * Y 2%nat j + X i 3%nat * Y 3%nat j.
Definition mdiag (d : nat -> R) : fmat := fun i j => if (i =? j)%nat then d i else 0.
Definition msym (X : fmat) : Prop := forall i j, X i j = X j i.
Definition trace4 (X : fmat) : R := X 0%nat 0%nat + X 1%nat 1%nat + X 2%nat 2%nat + X 3%nat 3%nat.
Definition sum4 (f : nat -> R) : R := f 0%nat + f 1%nat + f 2%nat + f 3%nat.
(* squared Frobenius norm *)
Definition frob2 (X : fmat) : R := sum4 (fun i => sum4 (fun j => X i j * X i j)).
(* off-diagonal mass of the full symmetric matrix: sum over i <> j *)
Definition off2 (X : fmat) : R :=
  sum4 (fun i => sum4 (fun j => if (i =? j)%nat then 0 else X i j * X i j)).

Definition orth (V : fmat) : Prop := meq (mmul (mT V) V) mI /\ meq (mmul V (mT V)) mI.

Lemma meq_refl : forall X, meq X X.
Proof. intros X i j _ _. reflexivity. Qed.
Lemma meq_sym : forall X Y, meq X Y -> meq Y X.
Proof. intros X Y H i j Hi Hj. symmetry. apply H; assumption. Qed.
Lemma meq_trans : forall X Y Z, meq X Y -> meq Y Z -> meq X Z.
Proof. intros X Y Z H1 H2 i j Hi Hj. rewrite H1, H2 by assumption. reflexivity. Qed.

Lemma mmul_meq : forall X X' Y Y', meq X X' -> meq Y Y' -> meq (mmul X Y) (mmul X' Y').
Proof.
  intros X X' Y Y' HX HY i j Hi Hj. unfold mmul.
  rewrite !(HX i) by (assumption || lia). rewrite !(fun k Hk => HY k j Hk Hj) by lia. reflexivity.
Qed.

Lemma mT_meq : forall X X', meq X X' -> meq (mT X) (mT X').
Proof. intros X X' H i j Hi Hj. unfold mT. apply H; assumption. Qed.

Lemma mmul_assoc : forall X Y Z i j, mmul (mmul X Y) Z i j = mmul X (mmul Y Z) i j.
Proof. intros. unfold mmul. ring. Qed.

Lemma mT_mmul : forall X Y i j, mT (mmul X Y) i j = mmul (mT Y) (mT X) i j.
Proof. intros. unfold mT, mmul. ring. Qed.

Lemma mmul_I_r : forall X, meq (mmul X mI) X.
Proof.
  intros X i j Hi Hj. unfold mmul, mI.
  destruct j as [| [| [| [| j]]]]; try lia; cbn [Nat.eqb]; ring.
Qed.

Lemma mmul_I_l : forall X, meq (mmul mI X) X.
Proof.
  intros X i j Hi Hj. unfold mmul, mI.
  destruct i as [| [| [| [| i]]]]; try lia; cbn [Nat.eqb]; ring.
Qed.

(* ------------------------------------------------------------------ *)
(* the symmetric matrix the code maintains: diagonal = dvec, off-diagonal
   = STRICT UPPER triangle of amat.  The diagonal and the lower triangle of
   amat are never read nor written by the rotations (stale / junk).        *)

Definition symf (am : Rmat) (dv : Rvec) : fmat := fun i j =>
  if (i =? j)%nat then vget RA dv i
  else if (i <? j)%nat then mget RA am i j else mget RA am j i.

Definition st_sym (st : Rjstate) : fmat := let '(am, _, dv) := st in symf am dv.
Definition st_V (st : Rjstate) : fmat := let '(_, vm, _) := st in mget RA vm.

Lemma symf_sym : forall am dv, msym (symf am dv).
Proof.
  intros am dv i j. unfold symf.
  destruct (Nat.eqb_spec i j) as [-> | Hne].
  - rewrite Nat.eqb_refl. reflexivity.
  - destruct (Nat.eqb_spec j i) as [E | _]; [ congruence | ].
    destruct (Nat.ltb_spec i j), (Nat.ltb_spec j i); try reflexivity; lia.
Qed.

(* the plane rotation J(p,q;c,s): identity except J_pp = J_qq = c, J_pq = s, J_qp = -s *)
Definition planeJ (c s : R) (p q : nat) : fmat := fun i j =>
  if (i =? p)%nat && (j =? p)%nat then c
  else if (i =? q)%nat && (j =? q)%nat then c
  else if (i =? p)%nat && (j =? q)%nat then s
  else if (i =? q)%nat && (j =? p)%nat then - s
  else if (i =? j)%nat then 1 else 0.

(* ------------------------------------------------------------------ *)
(* the code's rotation angle                                            *)

(* (cscl, sscl) exactly as jrot computes them from bscl = amat[i][j] and
   dma = dvec[j] - dvec[i] *)
Definition jcs (bscl dma : R) : R * R :=
  let tscl :=
    if a_leb R RA (a_add R RA (a_abs R RA dma) (a_abs R RA bscl)) (a_abs R RA dma)
    then a_div R RA bscl dma
    else
      let qscl := a_div R RA (a_mul R RA (a_half R RA) dma) bscl in
      let t := a_div R RA (a_one R RA)
                 (a_add R RA (a_abs R RA qscl) (a_sqrt R RA (a_add R RA (a_one R RA) (a_mul R RA qscl qscl)))) in
      if a_ltb R RA qscl (a_zero R RA) then a_mul R RA t (a_ofZ R RA (-1)) else t in
  let cscl := a_div R RA (a_one R RA) (a_sqrt R RA (a_add R RA (a_mul R RA tscl tscl) (a_one R RA))) in
  (cscl, a_mul R RA tscl cscl).

(* the body of jrot for given (cscl, sscl) *)
Definition jrot_apply (cscl sscl : R) (st : Rjstate) (ij : nat * nat) : Rjstate :=
  let '(am, vm, dv) := st in
  let i := fst ij in
  let j := snd ij in
  let bscl := mget RA am i j in
  let am := mset am i j 0 in
  let am :=
    fold_left
      (fun am k =>
         let atemp := cscl * mget RA am k i - sscl * mget RA am k j in
         let am := mset am k j (sscl * mget RA am k i + cscl * mget RA am k j) in
         mset am k i atemp)
      (seq 0 i) am in
  let am :=
    fold_left
      (fun am k =>
         let atemp := cscl * mget RA am i k - sscl * mget RA am k j in
         let am := mset am k j (sscl * mget RA am i k + cscl * mget RA am k j) in
         mset am i k atemp)
      (seq (S i) (j - S i)) am in
  let am :=
    fold_left
      (fun am k =>
         let atemp := cscl * mget RA am i k - sscl * mget RA am j k in
         let am := mset am j k (sscl * mget RA am i k + cscl * mget RA am j k) in
         mset am i k atemp)
      (seq (S j) (4 - S j)) am in
  let vm :=
    fold_left
      (fun vm k =>
         let vtemp := cscl * mget RA vm k i - sscl * mget RA vm k j in
         let vm := mset vm k j (sscl * mget RA vm k i + cscl * mget RA vm k j) in
         mset vm k i vtemp)
      (seq 0 4) vm in
  let di := vget RA dv i in
  let dj := vget RA dv j in
  let dtemp := cscl * cscl * di + sscl * sscl * dj - 2 * cscl * sscl * bscl in
  let dv := vset dv j (sscl * sscl * di + cscl * cscl * dj + 2 * cscl * sscl * bscl) in
  let dv := vset dv i dtemp in
  (am, vm, dv).

(* jrot = threshold test + jcs + jrot_apply, by computation *)
Lemma jrot_unfold : forall (am vm : Rmat) (dv : Rvec) (ij : nat * nat),
  jrot RA (am, vm, dv) ij =
  let b := mget RA am (fst ij) (snd ij) in
  if Rltb 0 (Rabs b) then
    let cs := jcs b (vget RA dv (snd ij) - vget RA dv (fst ij)) in
    jrot_apply (fst cs) (snd cs) (am, vm, dv) ij
  else (am, vm, dv).
Proof. intros. reflexivity. Qed.

(* Over R the code's (c, s) is a point of the unit circle and is the EXACT
   annihilating angle: the (p,q) entry of J^T A J vanishes.  The branch
   `abs(dma) + abs(bscl) <= abs(dma)` (tscl = bscl/dma) is dead over R when
   bscl <> 0; in binary64 it is taken when bscl is negligible against dma. *)
Lemma jcs_exact : forall b dp dq : R, b <> 0 ->
  let cs := jcs b (dq - dp) in
  let c := fst cs in let s := snd cs in
  c * c + s * s = 1 /\ c * s * (dp - dq) + (c * c - s * s) * b = 0.
Proof.
  intros b dp dq Hb. cbv zeta.
  unfold jcs. cbn [a_leb a_add a_abs a_div a_mul a_half a_one a_zero a_sqrt a_ltb a_ofZ RArith].
  set (dma := dq - dp).
  assert (Hab : 0 < Rabs b) by (apply Rabs_pos_lt; exact Hb).
  unfold Rleb. destruct (Rle_dec (Rabs dma + Rabs b) (Rabs dma)) as [Hle | _]; [ lra | ].
  set (th := / 2 * dma / b).
  assert (Hr0 : 0 <= 1 + th * th) by nra.
  set (r := sqrt (1 + th * th)).
  assert (Hrr : r * r = 1 + th * th) by (apply sqrt_sqrt; exact Hr0).
  assert (Hr1 : 1 <= r).
  { destruct (Rle_lt_dec 1 r) as [H | H]; [ exact H | ].
    assert (0 <= r) by (apply sqrt_pos). nra. }
  assert (Hden : 0 < Rabs th + r) by (generalize (Rabs_pos th); lra).
  (* t solves t^2 + 2 th t - 1 = 0 *)
  set (t := if Rltb th 0 then 1 / (Rabs th + r) * -1 else 1 / (Rabs th + r)).
  assert (Ht : t * t + 2 * th * t - 1 = 0).
  { unfold t, Rltb. destruct (Rlt_dec th 0) as [Hneg | Hpos].
    - rewrite (Rabs_left th Hneg). rewrite (Rabs_left th Hneg) in Hden.
      transitivity ((1 + th * th - r * r) / ((- th + r) * (- th + r))); [ field; lra | ].
      rewrite Hrr. unfold Rdiv. ring.
    - assert (Hth : 0 <= th) by lra. rewrite (Rabs_right th) by lra. rewrite (Rabs_right th) in Hden by lra.
      transitivity ((1 + th * th - r * r) / ((th + r) * (th + r))); [ field; lra | ].
      rewrite Hrr. unfold Rdiv. ring. }
  clearbody t.
  assert (Hu0 : 0 < t * t + 1) by nra.
  set (u := sqrt (t * t + 1)).
  assert (Huu : u * u = t * t + 1) by (apply sqrt_sqrt; lra).
  assert (Hu : u <> 0).
  { intro Hz. rewrite Hz in Huu. lra. }
  cbn [fst snd].
  assert (Hth : 2 * th * b = dma) by (unfold th; field; exact Hb).
  assert (Hd : dp - dq = - dma) by (unfold dma; ring).
  clearbody u th. clear Hden Hr1 Hrr Hr0. clearbody dma.
  assert (Hc : 1 / u * (1 / u) * (t * t + 1) = 1) by (rewrite <- Huu; field; exact Hu).
  split.
  - transitivity (1 / u * (1 / u) * (t * t + 1)); [ ring | exact Hc ].
  - transitivity (1 / u * (1 / u) * (- b * (t * t + 2 * th * t - 1))).
    + rewrite Hd, <- Hth. ring.
    + rewrite Ht. ring.
Qed.

(* ------------------------------------------------------------------ *)
(* one rotation with given (c, s) on a 4x4 state, per pivot pair         *)

Ltac idx4 i Hi := destruct i as [| [| [| [| i]]]]; [ | | | | exfalso; lia ].

Ltac calc := cbv - [Rplus Rmult Rminus Ropp Rinv Rdiv IZR].

Lemma jrot_apply_spec : forall (a v : fmat) (d : nat -> R) (c s : R) (p q : nat),
  In (p, q) pairs ->
  c * c + s * s = 1 ->
  c * s * (d p - d q) + (c * c - s * s) * a p q = 0 ->
  let st := (tab4 a, tab4 v, tabv d) in
  let st' := jrot_apply c s st (p, q) in
  wfst st' /\
  meq (st_sym st') (mmul (mT (planeJ c s p q)) (mmul (st_sym st) (planeJ c s p q))) /\
  meq (st_V st') (mmul (st_V st) (planeJ c s p q)) /\
  (forall i j, (i < 4)%nat -> (j <= i)%nat -> mget RA (fst (fst st')) i j = a i j).
Proof.
  intros a v d c s p q Hin Hcs Hann st st'.
  unfold pairs in Hin. cbn [In] in Hin.
  destruct Hin as [E | [E | [E | [E | [E | [E | []]]]]]]; inversion E; subst p q; clear E;
  (split; [ calc; repeat split; reflexivity | ]);
  (split; [ intros i j Hi Hj; idx4 i Hi; idx4 j Hj; calc;
            solve [ ring | (etransitivity; [ symmetry; exact Hann | ring ]) | nsatz ] | ]);
  (split; [ intros i j Hi Hj; idx4 i Hi; idx4 j Hj; calc; ring | ]);
  (intros i j Hi Hj; idx4 i Hi; idx4 j Hj; try (exfalso; lia); calc; reflexivity).
Qed.

(* 2x2 block: the diagonal gains exactly what the annihilated entry loses *)
Lemma diag2x2 : forall c s dp dq b : R,
  c * c + s * s = 1 -> c * s * (dp - dq) + (c * c - s * s) * b = 0 ->
  (c * c * dp + s * s * dq - 2 * c * s * b) * (c * c * dp + s * s * dq - 2 * c * s * b)
  + (s * s * dp + c * c * dq + 2 * c * s * b) * (s * s * dp + c * c * dq + 2 * c * s * b)
  = dp * dp + dq * dq + 2 * (b * b).
Proof. intros c s dp dq b Hcs Hann. nsatz. Qed.

Lemma jrot_apply_diag : forall (a v : fmat) (d : nat -> R) (c s : R) (p q : nat),
  In (p, q) pairs ->
  c * c + s * s = 1 ->
  c * s * (d p - d q) + (c * c - s * s) * a p q = 0 ->
  let st' := jrot_apply c s (tab4 a, tab4 v, tabv d) (p, q) in
  sum4 (fun i => st_sym st' i i * st_sym st' i i) = sum4 (fun i => d i * d i) + 2 * (a p q * a p q).
Proof.
  intros a v d c s p q Hin Hcs Hann st'.
  assert (H2 := diag2x2 c s (d p) (d q) (a p q) Hcs Hann). clear Hcs Hann.
  unfold pairs in Hin. cbn [In] in Hin.
  destruct Hin as [E | [E | [E | [E | [E | [E | []]]]]]]; inversion E; subst p q; clear E;
  calc; nsatz.
Qed.

(* the plane rotation is orthogonal *)
Lemma planeJ_orth : forall (c s : R) (p q : nat),
  In (p, q) pairs -> c * c + s * s = 1 -> orth (planeJ c s p q).
Proof.
  intros c s p q Hin Hcs. unfold pairs in Hin. cbn [In] in Hin.
  destruct Hin as [E | [E | [E | [E | [E | [E | []]]]]]]; inversion E; subst p q; clear E;
  (split; intros i j Hi Hj; idx4 i Hi; idx4 j Hj; clear Hi Hj; calc; nsatz).
Qed.

Lemma planeJ_id : forall (p q : nat), In (p, q) pairs -> meq (planeJ 1 0 p q) mI.
Proof.
  intros p q Hin. unfold pairs in Hin. cbn [In] in Hin.
  destruct Hin as [E | [E | [E | [E | [E | [E | []]]]]]]; inversion E; subst p q; clear E;
  (intros i j Hi Hj; idx4 i Hi; idx4 j Hj; calc; ring).
Qed.

(* ------------------------------------------------------------------ *)
(* orthogonal similarity keeps trace and Frobenius norm                 *)

Lemma trace4_meq : forall X Y, meq X Y -> trace4 X = trace4 Y.
Proof. intros X Y H. unfold trace4. rewrite !H by lia. reflexivity. Qed.

Lemma frob2_meq : forall X Y, meq X Y -> frob2 X = frob2 Y.
Proof. intros X Y H. unfold frob2, sum4. rewrite !H by lia. reflexivity. Qed.

Lemma off2_meq : forall X Y, meq X Y -> off2 X = off2 Y.
Proof. intros X Y H. unfold off2, sum4. cbn [Nat.eqb]. rewrite !H by lia. reflexivity. Qed.

Lemma off2_frob2 : forall X, off2 X = frob2 X - sum4 (fun i => X i i * X i i).
Proof. intro X. unfold off2, frob2, sum4. cbn [Nat.eqb]. ring. Qed.

Lemma trace4_similarity : forall J A, meq (mmul J (mT J)) mI ->
  trace4 (mmul (mT J) (mmul A J)) = trace4 A.
Proof.
  intros J A H.
  transitivity (sum4 (fun k => sum4 (fun l => A k l * mmul J (mT J) l k))).
  - unfold trace4, sum4, mmul, mT. ring.
  - unfold sum4. rewrite !H by lia. unfold mI, trace4. cbn [Nat.eqb]. ring.
Qed.

Lemma frob2_mul_r : forall J X, meq (mmul J (mT J)) mI -> frob2 (mmul X J) = frob2 X.
Proof.
  intros J X H.
  transitivity (sum4 (fun i => sum4 (fun k => sum4 (fun l => X i k * X i l * mmul J (mT J) k l)))).
  - unfold frob2, sum4, mmul, mT. ring.
  - unfold sum4. rewrite !H by lia. unfold mI, frob2, sum4. cbn [Nat.eqb]. ring.
Qed.

Lemma frob2_mul_l : forall J Y, meq (mmul J (mT J)) mI -> frob2 (mmul (mT J) Y) = frob2 Y.
Proof.
  intros J Y H.
  transitivity (sum4 (fun j => sum4 (fun k => sum4 (fun l => Y k j * Y l j * mmul J (mT J) k l)))).
  - unfold frob2, sum4, mmul, mT. ring.
  - unfold sum4. rewrite !H by lia. unfold mI, frob2, sum4. cbn [Nat.eqb]. ring.
Qed.

Lemma frob2_similarity : forall J A, meq (mmul J (mT J)) mI ->
  frob2 (mmul (mT J) (mmul A J)) = frob2 A.
Proof. intros J A H. rewrite frob2_mul_l by exact H. apply frob2_mul_r; exact H. Qed.

(* products of orthogonal matrices; transport of V^T A0 V *)
Lemma orth_meq : forall V W, meq V W -> orth W -> orth V.
Proof.
  intros V W H [H1 H2]. split.
  - apply (meq_trans _ (mmul (mT W) W)); [ apply mmul_meq; [ apply mT_meq | ]; exact H | exact H1 ].
  - apply (meq_trans _ (mmul W (mT W))); [ apply mmul_meq; [ | apply mT_meq ]; exact H | exact H2 ].
Qed.

Lemma orth_mul : forall V J, orth V -> orth J -> orth (mmul V J).
Proof.
  intros V J [V1 V2] [J1 J2]. split; intros i j Hi Hj.
  - transitivity (sum4 (fun k => sum4 (fun l => J k i * J l j * mmul (mT V) V k l))).
    + unfold sum4, mmul, mT. ring.
    + unfold sum4. rewrite !V1 by lia. rewrite <- (J1 i j Hi Hj). unfold mI, mmul, mT. cbn [Nat.eqb]. ring.
  - transitivity (sum4 (fun k => sum4 (fun l => V i k * V j l * mmul J (mT J) k l))).
    + unfold sum4, mmul, mT. ring.
    + unfold sum4. rewrite !J2 by lia. rewrite <- (V2 i j Hi Hj). unfold mI, mmul, mT. cbn [Nat.eqb]. ring.
Qed.

Lemma conj_mul : forall A0 V J S, meq (mmul (mT V) (mmul A0 V)) S ->
  meq (mmul (mT (mmul V J)) (mmul A0 (mmul V J))) (mmul (mT J) (mmul S J)).
Proof.
  intros A0 V J S H i j Hi Hj.
  transitivity (sum4 (fun k => sum4 (fun l => J k i * J l j * mmul (mT V) (mmul A0 V) k l))).
  - unfold sum4, mmul, mT. ring.
  - unfold sum4. rewrite !H by lia. unfold mmul, mT. ring.
Qed.

Lemma conj_meq : forall A0 V W, meq V W ->
  meq (mmul (mT V) (mmul A0 V)) (mmul (mT W) (mmul A0 W)).
Proof.
  intros A0 V W H. apply mmul_meq; [ apply mT_meq; exact H | apply mmul_meq; [ apply meq_refl | exact H ] ].
Qed.

(* ------------------------------------------------------------------ *)
(* THE STEP THEOREM: one Jacobi rotation of the model is an orthogonal
   similarity                                                           *)

Lemma mget_tab4 : forall (a : fmat) i j, (i < 4)%nat -> (j < 4)%nat -> mget RA (tab4 a) i j = a i j.
Proof. intros a i j Hi Hj. idx4 i Hi; idx4 j Hj; reflexivity. Qed.

Lemma vget_tabv : forall (d : nat -> R) i, (i < 4)%nat -> vget RA (tabv d) i = d i.
Proof. intros d i Hi. idx4 i Hi; reflexivity. Qed.

Lemma pairs_bound : forall p q, In (p, q) pairs -> (p < q)%nat /\ (q < 4)%nat.
Proof.
  intros p q Hin. unfold pairs in Hin. cbn [In] in Hin.
  destruct Hin as [E | [E | [E | [E | [E | [E | []]]]]]]; inversion E; subst p q; lia.
Qed.

Lemma symf_upper : forall am dv p q, (p < q)%nat -> symf am dv p q = mget RA am p q.
Proof.
  intros am dv p q H. unfold symf.
  destruct (Nat.eqb_spec p q); [ lia | ]. destruct (Nat.ltb_spec p q); [ reflexivity | lia ].
Qed.

Lemma jrot_apply_zero : forall (a v : fmat) (d : nat -> R) (c s : R) (p q : nat),
  In (p, q) pairs -> st_sym (jrot_apply c s (tab4 a, tab4 v, tabv d) (p, q)) p q = 0.
Proof.
  intros a v d c s p q Hin. unfold pairs in Hin. cbn [In] in Hin.
  destruct Hin as [E | [E | [E | [E | [E | [E | []]]]]]]; inversion E; subst p q; reflexivity.
Qed.

Lemma sim_I : forall S : fmat, meq S (mmul (mT mI) (mmul S mI)).
Proof.
  intros S i j Hi Hj. idx4 i Hi; idx4 j Hj; unfold mmul, mT, mI; cbn [Nat.eqb]; ring.
Qed.

Lemma wfst_tab : forall st : Rjstate, wfst st ->
  exists a v d, st = (tab4 a, tab4 v, tabv d).
Proof.
  intros [[am vm] dv] (Ha & Hv & Hd).
  exists (mget RA am), (mget RA vm), (vget RA dv). rewrite <- Ha, <- Hv, <- Hd. reflexivity.
Qed.

(* The step.  [st_sym] = the symmetric matrix the code maintains (dvec on the
   diagonal, STRICT UPPER triangle of amat off it); the diagonal and lower
   triangle of amat are a frame (last conjunct: never written).  For the
   pivot (p,q) there is a plane rotation J = planeJ c s p q (c^2 + s^2 = 1) with
   A' = J^T A J, V' = V J, and the pivot entry of A' is zero: over R the
   code's angle is the exact one (when |a_pq| > 0 fails, a_pq = 0, J = I). *)
Theorem jrot_similarity : forall (st : Rjstate) (p q : nat),
  wfst st -> In (p, q) pairs ->
  let st' := jrot RA st (p, q) in
  wfst st' /\
  exists c s : R,
    c * c + s * s = 1 /\
    meq (st_sym st') (mmul (mT (planeJ c s p q)) (mmul (st_sym st) (planeJ c s p q))) /\
    meq (st_V st') (mmul (st_V st) (planeJ c s p q)) /\
    st_sym st' p q = 0 /\
    sum4 (fun i => st_sym st' i i * st_sym st' i i)
      = sum4 (fun i => st_sym st i i * st_sym st i i) + 2 * (st_sym st p q * st_sym st p q) /\
    (forall i j, (i < 4)%nat -> (j <= i)%nat -> mget RA (fst (fst st')) i j = mget RA (fst (fst st)) i j).
Proof.
  intros st p q Hwf Hin st'.
  destruct (wfst_tab st Hwf) as (a & v & d & ->).
  destruct (pairs_bound p q Hin) as [Hpq Hq].
  assert (Hp : (p < 4)%nat) by lia.
  unfold st'. rewrite jrot_unfold. cbv zeta. cbn [fst snd].
  rewrite (mget_tab4 a p q Hp Hq), (vget_tabv d p Hp), (vget_tabv d q Hq).
  assert (Hsym : st_sym (tab4 a, tab4 v, tabv d) p q = a p q).
  { cbn [st_sym]. rewrite symf_upper by exact Hpq. apply mget_tab4; assumption. }
  assert (Hdiag : forall i, (i < 4)%nat -> st_sym (tab4 a, tab4 v, tabv d) i i = d i).
  { intros i Hi. cbn [st_sym]. unfold symf. rewrite Nat.eqb_refl. apply vget_tabv; exact Hi. }
  unfold Rltb. destruct (Rlt_dec 0 (Rabs (a p q))) as [Hpos | Hnpos].
  - assert (Hb : a p q <> 0).
    { intro Hz. rewrite Hz, Rabs_R0 in Hpos. lra. }
    destruct (jcs_exact (a p q) (d p) (d q) Hb) as [Hcs Hann].
    set (cs := jcs (a p q) (d q - d p)) in *.
    destruct (jrot_apply_spec a v d (fst cs) (snd cs) p q Hin Hcs Hann) as (W & S1 & S2 & S3).
    split; [ exact W | ].
    exists (fst cs), (snd cs).
    split; [ exact Hcs | ]. split; [ exact S1 | ]. split; [ exact S2 | ].
    split; [ apply jrot_apply_zero; exact Hin | ].
    split.
    + rewrite (jrot_apply_diag a v d (fst cs) (snd cs) p q Hin Hcs Hann).
      rewrite Hsym. unfold sum4. rewrite !Hdiag by lia. reflexivity.
    + intros i j Hi Hj. rewrite (S3 i j Hi Hj). cbn [fst]. symmetry. apply mget_tab4; lia.
  - assert (Hb : a p q = 0).
    { destruct (Req_dec (a p q) 0) as [Hz | Hnz]; [ exact Hz | ].
      exfalso. apply Hnpos. apply Rabs_pos_lt. exact Hnz. }
    split; [ exact Hwf | ].
    exists 1, 0.
    split; [ ring | ].
    split.
    { apply (meq_trans _ (mmul (mT mI) (mmul (st_sym (tab4 a, tab4 v, tabv d)) mI))); [ apply sim_I | ].
      apply meq_sym. apply mmul_meq; [ apply mT_meq; apply planeJ_id; exact Hin | ].
      apply mmul_meq; [ apply meq_refl | apply planeJ_id; exact Hin ]. }
    split.
    { apply meq_sym. apply (meq_trans _ (mmul (st_V (tab4 a, tab4 v, tabv d)) mI)).
      - apply mmul_meq; [ apply meq_refl | apply planeJ_id; exact Hin ].
      - apply mmul_I_r. }
    split; [ rewrite Hsym; exact Hb | ].
    split; [ rewrite Hsym, Hb; ring | ].
    intros; reflexivity.
Qed.

(* (c) trace and Frobenius norm are kept; the off-diagonal mass (sum over
   i <> j of the full symmetric matrix) drops by 2 a_pq^2 *)
Corollary jrot_masses : forall (st : Rjstate) (p q : nat),
  wfst st -> In (p, q) pairs ->
  let st' := jrot RA st (p, q) in
  trace4 (st_sym st') = trace4 (st_sym st) /\
  frob2 (st_sym st') = frob2 (st_sym st) /\
  off2 (st_sym st') = off2 (st_sym st) - 2 * (st_sym st p q * st_sym st p q).
Proof.
  intros st p q Hwf Hin st'.
  destruct (jrot_similarity st p q Hwf Hin) as (_ & c & s & Hcs & S1 & _ & _ & Hd & _).
  fold st' in S1, Hd.
  destruct (planeJ_orth c s p q Hin Hcs) as [_ J2].
  assert (T : trace4 (st_sym st') = trace4 (st_sym st)).
  { rewrite (trace4_meq _ _ S1). apply trace4_similarity; exact J2. }
  assert (F : frob2 (st_sym st') = frob2 (st_sym st)).
  { rewrite (frob2_meq _ _ S1). apply frob2_similarity; exact J2. }
  split; [ exact T | ]. split; [ exact F | ].
  rewrite !off2_frob2, F, Hd. ring.
Qed.

(* ------------------------------------------------------------------ *)
(* (2) THE INVARIANT, for every pivot sequence and every fuel value     *)

Definition jinv (A0 : fmat) (st : Rjstate) : Prop :=
  wfst st /\ orth (st_V st) /\ meq (mmul (mT (st_V st)) (mmul A0 (st_V st))) (st_sym st).

Lemma jinv_step : forall A0 st p q, jinv A0 st -> In (p, q) pairs -> jinv A0 (jrot RA st (p, q)).
Proof.
  intros A0 st p q (Hwf & Ho & Hc) Hin.
  destruct (jrot_similarity st p q Hwf Hin) as (W & c & s & Hcs & S1 & S2 & _).
  assert (HJ := planeJ_orth c s p q Hin Hcs).
  split; [ exact W | ]. split.
  - apply (orth_meq _ _ S2). apply orth_mul; assumption.
  - apply (meq_trans _ _ _ (conj_meq A0 _ _ S2)).
    apply (meq_trans _ _ _ (conj_mul A0 _ _ _ Hc)). apply meq_sym. exact S1.
Qed.

Lemma jinv_fold : forall A0 (l : list (nat * nat)) st,
  (forall ij, In ij l -> In ij pairs) -> jinv A0 st -> jinv A0 (fold_left (jrot RA) l st).
Proof.
  intros A0 l. induction l as [| [p q] t IH]; intros st Hl Hinv; cbn [fold_left].
  - exact Hinv.
  - apply IH; [ intros ij H; apply Hl; right; exact H | ].
    apply jinv_step; [ exact Hinv | apply Hl; left; reflexivity ].
Qed.

Lemma jinv_sweeps : forall A0 (fuel : nat) st, jinv A0 st -> jinv A0 (jsweeps RA fuel st).
Proof.
  intros A0 fuel. induction fuel as [| f IH]; intros st Hinv; cbn [jsweeps].
  - exact Hinv.
  - destruct (jconverged RA st); [ exact Hinv | ].
    apply IH. apply jinv_fold; [ intros ij H; exact H | exact Hinv ].
Qed.

(* the matrix jacobi diagonalises: the symmetric matrix whose upper triangle
   (diagonal included) is that of the argument; the lower triangle is ignored *)
Definition A0_of (am : Rmat) : fmat := st_sym (jinit RA am).

Lemma A0_of_eq : forall (am : Rmat) i j, (i < 4)%nat -> (j < 4)%nat ->
  A0_of am i j = if (i <=? j)%nat then mget RA am i j else mget RA am j i.
Proof. intros am i j Hi Hj. idx4 i Hi; idx4 j Hj; reflexivity. Qed.

Lemma jinv_init : forall am : Rmat, wf4 am -> jinv (A0_of am) (jinit RA am).
Proof.
  intros am Hwf. unfold A0_of. split; [ | split ].
  - unfold jinit. cbn [wfst]. split; [ exact Hwf | ]. split; reflexivity.
  - assert (E : meq (st_V (jinit RA am)) mI) by (intros i j Hi Hj; idx4 i Hi; idx4 j Hj; reflexivity).
    apply (orth_meq _ _ E). split.
    + apply (meq_trans _ (mmul (mT mI) mI)); [ apply meq_refl | ].
      intros i j Hi Hj; idx4 i Hi; idx4 j Hj; unfold mmul, mT, mI; cbn [Nat.eqb]; ring.
    + intros i j Hi Hj; idx4 i Hi; idx4 j Hj; unfold mmul, mT, mI; cbn [Nat.eqb]; ring.
  - assert (E : meq (st_V (jinit RA am)) mI) by (intros i j Hi Hj; idx4 i Hi; idx4 j Hj; reflexivity).
    apply (meq_trans _ _ _ (conj_meq _ _ _ E)). apply meq_sym. apply sim_I.
Qed.

Theorem jacobi_invariant : forall (am : Rmat) (nrot : nat), wf4 am ->
  jinv (A0_of am) (jsweeps RA nrot (jinit RA am)).
Proof. intros am nrot Hwf. apply jinv_sweeps. apply jinv_init. exact Hwf. Qed.

(* ------------------------------------------------------------------ *)
(* (3) exit with zero off-diagonal part                                 *)

Definition offzero (st : Rjstate) : Prop :=
  forall p q, In (p, q) pairs -> st_sym st p q = 0.

Definition qf (A : fmat) (r : nat -> R) : R :=
  sum4 (fun i => sum4 (fun j => r i * A i j * r j)).
Definition n2 (r : nat -> R) : R := sum4 (fun i => r i * r i).

Lemma offzero_diag : forall st, offzero st -> meq (st_sym st) (mdiag (fun k => st_sym st k k)).
Proof.
  intros [[am vm] dv] H i j Hi Hj. unfold mdiag.
  assert (S := symf_sym am dv). cbn [st_sym] in *.
  idx4 i Hi; idx4 j Hj; cbn [Nat.eqb]; try reflexivity;
  first [ apply H; unfold pairs; cbn [In]; tauto
        | rewrite S; apply H; unfold pairs; cbn [In]; tauto ].
Qed.

(* no rotation happens any more: the state is a fixed point of every sweep *)
Lemma offzero_fixed : forall st (fuel : nat), wfst st -> offzero st -> jsweeps RA fuel st = st.
Proof.
  intros st fuel Hwf Hz.
  assert (Hrot : forall p q, In (p, q) pairs -> jrot RA st (p, q) = st).
  { intros p q Hin. destruct (wfst_tab st Hwf) as (a & v & d & E). subst st.
    rewrite jrot_unfold. cbv zeta. cbn [fst snd].
    destruct (pairs_bound p q Hin) as [Hpq Hq].
    assert (Hb : mget RA (tab4 a) p q = 0).
    { rewrite <- (symf_upper (tab4 a) (tabv d) p q Hpq). apply (Hz p q Hin). }
    rewrite Hb, Rabs_R0. unfold Rltb. destruct (Rlt_dec 0 0); [ lra | reflexivity ]. }
  assert (Hfold : forall l, (forall ij, In ij l -> In ij pairs) -> fold_left (jrot RA) l st = st).
  { induction l as [| [p q] t IH]; intro Hl; cbn [fold_left]; [ reflexivity | ].
    rewrite Hrot by (apply Hl; left; reflexivity). apply IH. intros ij H; apply Hl; right; exact H. }
  induction fuel as [| f IH]; cbn [jsweeps]; [ reflexivity | ].
  destruct (jconverged RA st); [ reflexivity | ].
  rewrite Hfold by (intros ij H; exact H). exact IH.
Qed.

(* with V^T A0 V = D and V V^T = I: A0 V = V D (columns are eigenvectors) *)
Lemma eigen_columns : forall (A0 V : fmat) (d : nat -> R),
  orth V -> meq (mmul (mT V) (mmul A0 V)) (mdiag d) ->
  forall i k, (i < 4)%nat -> (k < 4)%nat -> mmul A0 V i k = d k * V i k.
Proof.
  intros A0 V d [V1 V2] HD i k Hi Hk.
  transitivity (mmul (mmul V (mT V)) (mmul A0 V) i k).
  - unfold mmul at 2. rewrite !(V2 i) by lia. unfold mI.
    idx4 i Hi; cbn [Nat.eqb]; ring.
  - transitivity (sum4 (fun m => V i m * mmul (mT V) (mmul A0 V) m k)).
    + unfold sum4, mmul, mT. ring.
    + unfold sum4. rewrite !HD by lia. unfold mdiag.
      idx4 k Hk; cbn [Nat.eqb]; ring.
Qed.

(* spectral form of the quadratic form: r^T A0 r = sum_k d_k y_k^2, |y| = |r|, y = V^T r *)
Definition ycoord (V : fmat) (r : nat -> R) : nat -> R := fun k => sum4 (fun i => V i k * r i).

Lemma qf_spectral : forall (A0 V : fmat) (d r : nat -> R),
  orth V -> meq (mmul (mT V) (mmul A0 V)) (mdiag d) ->
  qf A0 r = sum4 (fun k => d k * (ycoord V r k * ycoord V r k)) /\ n2 (ycoord V r) = n2 r.
Proof.
  intros A0 V d r HO HD.
  assert (E := eigen_columns A0 V d HO HD). destruct HO as [V1 V2].
  split.
  - transitivity (sum4 (fun i => sum4 (fun j => r i * r j * sum4 (fun l => A0 i l * mmul V (mT V) l j)))).
    + unfold sum4. rewrite !V2 by lia. unfold qf, sum4, mI. cbn [Nat.eqb]. ring.
    + transitivity (sum4 (fun i => sum4 (fun j => r i * r j * sum4 (fun k => mmul A0 V i k * V j k)))).
      * unfold sum4, mmul, mT. ring.
      * unfold sum4. rewrite !E by lia. unfold ycoord, sum4. ring.
  - transitivity (sum4 (fun i => sum4 (fun j => r i * r j * mmul V (mT V) i j))).
    + unfold n2, ycoord, sum4, mmul, mT. ring.
    + unfold sum4. rewrite !V2 by lia. unfold n2, sum4, mI. cbn [Nat.eqb]. ring.
Qed.

(* Rayleigh bound: every unit vector's quadratic form is below any upper bound of the d_k *)
Lemma qf_le_max : forall (A0 V : fmat) (d r : nat -> R) (M : R),
  orth V -> meq (mmul (mT V) (mmul A0 V)) (mdiag d) ->
  (forall k, (k < 4)%nat -> d k <= M) -> qf A0 r <= M * n2 r.
Proof.
  intros A0 V d r M HO HD HM.
  destruct (qf_spectral A0 V d r HO HD) as [E1 E2].
  set (y := ycoord V r) in *.
  rewrite E1, <- E2. unfold n2, sum4.
  assert (P : forall k, (k < 4)%nat -> 0 <= (M - d k) * (y k * y k)).
  { intros k Hk. apply Rmult_le_pos; [ specialize (HM k Hk); lra | ].
    generalize (Rle_0_sqr (y k)). unfold Rsqr. lra. }
  generalize (P 0%nat ltac:(lia)) (P 1%nat ltac:(lia)) (P 2%nat ltac:(lia)) (P 3%nat ltac:(lia)).
  generalize (y 0%nat) (y 1%nat) (y 2%nat) (y 3%nat). intros. lra.
Qed.

(* a column of V: unit, and its quadratic form is d_k *)
Lemma qf_column : forall (A0 V : fmat) (d : nat -> R) (k : nat),
  orth V -> meq (mmul (mT V) (mmul A0 V)) (mdiag d) -> (k < 4)%nat ->
  n2 (fun i => V i k) = 1 /\ qf A0 (fun i => V i k) = d k.
Proof.
  intros A0 V d k [V1 V2] HD Hk. split.
  - transitivity (mmul (mT V) V k k); [ unfold n2, sum4, mmul, mT; ring | ].
    rewrite V1 by exact Hk. unfold mI. rewrite Nat.eqb_refl. reflexivity.
  - transitivity (mmul (mT V) (mmul A0 V) k k); [ unfold qf, sum4, mmul, mT; ring | ].
    rewrite HD by exact Hk. unfold mdiag. rewrite Nat.eqb_refl. reflexivity.
Qed.

(* ------------------------------------------------------------------ *)
(* the selection sort of jacobi: column 3 ends up being a column of the
   unsorted V belonging to a maximal entry of dvec                        *)

Ltac calc2 := cbv - [Rplus Rmult Rminus Ropp Rinv Rdiv IZR Rlt_dec Rle_dec Rlt Rle Rgt Rge lt].

Ltac try_k k d :=
  exists k; split; [ lia | split; [ intros i Hi; idx4 i Hi; lra | split; [ intros rr Hrr; idx4 rr Hrr; reflexivity | reflexivity ] ] ].

Lemma jsort_spec : forall (v : fmat) (d : nat -> R),
  exists k, (k < 4)%nat /\ (forall i, (i < 4)%nat -> d i <= d k) /\
    (forall r, (r < 4)%nat -> mget RA (fst (fold_left (jsort_step RA) (seq 0 3) (tab4 v, tabv d))) r 3 = v r k) /\
    vget RA (snd (fold_left (jsort_step RA) (seq 0 3) (tab4 v, tabv d))) 3 = d k.
Proof.
  intros v d. calc2.
  repeat (match goal with |- context [Rlt_dec (d ?i) (d ?j)] => destruct (Rlt_dec (d i) (d j)) end; calc2).
  all: first [ solve [try_k 0%nat d] | solve [try_k 1%nat d] | solve [try_k 2%nat d] | solve [try_k 3%nat d] ].
Qed.

