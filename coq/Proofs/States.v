(* Proofs about the residue-state model (C02): Model/States.v.

   1. table lifts: the generated vm_compute facts (check_arows / check_strand /
      check_water / arow_name_ok) read as statements about every row
   2. nucleic strands of ANY length carry -1 per phosphate (induction over the strand)
   3. totals: an exact integer total passes the integrality guard
   4. set_state: the name is prefix(terminus) x base(side-chain state), for ALL descriptors
   5. termini: assign_termini / set_termini flag each chain end exactly once
      (for ALL chain lists; see the section header for what is proved with hidden
      chain ends) *)
From Coq Require Import List Bool ZArith PArith String Ascii Arith Lia Permutation.
From PV Require Import Lib.Decimal Model.ForceField Model.States.
Import ListNotations.

(* ---------------------------------------------------------------------- *)
(* 0. small list facts                                                     *)

Lemma forallb_false_exists {A} (f : A -> bool) (l : list A) :
  forallb f l = false -> exists x, In x l /\ f x = false.
Proof.
  induction l as [|a l IH]; cbn [forallb]; intro H; [discriminate|].
  destruct (f a) eqn:E.
  - destruct (IH H) as [x [Hi Hx]]. exists x. split; [right; exact Hi | exact Hx].
  - exists a. split; [left; reflexivity | exact E].
Qed.

Lemma mem_nat_In k l : mem_nat k l = true <-> In k l.
Proof.
  unfold mem_nat. rewrite existsb_exists. split.
  - intros [x [Hi He]]. apply Nat.eqb_eq in He. subst. exact Hi.
  - intro Hi. exists k. split; [exact Hi | apply Nat.eqb_refl].
Qed.

Lemma within_spec q t tol : within q t tol = true <-> (Z.abs (q - t) <= tol)%Z.
Proof. unfold within. apply Z.leb_le. Qed.

Lemma base_eqb_eq a b : base_eqb a b = true -> a = b.
Proof. destruct a, b; cbn; intro H; try reflexivity; discriminate H. Qed.

Lemma prefix_eqb_eq a b : prefix_eqb a b = true -> a = b.
Proof. destruct a, b; cbn; intro H; try reflexivity; discriminate H. Qed.

Lemma sname_eqb_eq a b : sname_eqb a b = true -> a = b.
Proof.
  destruct a as [p x], b as [q y]. unfold sname_eqb. cbn [fst snd]. intro H.
  apply andb_true_iff in H. destruct H as [H1 H2].
  apply prefix_eqb_eq in H1. apply base_eqb_eq in H2. subst. reflexivity.
Qed.

(* ---------------------------------------------------------------------- *)
(* 1. table lifts                                                          *)

(* every state row outside the exception list: each alternative of the final
   atom set that resolves completely in the force field sums to the formal
   charge within tol *)
Theorem state_charge_sound : forall tol m exc rows,
  check_arows tol m exc rows = true ->
  forall r, In r rows -> ~ In (ar_key r) exc ->
  forall alt q, In alt (ar_alts r) -> resolve m (ar_ff r) alt = Some q ->
  (Z.abs (q - ar_formal r * SCALE) <= tol)%Z.
Proof.
  intros tol m exc rows H r Hr Hk alt q Ha Hq.
  unfold check_arows in H. apply andb_true_iff in H. destruct H as [H _].
  apply andb_true_iff in H. destruct H as [H _].
  rewrite forallb_forall in H. specialize (H r Hr). unfold arow_ok in H.
  apply orb_true_iff in H. destruct H as [H|H].
  - apply mem_nat_In in H. contradiction.
  - rewrite forallb_forall in H. specialize (H alt Ha). unfold alt_ok in H.
    rewrite Hq in H. apply within_spec. exact H.
Qed.

(* the exception list hides nothing but genuine failures *)
Theorem state_charge_exceptions_real : forall tol m exc rows,
  check_arows tol m exc rows = true ->
  forall k, In k exc ->
  exists r alt q, In r rows /\ ar_key r = k /\ In alt (ar_alts r) /\
                  resolve m (ar_ff r) alt = Some q /\ (tol < Z.abs (q - ar_formal r * SCALE))%Z.
Proof.
  intros tol m exc rows H k Hk.
  unfold check_arows in H. apply andb_true_iff in H. destruct H as [_ H].
  unfold exc_tight in H. rewrite forallb_forall in H. specialize (H k Hk).
  apply existsb_exists in H. destruct H as [r [Hr H]].
  apply andb_true_iff in H. destruct H as [Hkey Hbad].
  apply Nat.eqb_eq in Hkey. apply negb_true_iff in Hbad.
  unfold arow_ok in Hbad. cbn [mem_nat existsb orb] in Hbad.
  apply forallb_false_exists in Hbad. destruct Hbad as [alt [Ha Hf]].
  unfold alt_ok in Hf. destruct (resolve m (ar_ff r) alt) as [q|] eqn:Eq; [|discriminate].
  exists r, alt, q. repeat split; try assumption.
  unfold within in Hf. apply Z.leb_gt in Hf. exact Hf.
Qed.

(* the model's set_state reproduces the real name on every recorded route *)
Theorem arows_names_sound : forall ids rows,
  forallb (arow_name_ok ids) rows = true ->
  forall r, In r rows ->
    (forall d, In d (ar_descs r) -> ffname_of d = Some (ar_name r)) /\
    ar_descs r <> [] /\
    assoc sname_eqb (ar_name r) ids = Some (ar_ff r).
Proof.
  intros ids rows H r Hr. rewrite forallb_forall in H. specialize (H r Hr).
  unfold arow_name_ok in H. apply andb_true_iff in H. destruct H as [H H3].
  apply andb_true_iff in H. destruct H as [H1 H2].
  split; [|split].
  - intros d Hd. rewrite forallb_forall in H1. specialize (H1 d Hd).
    unfold opt_sname_eqb in H1. destruct (ffname_of d) as [x|]; [|discriminate].
    apply sname_eqb_eq in H1. subst. reflexivity.
  - intro E. rewrite E in H2. discriminate H2.
  - unfold opt_id_eqb in H3. destruct (assoc sname_eqb (ar_name r) ids) as [x|]; [|discriminate].
    apply Pos.eqb_eq in H3. subst. reflexivity.
Qed.

Theorem water_sound : forall tol m wat atoms,
  check_water tol m wat atoms = true ->
  exists q, resolve m wat atoms = Some q /\ (Z.abs q <= tol)%Z.
Proof.
  intros tol m wat atoms H. unfold check_water in H.
  destruct (resolve m wat atoms) as [q|]; [|discriminate].
  exists q. split; [reflexivity|]. apply within_spec in H. rewrite Z.sub_0_r in H. exact H.
Qed.

(* ---------------------------------------------------------------------- *)
(* 2. strands                                                              *)

Local Open Scope Z_scope.

Lemma zsum_app a b : zsum (a ++ b) = zsum a + zsum b.
Proof. unfold zsum. induction a as [|x a IH]; cbn [app fold_right]; [reflexivity|]. rewrite IH. lia. Qed.

Definition phosphates (rs : list nrow) : nat := List.length (filter nr_phos rs).

Section Strand.
  Variable tol : Z.
  Variable mixed : bool.
  Variable m : ffmap.
  Variable rows : list nrow.
  Hypothesis Hcheck : check_strand tol mixed m rows = true.

  Lemma strand_internal : forall r q, In r rows -> is_internal r = true ->
    In q (nrow_charges m r) -> Z.abs (q + SCALE) <= tol.
  Proof.
    intros r q Hr Hi Hq. unfold check_strand in Hcheck.
    apply andb_true_iff in Hcheck. destruct Hcheck as [H _].
    apply andb_true_iff in H. destruct H as [H _].
    rewrite forallb_forall in H. specialize (H r Hr). rewrite Hi in H.
    rewrite forallb_forall in H. specialize (H q Hq). apply within_spec in H.
    replace (q + SCALE) with (q - - SCALE) by lia. exact H.
  Qed.

  Lemma strand_ends : forall r5 r3 q5 q3, In r5 rows -> In r3 rows ->
    is_five r5 = true -> is_three r3 = true -> pairable mixed r5 r3 = true ->
    In q5 (nrow_charges m r5) -> In q3 (nrow_charges m r3) ->
    Z.abs (q5 + q3 + SCALE) <= tol.
  Proof.
    intros r5 r3 q5 q3 H5 H3 F5 F3 Hp Hq5 Hq3. unfold check_strand in Hcheck.
    apply andb_true_iff in Hcheck. destruct Hcheck as [H _].
    apply andb_true_iff in H. destruct H as [_ H].
    rewrite forallb_forall in H. specialize (H r5 H5). rewrite F5 in H.
    rewrite forallb_forall in H. specialize (H r3 H3). rewrite F3, Hp in H. cbn [andb] in H.
    rewrite forallb_forall in H. specialize (H q5 Hq5).
    rewrite forallb_forall in H. specialize (H q3 Hq3). apply within_spec in H.
    replace (q5 + q3 + SCALE) with (q5 + q3 - - SCALE) by lia. exact H.
  Qed.

  Lemma strand_phos : forall r, In r rows -> nr_phos r = negb (nr_five r).
  Proof.
    intros r Hr. unfold check_strand in Hcheck.
    apply andb_true_iff in Hcheck. destruct Hcheck as [_ H].
    rewrite forallb_forall in H. specialize (H r Hr). apply eqb_prop in H. exact H.
  Qed.

  Lemma mids_charge : forall mids qmids,
    Forall (fun r => In r rows /\ is_internal r = true) mids ->
    Forall2 (fun r q => In q (nrow_charges m r)) mids qmids ->
    Z.abs (zsum qmids + Z.of_nat (List.length mids) * SCALE) <= Z.of_nat (List.length mids) * tol.
  Proof.
    intros mids qmids Hm H2. induction H2 as [|r q mids qmids Hq H2 IH].
    - cbn. lia.
    - inversion Hm as [|? ? [Hr Hi] Hm']; subst. specialize (IH Hm').
      pose proof (strand_internal r q Hr Hi Hq) as H1.
      cbn [List.length]. rewrite Nat2Z.inj_succ. rewrite !Z.mul_succ_l.
      unfold zsum in *. cbn [fold_right]. lia.
  Qed.

  Lemma mids_phos : forall mids,
    Forall (fun r => In r rows /\ is_internal r = true) mids ->
    filter nr_phos mids = mids.
  Proof.
    intros mids Hm. induction Hm as [|r mids [Hr Hi] Hm IH]; [reflexivity|].
    cbn [filter]. rewrite (strand_phos r Hr). unfold is_internal in Hi.
    apply andb_true_iff in Hi. destruct Hi as [Hi _]. rewrite Hi. rewrite IH. reflexivity.
  Qed.

  (* a strand = 5' nucleotide, any number of internal ones, 3' nucleotide;
     every residue charge is the charge of one resolvable alternative of its row *)
  Theorem strand_charge : forall r5 mids r3 q5 qmids q3,
    In r5 rows -> In r3 rows -> Forall (fun r => In r rows /\ is_internal r = true) mids ->
    is_five r5 = true -> is_three r3 = true -> pairable mixed r5 r3 = true ->
    In q5 (nrow_charges m r5) -> In q3 (nrow_charges m r3) ->
    Forall2 (fun r q => In q (nrow_charges m r)) mids qmids ->
    let p := phosphates (r5 :: mids ++ [r3]) in
    p = S (List.length mids) /\
    Z.abs (zsum (q5 :: qmids ++ [q3]) + Z.of_nat p * SCALE) <= Z.of_nat p * tol.
  Proof.
    intros r5 mids r3 q5 qmids q3 H5 H3 Hm F5 F3 Hp Hq5 Hq3 H2. cbn zeta.
    assert (P : phosphates (r5 :: mids ++ [r3]) = S (List.length mids)).
    { unfold phosphates. cbn [filter]. rewrite (strand_phos r5 H5).
      unfold is_five in F5. apply andb_true_iff in F5. destruct F5 as [F5 _]. rewrite F5. cbn [negb].
      rewrite filter_app. rewrite (mids_phos mids Hm). cbn [filter]. rewrite (strand_phos r3 H3).
      unfold is_three in F3. apply andb_true_iff in F3. destruct F3 as [_ F3]. rewrite F3.
      rewrite app_length. cbn [List.length]. lia. }
    split; [exact P|]. rewrite P.
    pose proof (mids_charge mids qmids Hm H2) as Hmid.
    pose proof (strand_ends r5 r3 q5 q3 H5 H3 F5 F3 Hp Hq5 Hq3) as Hend.
    rewrite Nat2Z.inj_succ. rewrite !Z.mul_succ_l.
    change (zsum (q5 :: qmids ++ [q3])) with (q5 + zsum (qmids ++ [q3])).
    rewrite zsum_app. unfold zsum at 2. cbn [fold_right]. lia.
  Qed.
End Strand.

(* ---------------------------------------------------------------------- *)
(* 3. totals and the integrality guard                                     *)

Lemma int_dist_near : forall t k e,
  Z.abs (t - k * SCALE) <= e -> 2 * e <= SCALE -> int_dist t <= e.
Proof.
  intros t k e H He. unfold int_dist, SCALE in *.
  pose proof (Z.mod_pos_bound t 100000000 ltac:(lia)) as Hb.
  pose proof (Z.div_mod t 100000000 ltac:(lia)) as Hd.
  set (q := t / 100000000) in *. set (r := t mod 100000000) in *.
  assert (Hr : r = t - k * 100000000 + (k - q) * 100000000) by lia.
  destruct (Z.eq_dec (k - q) 0) as [E|E]; [lia|].
  destruct (Z.eq_dec (k - q) 1) as [E1|E1]; [lia|].
  lia.
Qed.

Theorem guard_ok_near : forall t k, Z.abs (t - k * SCALE) <= TOL -> guard_ok t = true.
Proof.
  intros t k H. unfold guard_ok. apply Z.leb_le. apply (int_dist_near t k TOL H).
  unfold TOL, SCALE. lia.
Qed.

Lemma total_exact : forall (rs : list (list Z)) (formals : list Z),
  Forall2 (fun r f => res_charge r = f * SCALE) rs formals ->
  total_charge rs = zsum formals * SCALE.
Proof.
  intros rs formals H. unfold total_charge. induction H as [|r f rs fs Hr H IH]; [reflexivity|].
  cbn [map]. unfold zsum in *. cbn [fold_right]. rewrite IH, Hr. lia.
Qed.

(* the total is the integer sum of the residues' formal charges, so the
   integrality guard of main.py cannot fire *)
Theorem total_is_sum : forall (rs : list (list Z)) (formals : list Z),
  Forall2 (fun r f => res_charge r = f * SCALE) rs formals ->
  total_charge rs = zsum formals * SCALE /\ guard_ok (total_charge rs) = true.
Proof.
  intros rs formals H. pose proof (total_exact rs formals H) as E. split; [exact E|].
  apply (guard_ok_near _ (zsum formals)). rewrite E. rewrite Z.sub_diag. unfold TOL. cbn. lia.
Qed.

(* with the code's tolerance only: the deviations add up *)
Theorem total_within : forall e (rs : list (list Z)) (formals : list Z),
  Forall2 (fun r f => Z.abs (res_charge r - f * SCALE) <= e) rs formals ->
  Z.abs (total_charge rs - zsum formals * SCALE) <= Z.of_nat (List.length rs) * e.
Proof.
  intros e rs formals H. unfold total_charge. induction H as [|r f rs fs Hr H IH]; [cbn; lia|].
  cbn [map List.length]. rewrite Nat2Z.inj_succ, Z.mul_succ_l.
  unfold zsum in *. cbn [fold_right]. lia.
Qed.

Local Close Scope Z_scope.

(* ---------------------------------------------------------------------- *)
(* 4. set_state: the documented name scheme                                *)

(* terminus prefix: N-terminus first (a one-residue chain gets only the N
   prefix), NEUTRAL- only with the neutral patch, never for an N-terminal PRO *)
Definition spec_prefix (d : adesc) : prefix :=
  if ad_nterm d then
    match ad_cls d with
    | C_PRO => PN
    | _ => if has_patch P_NEUTRAL_NTERM d then PNN else PN
    end
  else if ad_cterm d then (if has_patch P_NEUTRAL_CTERM d then PNC else PC)
  else PNone.

Definition named (p : patch) (b : base) (d : adesc) : bool := has_patch p d || name_is b d.

(* side-chain state: None = HIS with no ring hydrogen left (TypeError) *)
Definition spec_base (d : adesc) : option base :=
  match ad_cls d with
  | C_ARG => Some (if named P_AR0 B_AR0 d then B_AR0 else ad_name d)
  | C_ASP => Some (if named P_ASH B_ASH d then B_ASH else ad_name d)
  | C_GLU => Some (if named P_GLH B_GLH d then B_GLH else ad_name d)
  | C_LYS => Some (if named P_LYN B_LYN d then B_LYN else ad_name d)
  | C_TYR => Some (if named P_TYM B_TYM d then B_TYM else ad_name d)
  | C_CYS => Some (if named P_CYX B_CYX d || ad_ss d then B_CYX
                   else if named P_CYM B_CYM d then B_CYM
                   else if negb (ad_hg d) then B_CYX else ad_name d)
  | C_HIS => match his_atoms d with
             | (true, true) => Some B_HIP
             | (true, false) => Some B_HID
             | (false, true) => Some B_HIE
             | (false, false) => None
             end
  | _ => Some (ad_name d)
  end.

Theorem set_state_spec : forall d : adesc,
  ffname_of d = match spec_base d with Some b => Some (spec_prefix d, b) | None => None end.
Proof.
  intro d. unfold ffname_of, set_state, spec_base, spec_prefix, plain, amino_term, pro_term, named.
  destruct (ad_cls d); cbn [sr_name];
    try (destruct (his_atoms d) as [[|] [|]]; cbn [andb sr_name]);
    repeat (match goal with |- context [if ?b then _ else _] => destruct b end);
    reflexivity.
Qed.

(* the wrinkles, stated *)
Theorem one_residue_chain_gets_N_only : forall d p b,
  ad_nterm d = true -> ffname_of d = Some (p, b) -> p = PN \/ p = PNN.
Proof.
  intros d p b Hn H. rewrite set_state_spec in H. destruct (spec_base d); [|discriminate].
  inversion H; subst. unfold spec_prefix. rewrite Hn.
  destruct (ad_cls d); try (destruct (has_patch P_NEUTRAL_NTERM d); [right|left]; reflexivity).
  left; reflexivity.
Qed.

Theorem nterm_pro_is_NPRO : forall d,
  ad_cls d = C_PRO -> ad_nterm d = true -> ffname_of d = Some (PN, ad_name d).
Proof.
  intros d Hc Hn. rewrite set_state_spec. unfold spec_base, spec_prefix. rewrite Hc, Hn. reflexivity.
Qed.

Theorem nuc_state_flags : forall d, nuc_state d = (fst (fst (nuc_state d)), nd_five d, nd_three d).
Proof. intro d. unfold nuc_state. reflexivity. Qed.

(* ---------------------------------------------------------------------- *)
(* 5. termini                                                              *)
(* Proved for ALL chain lists, options and cyclic predicates:
     - per chain (assign_spec): a non-cyclic chain gets exactly one N/5' flag,
       on its head iff the head is an amino acid / nucleotide, and exactly one
       C/3' flag iff the search from the chain end reaches a polymer residue
       before an NH2/NME cap; every flag comes with exactly one patch; a cyclic
       chain is left untouched;
     - set_termini without hidden chain ends (termini_once): the same for every
       chain of the list, whatever the chain count, chain ids and residue ids;
     - set_termini in general, hidden chain ends included (termini_general):
       residues are neither lost, duplicated nor reordered by the splitting,
       only chain heads carry an N/5' flag, flags respect the residue kind.
   NOT proved in general: "at most one C/3' flag per chain after a hidden-end
   split" (explored by the correspondence runs and the Example below). *)

Definition nflag (r : rstate) : bool := rs_n r || rs_5 r.
Definition cflag (r : rstate) : bool := rs_c r || rs_3 r.
Definition b2n (b : bool) : nat := if b then 1 else 0.
Definition count (f : rstate -> bool) (l : list rstate) : nat := List.length (filter f l).
Definition is_poly (r : rstate) : bool :=
  match rd_kind (rs_d r) with KAmino | KNucleic => true | _ => false end.
Definition patches_match (r : rstate) : Prop :=
  List.length (rs_patches r) = b2n (nflag r) + b2n (cflag r).
Definition unflagged (r : rstate) : Prop := nflag r = false /\ cflag r = false /\ rs_patches r = [].
Definition kind_ok (r : rstate) : Prop :=
  (rs_n r = true \/ rs_c r = true -> rd_kind (rs_d r) = KAmino) /\
  (rs_5 r = true \/ rs_3 r = true -> rd_kind (rs_d r) = KNucleic).

(* does the search from the chain end (list given reversed) reach a polymer
   residue before an NH2/NME cap? *)
Fixpoint c_found (l : list rstate) : bool :=
  match l with
  | [] => false
  | r :: t => if is_poly r then true else if rd_cap (rs_d r) then false else c_found t
  end.
Definition has_c_end (l : list rstate) : bool := c_found (rev l).
Definition head_poly (l : list rstate) : bool := match l with [] => false | r :: _ => is_poly r end.

Definition chain_ok (close : nat -> nat -> bool) (c : list rstate) : Prop :=
  if cyclic close c then Forall unflagged c
  else count nflag c = b2n (head_poly c) /\
       Forall (fun r => nflag r = false) (tl c) /\
       count cflag c = b2n (has_c_end c) /\
       Forall patches_match c /\ Forall kind_ok c.

(* -- counting -- *)
Lemma count_app f a b : count f (a ++ b) = count f a + count f b.
Proof. unfold count. rewrite filter_app, app_length. reflexivity. Qed.

Lemma count_rev f l : count f (rev l) = count f l.
Proof.
  induction l as [|a l IH]; [reflexivity|]. cbn [rev]. rewrite count_app, IH.
  unfold count. cbn [filter]. destruct (f a); cbn [List.length]; lia.
Qed.

Lemma count_zero f l : Forall (fun r => f r = false) l -> count f l = 0.
Proof.
  intro H. induction H as [|a l Ha H IH]; [reflexivity|].
  unfold count in *. cbn [filter]. rewrite Ha. exact IH.
Qed.

Lemma count_cons f a l : count f (a :: l) = b2n (f a) + count f l.
Proof. unfold count. cbn [filter]. destruct (f a); reflexivity. Qed.

Lemma count_map f g l : (forall r, f (g r) = f r) -> count f (map g l) = count f l.
Proof.
  intro H. induction l as [|a l IH]; [reflexivity|]. cbn [map]. rewrite !count_cons, H, IH. reflexivity.
Qed.

Lemma unflagged_c r : unflagged r -> cflag r = false.
Proof. intros [_ [H _]]. exact H. Qed.

(* -- things that depend on the descriptors only -- *)
Lemma is_poly_d a b : rs_d a = rs_d b -> is_poly a = is_poly b.
Proof. unfold is_poly. intro H. rewrite H. reflexivity. Qed.

Lemma c_found_d : forall a b, map rs_d a = map rs_d b -> c_found a = c_found b.
Proof.
  induction a as [|x a IH]; destruct b as [|y b]; cbn [map]; intro H; try discriminate; [reflexivity|].
  inversion H as [[Hx Ht]]. cbn [c_found]. rewrite (is_poly_d x y Hx), Hx, (IH b Ht). reflexivity.
Qed.

Lemma has_c_end_d a b : map rs_d a = map rs_d b -> has_c_end a = has_c_end b.
Proof. intro H. unfold has_c_end. apply c_found_d. rewrite !map_rev, H. reflexivity. Qed.

Lemma head_poly_d a b : map rs_d a = map rs_d b -> head_poly a = head_poly b.
Proof.
  destruct a as [|x a], b as [|y b]; cbn [map]; intro H; try discriminate; [reflexivity|].
  inversion H. cbn [head_poly]. apply is_poly_d. assumption.
Qed.

Lemma find_d (p : rdesc -> bool) : forall a b, map rs_d a = map rs_d b ->
  option_map rs_d (find (fun r => p (rs_d r)) a) = option_map rs_d (find (fun r => p (rs_d r)) b).
Proof.
  induction a as [|x a IH]; destruct b as [|y b]; cbn [map]; intro H; try discriminate; [reflexivity|].
  injection H as Hx Ht. cbn [find]. rewrite Hx. destruct (p (rs_d y)); [cbn; rewrite Hx; reflexivity | apply IH; exact Ht].
Qed.

Lemma cyclic_d close a b : map rs_d a = map rs_d b -> cyclic close a = cyclic close b.
Proof.
  intro H. unfold cyclic, first_N, last_C.
  pose proof (find_d rd_hasN a b H) as E1.
  assert (Hr : map rs_d (rev a) = map rs_d (rev b)) by (rewrite !map_rev, H; reflexivity).
  pose proof (find_d rd_hasC (rev a) (rev b) Hr) as E2.
  destruct (find (fun r => rd_hasN (rs_d r)) a), (find (fun r => rd_hasN (rs_d r)) b); cbn in E1; try discriminate; [|reflexivity].
  destruct (find (fun r => rd_hasC (rs_d r)) (rev a)), (find (fun r => rd_hasC (rs_d r)) (rev b)); cbn in E2; try discriminate; [|reflexivity].
  injection E1 as E1. injection E2 as E2. rewrite E1, E2. reflexivity.
Qed.

(* -- the C-terminus search -- *)
Lemma c_scan_d o : forall l, map rs_d (c_scan o l) = map rs_d l.
Proof.
  induction l as [|r t IH]; [reflexivity|]. cbn [c_scan]. unfold c_action.
  destruct (rd_kind (rs_d r)); try reflexivity;
    destruct (rd_cap (rs_d r)); cbn [map]; try reflexivity; rewrite IH; reflexivity.
Qed.

Lemma c_scan_nflag o : forall l, map nflag (c_scan o l) = map nflag l.
Proof.
  induction l as [|r t IH]; [reflexivity|]. cbn [c_scan]. unfold c_action.
  destruct (rd_kind (rs_d r)); try reflexivity;
    destruct (rd_cap (rs_d r)); cbn [map]; try reflexivity; rewrite IH; reflexivity.
Qed.

Lemma c_scan_count o : forall l, Forall (fun r => cflag r = false) l ->
  count cflag (c_scan o l) = b2n (c_found l).
Proof.
  induction l as [|r t IH]; intro H; [reflexivity|].
  inversion H as [|? ? Hr Ht]; subst. cbn [c_scan c_found]. unfold c_action, is_poly.
  destruct (rd_kind (rs_d r)) eqn:K.
  - rewrite count_cons. unfold cflag at 1. cbn [rs_c rs_3 orb]. rewrite (count_zero _ _ Ht). reflexivity.
  - rewrite count_cons. unfold cflag at 1. cbn [rs_c rs_3]. rewrite orb_true_r. rewrite (count_zero _ _ Ht). reflexivity.
  - destruct (rd_cap (rs_d r)).
    + rewrite count_cons, Hr, (count_zero _ _ Ht). reflexivity.
    + rewrite count_cons, Hr. cbn [b2n plus]. apply IH. exact Ht.
  - destruct (rd_cap (rs_d r)).
    + rewrite count_cons, Hr, (count_zero _ _ Ht). reflexivity.
    + rewrite count_cons, Hr. cbn [b2n plus]. apply IH. exact Ht.
Qed.

Lemma app_one_length {A} (l : list A) (x : A) : List.length (l ++ [x]) = S (List.length l).
Proof. rewrite app_length. cbn [List.length]. lia. Qed.

Lemma c_scan_pm o : forall l, Forall (fun r => cflag r = false) l -> Forall patches_match l ->
  Forall patches_match (c_scan o l).
Proof.
  induction l as [|r t IH]; intros Hc Hp; [constructor|].
  inversion Hc as [|? ? Hr Ht]; subst. inversion Hp as [|? ? Pr Pt]; subst.
  cbn [c_scan]. unfold c_action.
  unfold cflag in Hr. apply orb_false_iff in Hr. destruct Hr as [Hrc Hr3].
  destruct (rd_kind (rs_d r)) eqn:K.
  - constructor; [|exact Pt]. unfold patches_match, nflag, cflag in *. cbn [rs_patches rs_n rs_5 rs_c rs_3 orb].
    rewrite app_one_length, Pr, Hrc, Hr3. cbn [orb b2n]. lia.
  - constructor; [|exact Pt]. unfold patches_match, nflag, cflag in *. cbn [rs_patches rs_n rs_5 rs_c rs_3].
    rewrite app_one_length, Pr, Hrc, Hr3, orb_true_r. cbn [orb b2n]. lia.
  - destruct (rd_cap (rs_d r)); constructor; try assumption. apply IH; assumption.
  - destruct (rd_cap (rs_d r)); constructor; try assumption. apply IH; assumption.
Qed.

Lemma c_scan_kind o : forall l, Forall kind_ok l -> Forall kind_ok (c_scan o l).
Proof.
  induction l as [|r t IH]; intro H; [constructor|]. inversion H as [|? ? Kr Kt]; subst.
  cbn [c_scan]. unfold c_action. destruct (rd_kind (rs_d r)) eqn:K.
  - constructor; [|exact Kt]. destruct Kr as [K1 K2]. unfold kind_ok. cbn [rs_n rs_c rs_5 rs_3 rs_d].
    split; [intros _; exact K | exact K2].
  - constructor; [|exact Kt]. destruct Kr as [K1 K2]. unfold kind_ok. cbn [rs_n rs_c rs_5 rs_3 rs_d].
    split; [exact K1 | intros _; exact K].
  - destruct (rd_cap (rs_d r)); constructor; try assumption. apply IH; assumption.
  - destruct (rd_cap (rs_d r)); constructor; try assumption. apply IH; assumption.
Qed.

Lemma map_eq_Forall {B} (f : rstate -> B) : forall a b, map f a = map f b ->
  forall P : B -> Prop, Forall (fun r => P (f r)) b -> Forall (fun r => P (f r)) a.
Proof.
  induction a as [|x a IH]; destruct b as [|y b]; cbn [map]; intros H P Hb; try discriminate; [constructor|].
  inversion H as [[Hx Ht]]. inversion Hb; subst. constructor; [rewrite Hx; assumption | eapply IH; eassumption].
Qed.

Lemma count_map_eq f : forall a b, map f a = map f b -> count f a = count f b.
Proof.
  induction a as [|x a IH]; destruct b as [|y b]; cbn [map]; intro H; try discriminate; [reflexivity|].
  inversion H as [[Hx Ht]]. rewrite !count_cons, Hx, (IH b Ht). reflexivity.
Qed.

(* setC = the search run from the chain end *)
Lemma setC_d o l : map rs_d (setC o l) = map rs_d l.
Proof. unfold setC. rewrite map_rev, c_scan_d, map_rev, rev_involutive. reflexivity. Qed.

Lemma setC_nflag o l : map nflag (setC o l) = map nflag l.
Proof. unfold setC. rewrite map_rev, c_scan_nflag, map_rev, rev_involutive. reflexivity. Qed.

Lemma setC_count o l : Forall (fun r => cflag r = false) l ->
  count cflag (setC o l) = b2n (has_c_end l).
Proof.
  intro H. unfold setC, has_c_end. rewrite count_rev. apply c_scan_count. apply Forall_rev. exact H.
Qed.

Lemma setC_pm o l : Forall (fun r => cflag r = false) l -> Forall patches_match l ->
  Forall patches_match (setC o l).
Proof. intros Hc Hp. unfold setC. apply Forall_rev. apply c_scan_pm; apply Forall_rev; assumption. Qed.

Lemma setC_kind o l : Forall kind_ok l -> Forall kind_ok (setC o l).
Proof. intro H. unfold setC. apply Forall_rev. apply c_scan_kind. apply Forall_rev. exact H. Qed.

(* -- the N-terminus -- *)
Lemma setN_facts o r : unflagged r ->
  rs_d (setN o r) = rs_d r /\ cflag (setN o r) = false /\ nflag (setN o r) = is_poly r /\
  patches_match (setN o r) /\ kind_ok (setN o r).
Proof.
  intros [Hn [Hc Hp]]. unfold nflag in Hn. apply orb_false_iff in Hn. destruct Hn as [Hn H5].
  unfold cflag in Hc. apply orb_false_iff in Hc. destruct Hc as [Hc H3].
  unfold setN, is_poly, patches_match, kind_ok, nflag, cflag.
  destruct (rd_kind (rs_d r)) eqn:K; cbn [rs_d rs_n rs_c rs_5 rs_3 rs_patches];
    rewrite ?Hn, ?H5, ?Hc, ?H3, ?Hp, ?K; cbn [app List.length orb b2n plus];
    repeat split; try reflexivity; try (intros [X|X]; discriminate X); try (intros _; reflexivity).
Qed.

Lemma unflagged_pm r : unflagged r -> patches_match r.
Proof. intros [Hn [Hc Hp]]. unfold patches_match. rewrite Hn, Hc, Hp. reflexivity. Qed.

Lemma unflagged_kind r : unflagged r -> kind_ok r.
Proof.
  intros [Hn [Hc _]]. unfold nflag in Hn. apply orb_false_iff in Hn. destruct Hn as [Hn H5].
  unfold cflag in Hc. apply orb_false_iff in Hc. destruct Hc as [Hc H3].
  unfold kind_ok. rewrite Hn, Hc, H5, H3. split; intros [X|X]; discriminate X.
Qed.

(* -- assign_termini on a chain nobody has touched yet -- *)
Theorem assign_spec : forall o close l l',
  Forall unflagged l -> assign o close l = Some l' ->
  map rs_d l' = map rs_d l /\ chain_ok close l'.
Proof.
  intros o close l l' Hu H. unfold assign in H. destruct l as [|r0 t]; [discriminate|].
  assert (Hd : cyclic close (r0 :: t) = true -> l' = r0 :: t).
  { intro E. rewrite E in H. inversion H. reflexivity. }
  destruct (cyclic close (r0 :: t)) eqn:Cy.
  - rewrite (Hd eq_refl). split; [reflexivity|]. unfold chain_ok. rewrite Cy. exact Hu.
  - inversion H as [E]. clear H Hd. cbn [upd_head].
    inversion Hu as [|? ? U0 Ut]; subst.
    destruct (setN_facts o r0 U0) as [Sd [Sc [Sn [Spm Sk]]]].
    set (l1 := setN o r0 :: t).
    assert (D1 : map rs_d l1 = map rs_d (r0 :: t)) by (unfold l1; cbn [map]; rewrite Sd; reflexivity).
    assert (C1 : Forall (fun r => cflag r = false) l1).
    { unfold l1. constructor; [exact Sc|]. eapply Forall_impl; [|exact Ut]. intros a Ha. apply unflagged_c. exact Ha. }
    assert (Dall : map rs_d (setC o l1) = map rs_d (r0 :: t)) by (rewrite setC_d; exact D1).
    split; [exact Dall|]. unfold chain_ok.
    rewrite (cyclic_d close _ _ Dall), Cy.
    assert (NF : map nflag (setC o l1) = map nflag l1) by apply setC_nflag.
    split; [|split; [|split; [|split]]].
    + rewrite (head_poly_d _ _ Dall). rewrite (count_map_eq nflag _ _ NF). unfold l1. rewrite count_cons, Sn.
      rewrite (count_zero nflag t).
      * cbn [head_poly]. lia.
      * eapply Forall_impl; [|exact Ut]. intros a [Ha _]. exact Ha.
    + destruct (setC o l1) as [|x xs] eqn:Ex; [constructor|]. cbn [tl].
      unfold l1 in NF. cbn [map] in NF. injection NF as _ Hxs.
      apply (map_eq_Forall nflag xs t Hxs (fun b => b = false)).
      eapply Forall_impl; [|exact Ut]. intros a [Ha _]. exact Ha.
    + rewrite (setC_count o l1 C1). rewrite (has_c_end_d _ _ Dall). rewrite (has_c_end_d _ _ D1). reflexivity.
    + apply setC_pm; [exact C1|]. unfold l1. constructor; [exact Spm|].
      eapply Forall_impl; [|exact Ut]. intros a Ha. apply unflagged_pm. exact Ha.
    + apply setC_kind. unfold l1. constructor; [exact Sk|].
      eapply Forall_impl; [|exact Ut]. intros a Ha. apply unflagged_kind. exact Ha.
Qed.

(* -- set_termini without hidden chain ends -- *)
Lemma scan_nofix : forall rest fuel o close keys acc,
  Forall (fun r => fixflag r = false) rest -> List.length rest < fuel ->
  scan fuel o close keys acc rest = Done (keys, [], (acc ++ rest)%list).
Proof.
  induction rest as [|r rest IH]; intros fuel o close keys acc H Hf.
  - destruct fuel; [inversion Hf|]. cbn [scan]. rewrite app_nil_r. reflexivity.
  - destruct fuel; [inversion Hf|]. cbn [scan]. inversion H as [|? ? Hr Hrest]; subst. rewrite Hr.
    rewrite IH; [|exact Hrest | cbn [List.length] in Hf; lia].
    rewrite <- app_assoc. reflexivity.
Qed.

Lemma scan_all_nofix : forall cs o close keys,
  Forall (Forall (fun r => fixflag r = false)) cs ->
  scan_all o close keys cs = Done (keys, cs).
Proof.
  induction cs as [|c cs IH]; intros o close keys H; [reflexivity|].
  inversion H as [|? ? Hc Hcs]; subst. cbn [scan_all].
  rewrite (scan_nofix c (S (List.length c)) o close keys [] Hc); [|lia].
  rewrite (IH o close keys Hcs). reflexivity.
Qed.

Lemma assign_all_Forall2 : forall o close cs cs1,
  assign_all o close cs = Some cs1 -> Forall2 (fun c c1 => assign o close c = Some c1) cs cs1.
Proof.
  induction cs as [|c cs IH]; intros cs1 H; cbn [assign_all] in H.
  - inversion H. constructor.
  - destruct (assign o close c) as [c'|] eqn:E; [|discriminate].
    destruct (assign_all o close cs) as [r'|] eqn:E2; [|discriminate].
    inversion H; subst. constructor; [exact E | apply IH; reflexivity].
Qed.

(* relabelling the chain id changes nothing else *)
Definition same_core (a b : rstate) : Prop :=
  rs_d a = rs_d b /\ rs_n a = rs_n b /\ rs_c a = rs_c b /\ rs_5 a = rs_5 b /\ rs_3 a = rs_3 b /\
  rs_patches a = rs_patches b.

Lemma set_chain_core c r : same_core (set_chain c r) r.
Proof. unfold same_core, set_chain. cbn. repeat split; reflexivity. Qed.

Lemma same_core_refl r : same_core r r.
Proof. unfold same_core. repeat split; reflexivity. Qed.

Lemma chain_ok_map close g c : (forall r, same_core (g r) r) -> chain_ok close c -> chain_ok close (map g c).
Proof.
  intros Hg H.
  assert (Gd : forall r, rs_d (g r) = rs_d r) by (intro r; apply (Hg r)).
  assert (Gn : forall r, nflag (g r) = nflag r).
  { intro r. destruct (Hg r) as [_ [A [_ [B _]]]]. unfold nflag. rewrite A, B. reflexivity. }
  assert (Gc : forall r, cflag (g r) = cflag r).
  { intro r. destruct (Hg r) as [_ [_ [A [_ [B _]]]]]. unfold cflag. rewrite A, B. reflexivity. }
  assert (Gp : forall r, rs_patches (g r) = rs_patches r) by (intro r; apply (Hg r)).
  assert (D : map rs_d (map g c) = map rs_d c).
  { rewrite map_map. apply map_ext. exact Gd. }
  unfold chain_ok in *. rewrite (cyclic_d close _ _ D). destruct (cyclic close c).
  - apply Forall_map. eapply Forall_impl; [|exact H]. intros r [A [B C]].
    unfold unflagged. rewrite Gn, Gc, Gp. repeat split; assumption.
  - destruct H as [H1 [H2 [H3 [H4 H5]]]].
    rewrite (count_map nflag g c Gn), (count_map cflag g c Gc), (head_poly_d _ _ D), (has_c_end_d _ _ D).
    split; [exact H1|]. split; [|split; [exact H3|split]].
    + destruct c as [|x c]; [constructor|]. cbn [map tl] in *. apply Forall_map.
      eapply Forall_impl; [|exact H2]. intros r Hr. cbn beta. rewrite Gn. exact Hr.
    + apply Forall_map. eapply Forall_impl; [|exact H4]. intros r Hr.
      unfold patches_match in *. rewrite Gn, Gc, Gp. exact Hr.
    + apply Forall_map. eapply Forall_impl; [|exact H5]. intros r [K1 K2].
      destruct (Hg r) as [Ed [En [Ec [E5 [E3 _]]]]].
      unfold kind_ok. rewrite Ed, En, Ec, E5, E3. split; assumption.
Qed.

(* phase 1 of set_termini leaves no residue asking for a chain split *)
Definition no_hidden (o : opts) (close : nat -> nat -> bool) (chains : list (string * list rdesc)) : Prop :=
  forall cs1, assign_all o close (map (fun c => map (fresh_res (fst c)) (snd c)) chains) = Some cs1 ->
              Forall (Forall (fun r => fixflag r = false)) cs1.

Lemma fresh_unflagged cid ds : Forall unflagged (map (fresh_res cid) ds).
Proof. apply Forall_map. apply Forall_forall. intros d _. unfold unflagged, fresh_res, nflag, cflag. cbn. repeat split; reflexivity. Qed.

Lemma fresh_d cid ds : map rs_d (map (fresh_res cid) ds) = ds.
Proof. rewrite map_map. cbn. apply map_id. Qed.

Theorem termini_once : forall o close chains out,
  termini o close chains = Done out ->
  no_hidden o close chains ->
  Forall2 (fun c oc => map rs_d oc = snd c /\ chain_ok close oc) chains out.
Proof.
  intros o close chains out H NH. unfold termini in H. unfold no_hidden in NH.
  destruct (assign_all o close (map (fun c => map (fresh_res (fst c)) (snd c)) chains)) as [cs1|] eqn:E1; [|discriminate].
  specialize (NH cs1 eq_refl). rewrite (scan_all_nofix cs1 o close _ NH) in H.
  apply assign_all_Forall2 in E1.
  assert (Base : Forall2 (fun c oc => map rs_d oc = snd c /\ chain_ok close oc) chains cs1).
  { clear H NH. remember (map (fun c => map (fresh_res (fst c)) (snd c)) chains) as cs eqn:Ecs.
    revert chains Ecs. induction E1 as [|c c1 cs cs1 Hc E1 IH]; intros chains Ecs.
    - destruct chains; [constructor | discriminate].
    - destruct chains as [|ch chains]; [discriminate|]. cbn [map] in Ecs. inversion Ecs as [[Ec Et]].
      constructor; [|apply IH; exact Et].
      subst c. destruct (assign_spec o close _ c1 (fresh_unflagged (fst ch) (snd ch)) Hc) as [D K].
      rewrite fresh_d in D. split; assumption. }
  unfold rename_blank in H.
  destruct (mem_string EmptyString (map fst chains)); [|inversion H; subst; exact Base].
  destruct (forallb is_water (last cs1 [])); [inversion H; subst; exact Base|].
  destruct (fresh (map fst chains)) as [cid|]; [|discriminate]. inversion H; subst. clear H.
  set (g := fun r => if String.eqb (rs_chain r) EmptyString then set_chain (first_char cid) r else r).
  assert (Hg : forall r, same_core (g r) r).
  { intro r. unfold g. destruct (String.eqb (rs_chain r) EmptyString); [apply set_chain_core | apply same_core_refl]. }
  clear E1 NH. induction Base as [|ch c chains cs1 [D K] Base IH]; [constructor|].
  cbn [map]. constructor; [|exact IH]. split.
  - rewrite map_map. rewrite <- D. apply map_ext. intro r. apply (Hg r).
  - apply chain_ok_map; assumption.
Qed.

(* -- set_termini in general (hidden chain ends included) -- *)

(* the patch a residue receives with a flag is a function of options and descriptor *)
Definition npatch (o : opts) (r : rstate) : patch :=
  if o_neutraln o || rd_nheavy2 (rs_d r) then P_NEUTRAL_NTERM else P_NTERM.
Definition cpatch (o : opts) : patch := if o_neutralc o then P_NEUTRAL_CTERM else P_CTERM.

(* the SET of patches is determined by the flags (the list may repeat them) *)
Definition patch_set_ok (o : opts) (r : rstate) : Prop :=
  forall p, In p (rs_patches r) <->
    (rs_n r = true /\ p = npatch o r) \/ (rs_c r = true /\ p = cpatch o) \/
    (rs_5 r = true /\ p = P_5TERM) \/ (rs_3 r = true /\ p = P_3TERM).

Definition cclear (r : rstate) : Prop := cflag r = false.

(* over the REVERSED segment: a C/3' flag can only sit on the first polymer residue met from
   the end, and only if no NH2/NME cap comes before it *)
Fixpoint c_ok (l : list rstate) : Prop :=
  match l with
  | [] => True
  | r :: t => if is_poly r then Forall cclear t
              else cflag r = false /\ (if rd_cap (rs_d r) then Forall cclear t else c_ok t)
  end.

Definition hd_nflag (c : list rstate) : bool := match c with [] => false | r :: _ => nflag r end.

(* what holds of EVERY chain segment set_termini produces *)
Definition seg_ok (o : opts) (c : list rstate) : Prop :=
  Forall kind_ok c /\ Forall (patch_set_ok o) c /\
  Forall (fun r => nflag r = false) (tl c) /\ c_ok (rev c).

(* a segment that is not cyclic has its ends flagged *)
Definition seg_full (close : nat -> nat -> bool) (c : list rstate) : Prop :=
  cyclic close c = false ->
  hd_nflag c = head_poly c /\ count cflag c = b2n (has_c_end c).

Lemma setN_kind o r : kind_ok r -> kind_ok (setN o r) /\ rs_d (setN o r) = rs_d r.
Proof.
  intros [K1 K2]. unfold setN. destruct (rd_kind (rs_d r)) eqn:K.
  - split; [|reflexivity]. unfold kind_ok. cbn [rs_d rs_n rs_c rs_5 rs_3]. rewrite K.
    split; [intros _; reflexivity | exact K2].
  - split; [|reflexivity]. unfold kind_ok. cbn [rs_d rs_n rs_c rs_5 rs_3]. rewrite K.
    split; [exact K1 | intros _; reflexivity].
  - split; [|reflexivity]. unfold kind_ok. rewrite K. split; assumption.
  - split; [|reflexivity]. unfold kind_ok. rewrite K. split; assumption.
Qed.

Lemma setN_cflag o r : cflag (setN o r) = cflag r.
Proof. unfold setN, cflag. destruct (rd_kind (rs_d r)); reflexivity. Qed.

Lemma setN_nflag o r : kind_ok r -> nflag (setN o r) = is_poly r.
Proof.
  intros [K1 K2]. unfold setN, is_poly, nflag. destruct (rd_kind (rs_d r)) eqn:K; cbn [rs_n rs_5].
  - reflexivity.
  - apply orb_true_r.
  - destruct (rs_n r) eqn:A; [assert (X : KWater = KAmino) by (apply K1; left; reflexivity); discriminate X|].
    destruct (rs_5 r) eqn:B; [assert (X : KWater = KNucleic) by (apply K2; left; reflexivity); discriminate X|]. reflexivity.
  - destruct (rs_n r) eqn:A; [assert (X : KOther = KAmino) by (apply K1; left; reflexivity); discriminate X|].
    destruct (rs_5 r) eqn:B; [assert (X : KOther = KNucleic) by (apply K2; left; reflexivity); discriminate X|]. reflexivity.
Qed.

Lemma in_snoc {A} (l : list A) (x p : A) : In p (l ++ [x]) <-> In p l \/ p = x.
Proof. rewrite in_app_iff. cbn [In]. intuition. Qed.

Lemma setN_ps o r : patch_set_ok o r -> patch_set_ok o (setN o r).
Proof.
  intro H. unfold setN. destruct (rd_kind (rs_d r)) eqn:K; try exact H.
  - intro p. unfold patch_set_ok in H. cbn [rs_patches rs_n rs_c rs_5 rs_3].
    change (npatch o (mkrs (rs_d r) true (rs_c r) (rs_5 r) (rs_3 r) (rs_patches r ++ [if o_neutraln o || rd_nheavy2 (rs_d r) then P_NEUTRAL_NTERM else P_NTERM]) (rs_chain r))) with (npatch o r).
    rewrite in_snoc, (H p). fold (npatch o r). intuition.
  - intro p. unfold patch_set_ok in H. cbn [rs_patches rs_n rs_c rs_5 rs_3].
    change (npatch o (mkrs (rs_d r) (rs_n r) (rs_c r) true (rs_3 r) (rs_patches r ++ [P_5TERM]) (rs_chain r))) with (npatch o r).
    rewrite in_snoc, (H p). intuition.
Qed.

Lemma c_scan_ps o : forall l, Forall (patch_set_ok o) l -> Forall (patch_set_ok o) (c_scan o l).
Proof.
  induction l as [|r t IH]; intro H; [constructor|]. inversion H as [|? ? Pr Pt]; subst.
  cbn [c_scan]. unfold c_action. destruct (rd_kind (rs_d r)) eqn:K.
  - constructor; [|exact Pt]. intro p. unfold patch_set_ok in Pr. cbn [rs_patches rs_n rs_c rs_5 rs_3].
    change (npatch o (mkrs (rs_d r) (rs_n r) true (rs_5 r) (rs_3 r) (rs_patches r ++ [if o_neutralc o then P_NEUTRAL_CTERM else P_CTERM]) (rs_chain r))) with (npatch o r).
    rewrite in_snoc, (Pr p). fold (cpatch o). intuition.
  - constructor; [|exact Pt]. intro p. unfold patch_set_ok in Pr. cbn [rs_patches rs_n rs_c rs_5 rs_3].
    change (npatch o (mkrs (rs_d r) (rs_n r) (rs_c r) (rs_5 r) true (rs_patches r ++ [P_3TERM]) (rs_chain r))) with (npatch o r).
    rewrite in_snoc, (Pr p). intuition.
  - destruct (rd_cap (rs_d r)); constructor; try assumption. apply IH; assumption.
  - destruct (rd_cap (rs_d r)); constructor; try assumption. apply IH; assumption.
Qed.

Lemma setC_ps o l : Forall (patch_set_ok o) l -> Forall (patch_set_ok o) (setC o l).
Proof. intro H. unfold setC. apply Forall_rev. apply c_scan_ps. apply Forall_rev. exact H. Qed.

(* -- the C flag position -- *)
Lemma c_ok_clear : forall l, Forall cclear l -> c_ok l.
Proof.
  induction l as [|r t IH]; intro H; [exact I|]. inversion H as [|? ? Hr Ht]; subst. cbn [c_ok].
  destruct (is_poly r); [exact Ht|]. split; [exact Hr|]. destruct (rd_cap (rs_d r)); [exact Ht | apply IH; exact Ht].
Qed.

Lemma c_ok_prefix : forall a b, c_ok (a ++ b) -> c_ok a.
Proof.
  induction a as [|r a IH]; intros b H; [exact I|]. cbn [app c_ok] in *.
  destruct (is_poly r).
  - apply Forall_app in H. apply H.
  - destruct H as [Hr H]. split; [exact Hr|]. destruct (rd_cap (rs_d r)).
    + apply Forall_app in H. apply H.
    + apply (IH b). exact H.
Qed.

Lemma c_ok_after : forall p r s, c_ok (p ++ r :: s) -> is_poly r = true -> Forall cclear s.
Proof.
  induction p as [|x p IH]; intros r s H Hr; cbn [app c_ok] in H.
  - rewrite Hr in H. exact H.
  - destruct (is_poly x).
    + apply Forall_app in H. destruct H as [_ H]. inversion H; assumption.
    + destruct H as [_ H]. destruct (rd_cap (rs_d x)).
      * apply Forall_app in H. destruct H as [_ H]. inversion H; assumption.
      * apply (IH r s H Hr).
Qed.

Lemma c_ok_ext : forall a b, map (fun r => (cflag r, rs_d r)) a = map (fun r => (cflag r, rs_d r)) b ->
  c_ok a -> c_ok b.
Proof.
  induction a as [|x a IH]; destruct b as [|y b]; cbn [map]; intros E H; try discriminate; [exact I|].
  injection E as Ec Ed Et. cbn [c_ok] in *. rewrite <- (is_poly_d x y Ed), <- Ed, <- Ec.
  assert (CT : Forall cclear a -> Forall cclear b).
  { intro Ha. clear - Ha Et. revert b Et. induction Ha as [|z a Hz Ha IHa]; intros b Et; destruct b as [|w b]; cbn [map] in Et; try discriminate; [constructor|].
    injection Et as E1 _ E3. constructor; [unfold cclear in *; rewrite <- E1; exact Hz | apply IHa; exact E3]. }
  destruct (is_poly x); [apply CT; exact H|]. destruct H as [Hx H]. split; [exact Hx|].
  destruct (rd_cap (rs_d x)); [apply CT; exact H | apply (IH b Et H)].
Qed.

Lemma c_scan_c_ok o : forall l, c_ok l -> c_ok (c_scan o l).
Proof.
  induction l as [|r t IH]; intro H; [exact I|]. cbn [c_scan]. unfold c_action.
  cbn [c_ok] in H. unfold is_poly in H. destruct (rd_kind (rs_d r)) eqn:K.
  - cbn [c_ok]. unfold is_poly. cbn [rs_d]. rewrite K. exact H.
  - cbn [c_ok]. unfold is_poly. cbn [rs_d]. rewrite K. exact H.
  - destruct H as [Hr H]. destruct (rd_cap (rs_d r)) eqn:C; cbn [c_ok]; unfold is_poly; rewrite K, C; split; try assumption.
    apply IH. exact H.
  - destruct H as [Hr H]. destruct (rd_cap (rs_d r)) eqn:C; cbn [c_ok]; unfold is_poly; rewrite K, C; split; try assumption.
    apply IH. exact H.
Qed.

Lemma c_scan_count_ok o : forall l, c_ok l -> count cflag (c_scan o l) = b2n (c_found l).
Proof.
  induction l as [|r t IH]; intro H; [reflexivity|]. cbn [c_scan c_found]. unfold c_action.
  cbn [c_ok] in H. unfold is_poly in *. destruct (rd_kind (rs_d r)) eqn:K.
  - rewrite count_cons. unfold cflag at 1. cbn [rs_c rs_3 orb]. rewrite (count_zero _ _ H). reflexivity.
  - rewrite count_cons. unfold cflag at 1. cbn [rs_c rs_3]. rewrite orb_true_r. rewrite (count_zero _ _ H). reflexivity.
  - destruct H as [Hr H]. destruct (rd_cap (rs_d r)).
    + rewrite count_cons, Hr, (count_zero _ _ H). reflexivity.
    + rewrite count_cons, Hr. cbn [b2n plus]. apply IH. exact H.
  - destruct H as [Hr H]. destruct (rd_cap (rs_d r)).
    + rewrite count_cons, Hr, (count_zero _ _ H). reflexivity.
    + rewrite count_cons, Hr. cbn [b2n plus]. apply IH. exact H.
Qed.

Lemma c_ok_count : forall l, c_ok l -> count cflag l <= 1.
Proof.
  induction l as [|r t IH]; intro H; [cbn; lia|]. cbn [c_ok] in H. rewrite count_cons.
  destruct (is_poly r).
  - rewrite (count_zero _ _ H). destruct (cflag r); cbn; lia.
  - destruct H as [Hr H]. rewrite Hr. cbn [b2n plus]. destruct (rd_cap (rs_d r)).
    + rewrite (count_zero _ _ H). lia.
    + apply IH. exact H.
Qed.

Lemma Forall_tl {A} (P : A -> Prop) l : Forall P l -> Forall P (tl l).
Proof. intro H. destruct l; [constructor|]. inversion H; assumption. Qed.

Lemma hd_nflag_map a b : map nflag a = map nflag b -> hd_nflag a = hd_nflag b.
Proof. destruct a, b; cbn [map]; intro H; try discriminate; [reflexivity|]. injection H as H _. exact H. Qed.

(* -- assign_termini on ANY segment satisfying the invariant (re-application included) -- *)
Lemma assign_seg : forall o close l l', seg_ok o l -> assign o close l = Some l' ->
  map rs_d l' = map rs_d l /\ seg_ok o l' /\ seg_full close l'.
Proof.
  intros o close l l' [HK [HP [HT HC]]] H. unfold assign in H. destruct l as [|r0 t]; [discriminate|].
  destruct (cyclic close (r0 :: t)) eqn:Cy.
  - inversion H; subst. split; [reflexivity|]. split; [repeat split; assumption|].
    intro E. rewrite Cy in E. discriminate E.
  - inversion H as [E]. clear H. cbn [upd_head]. inversion HK as [|? ? K0 Kt]; subst.
    inversion HP as [|? ? P0 Pt]; subst. cbn [tl] in HT.
    destruct (setN_kind o r0 K0) as [Sk Sd].
    set (l1 := setN o r0 :: t).
    assert (D1 : map rs_d l1 = map rs_d (r0 :: t)) by (unfold l1; cbn [map]; rewrite Sd; reflexivity).
    assert (Dall : map rs_d (setC o l1) = map rs_d (r0 :: t)) by (rewrite setC_d; exact D1).
    assert (NF : map nflag (setC o l1) = map nflag l1) by apply setC_nflag.
    assert (C1 : c_ok (rev l1)).
    { apply (c_ok_ext (rev (r0 :: t))); [|exact HC]. rewrite !map_rev. f_equal. unfold l1. cbn [map].
      rewrite setN_cflag, Sd. reflexivity. }
    split; [exact Dall|]. split.
    + split; [|split; [|split]].
      * apply setC_kind. constructor; assumption.
      * apply setC_ps. constructor; [apply setN_ps; exact P0 | exact Pt].
      * destruct (setC o l1) as [|x xs]; [constructor|]. unfold l1 in NF. cbn [tl map] in *.
        injection NF as _ Hxs. apply (map_eq_Forall nflag xs t Hxs (fun b => b = false)). exact HT.
      * unfold setC. rewrite rev_involutive. apply c_scan_c_ok. exact C1.
    + intros _. split.
      * rewrite (hd_nflag_map _ _ NF). rewrite (head_poly_d _ _ Dall). unfold l1. cbn [hd_nflag head_poly].
        apply setN_nflag. exact K0.
      * unfold setC. rewrite count_rev. rewrite (c_scan_count_ok o _ C1).
        change (c_found (rev l1)) with (has_c_end l1).
        fold (setC o l1). rewrite (has_c_end_d _ _ Dall). rewrite (has_c_end_d _ _ D1). reflexivity.
Qed.

Lemma seg_ok_map o g c : (forall r, same_core (g r) r) -> seg_ok o c -> seg_ok o (map g c).
Proof.
  intros Hg [HK [HP [HT HC]]]. split; [|split; [|split]].
  - apply Forall_map. eapply Forall_impl; [|exact HK]. intros r [K1 K2].
    destruct (Hg r) as [Ed [En [Ec [E5 [E3 _]]]]]. unfold kind_ok. rewrite Ed, En, Ec, E5, E3. split; assumption.
  - apply Forall_map. eapply Forall_impl; [|exact HP]. intros r Hr p.
    destruct (Hg r) as [Ed [En [Ec [E5 [E3 Ep]]]]]. unfold npatch. rewrite Ed, En, Ec, E5, E3, Ep. apply (Hr p).
  - destruct c as [|x c]; [constructor|]. cbn [map tl] in *. apply Forall_map.
    eapply Forall_impl; [|exact HT]. intros r Hr. cbn beta.
    destruct (Hg r) as [_ [En [_ [E5 _]]]]. unfold nflag in *. rewrite En, E5. exact Hr.
  - apply (c_ok_ext (rev c)); [|exact HC]. rewrite !map_rev. f_equal. rewrite map_map. apply map_ext.
    intro r. destruct (Hg r) as [Ed [_ [Ec [_ [E3 _]]]]]. unfold cflag. rewrite Ed, Ec, E3. reflexivity.
Qed.

Lemma seg_full_map close g c : (forall r, same_core (g r) r) -> seg_full close c -> seg_full close (map g c).
Proof.
  intros Hg H.
  assert (Gn : forall r, nflag (g r) = nflag r).
  { intro r. destruct (Hg r) as [_ [A [_ [B _]]]]. unfold nflag. rewrite A, B. reflexivity. }
  assert (Gc : forall r, cflag (g r) = cflag r).
  { intro r. destruct (Hg r) as [_ [_ [A [_ [B _]]]]]. unfold cflag. rewrite A, B. reflexivity. }
  assert (D : map rs_d (map g c) = map rs_d c).
  { rewrite map_map. apply map_ext. intro r. apply (Hg r). }
  unfold seg_full in *. rewrite (cyclic_d close _ _ D). intro Cy. destruct (H Cy) as [H1 H2].
  rewrite (count_map cflag g c Gc), (head_poly_d _ _ D), (has_c_end_d _ _ D). split; [|exact H2].
  rewrite <- H1. destruct c; [reflexivity|]. cbn [map hd_nflag]. apply Gn.
Qed.

Lemma fixflag_poly r : fixflag r = true -> is_poly r = true.
Proof. unfold fixflag, is_poly. destruct (rd_kind (rs_d r)); intro H; try reflexivity; discriminate H. Qed.

Lemma seg_split : forall o (a : list rstate) r b, seg_ok o ((a ++ [r]) ++ b) -> is_poly r = true ->
  seg_ok o (a ++ [r]) /\ seg_ok o b.
Proof.
  intros o a r b [HK [HP [HT HC]]] Hr.
  apply Forall_app in HK. destruct HK as [HK1 HK2]. apply Forall_app in HP. destruct HP as [HP1 HP2].
  rewrite rev_app_distr in HC. rewrite (rev_app_distr a [r]) in HC. cbn [rev app] in HC.
  assert (Nb : Forall (fun x => nflag x = false) b /\ Forall (fun x => nflag x = false) (tl (a ++ [r]))).
  { destruct a as [|x a]; cbn [app tl] in *.
    - split; [exact HT | constructor].
    - apply Forall_app in HT. destruct HT as [HT1 HT2]. split; assumption. }
  destruct Nb as [Nb Na]. split.
  - split; [exact HK1|]. split; [exact HP1|]. split; [exact Na|].
    rewrite rev_app_distr. cbn [rev app c_ok]. rewrite Hr.
    apply (c_ok_after (rev b) r (rev a) HC Hr).
  - split; [exact HK2|]. split; [exact HP2|]. split; [apply Forall_tl; exact Nb|].
    apply (c_ok_prefix (rev b) (r :: rev a)). exact HC.
Qed.

Lemma scan_seg : forall fuel o close keys acc rest k segs fin,
  scan fuel o close keys acc rest = Done (k, segs, fin) ->
  seg_ok o (acc ++ rest) -> seg_full close (acc ++ rest) ->
  (List.concat (map (map rs_d) segs) ++ map rs_d fin)%list = map rs_d (acc ++ rest) /\
  Forall (seg_ok o) segs /\ seg_ok o fin /\ Forall (seg_full close) segs /\ seg_full close fin.
Proof.
  induction fuel as [|f IH]; intros o close keys acc rest k segs fin H I Fu; [discriminate|].
  cbn [scan] in H. destruct rest as [|r rest'].
  - inversion H; subst. rewrite app_nil_r in *. cbn [map List.concat app].
    split; [reflexivity|]. split; [constructor|]. split; [exact I|]. split; [constructor | exact Fu].
  - assert (EA : (acc ++ r :: rest' = (acc ++ [r]) ++ rest')%list) by (rewrite <- app_assoc; reflexivity).
    rewrite EA in I, Fu. rewrite EA.
    destruct (fixflag r) eqn:FF.
    + destruct (fresh keys) as [cid|]; [|discriminate].
      destruct (assign o close rest') as [rest''|] eqn:A1;
        destruct (assign o close (map (set_chain (first_char cid)) (acc ++ [r]))) as [newc'|] eqn:A2;
        try discriminate.
      destruct (scan f o close (cid :: keys) [] rest'') as [[[k' segs'] fin']| |] eqn:S; try discriminate.
      inversion H; subst. clear H.
      destruct (seg_split o acc r rest' I (fixflag_poly r FF)) as [I1 I2].
      assert (I1' : seg_ok o (map (set_chain (first_char cid)) (acc ++ [r]))).
      { apply seg_ok_map; [intro x; apply set_chain_core | exact I1]. }
      destruct (assign_seg o close _ _ I1' A2) as [D2 [J2 G2]].
      destruct (assign_seg o close _ _ I2 A1) as [D1 [J1 G1]].
      destruct (IH o close (cid :: keys) [] rest'' k segs' fin S J1 G1) as [R [F1 [F2 [F3 F4]]]].
      cbn [app] in R. split; [|split; [constructor; assumption|split; [exact F2|split; [constructor; assumption|exact F4]]]].
      cbn [map List.concat]. rewrite <- app_assoc, R, D1, D2.
      rewrite (map_app rs_d (acc ++ [r]) rest'). rewrite map_map. f_equal.
    + apply (IH o close keys (acc ++ [r])%list rest' k segs fin H I Fu).
Qed.

Lemma scan_all_seg : forall cs o close keys k out,
  scan_all o close keys cs = Done (k, out) -> Forall (seg_ok o) cs -> Forall (seg_full close) cs ->
  List.concat (map (map rs_d) out) = List.concat (map (map rs_d) cs) /\
  Forall (seg_ok o) out /\ Forall (seg_full close) out.
Proof.
  induction cs as [|c cs IH]; intros o close keys k out H I Fu; cbn [scan_all] in H.
  - inversion H; subst. repeat split; constructor.
  - inversion I as [|? ? Ic Ics]; subst. inversion Fu as [|? ? Fc Fcs]; subst.
    destruct (scan (S (List.length c)) o close keys [] c) as [[[k1 segs] fin]| |] eqn:S; try discriminate.
    destruct (scan_all o close k1 cs) as [[k2 out']| |] eqn:S2; try discriminate.
    inversion H; subst. clear H.
    destruct (scan_seg _ _ _ _ _ _ _ _ _ S Ic Fc) as [R [F1 [F2 [F3 F4]]]]. cbn [app] in R.
    destruct (IH o close k1 k out' S2 Ics Fcs) as [R2 [F5 F6]].
    change (segs ++ [fin] ++ out')%list with (segs ++ fin :: out')%list.
    split; [|split].
    + rewrite map_app, concat_app. cbn [map List.concat]. rewrite R2.
      rewrite app_assoc, R. reflexivity.
    + apply Forall_app. split; [exact F1|]. constructor; assumption.
    + apply Forall_app. split; [exact F3|]. constructor; assumption.
Qed.

Lemma fresh_seg_ok o cid ds : seg_ok o (map (fresh_res cid) ds).
Proof.
  pose proof (fresh_unflagged cid ds) as U. split; [|split; [|split]].
  - eapply Forall_impl; [|exact U]. intros a Ha. apply unflagged_kind. exact Ha.
  - apply Forall_map. apply Forall_forall. intros d _ p. unfold fresh_res. cbn [rs_patches rs_n rs_c rs_5 rs_3 In].
    split; [intros [] | intros [[X _]|[[X _]|[[X _]|[X _]]]]; discriminate X].
  - apply Forall_tl. eapply Forall_impl; [|exact U]. intros a [Ha _]. exact Ha.
  - apply c_ok_clear. apply Forall_rev. eapply Forall_impl; [|exact U]. intros a Ha. apply unflagged_c. exact Ha.
Qed.

Lemma phase1_seg : forall o close chains cs1,
  assign_all o close (map (fun c => map (fresh_res (fst c)) (snd c)) chains) = Some cs1 ->
  List.concat (map (map rs_d) cs1) = List.concat (map snd chains) /\
  Forall (seg_ok o) cs1 /\ Forall (seg_full close) cs1.
Proof.
  induction chains as [|ch chains IH]; intros cs1 H; cbn [map assign_all] in H.
  - inversion H; subst. repeat split; constructor.
  - destruct (assign o close (map (fresh_res (fst ch)) (snd ch))) as [c1|] eqn:Hc; [|discriminate].
    destruct (assign_all o close (map (fun c => map (fresh_res (fst c)) (snd c)) chains)) as [r'|] eqn:E2; [|discriminate].
    inversion H; subst. clear H.
    destruct (assign_seg o close _ c1 (fresh_seg_ok o (fst ch) (snd ch)) Hc) as [D [J G]]. rewrite fresh_d in D.
    destruct (IH r' eq_refl) as [R [F1 F2]].
    split; [cbn [map List.concat]; rewrite D, R; reflexivity | split; constructor; assumption].
Qed.

(* for ALL chain lists, hidden chain ends included: residues are neither lost, duplicated nor
   moved by the splitting; every resulting segment satisfies seg_ok (at most one N/5' flag, on
   its head; at most one C/3' flag, on its last polymer residue not hidden by a cap; flags
   respect the residue kind; the patch SET is the function of the flags) and seg_full (a
   non-cyclic segment has both ends flagged, as far as they exist) *)
Theorem termini_general : forall o close chains out,
  termini o close chains = Done out ->
  List.concat (map (map rs_d) out) = List.concat (map snd chains) /\
  Forall (seg_ok o) out /\ Forall (seg_full close) out.
Proof.
  intros o close chains out H. unfold termini in H.
  destruct (assign_all o close (map (fun c => map (fresh_res (fst c)) (snd c)) chains)) as [cs1|] eqn:E1; [|discriminate].
  destruct (phase1_seg o close chains cs1 E1) as [R [F G]].
  destruct (scan_all o close (map fst chains) cs1) as [[keys out0]| |] eqn:S; try discriminate.
  destruct (scan_all_seg cs1 o close _ keys out0 S F G) as [R2 [F2 G2]].
  unfold rename_blank in H.
  assert (Fin : forall o1, List.concat (map (map rs_d) o1) = List.concat (map (map rs_d) out0) ->
            Forall (seg_ok o) o1 -> Forall (seg_full close) o1 ->
            List.concat (map (map rs_d) o1) = List.concat (map snd chains) /\
            Forall (seg_ok o) o1 /\ Forall (seg_full close) o1).
  { intros o1 E I1 I2. split; [rewrite E, R2, R; reflexivity | split; assumption]. }
  destruct (mem_string EmptyString keys); [|inversion H; subst; apply Fin; [reflexivity|exact F2|exact G2]].
  destruct (forallb is_water (last out0 [])); [inversion H; subst; apply Fin; [reflexivity|exact F2|exact G2]|].
  destruct (fresh keys) as [cid|]; [|discriminate]. inversion H; subst. clear H.
  set (g := fun r => if String.eqb (rs_chain r) EmptyString then set_chain (first_char cid) r else r).
  assert (Hg : forall r, same_core (g r) r).
  { intro r. unfold g. destruct (String.eqb (rs_chain r) EmptyString); [apply set_chain_core | apply same_core_refl]. }
  apply Fin.
  - f_equal. rewrite map_map. apply map_ext. intro c. rewrite map_map. apply map_ext. intro r. apply (Hg r).
  - apply Forall_map. eapply Forall_impl; [|exact F2]. intros c Ic. apply seg_ok_map; assumption.
  - apply Forall_map. eapply Forall_impl; [|exact G2]. intros c Ic. apply seg_full_map; assumption.
Qed.

(* readable consequences of seg_ok *)
Theorem seg_ok_at_most_one : forall o c, seg_ok o c -> count nflag c <= 1 /\ count cflag c <= 1.
Proof.
  intros o c [_ [_ [HT HC]]]. split.
  - destruct c as [|r t]; [cbn; lia|]. cbn [tl] in HT. rewrite count_cons, (count_zero _ _ HT).
    destruct (nflag r); cbn; lia.
  - rewrite <- count_rev. apply c_ok_count. exact HC.
Qed.

Lemma patch_eqb_eq a b : patch_eqb a b = true -> a = b.
Proof. destruct a, b; cbn; intro H; try reflexivity; discriminate H. Qed.

Lemma has_patch_In p d : has_patch p d = true <-> In p (ad_patches d).
Proof.
  unfold has_patch. rewrite existsb_exists. split.
  - intros [x [Hi He]]. apply patch_eqb_eq in He. subst. exact Hi.
  - intro Hi. exists p. split; [exact Hi|]. destruct p; reflexivity.
Qed.

(* the terminus STATE in the name is a function of flags, options and descriptor; how often
   a patch was applied does not matter *)
Definition term_prefix (o : opts) (cls : aclass) (r : rstate) : prefix :=
  if rs_n r then match cls with
                 | C_PRO => PN
                 | _ => if o_neutraln o || rd_nheavy2 (rs_d r) then PNN else PN
                 end
  else if rs_c r then (if o_neutralc o then PNC else PC)
  else PNone.

Theorem state_from_flags : forall o r d,
  patch_set_ok o r -> rd_kind (rs_d r) = KAmino -> kind_ok r ->
  ad_nterm d = rs_n r -> ad_cterm d = rs_c r -> ad_patches d = rs_patches r ->
  spec_prefix d = term_prefix o (ad_cls d) r.
Proof.
  intros o r d HP KA [K1 K2] En Ec Ep. unfold spec_prefix, term_prefix. rewrite En, Ec.
  assert (N5 : rs_5 r = false).
  { destruct (rs_5 r) eqn:E; [|reflexivity]. assert (X : rd_kind (rs_d r) = KNucleic) by (apply K2; left; reflexivity). rewrite KA in X. discriminate X. }
  assert (N3 : rs_3 r = false).
  { destruct (rs_3 r) eqn:E; [|reflexivity]. assert (X : rd_kind (rs_d r) = KNucleic) by (apply K2; right; reflexivity). rewrite KA in X. discriminate X. }
  assert (HN : has_patch P_NEUTRAL_NTERM d = true <-> (rs_n r = true /\ P_NEUTRAL_NTERM = npatch o r) \/ (rs_c r = true /\ P_NEUTRAL_NTERM = cpatch o)).
  { rewrite has_patch_In, Ep, (HP P_NEUTRAL_NTERM), N5, N3. intuition; discriminate. }
  assert (HC : has_patch P_NEUTRAL_CTERM d = true <-> (rs_n r = true /\ P_NEUTRAL_CTERM = npatch o r) \/ (rs_c r = true /\ P_NEUTRAL_CTERM = cpatch o)).
  { rewrite has_patch_In, Ep, (HP P_NEUTRAL_CTERM), N5, N3. intuition; discriminate. }
  unfold npatch, cpatch in *.
  destruct (rs_n r).
  - destruct (ad_cls d); try reflexivity;
      destruct (o_neutraln o || rd_nheavy2 (rs_d r)); destruct (has_patch P_NEUTRAL_NTERM d) eqn:E; try reflexivity; exfalso.
    all: try (destruct HN as [_ HN]; assert (X : true = true) by reflexivity; rewrite <- HN in X at 1; [discriminate X | left; split; reflexivity]).
    all: try (destruct HN as [HN _]; destruct (HN eq_refl) as [[_ X]|[_ X]]; [discriminate X | destruct (o_neutralc o); discriminate X]).
  - destruct (rs_c r); [|reflexivity].
    destruct (o_neutralc o); destruct (has_patch P_NEUTRAL_CTERM d) eqn:E; try reflexivity; exfalso.
    + destruct HC as [_ HC]. assert (X : false = true) by (apply HC; right; split; reflexivity). discriminate X.
    + destruct HC as [HC _]. destruct (HC eq_refl) as [[X _]|[_ X]]; discriminate X.
Qed.

(* ---------------------------------------------------------------------- *)
(* 6. statements in the form used by Properties/C02.v                      *)

Lemma existsb_sname_In n names : existsb (sname_eqb n) names = true -> In n names.
Proof.
  intro H. apply existsb_exists in H. destruct H as [x [Hi He]]. apply sname_eqb_eq in He. subst. exact Hi.
Qed.

(* all rows except the named states *)
Theorem state_charge_named : forall tol m exc rows names,
  check_arows tol m exc rows = true ->
  check_exception_names exc names rows = true ->
  forall r, In r rows -> ~ In (ar_name r) names ->
  forall alt q, In alt (ar_alts r) -> resolve m (ar_ff r) alt = Some q ->
  (Z.abs (q - ar_formal r * SCALE) <= tol)%Z.
Proof.
  intros tol m exc rows names H HN r Hr Hnn. apply (state_charge_sound tol m exc rows H r Hr).
  intro Hk. apply Hnn. unfold check_exception_names in HN. apply andb_true_iff in HN. destruct HN as [HN _].
  rewrite forallb_forall in HN. specialize (HN r Hr). apply orb_true_iff in HN. destruct HN as [HN|HN].
  - apply negb_true_iff in HN. apply mem_nat_In in Hk. rewrite Hk in HN. discriminate.
  - apply existsb_sname_In. exact HN.
Qed.

(* no exception at all *)
Theorem state_charge_all : forall tol m exc rows,
  exc = [] -> check_arows tol m exc rows = true ->
  forall r, In r rows ->
  forall alt q, In alt (ar_alts r) -> resolve m (ar_ff r) alt = Some q ->
  (Z.abs (q - ar_formal r * SCALE) <= tol)%Z.
Proof. intros tol m exc rows E H r Hr. subst exc. apply (state_charge_sound tol m [] rows H r Hr). intros []. Qed.

(* every named exception is a real failure of the full statement *)
Theorem state_charge_refuted_named : forall tol m exc rows names n,
  check_arows tol m exc rows = true ->
  check_exception_names exc names rows = true ->
  In n names ->
  exists r alt q, In r rows /\ ar_name r = n /\ In alt (ar_alts r) /\
                  resolve m (ar_ff r) alt = Some q /\ (tol < Z.abs (q - ar_formal r * SCALE))%Z.
Proof.
  intros tol m exc rows names n H HN Hn.
  unfold check_exception_names in HN. apply andb_true_iff in HN. destruct HN as [_ HN].
  rewrite forallb_forall in HN. specialize (HN n Hn). apply existsb_exists in HN.
  destruct HN as [r0 [Hr0 Hb]]. apply andb_true_iff in Hb. destruct Hb as [Hk Hs].
  apply mem_nat_In in Hk. apply sname_eqb_eq in Hs.
  destruct (state_charge_exceptions_real tol m exc rows H (ar_key r0) Hk) as [r [alt [q [Hr [Hkey [Ha [Hq Hbad]]]]]]].
  (* keys are distinct, so r = r0 *)
  assert (Er : r = r0).
  { unfold check_arows in H. apply andb_true_iff in H. destruct H as [H _].
    apply andb_true_iff in H. destruct H as [_ HD]. unfold keys_distinct in HD.
    clear - HD Hr Hr0 Hkey. induction rows as [|x rows IH]; [inversion Hr|].
    cbn [map] in HD. apply andb_true_iff in HD. destruct HD as [HD1 HD2]. apply negb_true_iff in HD1.
    assert (NI : forall y, In y rows -> ar_key y <> ar_key x).
    { intros y Hy E. assert (M : mem_nat (ar_key x) (map ar_key rows) = true).
      { apply mem_nat_In. rewrite <- E. apply in_map. exact Hy. } rewrite M in HD1. discriminate. }
    destruct Hr as [Hr|Hr]; destruct Hr0 as [Hr0|Hr0]; subst.
    - reflexivity.
    - exfalso. apply (NI r0 Hr0). symmetry. exact Hkey.
    - exfalso. apply (NI r Hr). exact Hkey.
    - apply IH; assumption. }
  subst r0. exists r, alt, q. repeat split; assumption.
Qed.

Local Open Scope Z_scope.
Theorem strand_charge_exact : forall m rows,
  check_strand 0 false m rows = true ->
  forall r5 mids r3 q5 qmids q3,
    In r5 rows -> In r3 rows -> Forall (fun r => In r rows /\ is_internal r = true) mids ->
    is_five r5 = true -> is_three r3 = true -> pairable false r5 r3 = true ->
    In q5 (nrow_charges m r5) -> In q3 (nrow_charges m r3) ->
    Forall2 (fun r q => In q (nrow_charges m r)) mids qmids ->
    phosphates (r5 :: mids ++ [r3]) = S (List.length mids) /\
    zsum (q5 :: qmids ++ [q3]) = - Z.of_nat (phosphates (r5 :: mids ++ [r3])) * SCALE.
Proof.
  intros m rows H r5 mids r3 q5 qmids q3 H5 H3 Hm F5 F3 Hp Hq5 Hq3 H2.
  destruct (strand_charge 0 false m rows H r5 mids r3 q5 qmids q3 H5 H3 Hm F5 F3 Hp Hq5 Hq3 H2) as [P B].
  split; [exact P|]. rewrite Z.mul_0_r in B. lia.
Qed.
Local Close Scope Z_scope.

(* -- concrete chain lists (non-vacuity, the hidden-chain-end wrinkle) -- *)
Definition amino_d (i : nat) (oxt : bool) : rdesc := mkrd i KAmino false oxt false true true false.
Definition nuc_d (i : nat) : rdesc := mkrd i KNucleic false false false false false false.
Definition wat_d (i : nat) : rdesc := mkrd i KWater false false false false false false.
Definition cap_d (i : nat) : rdesc := mkrd i KOther true false false true false false.

Local Open Scope string_scope.
(* chain A: 3 amino acids + NME cap is absent, ends with a water; chain B: cyclic
   tripeptide (N of 10 close to C of 12); blank chain: a dinucleotide *)
Definition ex_chains : list (string * list rdesc) :=
  [("A", [amino_d 0 false; amino_d 1 false; amino_d 2 true; wat_d 3]);
   ("B", [amino_d 10 false; amino_d 11 false; amino_d 12 false]);
   ("", [nuc_d 20; nuc_d 21])].
Definition ex_close := close_of [(10, 12)].
Definition ex_opts := mkopts false false.

Lemma ex_no_hidden : no_hidden ex_opts ex_close ex_chains.
Proof. intros cs1 H. vm_compute in H. inversion H; subst. repeat constructor. Qed.

Lemma ex_termini : show_termini (termini ex_opts ex_close ex_chains)
  = "0:1000:NTERM:A,1:0000::A,2:0100:CTERM:A,3:0000::A|10:0000::B,11:0000::B,12:0000::B|20:0010:5TERM:C,21:0001:3TERM:C".
Proof. vm_compute. reflexivity. Qed.

(* hidden chain end: OXT on the second of four residues.  The chain is split,
   both halves get one N- and one C-terminus; the patches of residues 0 and 3
   are applied twice (assign_termini runs again on both halves) *)
Definition ex_hidden : list (string * list rdesc) :=
  [("A", [amino_d 0 false; amino_d 1 true; amino_d 2 false; amino_d 3 true])].

Lemma ex_hidden_termini : show_termini (termini ex_opts (close_of []) ex_hidden)
  = "0:1000:NTERM+NTERM:B,1:0100:CTERM:B|2:1000:NTERM:A,3:0100:CTERM+CTERM:A".
Proof. vm_compute. reflexivity. Qed.
Local Close Scope string_scope.

(* -- the one clause that FAILS with hidden chain ends: "a cyclic segment gets none" -- *)
Local Open Scope string_scope.
(* residues 0..2 closed head-to-tail (N of 0 next to C of 2) although 2 carries OXT, followed
   by two more residues in the same chain: phase 1 flags 0 and 4 (the whole chain is not
   cyclic), the split at 2 then finds the segment 0..2 cyclic and leaves it as it is *)
Definition ex_cyc_split : list (string * list rdesc) :=
  [("A", [amino_d 0 false; amino_d 1 false; amino_d 2 true; amino_d 3 false; amino_d 4 true])].

Lemma ex_cyc_split_termini : show_termini (termini ex_opts (close_of [(0, 2)]) ex_cyc_split)
  = "0:1000:NTERM:B,1:0000::B,2:0000::B|3:1000:NTERM:A,4:0100:CTERM+CTERM:A".
Proof. vm_compute. reflexivity. Qed.
Local Close Scope string_scope.

Theorem cyclic_after_split_refuted :
  exists o close chains out c, termini o close chains = Done out /\ In c out /\
    cyclic close c = true /\ hd_nflag c = true /\ ~ Forall unflagged c.
Proof.
  exists ex_opts, (close_of [(0, 2)]), ex_cyc_split. eexists. eexists.
  split; [vm_compute; reflexivity|]. split; [left; reflexivity|].
  split; [vm_compute; reflexivity|]. split; [vm_compute; reflexivity|].
  intro H. inversion H as [|? ? [X _] _]. vm_compute in X. discriminate X.
Qed.

(* ---------------------------------------------------------------------- *)
(* 7. the integrality guard never fires on table states                    *)

Local Open Scope Z_scope.

Lemma round4_fix q : q mod 10000 = 0 -> round4 q = q.
Proof. intro H. unfold round4. Z.div_mod_to_equations. lia. Qed.

Lemma round4_map qs : Forall (fun q => q mod 10000 = 0) qs -> map round4 qs = qs.
Proof. intro H. induction H as [|q qs Hq H IH]; [reflexivity|]. cbn [map]. rewrite (round4_fix q Hq), IH. reflexivity. Qed.

Lemma zsum_perm : forall a b, Permutation a b -> zsum a = zsum b.
Proof.
  intros a b P. unfold zsum. induction P as [|x a b P IH|x y a|a b c P1 IH1 P2 IH2]; cbn [fold_right]; try lia.
Qed.

(* what a structure is made of, as far as charges go: amino-acid residues in a state row,
   waters, complete strands; each with the exact charge of its residues *)
Inductive cunit :=
| UAmino (r : arow) (alt : list id) (q : Z)
| UWater (q : Z)
| UStrand (r5 : nrow) (mids : list nrow) (r3 : nrow) (q5 : Z) (qmids : list Z) (q3 : Z).

Definition unit_charges (u : cunit) : list Z :=
  match u with
  | UAmino _ _ q => [q]
  | UWater q => [q]
  | UStrand _ _ _ q5 qmids q3 => (q5 :: qmids ++ [q3])%list
  end.

(* every residue is in a fully parameterised state of the tables *)
Definition unit_valid (m : ffmap) (exc : list nat) (arows : list arow) (nrows : list nrow)
                      (wat : id) (watoms : list id) (u : cunit) : Prop :=
  match u with
  | UAmino r alt q => In r arows /\ ~ In (ar_key r) exc /\ In alt (ar_alts r) /\ resolve m (ar_ff r) alt = Some q
  | UWater q => resolve m wat watoms = Some q
  | UStrand r5 mids r3 q5 qmids q3 =>
      In r5 nrows /\ In r3 nrows /\ Forall (fun r => In r nrows /\ is_internal r = true) mids /\
      is_five r5 = true /\ is_three r3 = true /\ pairable false r5 r3 = true /\
      In q5 (nrow_charges m r5) /\ In q3 (nrow_charges m r3) /\
      Forall2 (fun r q => In q (nrow_charges m r)) mids qmids
  end.

Section Guard.
  Variable m : ffmap.
  Variable exc : list nat.
  Variable arows : list arow.
  Variable nrows : list nrow.
  Variable wat : id.
  Variable watoms : list id.
  Hypothesis HA : check_arows 0 m exc arows = true.
  Hypothesis HS : check_strand 0 false m nrows = true.
  Hypothesis HR : check_round4 m nrows = true.
  Hypothesis HW : check_water 0 m wat watoms = true.

  Lemma nrow_mult4 : forall r q, In r nrows -> In q (nrow_charges m r) -> q mod 10000 = 0.
  Proof.
    intros r q Hr Hq. unfold check_round4 in HR. rewrite forallb_forall in HR. specialize (HR r Hr).
    rewrite forallb_forall in HR. specialize (HR q Hq). apply Z.eqb_eq in HR. exact HR.
  Qed.

  Lemma unit_integral : forall u, unit_valid m exc arows nrows wat watoms u ->
    exists k, zsum (map round4 (unit_charges u)) = k * SCALE.
  Proof.
    intros [r alt q|q|r5 mids r3 q5 qmids q3] V; cbn [unit_valid unit_charges] in *.
    - destruct V as [Hr [Hk [Ha Hq]]].
      pose proof (state_charge_sound 0 m exc arows HA r Hr Hk alt q Ha Hq) as B.
      exists (ar_formal r). assert (E : q = ar_formal r * SCALE) by lia. subst q.
      cbn [map]. rewrite round4_fix; [unfold zsum; cbn [fold_right]; lia|].
      unfold SCALE. Z.div_mod_to_equations. lia.
    - exists 0. unfold check_water in HW. rewrite V in HW. apply within_spec in HW.
      assert (E : q = 0) by lia. subst q. reflexivity.
    - destruct V as [H5 [H3 [Hm [F5 [F3 [Hp [Hq5 [Hq3 H2]]]]]]]].
      destruct (strand_charge_exact m nrows HS r5 mids r3 q5 qmids q3 H5 H3 Hm F5 F3 Hp Hq5 Hq3 H2) as [_ E].
      exists (- Z.of_nat (phosphates (r5 :: mids ++ [r3]))).
      rewrite round4_map; [exact E|].
      constructor; [apply (nrow_mult4 r5 q5 H5 Hq5)|]. apply Forall_app. split.
      + clear - H2 Hm HR. induction H2 as [|r q mids qmids Hq H2 IH]; [constructor|].
        inversion Hm as [|? ? [Hr _] Hm']; subst. constructor; [apply (nrow_mult4 r q Hr Hq) | apply IH; exact Hm'].
      + constructor; [apply (nrow_mult4 r3 q3 H3 Hq3) | constructor].
  Qed.

  Lemma units_integral : forall units, Forall (unit_valid m exc arows nrows wat watoms) units ->
    exists k, zsum (map round4 (List.concat (map unit_charges units))) = k * SCALE.
  Proof.
    intros units H. induction H as [|u units Hu H IH]; [exists 0; reflexivity|].
    destruct IH as [k1 E1]. destruct (unit_integral u Hu) as [k2 E2].
    exists (k2 + k1). cbn [map List.concat]. rewrite map_app, zsum_app, E1, E2. lia.
  Qed.

  (* ALL residue lists whose residues are in fully parameterised table states (in any
     order): the total handed to noninteger_charge - the sum of the per-residue charges
     rounded to 4 decimals, in exact decimal arithmetic - is an integer, so the guard of
     main.non_trivial does not raise; the same holds for any value within the guard's
     tolerance of that total (float summation error) *)
  Theorem guard_never_fires : forall units qs,
    Forall (unit_valid m exc arows nrows wat watoms) units ->
    Permutation qs (List.concat (map unit_charges units)) ->
    (exists k, guard_total qs = k * SCALE) /\
    guard_raises qs = false /\
    (forall t, Z.abs (t - guard_total qs) <= TOL -> guard_ok t = true).
  Proof.
    intros units qs V P. destruct (units_integral units V) as [k E].
    assert (G : guard_total qs = k * SCALE).
    { unfold guard_total. rewrite (zsum_perm _ _ (Permutation_map round4 P)). exact E. }
    split; [exists k; exact G|]. split.
    - unfold guard_raises. rewrite (guard_ok_near _ k); [reflexivity|]. rewrite G, Z.sub_diag. unfold TOL. cbn. lia.
    - intros t Ht. apply (guard_ok_near t k). rewrite <- G. exact Ht.
  Qed.
End Guard.

(* ---------------------------------------------------------------------- *)
(* 8. --neutraln / --neutralc shift the charge by exactly one unit (C09)   *)

Lemma base_eqb_refl b : base_eqb b b = true.
Proof. destruct b; reflexivity. Qed.

Theorem neutral_shift_table : forall m exc rows,
  check_neutral_shift m exc rows = true ->
  forall r1 r2 s, In r1 rows -> In r2 rows ->
    ar_cls r1 = ar_cls r2 -> ar_state r1 = ar_state r2 -> ~ In (ar_key r2) exc ->
    shift_of (ar_term r1) (ar_term r2) = Some s ->
    forall q1 q2, In q1 (row_charges m r1) -> In q2 (row_charges m r2) -> q2 = q1 + s * SCALE.
Proof.
  intros m exc rows H r1 r2 s H1 H2 Ec Es Hk Hs q1 q2 Hq1 Hq2.
  unfold check_neutral_shift in H. rewrite forallb_forall in H. specialize (H r1 H1).
  rewrite forallb_forall in H. specialize (H r2 H2).
  unfold same_residue in H. rewrite Ec, Es, !base_eqb_refl in H.
  assert (M : mem_nat (ar_key r2) exc = false).
  { destruct (mem_nat (ar_key r2) exc) eqn:E; [|reflexivity]. apply mem_nat_In in E. contradiction. }
  rewrite M, Hs in H. cbn [andb negb] in H.
  rewrite forallb_forall in H. specialize (H q1 Hq1). rewrite forallb_forall in H. specialize (H q2 Hq2).
  apply Z.eqb_eq in H. exact H.
Qed.

Theorem neutral_absent_table : forall m rows,
  check_neutral_absent m rows = true ->
  forall r, In r rows -> is_neutral_name (ar_name r) = true ->
  forall alt a, In alt (ar_alts r) -> In a alt -> lookup m (ar_ff r) a = None.
Proof.
  intros m rows H r Hr Hn alt a Ha Hi. unfold check_neutral_absent in H.
  rewrite forallb_forall in H. specialize (H r Hr). rewrite Hn in H.
  rewrite forallb_forall in H. specialize (H alt Ha). rewrite forallb_forall in H. specialize (H a Hi).
  destruct (lookup m (ar_ff r) a); [discriminate H | reflexivity].
Qed.
Local Close Scope Z_scope.

(* fix C02-F3: a water listed before / after a ring under the ring's chain id does not hide
   the closure *)
Local Open Scope string_scope.
Definition ex_ring_water : list (string * list rdesc) :=
  [("A", [wat_d 9; amino_d 0 false; amino_d 1 false; amino_d 2 false; wat_d 3])].
Lemma ex_ring_water_termini : show_termini (termini ex_opts (close_of [(0, 2)]) ex_ring_water)
  = "9:0000::A,0:0000::A,1:0000::A,2:0000::A,3:0000::A".
Proof. vm_compute. reflexivity. Qed.
Local Close Scope string_scope.
