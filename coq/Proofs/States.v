(* Proofs about the residue-state model (C02): Model/States.v.

   1. table lifts: the generated vm_compute facts (check_arows / check_strand /
      check_water / arow_name_ok) read as statements about every row
   2. nucleic strands of ANY length carry -1 per phosphate (induction over the strand)
   3. totals: an exact integer total passes the integrality guard
   4. set_state: the name is prefix(terminus) x base(side-chain state), for ALL descriptors
   5. termini: assign_termini / set_termini flag each chain end exactly once
      (for ALL chain lists; see the section header for what is proved with hidden
      chain ends) *)
From Coq Require Import List Bool ZArith PArith String Ascii Arith Lia.
From PV Require Import Lib.Decimal Model.ForceField Model.States.
Import ListNotations.

(* ---------------------------------------------------------------------- *)
(* 0. small list facts                                                     *)

Lemma forallb_false_exists {A} (f : A -> bool) (l : list A) :
  forallb f l = false -> exists x, In x l /\ f x = false.
Proof.
  induction l as [|a l IH]; cbn [forallb]; intro H; [discriminate|].
  destruct (f a) eqn:E.
  - destruct (IH H) as [x [Hi Hx]]. exists x. split; [right; exact Hi | exact Hx].
  - exists a. split; [left; reflexivity | exact E].
Qed.

Lemma mem_nat_In k l : mem_nat k l = true <-> In k l.
Proof.
  unfold mem_nat. rewrite existsb_exists. split.
  - intros [x [Hi He]]. apply Nat.eqb_eq in He. subst. exact Hi.
  - intro Hi. exists k. split; [exact Hi | apply Nat.eqb_refl].
Qed.

Lemma within_spec q t tol : within q t tol = true <-> (Z.abs (q - t) <= tol)%Z.
Proof. unfold within. apply Z.leb_le. Qed.

Lemma base_eqb_eq a b : base_eqb a b = true -> a = b.
Proof. destruct a, b; cbn; intro H; try reflexivity; discriminate H. Qed.

Lemma prefix_eqb_eq a b : prefix_eqb a b = true -> a = b.
Proof. destruct a, b; cbn; intro H; try reflexivity; discriminate H. Qed.

Lemma sname_eqb_eq a b : sname_eqb a b = true -> a = b.
Proof.
  destruct a as [p x], b as [q y]. unfold sname_eqb. cbn [fst snd]. intro H.
  apply andb_true_iff in H. destruct H as [H1 H2].
  apply prefix_eqb_eq in H1. apply base_eqb_eq in H2. subst. reflexivity.
Qed.

(* ---------------------------------------------------------------------- *)
(* 1. table lifts                                                          *)

(* every state row outside the exception list: each alternative of the final
   atom set that resolves completely in the force field sums to the formal
   charge within tol *)
Theorem state_charge_sound : forall tol m exc rows,
  check_arows tol m exc rows = true ->
  forall r, In r rows -> ~ In (ar_key r) exc ->
  forall alt q, In alt (ar_alts r) -> resolve m (ar_ff r) alt = Some q ->
  (Z.abs (q - ar_formal r * SCALE) <= tol)%Z.
Proof.
  intros tol m exc rows H r Hr Hk alt q Ha Hq.
  unfold check_arows in H. apply andb_true_iff in H. destruct H as [H _].
  apply andb_true_iff in H. destruct H as [H _].
  rewrite forallb_forall in H. specialize (H r Hr). unfold arow_ok in H.
  apply orb_true_iff in H. destruct H as [H|H].
  - apply mem_nat_In in H. contradiction.
  - rewrite forallb_forall in H. specialize (H alt Ha). unfold alt_ok in H.
    rewrite Hq in H. apply within_spec. exact H.
Qed.

(* the exception list hides nothing but genuine failures *)
Theorem state_charge_exceptions_real : forall tol m exc rows,
  check_arows tol m exc rows = true ->
  forall k, In k exc ->
  exists r alt q, In r rows /\ ar_key r = k /\ In alt (ar_alts r) /\
                  resolve m (ar_ff r) alt = Some q /\ (tol < Z.abs (q - ar_formal r * SCALE))%Z.
Proof.
  intros tol m exc rows H k Hk.
  unfold check_arows in H. apply andb_true_iff in H. destruct H as [_ H].
  unfold exc_tight in H. rewrite forallb_forall in H. specialize (H k Hk).
  apply existsb_exists in H. destruct H as [r [Hr H]].
  apply andb_true_iff in H. destruct H as [Hkey Hbad].
  apply Nat.eqb_eq in Hkey. apply negb_true_iff in Hbad.
  unfold arow_ok in Hbad. cbn [mem_nat existsb orb] in Hbad.
  apply forallb_false_exists in Hbad. destruct Hbad as [alt [Ha Hf]].
  unfold alt_ok in Hf. destruct (resolve m (ar_ff r) alt) as [q|] eqn:Eq; [|discriminate].
  exists r, alt, q. repeat split; try assumption.
  unfold within in Hf. apply Z.leb_gt in Hf. exact Hf.
Qed.

(* the model's set_state reproduces the real name on every recorded route *)
Theorem arows_names_sound : forall ids rows,
  forallb (arow_name_ok ids) rows = true ->
  forall r, In r rows ->
    (forall d, In d (ar_descs r) -> ffname_of d = Some (ar_name r)) /\
    ar_descs r <> [] /\
    assoc sname_eqb (ar_name r) ids = Some (ar_ff r).
Proof.
  intros ids rows H r Hr. rewrite forallb_forall in H. specialize (H r Hr).
  unfold arow_name_ok in H. apply andb_true_iff in H. destruct H as [H H3].
  apply andb_true_iff in H. destruct H as [H1 H2].
  split; [|split].
  - intros d Hd. rewrite forallb_forall in H1. specialize (H1 d Hd).
    unfold opt_sname_eqb in H1. destruct (ffname_of d) as [x|]; [|discriminate].
    apply sname_eqb_eq in H1. subst. reflexivity.
  - intro E. rewrite E in H2. discriminate H2.
  - unfold opt_id_eqb in H3. destruct (assoc sname_eqb (ar_name r) ids) as [x|]; [|discriminate].
    apply Pos.eqb_eq in H3. subst. reflexivity.
Qed.

Theorem water_sound : forall tol m wat atoms,
  check_water tol m wat atoms = true ->
  exists q, resolve m wat atoms = Some q /\ (Z.abs q <= tol)%Z.
Proof.
  intros tol m wat atoms H. unfold check_water in H.
  destruct (resolve m wat atoms) as [q|]; [|discriminate].
  exists q. split; [reflexivity|]. apply within_spec in H. rewrite Z.sub_0_r in H. exact H.
Qed.

(* ---------------------------------------------------------------------- *)
(* 2. strands                                                              *)

Local Open Scope Z_scope.

Lemma zsum_app a b : zsum (a ++ b) = zsum a + zsum b.
Proof. unfold zsum. induction a as [|x a IH]; cbn [app fold_right]; [reflexivity|]. rewrite IH. lia. Qed.

Definition phosphates (rs : list nrow) : nat := List.length (filter nr_phos rs).

Section Strand.
  Variable tol : Z.
  Variable mixed : bool.
  Variable m : ffmap.
  Variable rows : list nrow.
  Hypothesis Hcheck : check_strand tol mixed m rows = true.

  Lemma strand_internal : forall r q, In r rows -> is_internal r = true ->
    In q (nrow_charges m r) -> Z.abs (q + SCALE) <= tol.
  Proof.
    intros r q Hr Hi Hq. unfold check_strand in Hcheck.
    apply andb_true_iff in Hcheck. destruct Hcheck as [H _].
    apply andb_true_iff in H. destruct H as [H _].
    rewrite forallb_forall in H. specialize (H r Hr). rewrite Hi in H.
    rewrite forallb_forall in H. specialize (H q Hq). apply within_spec in H.
    replace (q + SCALE) with (q - - SCALE) by lia. exact H.
  Qed.

  Lemma strand_ends : forall r5 r3 q5 q3, In r5 rows -> In r3 rows ->
    is_five r5 = true -> is_three r3 = true -> pairable mixed r5 r3 = true ->
    In q5 (nrow_charges m r5) -> In q3 (nrow_charges m r3) ->
    Z.abs (q5 + q3 + SCALE) <= tol.
  Proof.
    intros r5 r3 q5 q3 H5 H3 F5 F3 Hp Hq5 Hq3. unfold check_strand in Hcheck.
    apply andb_true_iff in Hcheck. destruct Hcheck as [H _].
    apply andb_true_iff in H. destruct H as [_ H].
    rewrite forallb_forall in H. specialize (H r5 H5). rewrite F5 in H.
    rewrite forallb_forall in H. specialize (H r3 H3). rewrite F3, Hp in H. cbn [andb] in H.
    rewrite forallb_forall in H. specialize (H q5 Hq5).
    rewrite forallb_forall in H. specialize (H q3 Hq3). apply within_spec in H.
    replace (q5 + q3 + SCALE) with (q5 + q3 - - SCALE) by lia. exact H.
  Qed.

  Lemma strand_phos : forall r, In r rows -> nr_phos r = negb (nr_five r).
  Proof.
    intros r Hr. unfold check_strand in Hcheck.
    apply andb_true_iff in Hcheck. destruct Hcheck as [_ H].
    rewrite forallb_forall in H. specialize (H r Hr). apply eqb_prop in H. exact H.
  Qed.

  Lemma mids_charge : forall mids qmids,
    Forall (fun r => In r rows /\ is_internal r = true) mids ->
    Forall2 (fun r q => In q (nrow_charges m r)) mids qmids ->
    Z.abs (zsum qmids + Z.of_nat (List.length mids) * SCALE) <= Z.of_nat (List.length mids) * tol.
  Proof.
    intros mids qmids Hm H2. induction H2 as [|r q mids qmids Hq H2 IH].
    - cbn. lia.
    - inversion Hm as [|? ? [Hr Hi] Hm']; subst. specialize (IH Hm').
      pose proof (strand_internal r q Hr Hi Hq) as H1.
      cbn [List.length]. rewrite Nat2Z.inj_succ. rewrite !Z.mul_succ_l.
      unfold zsum in *. cbn [fold_right]. lia.
  Qed.

  Lemma mids_phos : forall mids,
    Forall (fun r => In r rows /\ is_internal r = true) mids ->
    filter nr_phos mids = mids.
  Proof.
    intros mids Hm. induction Hm as [|r mids [Hr Hi] Hm IH]; [reflexivity|].
    cbn [filter]. rewrite (strand_phos r Hr). unfold is_internal in Hi.
    apply andb_true_iff in Hi. destruct Hi as [Hi _]. rewrite Hi. rewrite IH. reflexivity.
  Qed.

  (* a strand = 5' nucleotide, any number of internal ones, 3' nucleotide;
     every residue charge is the charge of one resolvable alternative of its row *)
  Theorem strand_charge : forall r5 mids r3 q5 qmids q3,
    In r5 rows -> In r3 rows -> Forall (fun r => In r rows /\ is_internal r = true) mids ->
    is_five r5 = true -> is_three r3 = true -> pairable mixed r5 r3 = true ->
    In q5 (nrow_charges m r5) -> In q3 (nrow_charges m r3) ->
    Forall2 (fun r q => In q (nrow_charges m r)) mids qmids ->
    let p := phosphates (r5 :: mids ++ [r3]) in
    p = S (List.length mids) /\
    Z.abs (zsum (q5 :: qmids ++ [q3]) + Z.of_nat p * SCALE) <= Z.of_nat p * tol.
  Proof.
    intros r5 mids r3 q5 qmids q3 H5 H3 Hm F5 F3 Hp Hq5 Hq3 H2. cbn zeta.
    assert (P : phosphates (r5 :: mids ++ [r3]) = S (List.length mids)).
    { unfold phosphates. cbn [filter]. rewrite (strand_phos r5 H5).
      unfold is_five in F5. apply andb_true_iff in F5. destruct F5 as [F5 _]. rewrite F5. cbn [negb].
      rewrite filter_app. rewrite (mids_phos mids Hm). cbn [filter]. rewrite (strand_phos r3 H3).
      unfold is_three in F3. apply andb_true_iff in F3. destruct F3 as [_ F3]. rewrite F3.
      rewrite app_length. cbn [List.length]. lia. }
    split; [exact P|]. rewrite P.
    pose proof (mids_charge mids qmids Hm H2) as Hmid.
    pose proof (strand_ends r5 r3 q5 q3 H5 H3 F5 F3 Hp Hq5 Hq3) as Hend.
    rewrite Nat2Z.inj_succ. rewrite !Z.mul_succ_l.
    change (zsum (q5 :: qmids ++ [q3])) with (q5 + zsum (qmids ++ [q3])).
    rewrite zsum_app. unfold zsum at 2. cbn [fold_right]. lia.
  Qed.
End Strand.

(* ---------------------------------------------------------------------- *)
(* 3. totals and the integrality guard                                     *)

Lemma int_dist_near : forall t k e,
  Z.abs (t - k * SCALE) <= e -> 2 * e <= SCALE -> int_dist t <= e.
Proof.
  intros t k e H He. unfold int_dist, SCALE in *.
  pose proof (Z.mod_pos_bound t 100000000 ltac:(lia)) as Hb.
  pose proof (Z.div_mod t 100000000 ltac:(lia)) as Hd.
  set (q := t / 100000000) in *. set (r := t mod 100000000) in *.
  assert (Hr : r = t - k * 100000000 + (k - q) * 100000000) by lia.
  destruct (Z.eq_dec (k - q) 0) as [E|E]; [lia|].
  destruct (Z.eq_dec (k - q) 1) as [E1|E1]; [lia|].
  lia.
Qed.

Theorem guard_ok_near : forall t k, Z.abs (t - k * SCALE) <= TOL -> guard_ok t = true.
Proof.
  intros t k H. unfold guard_ok. apply Z.leb_le. apply (int_dist_near t k TOL H).
  unfold TOL, SCALE. lia.
Qed.

Lemma total_exact : forall (rs : list (list Z)) (formals : list Z),
  Forall2 (fun r f => res_charge r = f * SCALE) rs formals ->
  total_charge rs = zsum formals * SCALE.
Proof.
  intros rs formals H. unfold total_charge. induction H as [|r f rs fs Hr H IH]; [reflexivity|].
  cbn [map]. unfold zsum in *. cbn [fold_right]. rewrite IH, Hr. lia.
Qed.

(* the total is the integer sum of the residues' formal charges, so the
   integrality guard of main.py cannot fire *)
Theorem total_is_sum : forall (rs : list (list Z)) (formals : list Z),
  Forall2 (fun r f => res_charge r = f * SCALE) rs formals ->
  total_charge rs = zsum formals * SCALE /\ guard_ok (total_charge rs) = true.
Proof.
  intros rs formals H. pose proof (total_exact rs formals H) as E. split; [exact E|].
  apply (guard_ok_near _ (zsum formals)). rewrite E. rewrite Z.sub_diag. unfold TOL. cbn. lia.
Qed.

(* with the code's tolerance only: the deviations add up *)
Theorem total_within : forall e (rs : list (list Z)) (formals : list Z),
  Forall2 (fun r f => Z.abs (res_charge r - f * SCALE) <= e) rs formals ->
  Z.abs (total_charge rs - zsum formals * SCALE) <= Z.of_nat (List.length rs) * e.
Proof.
  intros e rs formals H. unfold total_charge. induction H as [|r f rs fs Hr H IH]; [cbn; lia|].
  cbn [map List.length]. rewrite Nat2Z.inj_succ, Z.mul_succ_l.
  unfold zsum in *. cbn [fold_right]. lia.
Qed.

Local Close Scope Z_scope.

(* ---------------------------------------------------------------------- *)
(* 4. set_state: the documented name scheme                                *)

(* terminus prefix: N-terminus first (a one-residue chain gets only the N
   prefix), NEUTRAL- only with the neutral patch, never for an N-terminal PRO *)
Definition spec_prefix (d : adesc) : prefix :=
  if ad_nterm d then
    match ad_cls d with
    | C_PRO => PN
    | _ => if has_patch P_NEUTRAL_NTERM d then PNN else PN
    end
  else if ad_cterm d then (if has_patch P_NEUTRAL_CTERM d then PNC else PC)
  else PNone.

Definition named (p : patch) (b : base) (d : adesc) : bool := has_patch p d || name_is b d.

(* side-chain state: None = HIS with no ring hydrogen left (TypeError) *)
Definition spec_base (d : adesc) : option base :=
  match ad_cls d with
  | C_ARG => Some (if named P_AR0 B_AR0 d then B_AR0 else ad_name d)
  | C_ASP => Some (if named P_ASH B_ASH d then B_ASH else ad_name d)
  | C_GLU => Some (if named P_GLH B_GLH d then B_GLH else ad_name d)
  | C_LYS => Some (if named P_LYN B_LYN d then B_LYN else ad_name d)
  | C_TYR => Some (if named P_TYM B_TYM d then B_TYM else ad_name d)
  | C_CYS => Some (if named P_CYX B_CYX d || ad_ss d then B_CYX
                   else if named P_CYM B_CYM d then B_CYM
                   else if negb (ad_hg d) then B_CYX else ad_name d)
  | C_HIS => match his_atoms d with
             | (true, true) => Some B_HIP
             | (true, false) => Some B_HID
             | (false, true) => Some B_HIE
             | (false, false) => None
             end
  | _ => Some (ad_name d)
  end.

Theorem set_state_spec : forall d : adesc,
  ffname_of d = match spec_base d with Some b => Some (spec_prefix d, b) | None => None end.
Proof.
  intro d. unfold ffname_of, set_state, spec_base, spec_prefix, plain, amino_term, pro_term, named.
  destruct (ad_cls d); cbn [sr_name];
    try (destruct (his_atoms d) as [[|] [|]]; cbn [andb sr_name]);
    repeat (match goal with |- context [if ?b then _ else _] => destruct b end);
    reflexivity.
Qed.

(* the wrinkles, stated *)
Theorem one_residue_chain_gets_N_only : forall d p b,
  ad_nterm d = true -> ffname_of d = Some (p, b) -> p = PN \/ p = PNN.
Proof.
  intros d p b Hn H. rewrite set_state_spec in H. destruct (spec_base d); [|discriminate].
  inversion H; subst. unfold spec_prefix. rewrite Hn.
  destruct (ad_cls d); try (destruct (has_patch P_NEUTRAL_NTERM d); [right|left]; reflexivity).
  left; reflexivity.
Qed.

Theorem nterm_pro_is_NPRO : forall d,
  ad_cls d = C_PRO -> ad_nterm d = true -> ffname_of d = Some (PN, ad_name d).
Proof.
  intros d Hc Hn. rewrite set_state_spec. unfold spec_base, spec_prefix. rewrite Hc, Hn. reflexivity.
Qed.

Theorem nuc_state_flags : forall d, nuc_state d = (fst (fst (nuc_state d)), nd_five d, nd_three d).
Proof. intro d. unfold nuc_state. reflexivity. Qed.

(* ---------------------------------------------------------------------- *)
(* 5. termini                                                              *)
(* Proved for ALL chain lists, options and cyclic predicates:
     - per chain (assign_spec): a non-cyclic chain gets exactly one N/5' flag,
       on its head iff the head is an amino acid / nucleotide, and exactly one
       C/3' flag iff the search from the chain end reaches a polymer residue
       before an NH2/NME cap; every flag comes with exactly one patch; a cyclic
       chain is left untouched;
     - set_termini without hidden chain ends (termini_once): the same for every
       chain of the list, whatever the chain count, chain ids and residue ids;
     - set_termini in general, hidden chain ends included (termini_general):
       residues are neither lost, duplicated nor reordered by the splitting,
       only chain heads carry an N/5' flag, flags respect the residue kind.
   NOT proved in general: "at most one C/3' flag per chain after a hidden-end
   split" (explored by the correspondence runs and the Example below). *)

Definition nflag (r : rstate) : bool := rs_n r || rs_5 r.
Definition cflag (r : rstate) : bool := rs_c r || rs_3 r.
Definition b2n (b : bool) : nat := if b then 1 else 0.
Definition count (f : rstate -> bool) (l : list rstate) : nat := List.length (filter f l).
Definition is_poly (r : rstate) : bool :=
  match rd_kind (rs_d r) with KAmino | KNucleic => true | _ => false end.
Definition patches_match (r : rstate) : Prop :=
  List.length (rs_patches r) = b2n (nflag r) + b2n (cflag r).
Definition unflagged (r : rstate) : Prop := nflag r = false /\ cflag r = false /\ rs_patches r = [].
Definition kind_ok (r : rstate) : Prop :=
  (rs_n r = true \/ rs_c r = true -> rd_kind (rs_d r) = KAmino) /\
  (rs_5 r = true \/ rs_3 r = true -> rd_kind (rs_d r) = KNucleic).

(* does the search from the chain end (list given reversed) reach a polymer
   residue before an NH2/NME cap? *)
Fixpoint c_found (l : list rstate) : bool :=
  match l with
  | [] => false
  | r :: t => if is_poly r then true else if rd_cap (rs_d r) then false else c_found t
  end.
Definition has_c_end (l : list rstate) : bool := c_found (rev l).
Definition head_poly (l : list rstate) : bool := match l with [] => false | r :: _ => is_poly r end.

Definition chain_ok (close : nat -> nat -> bool) (c : list rstate) : Prop :=
  if cyclic close c then Forall unflagged c
  else count nflag c = b2n (head_poly c) /\
       Forall (fun r => nflag r = false) (tl c) /\
       count cflag c = b2n (has_c_end c) /\
       Forall patches_match c /\ Forall kind_ok c.

(* -- counting -- *)
Lemma count_app f a b : count f (a ++ b) = count f a + count f b.
Proof. unfold count. rewrite filter_app, app_length. reflexivity. Qed.

Lemma count_rev f l : count f (rev l) = count f l.
Proof.
  induction l as [|a l IH]; [reflexivity|]. cbn [rev]. rewrite count_app, IH.
  unfold count. cbn [filter]. destruct (f a); cbn [List.length]; lia.
Qed.

Lemma count_zero f l : Forall (fun r => f r = false) l -> count f l = 0.
Proof.
  intro H. induction H as [|a l Ha H IH]; [reflexivity|].
  unfold count in *. cbn [filter]. rewrite Ha. exact IH.
Qed.

Lemma count_cons f a l : count f (a :: l) = b2n (f a) + count f l.
Proof. unfold count. cbn [filter]. destruct (f a); reflexivity. Qed.

Lemma count_map f g l : (forall r, f (g r) = f r) -> count f (map g l) = count f l.
Proof.
  intro H. induction l as [|a l IH]; [reflexivity|]. cbn [map]. rewrite !count_cons, H, IH. reflexivity.
Qed.

Lemma unflagged_c r : unflagged r -> cflag r = false.
Proof. intros [_ [H _]]. exact H. Qed.

(* -- things that depend on the descriptors only -- *)
Lemma is_poly_d a b : rs_d a = rs_d b -> is_poly a = is_poly b.
Proof. unfold is_poly. intro H. rewrite H. reflexivity. Qed.

Lemma c_found_d : forall a b, map rs_d a = map rs_d b -> c_found a = c_found b.
Proof.
  induction a as [|x a IH]; destruct b as [|y b]; cbn [map]; intro H; try discriminate; [reflexivity|].
  inversion H as [[Hx Ht]]. cbn [c_found]. rewrite (is_poly_d x y Hx), Hx, (IH b Ht). reflexivity.
Qed.

Lemma has_c_end_d a b : map rs_d a = map rs_d b -> has_c_end a = has_c_end b.
Proof. intro H. unfold has_c_end. apply c_found_d. rewrite !map_rev, H. reflexivity. Qed.

Lemma head_poly_d a b : map rs_d a = map rs_d b -> head_poly a = head_poly b.
Proof.
  destruct a as [|x a], b as [|y b]; cbn [map]; intro H; try discriminate; [reflexivity|].
  inversion H. cbn [head_poly]. apply is_poly_d. assumption.
Qed.

Lemma last_d : forall a b x y, map rs_d a = map rs_d b -> rs_d x = rs_d y ->
  rs_d (last a x) = rs_d (last b y).
Proof.
  induction a as [|p a IH]; destruct b as [|q b]; cbn [map]; intros x y H Hxy; try discriminate; [exact Hxy|].
  inversion H as [[Hp Ht]]. destruct a as [|p' a]; destruct b as [|q' b]; try discriminate.
  - cbn [last]. exact Hp.
  - change (last (p :: p' :: a) x) with (last (p' :: a) x).
    change (last (q :: q' :: b) y) with (last (q' :: b) y). apply IH; assumption.
Qed.

Lemma cyclic_d close a b : map rs_d a = map rs_d b -> cyclic close a = cyclic close b.
Proof.
  destruct a as [|x a], b as [|y b]; cbn [map]; intro H; try discriminate; [reflexivity|].
  unfold cyclic. inversion H as [[Hx Ht]].
  assert (E : rs_d (last (x :: a) x) = rs_d (last (y :: b) y)) by (apply last_d; [exact H | exact Hx]).
  rewrite Hx, E. reflexivity.
Qed.

(* -- the C-terminus search -- *)
Lemma c_scan_d o : forall l, map rs_d (c_scan o l) = map rs_d l.
Proof.
  induction l as [|r t IH]; [reflexivity|]. cbn [c_scan]. unfold c_action.
  destruct (rd_kind (rs_d r)); try reflexivity;
    destruct (rd_cap (rs_d r)); cbn [map]; try reflexivity; rewrite IH; reflexivity.
Qed.

Lemma c_scan_nflag o : forall l, map nflag (c_scan o l) = map nflag l.
Proof.
  induction l as [|r t IH]; [reflexivity|]. cbn [c_scan]. unfold c_action.
  destruct (rd_kind (rs_d r)); try reflexivity;
    destruct (rd_cap (rs_d r)); cbn [map]; try reflexivity; rewrite IH; reflexivity.
Qed.

Lemma c_scan_count o : forall l, Forall (fun r => cflag r = false) l ->
  count cflag (c_scan o l) = b2n (c_found l).
Proof.
  induction l as [|r t IH]; intro H; [reflexivity|].
  inversion H as [|? ? Hr Ht]; subst. cbn [c_scan c_found]. unfold c_action, is_poly.
  destruct (rd_kind (rs_d r)) eqn:K.
  - rewrite count_cons. unfold cflag at 1. cbn [rs_c rs_3 orb]. rewrite (count_zero _ _ Ht). reflexivity.
  - rewrite count_cons. unfold cflag at 1. cbn [rs_c rs_3]. rewrite orb_true_r. rewrite (count_zero _ _ Ht). reflexivity.
  - destruct (rd_cap (rs_d r)).
    + rewrite count_cons, Hr, (count_zero _ _ Ht). reflexivity.
    + rewrite count_cons, Hr. cbn [b2n plus]. apply IH. exact Ht.
  - destruct (rd_cap (rs_d r)).
    + rewrite count_cons, Hr, (count_zero _ _ Ht). reflexivity.
    + rewrite count_cons, Hr. cbn [b2n plus]. apply IH. exact Ht.
Qed.

Lemma app_one_length {A} (l : list A) (x : A) : List.length (l ++ [x]) = S (List.length l).
Proof. rewrite app_length. cbn [List.length]. lia. Qed.

Lemma c_scan_pm o : forall l, Forall (fun r => cflag r = false) l -> Forall patches_match l ->
  Forall patches_match (c_scan o l).
Proof.
  induction l as [|r t IH]; intros Hc Hp; [constructor|].
  inversion Hc as [|? ? Hr Ht]; subst. inversion Hp as [|? ? Pr Pt]; subst.
  cbn [c_scan]. unfold c_action.
  unfold cflag in Hr. apply orb_false_iff in Hr. destruct Hr as [Hrc Hr3].
  destruct (rd_kind (rs_d r)) eqn:K.
  - constructor; [|exact Pt]. unfold patches_match, nflag, cflag in *. cbn [rs_patches rs_n rs_5 rs_c rs_3 orb].
    rewrite app_one_length, Pr, Hrc, Hr3. cbn [orb b2n]. lia.
  - constructor; [|exact Pt]. unfold patches_match, nflag, cflag in *. cbn [rs_patches rs_n rs_5 rs_c rs_3].
    rewrite app_one_length, Pr, Hrc, Hr3, orb_true_r. cbn [orb b2n]. lia.
  - destruct (rd_cap (rs_d r)); constructor; try assumption. apply IH; assumption.
  - destruct (rd_cap (rs_d r)); constructor; try assumption. apply IH; assumption.
Qed.

Lemma c_scan_kind o : forall l, Forall kind_ok l -> Forall kind_ok (c_scan o l).
Proof.
  induction l as [|r t IH]; intro H; [constructor|]. inversion H as [|? ? Kr Kt]; subst.
  cbn [c_scan]. unfold c_action. destruct (rd_kind (rs_d r)) eqn:K.
  - constructor; [|exact Kt]. destruct Kr as [K1 K2]. unfold kind_ok. cbn [rs_n rs_c rs_5 rs_3 rs_d].
    split; [intros _; exact K | exact K2].
  - constructor; [|exact Kt]. destruct Kr as [K1 K2]. unfold kind_ok. cbn [rs_n rs_c rs_5 rs_3 rs_d].
    split; [exact K1 | intros _; exact K].
  - destruct (rd_cap (rs_d r)); constructor; try assumption. apply IH; assumption.
  - destruct (rd_cap (rs_d r)); constructor; try assumption. apply IH; assumption.
Qed.

Lemma map_eq_Forall {B} (f : rstate -> B) : forall a b, map f a = map f b ->
  forall P : B -> Prop, Forall (fun r => P (f r)) b -> Forall (fun r => P (f r)) a.
Proof.
  induction a as [|x a IH]; destruct b as [|y b]; cbn [map]; intros H P Hb; try discriminate; [constructor|].
  inversion H as [[Hx Ht]]. inversion Hb; subst. constructor; [rewrite Hx; assumption | eapply IH; eassumption].
Qed.

Lemma count_map_eq f : forall a b, map f a = map f b -> count f a = count f b.
Proof.
  induction a as [|x a IH]; destruct b as [|y b]; cbn [map]; intro H; try discriminate; [reflexivity|].
  inversion H as [[Hx Ht]]. rewrite !count_cons, Hx, (IH b Ht). reflexivity.
Qed.

(* setC = the search run from the chain end *)
Lemma setC_d o l : map rs_d (setC o l) = map rs_d l.
Proof. unfold setC. rewrite map_rev, c_scan_d, map_rev, rev_involutive. reflexivity. Qed.

Lemma setC_nflag o l : map nflag (setC o l) = map nflag l.
Proof. unfold setC. rewrite map_rev, c_scan_nflag, map_rev, rev_involutive. reflexivity. Qed.

Lemma setC_count o l : Forall (fun r => cflag r = false) l ->
  count cflag (setC o l) = b2n (has_c_end l).
Proof.
  intro H. unfold setC, has_c_end. rewrite count_rev. apply c_scan_count. apply Forall_rev. exact H.
Qed.

Lemma setC_pm o l : Forall (fun r => cflag r = false) l -> Forall patches_match l ->
  Forall patches_match (setC o l).
Proof. intros Hc Hp. unfold setC. apply Forall_rev. apply c_scan_pm; apply Forall_rev; assumption. Qed.

Lemma setC_kind o l : Forall kind_ok l -> Forall kind_ok (setC o l).
Proof. intro H. unfold setC. apply Forall_rev. apply c_scan_kind. apply Forall_rev. exact H. Qed.

(* -- the N-terminus -- *)
Lemma setN_facts o r : unflagged r ->
  rs_d (setN o r) = rs_d r /\ cflag (setN o r) = false /\ nflag (setN o r) = is_poly r /\
  patches_match (setN o r) /\ kind_ok (setN o r).
Proof.
  intros [Hn [Hc Hp]]. unfold nflag in Hn. apply orb_false_iff in Hn. destruct Hn as [Hn H5].
  unfold cflag in Hc. apply orb_false_iff in Hc. destruct Hc as [Hc H3].
  unfold setN, is_poly, patches_match, kind_ok, nflag, cflag.
  destruct (rd_kind (rs_d r)) eqn:K; cbn [rs_d rs_n rs_c rs_5 rs_3 rs_patches];
    rewrite ?Hn, ?H5, ?Hc, ?H3, ?Hp, ?K; cbn [app List.length orb b2n plus];
    repeat split; try reflexivity; try (intros [X|X]; discriminate X); try (intros _; reflexivity).
Qed.

Lemma unflagged_pm r : unflagged r -> patches_match r.
Proof. intros [Hn [Hc Hp]]. unfold patches_match. rewrite Hn, Hc, Hp. reflexivity. Qed.

Lemma unflagged_kind r : unflagged r -> kind_ok r.
Proof.
  intros [Hn [Hc _]]. unfold nflag in Hn. apply orb_false_iff in Hn. destruct Hn as [Hn H5].
  unfold cflag in Hc. apply orb_false_iff in Hc. destruct Hc as [Hc H3].
  unfold kind_ok. rewrite Hn, Hc, H5, H3. split; intros [X|X]; discriminate X.
Qed.

(* -- assign_termini on a chain nobody has touched yet -- *)
Theorem assign_spec : forall o close l l',
  Forall unflagged l -> assign o close l = Some l' ->
  map rs_d l' = map rs_d l /\ chain_ok close l'.
Proof.
  intros o close l l' Hu H. unfold assign in H. destruct l as [|r0 t]; [discriminate|].
  assert (Hd : cyclic close (r0 :: t) = true -> l' = r0 :: t).
  { intro E. rewrite E in H. inversion H. reflexivity. }
  destruct (cyclic close (r0 :: t)) eqn:Cy.
  - rewrite (Hd eq_refl). split; [reflexivity|]. unfold chain_ok. rewrite Cy. exact Hu.
  - inversion H as [E]. clear H Hd. cbn [upd_head].
    inversion Hu as [|? ? U0 Ut]; subst.
    destruct (setN_facts o r0 U0) as [Sd [Sc [Sn [Spm Sk]]]].
    set (l1 := setN o r0 :: t).
    assert (D1 : map rs_d l1 = map rs_d (r0 :: t)) by (unfold l1; cbn [map]; rewrite Sd; reflexivity).
    assert (C1 : Forall (fun r => cflag r = false) l1).
    { unfold l1. constructor; [exact Sc|]. eapply Forall_impl; [|exact Ut]. intros a Ha. apply unflagged_c. exact Ha. }
    assert (Dall : map rs_d (setC o l1) = map rs_d (r0 :: t)) by (rewrite setC_d; exact D1).
    split; [exact Dall|]. unfold chain_ok.
    rewrite (cyclic_d close _ _ Dall), Cy.
    assert (NF : map nflag (setC o l1) = map nflag l1) by apply setC_nflag.
    split; [|split; [|split; [|split]]].
    + rewrite (head_poly_d _ _ Dall). rewrite (count_map_eq nflag _ _ NF). unfold l1. rewrite count_cons, Sn.
      rewrite (count_zero nflag t).
      * cbn [head_poly]. lia.
      * eapply Forall_impl; [|exact Ut]. intros a [Ha _]. exact Ha.
    + destruct (setC o l1) as [|x xs] eqn:Ex; [constructor|]. cbn [tl].
      unfold l1 in NF. cbn [map] in NF. injection NF as _ Hxs.
      apply (map_eq_Forall nflag xs t Hxs (fun b => b = false)).
      eapply Forall_impl; [|exact Ut]. intros a [Ha _]. exact Ha.
    + rewrite (setC_count o l1 C1). rewrite (has_c_end_d _ _ Dall). rewrite (has_c_end_d _ _ D1). reflexivity.
    + apply setC_pm; [exact C1|]. unfold l1. constructor; [exact Spm|].
      eapply Forall_impl; [|exact Ut]. intros a Ha. apply unflagged_pm. exact Ha.
    + apply setC_kind. unfold l1. constructor; [exact Sk|].
      eapply Forall_impl; [|exact Ut]. intros a Ha. apply unflagged_kind. exact Ha.
Qed.

(* -- set_termini without hidden chain ends -- *)
Lemma scan_nofix : forall rest fuel o close keys acc,
  Forall (fun r => fixflag r = false) rest -> List.length rest < fuel ->
  scan fuel o close keys acc rest = Done (keys, [], (acc ++ rest)%list).
Proof.
  induction rest as [|r rest IH]; intros fuel o close keys acc H Hf.
  - destruct fuel; [inversion Hf|]. cbn [scan]. rewrite app_nil_r. reflexivity.
  - destruct fuel; [inversion Hf|]. cbn [scan]. inversion H as [|? ? Hr Hrest]; subst. rewrite Hr.
    rewrite IH; [|exact Hrest | cbn [List.length] in Hf; lia].
    rewrite <- app_assoc. reflexivity.
Qed.

Lemma scan_all_nofix : forall cs o close keys,
  Forall (Forall (fun r => fixflag r = false)) cs ->
  scan_all o close keys cs = Done (keys, cs).
Proof.
  induction cs as [|c cs IH]; intros o close keys H; [reflexivity|].
  inversion H as [|? ? Hc Hcs]; subst. cbn [scan_all].
  rewrite (scan_nofix c (S (List.length c)) o close keys [] Hc); [|lia].
  rewrite (IH o close keys Hcs). reflexivity.
Qed.

Lemma assign_all_Forall2 : forall o close cs cs1,
  assign_all o close cs = Some cs1 -> Forall2 (fun c c1 => assign o close c = Some c1) cs cs1.
Proof.
  induction cs as [|c cs IH]; intros cs1 H; cbn [assign_all] in H.
  - inversion H. constructor.
  - destruct (assign o close c) as [c'|] eqn:E; [|discriminate].
    destruct (assign_all o close cs) as [r'|] eqn:E2; [|discriminate].
    inversion H; subst. constructor; [exact E | apply IH; reflexivity].
Qed.

(* relabelling the chain id changes nothing else *)
Definition same_core (a b : rstate) : Prop :=
  rs_d a = rs_d b /\ rs_n a = rs_n b /\ rs_c a = rs_c b /\ rs_5 a = rs_5 b /\ rs_3 a = rs_3 b /\
  rs_patches a = rs_patches b.

Lemma set_chain_core c r : same_core (set_chain c r) r.
Proof. unfold same_core, set_chain. cbn. repeat split; reflexivity. Qed.

Lemma same_core_refl r : same_core r r.
Proof. unfold same_core. repeat split; reflexivity. Qed.

Lemma chain_ok_map close g c : (forall r, same_core (g r) r) -> chain_ok close c -> chain_ok close (map g c).
Proof.
  intros Hg H.
  assert (Gd : forall r, rs_d (g r) = rs_d r) by (intro r; apply (Hg r)).
  assert (Gn : forall r, nflag (g r) = nflag r).
  { intro r. destruct (Hg r) as [_ [A [_ [B _]]]]. unfold nflag. rewrite A, B. reflexivity. }
  assert (Gc : forall r, cflag (g r) = cflag r).
  { intro r. destruct (Hg r) as [_ [_ [A [_ [B _]]]]]. unfold cflag. rewrite A, B. reflexivity. }
  assert (Gp : forall r, rs_patches (g r) = rs_patches r) by (intro r; apply (Hg r)).
  assert (D : map rs_d (map g c) = map rs_d c).
  { rewrite map_map. apply map_ext. exact Gd. }
  unfold chain_ok in *. rewrite (cyclic_d close _ _ D). destruct (cyclic close c).
  - apply Forall_map. eapply Forall_impl; [|exact H]. intros r [A [B C]].
    unfold unflagged. rewrite Gn, Gc, Gp. repeat split; assumption.
  - destruct H as [H1 [H2 [H3 [H4 H5]]]].
    rewrite (count_map nflag g c Gn), (count_map cflag g c Gc), (head_poly_d _ _ D), (has_c_end_d _ _ D).
    split; [exact H1|]. split; [|split; [exact H3|split]].
    + destruct c as [|x c]; [constructor|]. cbn [map tl] in *. apply Forall_map.
      eapply Forall_impl; [|exact H2]. intros r Hr. cbn beta. rewrite Gn. exact Hr.
    + apply Forall_map. eapply Forall_impl; [|exact H4]. intros r Hr.
      unfold patches_match in *. rewrite Gn, Gc, Gp. exact Hr.
    + apply Forall_map. eapply Forall_impl; [|exact H5]. intros r [K1 K2].
      destruct (Hg r) as [Ed [En [Ec [E5 [E3 _]]]]].
      unfold kind_ok. rewrite Ed, En, Ec, E5, E3. split; assumption.
Qed.

(* phase 1 of set_termini leaves no residue asking for a chain split *)
Definition no_hidden (o : opts) (close : nat -> nat -> bool) (chains : list (string * list rdesc)) : Prop :=
  forall cs1, assign_all o close (map (fun c => map (fresh_res (fst c)) (snd c)) chains) = Some cs1 ->
              Forall (Forall (fun r => fixflag r = false)) cs1.

Lemma fresh_unflagged cid ds : Forall unflagged (map (fresh_res cid) ds).
Proof. apply Forall_map. apply Forall_forall. intros d _. unfold unflagged, fresh_res, nflag, cflag. cbn. repeat split; reflexivity. Qed.

Lemma fresh_d cid ds : map rs_d (map (fresh_res cid) ds) = ds.
Proof. rewrite map_map. cbn. apply map_id. Qed.

Theorem termini_once : forall o close chains out,
  termini o close chains = Done out ->
  no_hidden o close chains ->
  Forall2 (fun c oc => map rs_d oc = snd c /\ chain_ok close oc) chains out.
Proof.
  intros o close chains out H NH. unfold termini in H. unfold no_hidden in NH.
  destruct (assign_all o close (map (fun c => map (fresh_res (fst c)) (snd c)) chains)) as [cs1|] eqn:E1; [|discriminate].
  specialize (NH cs1 eq_refl). rewrite (scan_all_nofix cs1 o close _ NH) in H.
  apply assign_all_Forall2 in E1.
  assert (Base : Forall2 (fun c oc => map rs_d oc = snd c /\ chain_ok close oc) chains cs1).
  { clear H NH. remember (map (fun c => map (fresh_res (fst c)) (snd c)) chains) as cs eqn:Ecs.
    revert chains Ecs. induction E1 as [|c c1 cs cs1 Hc E1 IH]; intros chains Ecs.
    - destruct chains; [constructor | discriminate].
    - destruct chains as [|ch chains]; [discriminate|]. cbn [map] in Ecs. inversion Ecs as [[Ec Et]].
      constructor; [|apply IH; exact Et].
      subst c. destruct (assign_spec o close _ c1 (fresh_unflagged (fst ch) (snd ch)) Hc) as [D K].
      rewrite fresh_d in D. split; assumption. }
  unfold rename_blank in H.
  destruct (mem_string EmptyString (map fst chains)); [|inversion H; subst; exact Base].
  destruct (forallb is_water (last cs1 [])); [inversion H; subst; exact Base|].
  destruct (fresh (map fst chains)) as [cid|]; [|discriminate]. inversion H; subst. clear H.
  set (g := fun r => if String.eqb (rs_chain r) EmptyString then set_chain (first_char cid) r else r).
  assert (Hg : forall r, same_core (g r) r).
  { intro r. unfold g. destruct (String.eqb (rs_chain r) EmptyString); [apply set_chain_core | apply same_core_refl]. }
  clear E1 NH. induction Base as [|ch c chains cs1 [D K] Base IH]; [constructor|].
  cbn [map]. constructor; [|exact IH]. split.
  - rewrite map_map. rewrite <- D. apply map_ext. intro r. apply (Hg r).
  - apply chain_ok_map; assumption.
Qed.

(* -- set_termini in general (hidden chain ends included) -- *)
Definition inv (c : list rstate) : Prop :=
  Forall kind_ok c /\ Forall (fun r => nflag r = false) (tl c).

Lemma setN_kind o r : kind_ok r -> kind_ok (setN o r) /\ rs_d (setN o r) = rs_d r.
Proof.
  intros [K1 K2]. unfold setN. destruct (rd_kind (rs_d r)) eqn:K.
  - split; [|reflexivity]. unfold kind_ok. cbn [rs_d rs_n rs_c rs_5 rs_3]. rewrite K.
    split; [intros _; reflexivity | exact K2].
  - split; [|reflexivity]. unfold kind_ok. cbn [rs_d rs_n rs_c rs_5 rs_3]. rewrite K.
    split; [exact K1 | intros _; reflexivity].
  - split; [|reflexivity]. unfold kind_ok. rewrite K. split; assumption.
  - split; [|reflexivity]. unfold kind_ok. rewrite K. split; assumption.
Qed.

Lemma Forall_tl {A} (P : A -> Prop) l : Forall P l -> Forall P (tl l).
Proof. intro H. destruct l; [constructor|]. inversion H; assumption. Qed.

Lemma assign_inv : forall o close l l', inv l -> assign o close l = Some l' ->
  map rs_d l' = map rs_d l /\ inv l'.
Proof.
  intros o close l l' [HK HT] H. unfold assign in H. destruct l as [|r0 t]; [discriminate|].
  destruct (cyclic close (r0 :: t)).
  - inversion H; subst. split; [reflexivity | split; assumption].
  - inversion H as [E]. clear H. cbn [upd_head]. inversion HK as [|? ? K0 Kt]; subst.
    destruct (setN_kind o r0 K0) as [Sk Sd]. cbn [tl] in HT.
    split; [|split].
    + rewrite setC_d. cbn [map]. rewrite Sd. reflexivity.
    + apply setC_kind. constructor; assumption.
    + pose proof (setC_nflag o (setN o r0 :: t)) as NF.
      destruct (setC o (setN o r0 :: t)) as [|x xs]; [constructor|]. cbn [tl map] in *.
      injection NF as _ Hxs. apply (map_eq_Forall nflag xs t Hxs (fun b => b = false)). exact HT.
Qed.

Lemma inv_map g c : (forall r, same_core (g r) r) -> inv c -> inv (map g c).
Proof.
  intros Hg [HK HT]. split.
  - apply Forall_map. eapply Forall_impl; [|exact HK]. intros r [K1 K2].
    destruct (Hg r) as [Ed [En [Ec [E5 [E3 _]]]]]. unfold kind_ok. rewrite Ed, En, Ec, E5, E3. split; assumption.
  - destruct c as [|x c]; [constructor|]. cbn [map tl] in *. apply Forall_map.
    eapply Forall_impl; [|exact HT]. intros r Hr. cbn beta.
    destruct (Hg r) as [_ [En [_ [E5 _]]]]. unfold nflag in *. rewrite En, E5. exact Hr.
Qed.

Lemma inv_split : forall (a : list rstate) r b, inv ((a ++ [r]) ++ b) ->
  inv (a ++ [r]) /\ Forall kind_ok b /\ Forall (fun x => nflag x = false) b.
Proof.
  intros a r b [HK HT]. apply Forall_app in HK. destruct HK as [HK1 HK2].
  destruct a as [|x a]; cbn [app tl] in *.
  - repeat split; try assumption. constructor.
  - apply Forall_app in HT. destruct HT as [HT1 HT2]. repeat split; assumption.
Qed.

Lemma scan_inv : forall fuel o close keys acc rest k segs fin,
  scan fuel o close keys acc rest = Done (k, segs, fin) ->
  inv (acc ++ rest) ->
  (List.concat (map (map rs_d) segs) ++ map rs_d fin)%list = map rs_d (acc ++ rest) /\
  Forall inv segs /\ inv fin.
Proof.
  induction fuel as [|f IH]; intros o close keys acc rest k segs fin H I; [discriminate|].
  cbn [scan] in H. destruct rest as [|r rest'].
  - inversion H; subst. rewrite app_nil_r in *. cbn. repeat split; try apply I. constructor.
  - assert (EA : (acc ++ r :: rest' = (acc ++ [r]) ++ rest')%list) by (rewrite <- app_assoc; reflexivity).
    rewrite EA in I. rewrite EA.
    destruct (fixflag r).
    + destruct (fresh keys) as [cid|]; [|discriminate].
      destruct (assign o close rest') as [rest''|] eqn:A1;
        destruct (assign o close (map (set_chain (first_char cid)) (acc ++ [r]))) as [newc'|] eqn:A2;
        try discriminate.
      destruct (scan f o close (cid :: keys) [] rest'') as [[[k' segs'] fin']| |] eqn:S; try discriminate.
      inversion H; subst. clear H.
      destruct (inv_split acc r rest' I) as [I1 [K2 N2]].
      assert (I1' : inv (map (set_chain (first_char cid)) (acc ++ [r]))).
      { apply inv_map; [intro x; apply set_chain_core | exact I1]. }
      destruct (assign_inv o close _ _ I1' A2) as [D2 J2].
      assert (I2 : inv rest') by (split; [exact K2 | apply Forall_tl; exact N2]).
      destruct (assign_inv o close _ _ I2 A1) as [D1 J1].
      destruct (IH o close (cid :: keys) [] rest'' k segs' fin S J1) as [R [F1 F2]].
      cbn [app] in R. split; [|split; [constructor; assumption | exact F2]].
      cbn [map List.concat]. rewrite <- app_assoc, R, D1, D2.
      rewrite (map_app rs_d (acc ++ [r]) rest'). rewrite map_map. f_equal.
    + apply (IH o close keys (acc ++ [r])%list rest' k segs fin H I).
Qed.

Lemma scan_all_inv : forall cs o close keys k out,
  scan_all o close keys cs = Done (k, out) -> Forall inv cs ->
  List.concat (map (map rs_d) out) = List.concat (map (map rs_d) cs) /\ Forall inv out.
Proof.
  induction cs as [|c cs IH]; intros o close keys k out H I; cbn [scan_all] in H.
  - inversion H; subst. split; [reflexivity|constructor].
  - inversion I as [|? ? Ic Ics]; subst.
    destruct (scan (S (List.length c)) o close keys [] c) as [[[k1 segs] fin]| |] eqn:S; try discriminate.
    destruct (scan_all o close k1 cs) as [[k2 out']| |] eqn:S2; try discriminate.
    inversion H; subst. clear H.
    destruct (scan_inv _ _ _ _ _ _ _ _ _ S Ic) as [R [F1 F2]]. cbn [app] in R.
    destruct (IH o close k1 k out' S2 Ics) as [R2 F3].
    split.
    + change (segs ++ [fin] ++ out')%list with (segs ++ fin :: out')%list.
      rewrite map_app, concat_app. cbn [map List.concat]. rewrite R2.
      rewrite app_assoc, R. reflexivity.
    + apply Forall_app. split; [exact F1|]. constructor; assumption.
Qed.

Lemma phase1_inv : forall o close chains cs1,
  assign_all o close (map (fun c => map (fresh_res (fst c)) (snd c)) chains) = Some cs1 ->
  List.concat (map (map rs_d) cs1) = List.concat (map snd chains) /\ Forall inv cs1.
Proof.
  induction chains as [|ch chains IH]; intros cs1 H; cbn [map assign_all] in H.
  - inversion H; subst. split; [reflexivity|constructor].
  - destruct (assign o close (map (fresh_res (fst ch)) (snd ch))) as [c1|] eqn:Hc; [|discriminate].
    destruct (assign_all o close (map (fun c => map (fresh_res (fst c)) (snd c)) chains)) as [r'|] eqn:E2; [|discriminate].
    inversion H; subst. clear H.
    assert (If : inv (map (fresh_res (fst ch)) (snd ch))).
    { pose proof (fresh_unflagged (fst ch) (snd ch)) as U. split.
      - eapply Forall_impl; [|exact U]. intros a Ha. apply unflagged_kind. exact Ha.
      - apply Forall_tl. eapply Forall_impl; [|exact U]. intros a [Ha _]. exact Ha. }
    destruct (assign_inv o close _ c1 If Hc) as [D J]. rewrite fresh_d in D.
    destruct (IH r' eq_refl) as [R F].
    split; [cbn [map List.concat]; rewrite D, R; reflexivity | constructor; assumption].
Qed.

(* for ALL chain lists: no residue is lost, duplicated or moved by the chain
   splitting; only the head of an output chain can carry an N/5' flag; N/C flags
   sit on amino acids only and 5'/3' flags on nucleotides only *)
Theorem termini_general : forall o close chains out,
  termini o close chains = Done out ->
  List.concat (map (map rs_d) out) = List.concat (map snd chains) /\
  Forall (fun c => Forall kind_ok c /\ Forall (fun r => nflag r = false) (tl c)) out.
Proof.
  intros o close chains out H. unfold termini in H.
  destruct (assign_all o close (map (fun c => map (fresh_res (fst c)) (snd c)) chains)) as [cs1|] eqn:E1; [|discriminate].
  pose proof (phase1_inv o close chains cs1 E1) as Base.
  destruct Base as [R F].
  destruct (scan_all o close (map fst chains) cs1) as [[keys out0]| |] eqn:S; try discriminate.
  destruct (scan_all_inv cs1 o close _ keys out0 S F) as [R2 F2].
  unfold rename_blank in H.
  assert (Fin : forall o1, List.concat (map (map rs_d) o1) = List.concat (map (map rs_d) out0) -> Forall inv o1 ->
            List.concat (map (map rs_d) o1) = List.concat (map snd chains) /\
            Forall (fun c => Forall kind_ok c /\ Forall (fun r => nflag r = false) (tl c)) o1).
  { intros o1 E I. split; [rewrite E, R2, R; reflexivity | exact I]. }
  destruct (mem_string EmptyString keys); [|inversion H; subst; apply Fin; [reflexivity|exact F2]].
  destruct (forallb is_water (last out0 [])); [inversion H; subst; apply Fin; [reflexivity|exact F2]|].
  destruct (fresh keys) as [cid|]; [|discriminate]. inversion H; subst. clear H.
  set (g := fun r => if String.eqb (rs_chain r) EmptyString then set_chain (first_char cid) r else r).
  assert (Hg : forall r, same_core (g r) r).
  { intro r. unfold g. destruct (String.eqb (rs_chain r) EmptyString); [apply set_chain_core | apply same_core_refl]. }
  apply Fin.
  - f_equal. rewrite map_map. apply map_ext. intro c. rewrite map_map. apply map_ext. intro r. apply (Hg r).
  - apply Forall_map. eapply Forall_impl; [|exact F2]. intros c Ic. apply inv_map; assumption.
Qed.

(* ---------------------------------------------------------------------- *)
(* 6. statements in the form used by Properties/C02.v                      *)

Lemma existsb_sname_In n names : existsb (sname_eqb n) names = true -> In n names.
Proof.
  intro H. apply existsb_exists in H. destruct H as [x [Hi He]]. apply sname_eqb_eq in He. subst. exact Hi.
Qed.

(* all rows except the named states *)
Theorem state_charge_named : forall tol m exc rows names,
  check_arows tol m exc rows = true ->
  check_exception_names exc names rows = true ->
  forall r, In r rows -> ~ In (ar_name r) names ->
  forall alt q, In alt (ar_alts r) -> resolve m (ar_ff r) alt = Some q ->
  (Z.abs (q - ar_formal r * SCALE) <= tol)%Z.
Proof.
  intros tol m exc rows names H HN r Hr Hnn. apply (state_charge_sound tol m exc rows H r Hr).
  intro Hk. apply Hnn. unfold check_exception_names in HN. apply andb_true_iff in HN. destruct HN as [HN _].
  rewrite forallb_forall in HN. specialize (HN r Hr). apply orb_true_iff in HN. destruct HN as [HN|HN].
  - apply negb_true_iff in HN. apply mem_nat_In in Hk. rewrite Hk in HN. discriminate.
  - apply existsb_sname_In. exact HN.
Qed.

(* no exception at all *)
Theorem state_charge_all : forall tol m exc rows,
  exc = [] -> check_arows tol m exc rows = true ->
  forall r, In r rows ->
  forall alt q, In alt (ar_alts r) -> resolve m (ar_ff r) alt = Some q ->
  (Z.abs (q - ar_formal r * SCALE) <= tol)%Z.
Proof. intros tol m exc rows E H r Hr. subst exc. apply (state_charge_sound tol m [] rows H r Hr). intros []. Qed.

(* every named exception is a real failure of the full statement *)
Theorem state_charge_refuted_named : forall tol m exc rows names n,
  check_arows tol m exc rows = true ->
  check_exception_names exc names rows = true ->
  In n names ->
  exists r alt q, In r rows /\ ar_name r = n /\ In alt (ar_alts r) /\
                  resolve m (ar_ff r) alt = Some q /\ (tol < Z.abs (q - ar_formal r * SCALE))%Z.
Proof.
  intros tol m exc rows names n H HN Hn.
  unfold check_exception_names in HN. apply andb_true_iff in HN. destruct HN as [_ HN].
  rewrite forallb_forall in HN. specialize (HN n Hn). apply existsb_exists in HN.
  destruct HN as [r0 [Hr0 Hb]]. apply andb_true_iff in Hb. destruct Hb as [Hk Hs].
  apply mem_nat_In in Hk. apply sname_eqb_eq in Hs.
  destruct (state_charge_exceptions_real tol m exc rows H (ar_key r0) Hk) as [r [alt [q [Hr [Hkey [Ha [Hq Hbad]]]]]]].
  (* keys are distinct, so r = r0 *)
  assert (Er : r = r0).
  { unfold check_arows in H. apply andb_true_iff in H. destruct H as [H _].
    apply andb_true_iff in H. destruct H as [_ HD]. unfold keys_distinct in HD.
    clear - HD Hr Hr0 Hkey. induction rows as [|x rows IH]; [inversion Hr|].
    cbn [map] in HD. apply andb_true_iff in HD. destruct HD as [HD1 HD2]. apply negb_true_iff in HD1.
    assert (NI : forall y, In y rows -> ar_key y <> ar_key x).
    { intros y Hy E. assert (M : mem_nat (ar_key x) (map ar_key rows) = true).
      { apply mem_nat_In. rewrite <- E. apply in_map. exact Hy. } rewrite M in HD1. discriminate. }
    destruct Hr as [Hr|Hr]; destruct Hr0 as [Hr0|Hr0]; subst.
    - reflexivity.
    - exfalso. apply (NI r0 Hr0). symmetry. exact Hkey.
    - exfalso. apply (NI r Hr). exact Hkey.
    - apply IH; assumption. }
  subst r0. exists r, alt, q. repeat split; assumption.
Qed.

Local Open Scope Z_scope.
Theorem strand_charge_exact : forall m rows,
  check_strand 0 false m rows = true ->
  forall r5 mids r3 q5 qmids q3,
    In r5 rows -> In r3 rows -> Forall (fun r => In r rows /\ is_internal r = true) mids ->
    is_five r5 = true -> is_three r3 = true -> pairable false r5 r3 = true ->
    In q5 (nrow_charges m r5) -> In q3 (nrow_charges m r3) ->
    Forall2 (fun r q => In q (nrow_charges m r)) mids qmids ->
    phosphates (r5 :: mids ++ [r3]) = S (List.length mids) /\
    zsum (q5 :: qmids ++ [q3]) = - Z.of_nat (phosphates (r5 :: mids ++ [r3])) * SCALE.
Proof.
  intros m rows H r5 mids r3 q5 qmids q3 H5 H3 Hm F5 F3 Hp Hq5 Hq3 H2.
  destruct (strand_charge 0 false m rows H r5 mids r3 q5 qmids q3 H5 H3 Hm F5 F3 Hp Hq5 Hq3 H2) as [P B].
  split; [exact P|]. rewrite Z.mul_0_r in B. lia.
Qed.
Local Close Scope Z_scope.

(* -- concrete chain lists (non-vacuity, the hidden-chain-end wrinkle) -- *)
Definition amino_d (i : nat) (oxt : bool) : rdesc := mkrd i KAmino false oxt false true true false.
Definition nuc_d (i : nat) : rdesc := mkrd i KNucleic false false false false false false.
Definition wat_d (i : nat) : rdesc := mkrd i KWater false false false false false false.
Definition cap_d (i : nat) : rdesc := mkrd i KOther true false false true false false.

Local Open Scope string_scope.
(* chain A: 3 amino acids + NME cap is absent, ends with a water; chain B: cyclic
   tripeptide (N of 10 close to C of 12); blank chain: a dinucleotide *)
Definition ex_chains : list (string * list rdesc) :=
  [("A", [amino_d 0 false; amino_d 1 false; amino_d 2 true; wat_d 3]);
   ("B", [amino_d 10 false; amino_d 11 false; amino_d 12 false]);
   ("", [nuc_d 20; nuc_d 21])].
Definition ex_close := close_of [(10, 12)].
Definition ex_opts := mkopts false false.

Lemma ex_no_hidden : no_hidden ex_opts ex_close ex_chains.
Proof. intros cs1 H. vm_compute in H. inversion H; subst. repeat constructor. Qed.

Lemma ex_termini : show_termini (termini ex_opts ex_close ex_chains)
  = "0:1000:NTERM:A,1:0000::A,2:0100:CTERM:A,3:0000::A|10:0000::B,11:0000::B,12:0000::B|20:0010:5TERM:C,21:0001:3TERM:C".
Proof. vm_compute. reflexivity. Qed.

(* hidden chain end: OXT on the second of four residues.  The chain is split,
   both halves get one N- and one C-terminus; the patches of residues 0 and 3
   are applied twice (assign_termini runs again on both halves) *)
Definition ex_hidden : list (string * list rdesc) :=
  [("A", [amino_d 0 false; amino_d 1 true; amino_d 2 false; amino_d 3 true])].

Lemma ex_hidden_termini : show_termini (termini ex_opts (close_of []) ex_hidden)
  = "0:1000:NTERM+NTERM:B,1:0100:CTERM:B|2:1000:NTERM:A,3:0100:CTERM+CTERM:A".
Proof. vm_compute. reflexivity. Qed.
Local Close Scope string_scope.
