(* C11 - the obligations on the GENERATED tables (Generated/Survivors.v is
   rewritten from /repo at the start of every check run).  A new module-level
   cache, an appended-to mutable default, a counter in a class attribute or an
   iteration over a set on the way to the output makes one of the two
   vm_compute facts below false, and this file stops compiling. *)
From Coq Require Import String List Bool.
From PV Require Import Model.History Proofs.History Generated.Survivors.
Import ListNotations.

Lemma generated_obligation : survivor_obligation survivors = true.
Proof. vm_compute. reflexivity. Qed.

Lemma generated_entropy_obligation : entropy_obligation entropy_sites = true.
Proof. vm_compute. reflexivity. Qed.

(* history independence for the tables generated from the current tree: what
   remains assumed is only the meaning of the scan (reads_only / writes_only) *)
Lemma generated_history_independence :
  forall (Val EVal Input Output : Type)
         (run : state Val -> entropy EVal -> Input -> Output * state Val),
    reads_only run survivors entropy_sites ->
    writes_only run survivors ->
    forall (st0 : state Val) (h1 h2 : list (@event Val EVal Input)) (i : Input) (e1 e2 : entropy EVal),
      Forall (crash_ok survivors) h1 -> Forall (crash_ok survivors) h2 ->
      out run st0 (h1 ++ [Run i e1]) = out run st0 (h2 ++ [Run i e2]).
Proof.
  intros Val EVal Input Output run Hr Hw.
  exact (history_independence Val EVal Input Output run survivors entropy_sites Hw Hr
           generated_obligation generated_entropy_obligation).
Qed.
