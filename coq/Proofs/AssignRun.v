(* E2E_Assign: pdb2pqr --assign-only end to end.  The theorems COMPOSE
     C01  Proofs.ForceField.assign_hit_exact / assign_miss_exact / assign_partition
     C02  Proofs.States.set_state_spec (what name set_state gives a descriptor)
     C07  Proofs.Ingest.ingest_complete (through Proofs.CleanRun)
     C08  Proofs.PqrFormat.fixed_file_roundtrip
   New here: the inversion of the composed run, the order lemma of the assignment
   loop (hits / misses are the atoms with / without an entry, in order) and the
   adapters between the string-level residues and C01's interned residues. *)
From Coq Require Import String Ascii List Arith NArith ZArith PArith Bool Lia Permutation.
From PV Require Import Lib.Strings Lib.Decimal Model.PdbRead Model.Group Model.PdbSpec
  Proofs.PdbRead Proofs.Group Proofs.Ingest Model.CleanRun Proofs.CleanRun Model.AssignRun.
From PV Require Model.PqrFormat Proofs.PqrFormat Model.ForceField Proofs.ForceField Model.States Proofs.States.
From PV Require Generated.E2ENames Generated.FF_AMBER.
Import ListNotations.
Local Open Scope string_scope.
Local Open Scope list_scope.

Module PFF := PV.Proofs.ForceField.
Module PST := PV.Proofs.States.

(* ---- the assignment loop keeps the order ------------------------------------------- *)

Definition hitb (m : FF.ffmap) (k : FF.id) (an : atomrec * FF.id) : bool :=
  match FF.lookup m k (snd an) with Some _ => true | None => false end.

(* the atoms of a residue list with / without an entry, in order *)
Definition hit_atoms (m : FF.ffmap) (rs : list (@FF.res atomrec)) : list atomrec :=
  flat_map (fun r => map fst (filter (hitb m (fst r)) (snd r))) rs.
Definition miss_atoms (m : FF.ffmap) (rs : list (@FF.res atomrec)) : list atomrec :=
  flat_map (fun r => map fst (filter (fun an => negb (hitb m (fst r) an)) (snd r))) rs.

Lemma assign_res_order m (r : @FF.res atomrec) :
  map fst (fst (FF.assign_res m r)) = map fst (filter (hitb m (fst r)) (snd r)) /\
  snd (FF.assign_res m r) = map fst (filter (fun an => negb (hitb m (fst r) an)) (snd r)).
Proof.
  destruct r as [k l]. unfold FF.assign_res. cbn [fst snd].
  induction l as [|an l [IH1 IH2]]; [split; reflexivity|].
  cbn [fold_right filter]. destruct (FF.lookup m k (snd an)) eqn:E.
  - assert (Hh : hitb m k an = true) by (unfold hitb; rewrite E; reflexivity).
    rewrite Hh. cbn [fst snd negb map]. split; [rewrite IH1; reflexivity | exact IH2].
  - assert (Hh : hitb m k an = false) by (unfold hitb; rewrite E; reflexivity).
    rewrite Hh. cbn [fst snd negb map]. split; [exact IH1 | rewrite IH2; reflexivity].
Qed.

Lemma assign_order m (rs : list (@FF.res atomrec)) :
  map fst (fst (FF.assign m rs)) = hit_atoms m rs /\ snd (FF.assign m rs) = miss_atoms m rs.
Proof.
  induction rs as [|r rs [IH1 IH2]]; [split; reflexivity|].
  unfold FF.assign. cbn [fold_right]. fold (FF.assign m rs). cbn [fst snd hit_atoms miss_atoms flat_map].
  destruct (assign_res_order m r) as [E1 E2]. rewrite map_app, E1, E2, IH1, IH2. split; reflexivity.
Qed.

(* ---- the composed run, inverted -------------------------------------------------------- *)

Section Compose.
  Variable fok : string -> bool.
  Variable tab : deftab.
  Variable ct : ctab.
  Variable pt : ptab.
  Variable near : atomrec -> atomrec -> bool.
  Variable r3 : string -> MP.fx.
  Variable names : list (string * positive).
  Variable unk : positive.
  Variable m : FF.ffmap.
  Variable rn : rnd.

  Notation run := (assign_only_run fok tab ct pt near r3 names unk m rn).
  Notation named := (named_residues fok tab ct pt near).
  Notation ffr := (ff_residues names unk).

  Lemma run_ok_inv dropw keep ws lines chunks missed :
    run dropw keep ws lines = AOk chunks missed ->
    exists ns,
      named dropw lines = inr ns /\
      fst (FF.assign m (ffr ns)) <> [] /\
      ST.guard_raises (map (res_sum m) (ffr ns)) = false /\
      chunks = MP.written_chunks ws false (MP.print_atoms keep (map (conv_hit rn r3) (fst (FF.assign m (ffr ns))))) /\
      missed = snd (FF.assign m (ffr ns)).
  Proof.
    unfold assign_only_run. destruct (named dropw lines) as [e|ns]; [discriminate|].
    destruct (fst (FF.assign m (ffr ns))) as [|h hs] eqn:Eh; [discriminate|].
    destruct (ST.guard_raises (map (res_sum m) (ffr ns))) eqn:Eg; [discriminate|].
    intros H. injection H as H1 H2. exists ns. rewrite Eh.
    split; [reflexivity|]. split; [discriminate|]. split; [exact Eg|].
    split; [exact (eq_sym H1) | exact (eq_sym H2)].
  Qed.

  (* an atom of an interned residue is an atom of a named string-level residue *)
  Lemma ffr_in ns (r : @FF.res atomrec) a n :
    In r (ffr ns) -> In (a, n) (snd r) ->
    exists t fn, In (t, fn) ns /\ In a (r_atoms (t_r t)) /\
      fst r = sid names unk fn /\ n = sid names unk (a_name a).
  Proof.
    unfold ff_residues. intros Hr Ha. apply in_map_iff in Hr as [[t fn] [E Hin]]. subst r.
    unfold ff_res in Ha. cbn [fst snd] in *. apply in_map_iff in Ha as [a' [E Ha']].
    injection E as E1 E2. subst a'. exists t, fn. repeat split; auto.
  Qed.

  (* every written line is an atom with an entry, and carries that entry (C01 + C08) *)
  Theorem assign_written_exact dropw keep lines chunks missed :
    run dropw keep false lines = AOk chunks missed ->
    exists ns hits,
      named dropw lines = inr ns /\ hits = fst (FF.assign m (ffr ns)) /\
      chunks = map MP.item_text (MP.print_items keep (map (conv_hit rn r3) hits)) /\
      (forall a e, In (a, e) hits ->
         exists t fn, In (t, fn) ns /\ In a (r_atoms (t_r t)) /\
           FF.lookup m (sid names unk fn) (sid names unk (a_name a)) = Some e) /\
      (PP.all_ok (MP.fixed_ok keep) 0 (map (conv_hit rn r3) hits) ->
         map MP.read_fixed (PP.atom_lines (MP.print_items keep (map (conv_hit rn r3) hits))) =
         map (MP.expected_fixed keep) (PP.renumbered 0 (map (conv_hit rn r3) hits))).
  Proof.
    intros H. destruct (run_ok_inv _ _ _ _ _ _ H) as [ns [Hn [_ [_ [Hc _]]]]].
    exists ns. eexists. split; [exact Hn|]. split; [reflexivity|]. split; [|split].
    - rewrite Hc. unfold MP.print_atoms. apply chunks_default.
    - intros a e Hin. destruct (PFF.assign_hit_exact m (ffr ns) a e Hin) as [r [n [Hr [Ha Hl]]]].
      destruct (ffr_in ns r a n Hr Ha) as [t [fn [H1 [H2 [H3 H4]]]]].
      exists t, fn. split; [exact H1|]. split; [exact H2|]. rewrite <- H3, <- H4. exact Hl.
    - intros Hok. apply PP.fixed_file_roundtrip. exact Hok.
  Qed.

  (* what a written line reads back to: the rendering of the entry *)
  Lemma expected_charge keep n h :
    MP.f_charge (MP.expected_fixed keep (MP.with_serial n (conv_hit rn r3 h))) =
      Some (MP.pf_of 4 (q4_charge rn (snd h))) /\
    MP.f_radius (MP.expected_fixed keep (MP.with_serial n (conv_hit rn r3 h))) =
      Some (MP.pf_of 4 (q4 rn (FF.e_r (snd h)))).
  Proof. split; reflexivity. Qed.

  (* an atom is reported missing only when the map has no entry for it *)
  Theorem assign_missed_exact dropw keep ws lines chunks missed :
    run dropw keep ws lines = AOk chunks missed ->
    exists ns, named dropw lines = inr ns /\
      forall a, In a missed ->
        exists t fn, In (t, fn) ns /\ In a (r_atoms (t_r t)) /\
          FF.lookup m (sid names unk fn) (sid names unk (a_name a)) = None.
  Proof.
    intros H. destruct (run_ok_inv _ _ _ _ _ _ H) as [ns [Hn [_ [_ [_ Hm]]]]].
    exists ns. split; [exact Hn|]. intros a Ha. rewrite Hm in Ha.
    destruct (PFF.assign_miss_exact m (ffr ns) a Ha) as [r [n [Hr [Hi Hl]]]].
    destruct (ffr_in ns r a n Hr Hi) as [t [fn [H1 [H2 [H3 H4]]]]].
    exists t, fn. split; [exact H1|]. split; [exact H2|]. rewrite <- H3, <- H4. exact Hl.
  Qed.

  Definition atoms_of_named (ns : list (tres * string)) : list atomrec :=
    flat_map (fun tn => r_atoms (t_r (fst tn))) ns.

  Lemma all_atoms_ffr ns : PFF.all_atoms (ffr ns) = atoms_of_named ns.
  Proof.
    unfold PFF.all_atoms, ff_residues, atoms_of_named. induction ns as [|[t fn] ns IH]; [reflexivity|].
    cbn [map flat_map fst snd]. rewrite IH. f_equal. unfold ff_res. cbn [snd].
    rewrite map_map. cbn [fst]. apply map_id.
  Qed.

  (* written ++ missing = the atoms after set_termini: none lost, none twice; and each
     list is in the order of the atoms (hits / misses filtered in order) *)
  Theorem assign_partition_order dropw keep ws lines chunks missed :
    run dropw keep ws lines = AOk chunks missed ->
    exists ns, named dropw lines = inr ns /\
      Permutation (map fst (fst (FF.assign m (ffr ns))) ++ missed) (atoms_of_named ns) /\
      map fst (fst (FF.assign m (ffr ns))) = hit_atoms m (ffr ns) /\
      missed = miss_atoms m (ffr ns).
  Proof.
    intros H. destruct (run_ok_inv _ _ _ _ _ _ H) as [ns [Hn [_ [_ [_ Hm]]]]].
    exists ns. split; [exact Hn|]. destruct (assign_order m (ffr ns)) as [O1 O2].
    split; [|split; [exact O1 | rewrite Hm; exact O2]].
    rewrite Hm, <- all_atoms_ffr. apply PFF.assign_partition.
  Qed.

  (* the name an amino-acid residue is looked up under is C02's set_state on the
     descriptor of the residue, i.e. prefix(terminus) x base(side-chain state) *)
  Theorem names_are_C02 t n :
    t_kind t = KAmino -> state_name ct t = SName n ->
    exists cn c b d sb,
      lookup (r_name (t_r t)) ct = Some cn /\ class_of_str cn = Some c /\
      base_of_str (r_name (t_r t)) = Some b /\ d = adesc_of c b t /\
      PST.spec_base d = Some sb /\ n = ST.show_sname (PST.spec_prefix d, sb).
  Proof.
    intros Hk. unfold state_name. rewrite Hk.
    destruct (lookup (r_name (t_r t)) ct) as [cn|]; [|discriminate].
    destruct (class_of_str cn) as [c|] eqn:Ec; [|discriminate].
    destruct (base_of_str (r_name (t_r t))) as [b|] eqn:Eb; [|discriminate].
    rewrite (PST.set_state_spec (adesc_of c b t)).
    destruct (PST.spec_base (adesc_of c b t)) as [sb|] eqn:Es; [|discriminate].
    intros H. injection H as H. exists cn, c, b, (adesc_of c b t), sb. repeat split; auto.
  Qed.

  (* names_of keeps the residues *)
  Lemma names_of_fst l ns : names_of ct l = inr ns -> map fst ns = l.
  Proof.
    revert ns; induction l as [|t l IH]; intros ns; simpl; [intros H; injection H as <-; reflexivity|].
    destruct (state_name ct t); try discriminate.
    destruct (names_of ct l) as [e|ns']; [discriminate|]. intros H. injection H as <-.
    cbn [map fst]. rewrite (IH ns' eq_refl). reflexivity.
  Qed.

  Lemma atoms_of_named_map ns : atoms_of_named ns = all_atoms (map t_r (map fst ns)).
  Proof.
    unfold atoms_of_named, all_atoms. induction ns as [|tn ns IH]; [reflexivity|].
    cbn [flat_map map concat]. rewrite IH. reflexivity.
  Qed.

  (* with C07's guard and a quiet set_termini: every coordinate record C07's column
     read selects is either written with parameters or reported missing, exactly once *)
  Theorem assign_faithful_partial keep ws lines chunks missed :
    guard fok tab lines = true ->
    (forall rs, ingest fok tab false lines = Done rs -> termini_quiet tab pt near rs = true) ->
    run false keep ws lines = AOk chunks missed ->
    exists ns, named false lines = inr ns /\
      Permutation (map a_src (map fst (fst (FF.assign m (ffr ns))) ++ missed))
                  (map strip (cols_read lines)).
  Proof.
    intros Hg Hq H. destruct (assign_partition_order _ _ _ _ _ _ H) as [ns [Hn [P _]]].
    exists ns. split; [exact Hn|].
    destruct (ingest_complete fok tab lines Hg) as [rs [Hi Pc]].
    specialize (Hq rs Hi). apply quiet_atoms in Hq.
    unfold named_residues in Hn. rewrite Hi in Hn. unfold set_termini in Hq.
    destruct (set_termini_res tab pt near rs) as [trs|]; [|discriminate].
    cbn [option_map] in Hq. injection Hq as Hq.
    destruct (names_of ct trs) as [e|ns'] eqn:En; [destruct e; discriminate|].
    injection Hn as <-. apply names_of_fst in En.
    eapply Permutation_trans; [apply Permutation_map; exact P|].
    rewrite atoms_of_named_map, En, Hq. exact Pc.
  Qed.
End Compose.

(* ---- a concrete run (AMBER) ------------------------------------------------------------- *)

Local Open Scope string_scope.

Definition xtab : deftab :=
  [("ALA", (KAmino, [("HN", "H")])); ("SER", (KAmino, [])); ("HIS", (KAmino, []));
   ("HOH", (KWater, [("OW", "O")]))].
Definition xct : ctab := [("ALA", "ALA"); ("SER", "SER"); ("HIS", "HIS"); ("HOH", "WAT")].
Definition xrn : rnd := mkRnd [(1155000, false)%Z] [].

(* pdb2pqr's own hydrogenated SER-HIS-ALA (HID), a ligand without parameters, a water *)
Definition ex_assign : list string :=
  [ "ATOM      1  N   SER A   1       1.201   0.847   0.000" ++ nl;
    "ATOM      2  CA  SER A   1       0.000   0.000   0.000" ++ nl;
    "ATOM      3  C   SER A   1      -1.250   0.881   0.000" ++ nl;
    "ATOM      4  O   SER A   1      -1.377   1.807   0.815" ++ nl;
    "ATOM      5  CB  SER A   1       0.014  -0.971   1.174" ++ nl;
    "ATOM      6  OG  SER A   1       0.056  -0.296   2.418" ++ nl;
    "ATOM      7  H   SER A   1       2.019   0.272   0.000" ++ nl;
    "ATOM      8  HA  SER A   1       0.000  -0.536  -0.844" ++ nl;
    "ATOM      9  HB2 SER A   1      -0.812  -1.533   1.139" ++ nl;
    "ATOM     10  HB3 SER A   1       0.820  -1.558   1.098" ++ nl;
    "ATOM     11  H2  SER A   1       1.205   1.426  -0.816" ++ nl;
    "ATOM     12  H3  SER A   1       1.205   1.426   0.816" ++ nl;
    "ATOM     13  HG  SER A   1       0.993  -0.007   2.610" ++ nl;
    "ATOM     14  N   HIS A   2      -2.177   0.599  -0.911" ++ nl;
    "ATOM     15  CA  HIS A   2      -3.424   1.371  -1.015" ++ nl;
    "ATOM     16  C   HIS A   2      -4.621   0.445  -0.799" ++ nl;
    "ATOM     17  O   HIS A   2      -4.722  -0.622  -1.423" ++ nl;
    "ATOM     18  CB  HIS A   2      -3.580   2.088  -2.379" ++ nl;
    "ATOM     19  CG  HIS A   2      -2.474   3.062  -2.657" ++ nl;
    "ATOM     20  H   HIS A   2      -1.951  -0.200  -1.534" ++ nl;
    "ATOM     21  HA  HIS A   2      -3.427   2.064  -0.294" ++ nl;
    "ATOM     22  HB2 HIS A   2      -3.589   1.398  -3.103" ++ nl;
    "ATOM     23  HB3 HIS A   2      -4.450   2.583  -2.381" ++ nl;
    "ATOM     24  ND1 HIS A   2      -1.306   2.739  -3.302" ++ nl;
    "ATOM     25  CD2 HIS A   2      -2.440   4.403  -2.476" ++ nl;
    "ATOM     26  CE1 HIS A   2      -0.603   3.837  -3.504" ++ nl;
    "ATOM     27  NE2 HIS A   2      -1.267   4.864  -3.015" ++ nl;
    "ATOM     28  HD1 HIS A   2      -1.032   1.816  -3.576" ++ nl;
    "ATOM     29  HD2 HIS A   2      -3.142   4.957  -2.030" ++ nl;
    "ATOM     30  HE1 HIS A   2       0.289   3.882  -3.954" ++ nl;
    "ATOM     31  N   ALA A   3      -5.532   0.845   0.084" ++ nl;
    "ATOM     32  CA  ALA A   3      -6.728   0.045   0.382" ++ nl;
    "ATOM     33  C   ALA A   3      -7.983   0.855   0.051" ++ nl;
    "ATOM     34  O   ALA A   3      -8.123   2.012   0.472" ++ nl;
    "ATOM     35  CB  ALA A   3      -6.717  -0.379   1.845" ++ nl;
    "ATOM     36  OXT ALA A   3      -8.848   0.296  -0.657" ++ nl;
    "ATOM     37  H   ALA A   3      -5.331   1.756   0.539" ++ nl;
    "ATOM     38  HA  ALA A   3      -6.716  -0.776  -0.190" ++ nl;
    "ATOM     39  HB1 ALA A   3      -5.906  -0.935   2.025" ++ nl;
    "ATOM     40  HB2 ALA A   3      -6.700   0.433   2.428" ++ nl;
    "ATOM     41  HB3 ALA A   3      -7.538  -0.913   2.044" ++ nl;
    "TER" ++ nl;
    "HETATM  900  C1  LIG A 500      10.000   5.000   1.000" ++ nl;
    "HETATM  901  O1  LIG A 500      11.000   5.000   1.000" ++ nl;
    "HETATM  950  O   HOH A 600      40.000   5.000   1.000" ++ nl;
    "HETATM  951  H1  HOH A 600      40.900   5.000   1.000" ++ nl;
    "HETATM  952  H2  HOH A 600      39.700   5.900   1.000" ++ nl;
    "END" ++ nl ].

Definition ex_assign_out : string :=
  "ATOM      1  N   SER A   1       1.201   0.847   0.000  0.1849 1.8240" ++ nl ++
  "ATOM      2  CA  SER A   1       0.000   0.000   0.000  0.0567 1.9080" ++ nl ++
  "ATOM      3  C   SER A   1      -1.250   0.881   0.000  0.6163 1.9080" ++ nl ++
  "ATOM      4  O   SER A   1      -1.377   1.807   0.815 -0.5722 1.6612" ++ nl ++
  "ATOM      5  CB  SER A   1       0.014  -0.971   1.174  0.2596 1.9080" ++ nl ++
  "ATOM      6  OG  SER A   1       0.056  -0.296   2.418 -0.6714 1.7210" ++ nl ++
  "ATOM      7  H   SER A   1       2.019   0.272   0.000  0.1898 0.6000" ++ nl ++
  "ATOM      8  HA  SER A   1       0.000  -0.536  -0.844  0.0782 1.1000" ++ nl ++
  "ATOM      9  HB2 SER A   1      -0.812  -1.533   1.139  0.0273 1.3870" ++ nl ++
  "ATOM     10  HB3 SER A   1       0.820  -1.558   1.098  0.0273 1.3870" ++ nl ++
  "ATOM     11  H2  SER A   1       1.205   1.426  -0.816  0.1898 0.6000" ++ nl ++
  "ATOM     12  H3  SER A   1       1.205   1.426   0.816  0.1898 0.6000" ++ nl ++
  "ATOM     13  HG  SER A   1       0.993  -0.007   2.610  0.4239 0.0000" ++ nl ++
  "ATOM     14  N   HIS A   2      -2.177   0.599  -0.911 -0.4157 1.8240" ++ nl ++
  "ATOM     15  CA  HIS A   2      -3.424   1.371  -1.015  0.0188 1.9080" ++ nl ++
  "ATOM     16  C   HIS A   2      -4.621   0.445  -0.799  0.5973 1.9080" ++ nl ++
  "ATOM     17  O   HIS A   2      -4.722  -0.622  -1.423 -0.5679 1.6612" ++ nl ++
  "ATOM     18  CB  HIS A   2      -3.580   2.088  -2.379 -0.0462 1.9080" ++ nl ++
  "ATOM     19  CG  HIS A   2      -2.474   3.062  -2.657 -0.0266 1.9080" ++ nl ++
  "ATOM     20  H   HIS A   2      -1.951  -0.200  -1.534  0.2719 0.6000" ++ nl ++
  "ATOM     21  HA  HIS A   2      -3.427   2.064  -0.294  0.0881 1.3870" ++ nl ++
  "ATOM     22  HB2 HIS A   2      -3.589   1.398  -3.103  0.0402 1.4870" ++ nl ++
  "ATOM     23  HB3 HIS A   2      -4.450   2.583  -2.381  0.0402 1.4870" ++ nl ++
  "ATOM     24  ND1 HIS A   2      -1.306   2.739  -3.302 -0.3811 1.8240" ++ nl ++
  "ATOM     25  CD2 HIS A   2      -2.440   4.403  -2.476  0.1292 1.9080" ++ nl ++
  "ATOM     26  CE1 HIS A   2      -0.603   3.837  -3.504  0.2057 1.9080" ++ nl ++
  "ATOM     27  NE2 HIS A   2      -1.267   4.864  -3.015 -0.5727 1.8240" ++ nl ++
  "ATOM     28  HD1 HIS A   2      -1.032   1.816  -3.576  0.3649 0.6000" ++ nl ++
  "ATOM     29  HD2 HIS A   2      -3.142   4.957  -2.030  0.1147 1.4090" ++ nl ++
  "ATOM     30  HE1 HIS A   2       0.289   3.882  -3.954  0.1392 1.3590" ++ nl ++
  "ATOM     31  N   ALA A   3      -5.532   0.845   0.084 -0.3821 1.8240" ++ nl ++
  "ATOM     32  CA  ALA A   3      -6.728   0.045   0.382 -0.1747 1.9080" ++ nl ++
  "ATOM     33  C   ALA A   3      -7.983   0.855   0.051  0.7731 1.9080" ++ nl ++
  "ATOM     34  O   ALA A   3      -8.123   2.012   0.472 -0.8055 1.6612" ++ nl ++
  "ATOM     35  CB  ALA A   3      -6.717  -0.379   1.845 -0.2093 1.9080" ++ nl ++
  "ATOM     36  OXT ALA A   3      -8.848   0.296  -0.657 -0.8055 1.6612" ++ nl ++
  "ATOM     37  H   ALA A   3      -5.331   1.756   0.539  0.2681 0.6000" ++ nl ++
  "ATOM     38  HA  ALA A   3      -6.716  -0.776  -0.190  0.1067 1.3870" ++ nl ++
  "ATOM     39  HB1 ALA A   3      -5.906  -0.935   2.025  0.0764 1.4870" ++ nl ++
  "ATOM     40  HB2 ALA A   3      -6.700   0.433   2.428  0.0764 1.4870" ++ nl ++
  "ATOM     41  HB3 ALA A   3      -7.538  -0.913   2.044  0.0764 1.4870" ++ nl ++
  "HETATM   42  O   HOH A 600      40.000   5.000   1.000 -0.8340 1.6612" ++ nl ++
  "HETATM   43  H1  HOH A 600      40.900   5.000   1.000  0.4170 0.0000" ++ nl ++
  "HETATM   44  H2  HOH A 600      39.700   5.900   1.000  0.4170 0.0000" ++ nl ++
  "TER" ++ nl ++
  "END".

Definition ex_run := assign_only_run py_float_ok xtab xct ept near_dec er3 E2ENames.names E2ENames.unk
                       FF_AMBER.built xrn false true false ex_assign.

Lemma ex_assign_ok :
  guard py_float_ok xtab ex_assign = true /\
  (exists chunks missed, ex_run = AOk chunks missed /\
     String.concat "" chunks = ex_assign_out /\
     map a_name missed = ["C1"; "O1"] /\ List.length chunks = 45) /\
  match named_residues py_float_ok xtab xct ept near_dec false ex_assign with
  | inr ns => map snd ns = ["NSER"; "HID"; "CALA"; "LIG"; "WAT"]
  | inl _ => False
  end.
Proof.
  split; [vm_compute; reflexivity|]. split.
  - eexists. eexists. split; [vm_compute; reflexivity|]. split; [vm_compute; reflexivity|].
    split; reflexivity.
  - vm_compute. reflexivity.
Qed.
