(* E2E_CifClean: the mmCIF route of `pdb2pqr --clean` equals the PDB route on the PDB
   rendering of the same _atom_site rows.  Composes C10 (Proofs.CifLine.atom_site_single_partial:
   one record per row, in order, nothing skipped, no exception), C07 (Proofs.Ingest.read_guarded)
   and E2E_Clean (Proofs.CleanRun.clean_run_faithful_partial). *)
From Coq Require Import String Ascii List Arith NArith ZArith Bool Lia Permutation.
From PV Require Import Lib.Strings Lib.Decimal Model.PdbRead Model.Group Model.PdbSpec
  Proofs.PdbRead Proofs.Group Proofs.Ingest Model.CleanRun Proofs.CleanRun Model.CleanRunCif.
From PV Require Model.PqrFormat Proofs.PqrFormat Model.CifLine Proofs.CifLine.
Import ListNotations.
Local Open Scope string_scope.
Local Open Scope list_scope.

Module PCL := PV.Proofs.CifLine.

(* ---- one row ------------------------------------------------------------------------ *)

Lemma row_fields_inv mv r l f :
  CL.row_fields mv r = CL.Ok (Some (l, f)) ->
  exists k, CL.row_line mv r = CL.Ok (Some (k, l)) /\ CL.parse_atom k l = CL.Ok f.
Proof.
  unfold CL.row_fields, CL.bind. destruct (CL.row_line mv r) as [[[k l']|]|e]; try discriminate.
  destruct (CL.parse_atom k l') as [f'|e] eqn:Ep; [|discriminate].
  intros H. injection H as <- <-. exists k. split; [reflexivity | exact Ep].
Qed.

Lemma parse_atom_kind k l f : CL.parse_atom k l = CL.Ok f -> CL.f_kind f = k.
Proof.
  unfold CL.parse_atom, CL.bind.
  destruct (negb (strip (slice 0 6 l) =? CL.kind_name k)); [discriminate|].
  destruct (CL.py_int (strip (slice 6 11 l))); [|discriminate].
  destruct (CL.char_at 16 l); [|discriminate].
  match goal with |- context [match ?g with CL.Ok _ => _ | CL.Err _ => _ end] => destruct g as [[[ch sq] ic]|e] end;
    [|discriminate].
  intros H. injection H as <-. reflexivity.
Qed.

Section Rows.
  Variable fok : string -> bool.
  Variable mv : CL.mvconv.

  (* a row inside [row_agree]: the record atom_site makes of it converts to exactly the
     records the PDB reader makes of the row's PDB line, and that line meets G1 *)
  Lemma row_agree_conv r l f :
    row_agree fok mv r = true -> CL.row_fields mv r = CL.Ok (Some (l, f)) ->
    conv_record fok (CL.RAtom l f) = Some (line_recs fok (CL.pdb_line_of_row r ++ nl)) /\
    g_line fok (CL.pdb_line_of_row r ++ nl) = true.
  Proof.
    intros Ha Hf. destruct (row_fields_inv mv r l f Hf) as [k [Hl Hp]].
    unfold row_agree in Ha. rewrite Hl in Ha.
    cbn [conv_record]. rewrite (parse_atom_kind k l f Hp).
    destruct (cif_atom fok k l) as [a| |]; try discriminate.
    destruct (line_recs fok (CL.pdb_line_of_row r ++ nl)) as [|[b| | |] [|x t]]; try discriminate.
    apply andb_true_iff in Ha as [Ha Hg]. rewrite (atom_eqb_eq a b Ha). split; [reflexivity | exact Hg].
  Qed.

  Lemma conv_records_rows rows recs :
    Forall2 (PCL.row_ok mv) rows recs -> forallb (row_agree fok mv) rows = true ->
    conv_records fok recs = Some (flat_map (line_recs fok) (pdb_lines rows)) /\
    forallb (g_line fok) (pdb_lines rows) = true.
  Proof.
    induction 1 as [|r rc rows recs R _ IH]; intros Ha; [split; reflexivity|].
    cbn [forallb] in Ha. apply andb_true_iff in Ha as [Hr Ht].
    destruct R as (k & serial & seq & l & f & _ & -> & Hf & _).
    destruct (row_agree_conv r l f Hr Hf) as [Hc Hg]. destruct (IH Ht) as [IH1 IH2].
    cbn [conv_records pdb_lines map flat_map forallb]. fold (pdb_lines rows).
    rewrite Hc, IH1, Hg, IH2. split; reflexivity.
  Qed.
End Rows.

(* ---- the run from records = the run from lines ------------------------------------------- *)

Section Compose.
  Variable fok : string -> bool.
  Variable tab : deftab.
  Variable pt : ptab.
  Variable near : atomrec -> atomrec -> bool.
  Variable r3 : string -> MP.fx.

  Lemma clean_items_lines dropw keep lines recs e :
    read_pdb fok lines = Some (recs, e) ->
    clean_items fok tab pt near r3 dropw keep lines =
    clean_items_of_recs tab pt near r3 dropw keep recs.
  Proof.
    intros Hr. unfold clean_items, clean_atoms, clean_items_of_recs, ingest. rewrite Hr.
    destruct (group tab (if dropw then drop_water recs else recs)); reflexivity.
  Qed.

  (* MAIN: one model, rows inside C10's guard whose records agree ([row_agree]): the CIF
     route and the PDB route print the SAME item list (atom lines with serials, TER
     positions); the two files are its two renderings *)
  Theorem cif_clean_eq_pdb_clean_partial mv dropw keep ws rows m :
    CL.mv_ok mv = true -> rows <> [] ->
    (forall r, In r rows -> CL.guard r = true /\ CL.pdbx_PDB_model_num r = CL.Tok m) ->
    forallb (row_agree fok mv) rows = true ->
    clean_items_cif fok tab pt near r3 mv dropw keep rows =
      clean_items fok tab pt near r3 dropw keep (pdb_lines rows) /\
    clean_run_cif fok tab pt near r3 mv dropw keep ws rows =
      option_map (fun its => MP.file_chunks ws true (map MP.item_text its))
                 (clean_items fok tab pt near r3 dropw keep (pdb_lines rows)) /\
    clean_run fok tab pt near r3 dropw keep ws (pdb_lines rows) =
      option_map (fun its => MP.written_chunks ws false (map MP.item_text its))
                 (clean_items fok tab pt near r3 dropw keep (pdb_lines rows)).
  Proof.
    intros Hmv Hne Hg Ha.
    destruct (PCL.atom_site_single_partial mv rows m Hmv Hne Hg) as [recs [Eo F2]].
    destruct (conv_records_rows fok mv rows recs F2 Ha) as [Hc Hgl].
    destruct (read_guarded fok (pdb_lines rows) Hgl) as [e Er].
    assert (E : clean_items_cif fok tab pt near r3 mv dropw keep rows =
                clean_items fok tab pt near r3 dropw keep (pdb_lines rows)).
    { unfold clean_items_cif, cif_recs. rewrite Eo. cbn [CL.o_exn CL.o_recs]. rewrite Hc.
      symmetry. apply (clean_items_lines dropw keep _ _ e Er). }
    split; [exact E|]. split; [|reflexivity].
    unfold clean_run_cif. rewrite E. reflexivity.
  Qed.

  (* through E2E_clean_run_faithful_partial: reading the CIF-route output back yields the
     rows' chain / resSeq / iCode / coordinates (as the PDB rendering lists them) *)
  Theorem cif_clean_faithful_partial mv keep rows m :
    CL.mv_ok mv = true -> rows <> [] ->
    (forall r, In r rows -> CL.guard r = true /\ CL.pdbx_PDB_model_num r = CL.Tok m) ->
    forallb (row_agree fok mv) rows = true ->
    e2e_guard fok tab pt near r3 (MP.fixed_ok keep) (pdb_lines rows) = true ->
    exists its,
      clean_items_cif fok tab pt near r3 mv false keep rows = Some its /\
      clean_run_cif fok tab pt near r3 mv false keep false rows =
        Some (MP.file_chunks false true (map MP.item_text its)) /\
      Permutation (map out_crec (map MP.read_fixed (PP.atom_lines its)))
                  (map (in_crec r3 keep) (cols_read (pdb_lines rows))).
  Proof.
    intros Hmv Hne Hg Ha He.
    destruct (cif_clean_eq_pdb_clean_partial mv false keep false rows m Hmv Hne Hg Ha) as [E [Er _]].
    destruct (clean_run_faithful_partial fok tab pt near r3 keep _ He) as [its [Hi [_ P]]].
    exists its. rewrite E, Er, Hi. split; [reflexivity|]. split; [reflexivity | exact P].
  Qed.

  (* shape of the CIF-route file, ALL inputs: the chunks print_pqr keeps of the item list,
     then the "#" line *)
  Theorem cif_file_shape mv dropw keep ws rows its :
    clean_items_cif fok tab pt near r3 mv dropw keep rows = Some its ->
    clean_run_cif fok tab pt near r3 mv dropw keep ws rows =
      Some (MP.written_chunks ws true (map MP.item_text its) ++ [("#" ++ nl)%string]).
  Proof. intros H. unfold clean_run_cif. rewrite H. reflexivity. Qed.
End Compose.

(* ---- a concrete structure ------------------------------------------------------------------ *)

Local Open Scope string_scope.

(* ASN A -2 with insertion code B (alt-locs on CA, the 4-character name HD21), GLY A 9996,
   a zinc HETATM group and a water in chain B *)
Definition ex_rows : list CL.row :=
  [ CL.mk "ATOM" "1" "N" "N" CL.Dot "ASN" "A" (CL.Tok "B") "-10.123" "16.581" "2.104" "1.00" "20.55" CL.Qm "-2" "ASN" "A" "N";
    CL.mk "ATOM" "2" "C" "CA" (CL.Tok "A") "ASN" "A" (CL.Tok "B") "-11.000" "16.000" "2.000" "0.50" "20.55" CL.Qm "-2" "ASN" "A" "CA";
    CL.mk "ATOM" "3" "C" "CA" (CL.Tok "B") "ASN" "A" (CL.Tok "B") "-11.500" "16.000" "2.000" "0.50" "20.55" CL.Qm "-2" "ASN" "A" "CA";
    CL.mk "ATOM" "4" "H" "HD21" CL.Dot "ASN" "A" (CL.Tok "B") "-100.123" "1.000" "-0.001" "1.00" "20.55" CL.Qm "-2" "ASN" "A" "HD21";
    CL.mk "ATOM" "5" "N" "N" CL.Dot "GLY" "A" CL.Qm "1.000" "2.000" "3.000" "1.00" "5.10" CL.Dot "9996" "GLY" "A" "N";
    CL.mk "HETATM" "6" "ZN" "ZN" CL.Dot "ZN" "B" CL.Qm "4.000" "5.000" "6.000" "1.00" "5.10" (CL.Tok "0") "301" "ZN" "B" "ZN";
    CL.mk "HETATM" "7" "O" "O" CL.Dot "HOH" "B" CL.Qm "21.000" "12.000" "13.000" "1.00" "5.10" CL.Qm "401" "HOH" "B" "O" ].

Definition ex_cif_out : string :=
  "ATOM      1  N   ASN A  -2B    -10.123  16.581   2.104  0.0000 0.0000" ++ nl ++
  "ATOM      2  CA  ASN A  -2B    -11.000  16.000   2.000  0.0000 0.0000" ++ nl ++
  "ATOM      3 HD21 ASN A  -2B   -100.123   1.000  -0.001  0.0000 0.0000" ++ nl ++
  "ATOM      4  N   GLY A9996       1.000   2.000   3.000  0.0000 0.0000" ++ nl ++
  "HETATM    5  ZN  ZN  B 301       4.000   5.000   6.000  0.0000 0.0000" ++ nl ++
  "HETATM    6  O   HOH B 401      21.000  12.000  13.000  0.0000 0.0000" ++ nl ++
  "#" ++ nl.

(* the same rows twice: model 1 and (with x moved) model 2, as atom_site regroups them *)
Definition with_model (m : string) (r : CL.row) : CL.row :=
  CL.mkrow (CL.group_PDB r) (CL.id r) (CL.type_symbol r) (CL.label_atom_id r) (CL.label_alt_id r)
           (CL.label_comp_id r) (CL.label_asym_id r) (CL.pdbx_PDB_ins_code r) (CL.Tok "50.000") (CL.Cartn_y r)
           (CL.Cartn_z r) (CL.occupancy r) (CL.B_iso_or_equiv r) (CL.pdbx_formal_charge r) (CL.auth_seq_id r)
           (CL.auth_comp_id r) (CL.auth_asym_id r) (CL.auth_atom_id r) (CL.Tok m).
Definition ex_rows_2models : list CL.row := ex_rows ++ map (with_model "2") ex_rows.

Lemma ex_cif_ok :
  forallb CL.guard ex_rows = true /\
  forallb (row_agree py_float_ok CL.mv_installed) ex_rows = true /\
  forallb (row_agree py_float_ok CL.mv_legacy) ex_rows = true /\
  forallb (row_syntactic py_float_ok) ex_rows = true /\
  e2e_guard py_float_ok etab ept near_dec er3 (MP.fixed_ok true) (pdb_lines ex_rows) = true /\
  List.length (cols_read (pdb_lines ex_rows)) = 6 /\
  clean_file_cif py_float_ok etab ept near_dec er3 CL.mv_installed false true false ex_rows = Some ex_cif_out /\
  clean_file_cif py_float_ok etab ept near_dec er3 CL.mv_legacy false true false ex_rows = Some ex_cif_out /\
  (* several models (explored, no universal theorem): the second model is ignored on both routes *)
  clean_file_cif py_float_ok etab ept near_dec er3 CL.mv_installed false true false ex_rows_2models = Some ex_cif_out /\
  option_map (fun its => PP.atom_lines its)
    (clean_items py_float_ok etab ept near_dec er3 false true (pdb_lines_models ex_rows_2models)) =
  option_map (fun its => PP.atom_lines its)
    (clean_items_cif py_float_ok etab ept near_dec er3 CL.mv_installed false true ex_rows_2models).
Proof. vm_compute. repeat split; reflexivity. Qed.
