(* C07, file layer: the three line terminators (LF, CRLF, lone CR) and any mixture
   of them give the same readline() chunks, hence the same ingest. *)
From Coq Require Import String Ascii List Arith NArith ZArith Bool Lia.
From PV Require Import Lib.Strings Lib.Decimal Model.PdbRead Model.Group.
Import ListNotations.
Local Open Scope string_scope.
Local Open Scope list_scope.

Inductive eol := LF | CRLF | CR.

Definition eol_str (e : eol) : string :=
  match e with
  | LF => String lf EmptyString
  | CRLF => String cr (String lf EmptyString)
  | CR => String cr EmptyString
  end.

(* the file: bodies with their terminators, then a last line without terminator *)
Fixpoint file_text (ls : list (string * eol)) (last : string) : string :=
  match ls with
  | [] => last
  | (b, e) :: r => (b ++ eol_str e ++ file_text r last)%string
  end.

Definition no_eol (b : string) : bool :=
  all_chars (fun c => negb (Ascii.eqb c cr) && negb (Ascii.eqb c lf)) b.

Definition starts_lf (s : string) : bool :=
  match s with String c _ => Ascii.eqb c lf | EmptyString => false end.

(* no lone CR is directly followed by LF (that pair IS a CRLF terminator): true
   e.g. when no empty line terminated by LF follows a CR-terminated line *)
Fixpoint seq_ok (ls : list (string * eol)) (last : string) : bool :=
  match ls with
  | [] => true
  | (b, e) :: r =>
      (match e with CR => negb (starts_lf (file_text r last)) | _ => true end) && seq_ok r last
  end.

Lemma univ_body b rest : no_eol b = true -> univ (b ++ rest) = (b ++ univ rest)%string.
Proof.
  induction b as [|c b IH]; intros H; [reflexivity|].
  simpl in H. apply andb_true_iff in H as [Hc Hb]. apply andb_true_iff in Hc as [H1 _].
  apply negb_true_iff in H1. cbn [append univ]. rewrite H1. f_equal. apply IH. exact Hb.
Qed.

Lemma univ_lf rest : univ (String lf rest) = String lf (univ rest).
Proof. reflexivity. Qed.

Lemma univ_crlf rest : univ (String cr (String lf rest)) = String lf (univ rest).
Proof. reflexivity. Qed.

Lemma univ_cr rest : starts_lf rest = false -> univ (String cr rest) = String lf (univ rest).
Proof.
  intros H. destruct rest as [|d r]; [reflexivity|]. simpl in H.
  change (univ (String cr (String d r))) with
    (if Ascii.eqb d lf then String lf (univ r) else String lf (univ (String d r))).
  rewrite H. reflexivity.
Qed.

Definition to_lf (ls : list (string * eol)) : list (string * eol) := map (fun p => (fst p, LF)) ls.

Theorem univ_file_text ls last :
  forallb no_eol (map fst ls) = true -> no_eol last = true -> seq_ok ls last = true ->
  univ (file_text ls last) = file_text (to_lf ls) last.
Proof.
  intros Hb Hl. induction ls as [|[b e] r IH]; intros Hs.
  - simpl. rewrite <- (app_empty_r last) at 1. rewrite (univ_body last "" Hl). simpl. apply app_empty_r.
  - cbn [map fst forallb] in Hb. apply andb_true_iff in Hb as [Hb1 Hb2].
    cbn [seq_ok] in Hs. apply andb_true_iff in Hs as [He Hs].
    cbn [file_text to_lf map fst]. rewrite (univ_body b _ Hb1). f_equal.
    fold (to_lf r). destruct e; cbn [eol_str append].
    + rewrite univ_lf. f_equal. apply IH; assumption.
    + rewrite univ_crlf. f_equal. apply IH; assumption.
    + apply negb_true_iff in He. rewrite (univ_cr _ He). f_equal. apply IH; assumption.
Qed.

Lemma to_lf_bodies ls ls' : map fst ls = map fst ls' -> to_lf ls = to_lf ls'.
Proof.
  unfold to_lf. intros H.
  rewrite <- (map_map fst (fun b => (b, LF)) ls), <- (map_map fst (fun b => (b, LF)) ls'), H.
  reflexivity.
Qed.

(* the chunks do not depend on the terminators *)
Theorem chunks_terminators ls ls' last :
  map fst ls = map fst ls' ->
  forallb no_eol (map fst ls) = true -> no_eol last = true ->
  seq_ok ls last = true -> seq_ok ls' last = true ->
  chunks_of_text (file_text ls last) = chunks_of_text (file_text ls' last).
Proof.
  intros Hm Hb Hl H1 H2. unfold chunks_of_text.
  rewrite (univ_file_text ls last Hb Hl H1).
  rewrite (univ_file_text ls' last) by (try rewrite <- Hm; assumption).
  rewrite (to_lf_bodies _ _ Hm). reflexivity.
Qed.

Theorem line_endings_irrelevant fok tab d ls ls' last :
  map fst ls = map fst ls' ->
  forallb no_eol (map fst ls) = true -> no_eol last = true ->
  seq_ok ls last = true -> seq_ok ls' last = true ->
  ingest fok tab d (chunks_of_text (file_text ls last)) =
  ingest fok tab d (chunks_of_text (file_text ls' last)).
Proof. intros. f_equal. apply chunks_terminators; assumption. Qed.

(* the byte order mark of a UTF-8 file is not text (encoding="utf-8-sig") *)
Theorem chunks_bom t : chunks_of_bytes (bom_bytes ++ t)%string = chunks_of_text t.
Proof. reflexivity. Qed.

Theorem chunks_no_bom t : prefix_of bom_bytes t = false -> chunks_of_bytes t = chunks_of_text t.
Proof. intros H. unfold chunks_of_bytes, strip_bom. rewrite H. reflexivity. Qed.

(* seq_ok holds whenever no line of the file is empty (whitespace-only lines are fine) *)
Lemma no_eol_starts s : no_eol s = true -> starts_lf s = false.
Proof.
  destruct s as [|c s]; [reflexivity|]. simpl. intros H.
  apply andb_true_iff in H as [H _]. apply andb_true_iff in H as [_ H]. apply negb_true_iff; exact H.
Qed.

Lemma seq_ok_nonempty ls last :
  forallb (fun b => negb (is_empty b) && no_eol b) (map fst ls) = true -> no_eol last = true ->
  seq_ok ls last = true.
Proof.
  intros Hb Hl. induction ls as [|[b e] r IH]; [reflexivity|].
  cbn [map fst forallb] in Hb. apply andb_true_iff in Hb as [_ Hr].
  cbn [seq_ok]. rewrite (IH Hr), andb_true_r.
  destruct e; try reflexivity. apply negb_true_iff.
  destruct r as [|[b2 e2] r2]; [apply no_eol_starts; exact Hl|].
  cbn [map fst forallb] in Hr. apply andb_true_iff in Hr as [H2 _]. apply andb_true_iff in H2 as [Hne Hno].
  destruct b2 as [|c b2]; [discriminate|]. cbn [file_text append].
  exact (no_eol_starts (String c b2) Hno).
Qed.

(* a classic-Mac file (CR only), and a mixture, against the LF file *)
Definition fl_bodies : list string :=
  [ "ATOM      1  N   ALA A   1      11.000  12.000  13.000  1.00  0.00           N";
    "";
    "ATOM      2  CA  ALA A   1      12.000  12.000  13.000";
    "ATOM      3  N   GLY A   2      13.000  12.000  13.000  1.00  0.00           N" ].

Definition with_eols (es : list eol) : list (string * eol) := combine fl_bodies es.

Lemma fl_example :
  seq_ok (with_eols [CR; CR; CR; CR]) "END" = true /\
  seq_ok (with_eols [CR; CRLF; LF; CR]) "END" = true /\
  seq_ok (with_eols [CR; LF; LF; LF]) "END" = false /\
  chunks_of_bytes (file_text (with_eols [CR; CR; CR; CR]) "END") =
    map (fun b => b ++ nl)%string fl_bodies ++ ["END"] /\
  chunks_of_bytes (bom_bytes ++ file_text (with_eols [CR; CRLF; LF; CR]) "END")%string =
    map (fun b => b ++ nl)%string fl_bodies ++ ["END"] /\
  List.length (chunks_of_bytes (file_text (with_eols [CR; LF; LF; LF]) "END")) = 4.
Proof.
  split; [vm_compute; reflexivity|]. split; [vm_compute; reflexivity|].
  split; [vm_compute; reflexivity|]. split; [vm_compute; reflexivity|]. split; vm_compute; reflexivity.
Qed.
