(* Proofs/PipelineC12.v - the success half of C12, as far as it is provable:
   (1) the integrality guard of main.non_trivial cannot reject a structure made of
       complete standard residues in parameterised table states (restated from C02:
       Proofs/States.v guard_never_fires + the per-force-field table obligations of
       Generated/StatesFF_<ff>.v, regenerated from /repo);
   (2) combined with the stage model: on the GENERATED stage table, if the structure is
       table-consistent, the guard stage faults exactly when the modelled guard raises, and no
       other stage faults, the run ends (Finished, Complete c).
   What stays exploration: that the other stages (parsing, repair, debumping, hydrogen
   optimisation, pKa, parameter lookup ...) do not raise on a well-formed structure - they
   depend on geometry and are not modelled here; hypothesis [Hothers] below is exactly that. *)
From Coq Require Import List Bool ZArith PArith String Permutation Arith Lia.
From PV Require Import Model.ForceField Model.States Proofs.States.
From PV Require Import Model.Pipeline Proofs.Pipeline Generated.Stages Proofs.StagesC12.
From PV Require Generated.States Generated.FF_AMBER Generated.StatesFF_AMBER Generated.FF_CHARMM Generated.StatesFF_CHARMM Generated.FF_PARSE Generated.StatesFF_PARSE Generated.FF_PEOEPB Generated.StatesFF_PEOEPB Generated.FF_SWANSON Generated.StatesFF_SWANSON Generated.FF_TYL06 Generated.StatesFF_TYL06.
Import ListNotations.

(* the stage(s) of the generated table that ARE the integrality guard *)
Definition guard_stages : list nat := positions "raise_if_charge_err"%string stages.

Lemma guard_stage_exists : guard_stages <> [].
Proof. vm_compute. discriminate. Qed.

Lemma guard_stage_before_writer : forall g, In g guard_stages -> g < writer_index stages.
Proof.
  assert (H : forallb (fun g => Nat.ltb g (writer_index stages)) guard_stages = true) by (vm_compute; reflexivity).
  intros g Hg. rewrite forallb_forall in H. apply Nat.ltb_lt. exact (H g Hg).
Qed.

Section Success.
  Variable m : ffmap.
  Variable exc : list nat.
  Variable arows : list arow.
  Variable nrows : list nrow.
  Variable wat : id.
  Variable watoms : list id.
  Hypothesis HA : check_arows 0 m exc arows = true.
  Hypothesis HS : check_strand 0 false m nrows = true.
  Hypothesis HR : check_round4 m nrows = true.
  Hypothesis HW : check_water 0 m wat watoms = true.

  (* For ALL table-consistent residue lists, ALL fault vectors in which the guard stage
     faults iff the modelled guard raises and no other stage faults, ALL contents and
     ALL initial file states: the run finishes and the output is Complete. *)
  Theorem table_consistent_run_completes :
    forall (C : Type) units qs (flt : nat -> fault) (c : C) (f : fstate C),
      Forall (unit_valid m exc arows nrows wat watoms) units ->
      Permutation qs (List.concat (map unit_charges units)) ->
      (forall g, In g guard_stages -> faulty (flt g) = guard_raises qs) ->
      (forall k, k < List.length stages -> ~ In k guard_stages -> faulty (flt k) = false) ->
      frun stages 0 flt c f = (Finished, Complete c).
  Proof.
    intros C units qs flt c f V P Hguard Hothers.
    destruct (guard_never_fires m exc arows nrows wat watoms HA HS HR HW units qs V P) as [_ [Hr _]].
    apply no_fault_complete; [exact generated_c12_obligation|].
    intros k Hk. destruct (in_dec Nat.eq_dec k guard_stages) as [Hin|Hout].
    - rewrite (Hguard k Hin). exact Hr.
    - exact (Hothers k Hk Hout).
  Qed.

  (* the hypothesis on the guard stage is needed: were the guard to fire, the run would
     raise at the guard and leave the file state alone (fault_before_writer) *)
  Theorem guard_fault_leaves_file :
    forall (C : Type) (flt : nat -> fault) (c : C) (f : fstate C) g,
      In g guard_stages -> faulty (flt g) = true ->
      snd (frun stages 0 flt c f) = f /\ exists i, fst (frun stages 0 flt c f) = Raised i.
  Proof.
    intros C flt c f g Hg Hf.
    apply (no_partial_output C stages generated_c12_obligation flt c f).
    exists g. split; [exact (guard_stage_before_writer g Hg) | exact Hf].
  Qed.
End Success.

(* instances per built-in force field (table obligations proved by vm_compute in Generated/StatesFF_<ff>.v) *)
Definition run_completes_AMBER := table_consistent_run_completes _ _ _ _ _ _ StatesFF_AMBER.state_exact StatesFF_AMBER.strand_exact StatesFF_AMBER.round4_facts StatesFF_AMBER.water_neutral.
Definition run_completes_CHARMM := table_consistent_run_completes _ _ _ _ _ _ StatesFF_CHARMM.state_exact StatesFF_CHARMM.strand_exact StatesFF_CHARMM.round4_facts StatesFF_CHARMM.water_neutral.
Definition run_completes_PARSE := table_consistent_run_completes _ _ _ _ _ _ StatesFF_PARSE.state_exact StatesFF_PARSE.strand_exact StatesFF_PARSE.round4_facts StatesFF_PARSE.water_neutral.
Definition run_completes_PEOEPB := table_consistent_run_completes _ _ _ _ _ _ StatesFF_PEOEPB.state_exact StatesFF_PEOEPB.strand_exact StatesFF_PEOEPB.round4_facts StatesFF_PEOEPB.water_neutral.
Definition run_completes_SWANSON := table_consistent_run_completes _ _ _ _ _ _ StatesFF_SWANSON.state_exact StatesFF_SWANSON.strand_exact StatesFF_SWANSON.round4_facts StatesFF_SWANSON.water_neutral.
Definition run_completes_TYL06 := table_consistent_run_completes _ _ _ _ _ _ StatesFF_TYL06.state_exact StatesFF_TYL06.strand_exact StatesFF_TYL06.round4_facts StatesFF_TYL06.water_neutral.

(* ---- non-vacuity: table-consistent structures exist (an amino residue row picked from the
   generated state table by index, and a water) *)
Definition pick_amino (m : ffmap) (exc : list nat) (arows : list arow) (i j : nat) : option cunit :=
  match nth_error arows i with
  | Some r =>
    match nth_error (ar_alts r) j with
    | Some alt =>
      match resolve m (ar_ff r) alt with
      | Some q => if mem_nat (ar_key r) exc then None else Some (UAmino r alt q)
      | None => None
      end
    | None => None
    end
  | None => None
  end.

Lemma pick_amino_valid m exc arows nrows wat watoms i j u :
  pick_amino m exc arows i j = Some u -> unit_valid m exc arows nrows wat watoms u.
Proof.
  unfold pick_amino. destruct (nth_error arows i) as [r|] eqn:Er; [|discriminate].
  destruct (nth_error (ar_alts r) j) as [alt|] eqn:Ea; [|discriminate].
  destruct (resolve m (ar_ff r) alt) as [q|] eqn:Eq; [|discriminate].
  destruct (mem_nat (ar_key r) exc) eqn:Em; [discriminate|].
  intros H. inversion H; subst u. cbn [unit_valid].
  split; [exact (nth_error_In _ _ Er)|]. split.
  - intros Hin. apply mem_nat_In in Hin. congruence.
  - split; [exact (nth_error_In _ _ Ea) | exact Eq].
Qed.

Example success_nonvacuous_AMBER :
  exists u q qs,
    pick_amino StatesFF_AMBER.built StatesFF_AMBER.known_exceptions States.arows 0 0 = Some u
    /\ Forall (unit_valid StatesFF_AMBER.built StatesFF_AMBER.known_exceptions States.arows States.nrows States.wat_id States.wat_atoms) [u; UWater q]
    /\ Permutation qs (List.concat (map unit_charges [u; UWater q]))
    /\ guard_raises qs = false
    /\ guard_stages <> [].
Proof.
  destruct (pick_amino StatesFF_AMBER.built StatesFF_AMBER.known_exceptions States.arows 0 0) as [u|] eqn:E;
    [|vm_compute in E; discriminate].
  destruct (resolve StatesFF_AMBER.built States.wat_id States.wat_atoms) as [q|] eqn:W;
    [|vm_compute in W; discriminate].
  exists u, q, (List.concat (map unit_charges [u; UWater q])).
  assert (V : Forall (unit_valid StatesFF_AMBER.built StatesFF_AMBER.known_exceptions States.arows States.nrows States.wat_id States.wat_atoms) [u; UWater q]).
  { constructor; [exact (pick_amino_valid _ _ _ _ _ _ _ _ _ E)|]. constructor; [exact W | constructor]. }
  split; [reflexivity|]. split; [exact V|]. split; [apply Permutation_refl|]. split.
  - destruct (guard_never_fires _ _ _ _ _ _ StatesFF_AMBER.state_exact StatesFF_AMBER.strand_exact StatesFF_AMBER.round4_facts StatesFF_AMBER.water_neutral _ _ V (Permutation_refl _)) as [_ [H _]]. exact H.
  - exact guard_stage_exists.
Qed.
