(* Proofs/PipelineC12.v - the success half of C12, as far as it is provable:
   (1) the integrality guard of main.non_trivial cannot reject a structure made of
       complete standard residues in parameterised table states (restated from C02:
       Proofs/States.v guard_never_fires + the per-force-field table obligations of
       Generated/StatesFF_<ff>.v, regenerated from /repo);
   (2) combined with the stage model: on the GENERATED stage table, if the structure is
       table-consistent, the guard stage faults exactly when the modelled guard raises, and no
       other stage faults, the run ends (Finished, Complete c).
   What stays exploration: that the other stages (parsing, repair, debumping, hydrogen
   optimisation, pKa, parameter lookup ...) do not raise on a well-formed structure - they
   depend on geometry and are not modelled here; hypothesis [Hothers] below is exactly that. *)
From Coq Require Import List Bool ZArith PArith String Permutation Arith Lia.
From PV Require Import Model.ForceField Model.States Proofs.States.
From PV Require Import Model.Pipeline Proofs.Pipeline Generated.Stages Proofs.StagesC12.
From PV Require Generated.States Generated.FF_AMBER Generated.StatesFF_AMBER Generated.FF_CHARMM Generated.StatesFF_CHARMM Generated.FF_PARSE Generated.StatesFF_PARSE Generated.FF_PEOEPB Generated.StatesFF_PEOEPB Generated.FF_SWANSON Generated.StatesFF_SWANSON Generated.FF_TYL06 Generated.StatesFF_TYL06.
Import ListNotations.

(* the stage(s) of the generated table that ARE the integrality guard *)
Definition guard_stages : list nat := positions "raise_if_charge_err"%string stages.

Lemma guard_stage_exists : guard_stages <> [].
Proof. vm_compute. discriminate. Qed.

Lemma guard_stage_before_writer : forall g, In g guard_stages -> g < writer_index stages.
Proof.
  assert (H : forallb (fun g => Nat.ltb g (writer_index stages)) guard_stages = true) by (vm_compute; reflexivity).
  intros g Hg. rewrite forallb_forall in H. apply Nat.ltb_lt. exact (H g Hg).
Qed.

Section Success.
  Variable m : ffmap.
  Variable exc : list nat.
  Variable arows : list arow.
  Variable nrows : list nrow.
  Variable wat : id.
  Variable watoms : list id.
  Hypothesis HA : check_arows 0 m exc arows = true.
  Hypothesis HS : check_strand 0 false m nrows = true.
  Hypothesis HR : check_round4 m nrows = true.
  Hypothesis HW : check_water 0 m wat watoms = true.

  (* For ALL table-consistent residue lists, ALL fault vectors in which the guard stage
     faults iff the modelled guard raises and no other stage faults, ALL contents and
     ALL initial file states: the run finishes and the output is Complete. *)
  Theorem table_consistent_run_completes :
    forall (C : Type) units qs (flt : nat -> fault) (c : C) (f : fstate C),
      Forall (unit_valid m exc arows nrows wat watoms) units ->
      Permutation qs (List.concat (map unit_charges units)) ->
      (forall g, In g guard_stages -> faulty (flt g) = guard_raises qs) ->
      (forall k, k < List.length stages -> ~ In k guard_stages -> faulty (flt k) = false) ->
      frun stages 0 flt c f = (Finished, Complete c).
  Proof.
    intros C units qs flt c f V P Hguard Hothers.
    destruct (guard_never_fires m exc arows nrows wat watoms HA HS HR HW units qs V P) as [_ [Hr _]].
    apply no_fault_complete; [exact generated_c12_obligation|].
    intros k Hk. destruct (in_dec Nat.eq_dec k guard_stages) as [Hin|Hout].
    - rewrite (Hguard k Hin). exact Hr.
    - exact (Hothers k Hk Hout).
  Qed.

  (* the hypothesis on the guard stage is needed: were the guard to fire, the run would
     raise at the guard and leave the file state alone (fault_before_writer) *)
  Theorem guard_fault_leaves_file :
    forall (C : Type) (flt : nat -> fault) (c : C) (f : fstate C) g,
      In g guard_stages -> faulty (flt g) = true ->
      snd (frun stages 0 flt c f) = f /\ exists i, fst (frun stages 0 flt c f) = Raised i.
  Proof.
    intros C flt c f g Hg Hf.
    apply (no_partial_output C stages generated_c12_obligation flt c f).
    exists g. split; [exact (guard_stage_before_writer g Hg) | exact Hf].
  Qed.
End Success.

(* instances per built-in force field (table obligations proved by vm_compute in Generated/StatesFF_<ff>.v) *)
Definition run_completes_AMBER := table_consistent_run_completes _ _ _ _ _ _ StatesFF_AMBER.state_exact StatesFF_AMBER.strand_exact StatesFF_AMBER.round4_facts StatesFF_AMBER.water_neutral.
Definition run_completes_CHARMM := table_consistent_run_completes _ _ _ _ _ _ StatesFF_CHARMM.state_exact StatesFF_CHARMM.strand_exact StatesFF_CHARMM.round4_facts StatesFF_CHARMM.water_neutral.
Definition run_completes_PARSE := table_consistent_run_completes _ _ _ _ _ _ StatesFF_PARSE.state_exact StatesFF_PARSE.strand_exact StatesFF_PARSE.round4_facts StatesFF_PARSE.water_neutral.
Definition run_completes_PEOEPB := table_consistent_run_completes _ _ _ _ _ _ StatesFF_PEOEPB.state_exact StatesFF_PEOEPB.strand_exact StatesFF_PEOEPB.round4_facts StatesFF_PEOEPB.water_neutral.
Definition run_completes_SWANSON := table_consistent_run_completes _ _ _ _ _ _ StatesFF_SWANSON.state_exact StatesFF_SWANSON.strand_exact StatesFF_SWANSON.round4_facts StatesFF_SWANSON.water_neutral.
Definition run_completes_TYL06 := table_consistent_run_completes _ _ _ _ _ _ StatesFF_TYL06.state_exact StatesFF_TYL06.strand_exact StatesFF_TYL06.round4_facts StatesFF_TYL06.water_neutral.

(* ---- non-vacuity: table-consistent structures exist (an amino residue row picked from the
   generated state table by index, and a water) *)
Definition pick_amino (m : ffmap) (exc : list nat) (arows : list arow) (i j : nat) : option cunit :=
  match nth_error arows i with
  | Some r =>
    match nth_error (ar_alts r) j with
    | Some alt =>
      match resolve m (ar_ff r) alt with
      | Some q => if mem_nat (ar_key r) exc then None else Some (UAmino r alt q)
      | None => None
      end
    | None => None
    end
  | None => None
  end.

Lemma pick_amino_valid m exc arows nrows wat watoms i j u :
  pick_amino m exc arows i j = Some u -> unit_valid m exc arows nrows wat watoms u.
Proof.
  unfold pick_amino. destruct (nth_error arows i) as [r|] eqn:Er; [|discriminate].
  destruct (nth_error (ar_alts r) j) as [alt|] eqn:Ea; [|discriminate].
  destruct (resolve m (ar_ff r) alt) as [q|] eqn:Eq; [|discriminate].
  destruct (mem_nat (ar_key r) exc) eqn:Em; [discriminate|].
  intros H. inversion H; subst u. cbn [unit_valid].
  split; [exact (nth_error_In _ _ Er)|]. split.
  - intros Hin. apply mem_nat_In in Hin. congruence.
  - split; [exact (nth_error_In _ _ Ea) | exact Eq].
Qed.

Example success_nonvacuous_AMBER :
  exists u q qs,
    pick_amino StatesFF_AMBER.built StatesFF_AMBER.known_exceptions States.arows 0 0 = Some u
    /\ Forall (unit_valid StatesFF_AMBER.built StatesFF_AMBER.known_exceptions States.arows States.nrows States.wat_id States.wat_atoms) [u; UWater q]
    /\ Permutation qs (List.concat (map unit_charges [u; UWater q]))
    /\ guard_raises qs = false
    /\ guard_stages <> [].
Proof.
  destruct (pick_amino StatesFF_AMBER.built StatesFF_AMBER.known_exceptions States.arows 0 0) as [u|] eqn:E;
    [|vm_compute in E; discriminate].
  destruct (resolve StatesFF_AMBER.built States.wat_id States.wat_atoms) as [q|] eqn:W;
    [|vm_compute in W; discriminate].
  exists u, q, (List.concat (map unit_charges [u; UWater q])).
  assert (V : Forall (unit_valid StatesFF_AMBER.built StatesFF_AMBER.known_exceptions States.arows States.nrows States.wat_id States.wat_atoms) [u; UWater q]).
  { constructor; [exact (pick_amino_valid _ _ _ _ _ _ _ _ _ E)|]. constructor; [exact W | constructor]. }
  split; [reflexivity|]. split; [exact V|]. split; [apply Permutation_refl|]. split.
  - destruct (guard_never_fires _ _ _ _ _ _ StatesFF_AMBER.state_exact StatesFF_AMBER.strand_exact StatesFF_AMBER.round4_facts StatesFF_AMBER.water_neutral _ _ V (Permutation_refl _)) as [_ [H _]]. exact H.
  - exact guard_stage_exists.
Qed.

(* ------------------------------------------------------------------ *)
(* HISTORIES.  C12 quantifies over process histories too: the 2nd, 3rd ... attempt in one
   process behaves like the first.  In the model a run is a function of ITS inputs (the fault
   vector = which stage fails on this input, and the content it would write) and of the file
   state it starts from; nothing else is carried from run to run.  [run_seq] threads the file
   state through a sequence of runs (a file completed by one run is an old file for the next). *)
Definition settle {C : Type} (f : fstate C) : fstate C :=
  match f with Complete c => Old c | x => x end.

Fixpoint run_seq {C : Type} (ds : list sdesc) (inputs : list ((nat -> fault) * C)) (f : fstate C)
  : list (outcome * fstate C) :=
  match inputs with
  | [] => []
  | (flt, c) :: r => let res := frun ds 0 flt c f in res :: run_seq ds r (settle (snd res))
  end.

(* the outcome of a run (raised where / finished) does not depend on the file state it starts from *)
Lemma frun_outcome_indep (C : Type) ds : forall i flt (c : C) f f',
  fst (frun ds i flt c f) = fst (frun ds i flt c f').
Proof.
  induction ds as [|d r IH]; intros i flt c f f'; cbn [frun]; [reflexivity|].
  destruct (faulty (flt i)); [destruct (sd_swallow d); [apply IH | reflexivity] | apply IH].
Qed.

(* history form: the outcomes of a sequence of runs are the outcomes of the single runs, for
   ALL stage lists, ALL input sequences and ALL initial file states *)
Theorem run_seq_outcomes (C : Type) ds : forall inputs (f : fstate C),
  map fst (run_seq ds inputs f)
  = map (fun ic : (nat -> fault) * C => fst (frun ds 0 (fst ic) (snd ic) Absent)) inputs.
Proof.
  induction inputs as [|[flt c] r IH]; intros f; cbn [run_seq map fst snd]; [reflexivity|].
  rewrite IH. f_equal. apply frun_outcome_indep.
Qed.

(* a history of failing runs (each fails in front of the writer) leaves the file at the output
   path exactly as it was before the first attempt, and every attempt raises *)
Theorem failing_history_keeps_file (C : Type) ds :
  c12_obligation ds = true ->
  forall inputs (f : fstate C), settle f = f ->
    Forall (fun ic : (nat -> fault) * C => exists j, j < writer_index ds /\ faulty (fst ic j) = true) inputs ->
    Forall (fun res => snd res = f /\ exists i, fst res = Raised i) (run_seq ds inputs f).
Proof.
  intros Hob inputs f Hs H. induction H as [|[flt c] r Hx H IH]; cbn [run_seq]; [constructor|].
  destruct (no_partial_output C ds Hob flt c f) as [Hfail _].
  destruct (Hfail Hx) as [Hf Hr]. cbn [fst] in *.
  constructor; [split; assumption|]. rewrite Hf, Hs. exact IH.
Qed.

Lemma run_seq_nonempty (C : Type) ds inputs x (f : fstate C) : run_seq ds (inputs ++ [x]) f <> [].
Proof. destruct inputs as [|[a b] r]; destruct x; cbn; discriminate. Qed.

(* after any history of failing runs, a fault-free run ends exactly like a fresh one *)
Theorem ok_after_failing_history (C : Type) ds :
  c12_obligation ds = true ->
  forall inputs (f : fstate C) flt c, settle f = f ->
    Forall (fun ic : (nat -> fault) * C => exists j, j < writer_index ds /\ faulty (fst ic j) = true) inputs ->
    (forall k, k < List.length ds -> faulty (flt k) = false) ->
    List.last (run_seq ds (inputs ++ [(flt, c)]) f) (Finished, f) = (Finished, Complete c).
Proof.
  intros Hob inputs f flt c Hs H Hok. induction H as [|[flt0 c0] r Hx H IH]; cbn [app run_seq].
  - cbn. apply (no_fault_complete C ds Hob flt c f Hok).
  - destruct (no_partial_output C ds Hob flt0 c0 f) as [Hfail _].
    destruct (Hfail Hx) as [Hf _]. cbn [fst] in *. rewrite Hf, Hs.
    destruct (run_seq ds (r ++ [(flt, c)]) f) eqn:E.
    + exfalso. exact (run_seq_nonempty C ds r (flt, c) f E).
    + rewrite <- E. cbn [List.last]. rewrite E in *. exact IH.
Qed.
