(* Glue between the generated table obligation of C04 (every template x dihedral x terminus
   flags meets the rigidity conditions) and the hypothesis of the debump theorems: the
   dihedral list built from ANY amino-acid template of the topology satisfies it. *)
From Coq Require Import List PArith Bool.
From PV Require Import Model.ForceField Model.Topology Model.Moves Model.Quatfit Model.Debump Proofs.Debump.
From PV Require Import Generated.Topology Generated.MovesTable.
Import ListNotations.

Lemma table_gives_debump_hypothesis :
  forallb (ok_all_flags keep_heavy) pairs = true ->
  forall (t : tres) (nt ct : bool), In t aminos ->
  forall d, In d (template_dihedrals nm nt ct (tgraph t) (tr_dihedrals t)) ->
  rigid_ok keep_heavy (tgraph t) (d_b d) (d_c d) (d_mov d) = true /\
  existsb (fun a => mem a (nm_backbone nm)) (d_mov d) = false.
Proof.
  intros Htab t nt ct Ht. apply template_dihedrals_ok.
  apply forallb_forall. intros dh Hdh.
  rewrite forallb_forall in Htab.
  assert (Hp : In (t, dh) pairs).
  { unfold pairs. apply in_flat_map. exists t. split; [exact Ht|]. apply in_map. exact Hdh. }
  specialize (Htab _ Hp). unfold ok_all_flags in Htab. rewrite !andb_true_iff in Htab.
  destruct Htab as [[[H00 H10] H01] H11]. unfold ok_pair in *. cbn [fst snd] in *.
  destruct nt, ct; assumption.
Qed.
