(* Proofs about the titration model (C06).

   Finite facts (every force field x position x group x side, every residue
   type x position x decided sites) are boolean tables closed by vm_compute
   over the model [decide] and the support function [lost] evaluated on the
   model-built force-field maps FF_<ff>.built and the topology templates, and
   are lifted to universally quantified statements. Statements over all
   residue lists / pKa assignments / pH values are proved by induction.

   History: until the guard lists of apply_pka_values were repaired (finding F10:
   CYM at termini for amber/tyl06/swanson, LYN at the N-terminus for amber/swanson,
   CYM/LYN/GLH for peoepb) decide_spec, never_dropped and the output-charge
   monotonicity were refuted in exactly those cells; the witnesses are now
   regression cases in corpus/C06. Support is never a constant: it is [lost]
   computed from the generated tables. *)
From Coq Require Import String Ascii List Bool ZArith QArith PArith Lia.
From PV Require Import Lib.Strings Lib.Decimal Model.ForceField Model.Topology Model.Titration.
From PV Require Model.States Proofs.States Generated.States
                Generated.FF_AMBER Generated.FF_CHARMM Generated.FF_PARSE Generated.FF_PEOEPB Generated.FF_SWANSON Generated.FF_TYL06
                Generated.StatesFF_AMBER Generated.StatesFF_CHARMM Generated.StatesFF_PARSE Generated.StatesFF_PEOEPB
                Generated.StatesFF_SWANSON Generated.StatesFF_TYL06.
From PV Require Generated.Topology Generated.Titration
                Generated.Titration_AMBER Generated.Titration_CHARMM Generated.Titration_PARSE
                Generated.Titration_PEOEPB Generated.Titration_SWANSON Generated.Titration_TYL06.
Import ListNotations.

(* ---- support and formal charge, from the generated tables ------------------- *)

(* atoms of a state name the force field cannot parameterise: Model.Titration.lost
   on FF_<ff>.built (= pdb2pqr's loaded map, C01 table_eq) and the templates *)
Definition lostf (ff : ffid) : string -> option (list id) :=
  match ff with
  | Amber => Titration_AMBER.lost_fn
  | Charmm => Titration_CHARMM.lost_fn
  | Parse => Titration_PARSE.lost_fn
  | Tyl06 => Titration_TYL06.lost_fn
  | Peoepb => Titration_PEOEPB.lost_fn
  | Swanson => Titration_SWANSON.lost_fn
  | OtherFF => fun _ => None
  end.

Definition formalf : list string -> option Z :=
  formal_of Generated.Titration.name_ids Generated.Titration.formal_tbl.

(* the three chain positions of the property text (a one-residue chain, PosNC,
   is named N* only and loses OXT in every state: explored by the harness) *)
Definition proper_positions : list position := [PosN; PosMid; PosC].

(* ---- small finite-domain lemmas ------------------------------------------------ *)

Lemma in_all_groups : forall g, In g all_groups.
Proof. destruct g; cbn; tauto. Qed.

Lemma in_all_rtypes : forall t, In t all_rtypes.
Proof. destruct t; cbn; tauto. Qed.

Lemma in_all_positions_ : forall p, In p all_positions_.
Proof. destruct p; cbn; tauto. Qed.

Lemma in_all_ffs : forall f, In f all_ffs.
Proof. destruct f; cbn; tauto. Qed.

Lemma in_bools : forall b : bool, In b [true; false].
Proof. destruct b; cbn; tauto. Qed.

Lemma in_opt_bools : forall o, In o opt_bools.
Proof. destruct o as [[|]|]; cbn; tauto. Qed.

Lemma in_all_sides : forall s, In s all_sides.
Proof.
  intros [a b c]. unfold all_sides.
  apply in_flat_map. exists a. split; [apply in_opt_bools|].
  apply in_flat_map. exists b. split; [apply in_opt_bools|].
  apply in_map. apply in_opt_bools.
Qed.

Lemma in_res_cells : forall t pos s, In (t, (pos, s)) res_cells.
Proof.
  intros. unfold res_cells. apply in_prod; [apply in_all_rtypes|].
  apply in_prod; [apply in_all_positions_ | apply in_all_sides].
Qed.

Lemma forallb_In : forall (A : Type) (f : A -> bool) (l : list A) (x : A),
  forallb f l = true -> In x l -> f x = true.
Proof. intros A f l x H Hin. rewrite forallb_forall in H. apply H. exact Hin. Qed.

Definition outcome_eqb (a b : outcome) : bool :=
  match a, b with
  | Patch p, Patch q => patch_eqb p q
  | Keep x, Keep y => Bool.eqb x y
  | _, _ => false
  end.

Lemma patch_eqb_eq : forall p q, patch_eqb p q = true -> p = q.
Proof. destruct p, q; cbn; intros H; try reflexivity; discriminate. Qed.

Lemma outcome_eqb_eq : forall a b, outcome_eqb a b = true -> a = b.
Proof.
  destruct a as [p|x], b as [q|y]; cbn; intros H; try discriminate.
  - f_equal. apply patch_eqb_eq; assumption.
  - f_equal. apply eqb_prop; assumption.
Qed.

(* ---- pH versus pKa --------------------------------------------------------------- *)

Lemma below_spec : forall ph v : Q, below ph v = true <-> (ph < v)%Q.
Proof.
  intros ph v. unfold below. rewrite negb_true_iff. split.
  - intros H. apply Qnot_le_lt. intros Hle. apply Qle_bool_iff in Hle. congruence.
  - intros H. destruct (Qle_bool v ph) eqn:E; [|reflexivity].
    apply Qle_bool_iff in E. exfalso. exact (Qlt_not_le _ _ H E).
Qed.

Lemma below_mono : forall ph1 ph2 v : Q, (ph1 <= ph2)%Q -> below ph2 v = true -> below ph1 v = true.
Proof.
  intros ph1 ph2 v Hle H. apply below_spec. apply below_spec in H.
  eapply Qle_lt_trans; eassumption.
Qed.

(* ---- decide_spec -------------------------------------------------------------------- *)

(* what the property asks of one group: if the state wanted by "protonated iff
   pH < pKa" can be parameterised at this position the group ends in it,
   otherwise the default state is kept and a warning is issued *)
Definition spec_ok (ff : ffid) (pos : position) (g : group) (t : rtype) (b : bool) : bool :=
  let o := decide ff pos g b in
  if target_supported (lostf ff) t pos g b
  then Bool.eqb (protonated_after g o) b
  else outcome_eqb o (Keep true).

Lemma spec_tbl_true :
  forallb (fun ff => forallb (fun pos => forallb (fun g => forallb (fun t => forallb (fun b =>
    implb (applicable pos g)
          (spec_ok ff pos g t b))
    [true; false]) (carriers g)) all_groups) proper_positions) six_ffs = true.
Proof. vm_compute. reflexivity. Qed.

Lemma spec_ok_all : forall ff pos g t b,
  In ff six_ffs -> In pos proper_positions -> applicable pos g = true -> In t (carriers g) ->
  spec_ok ff pos g t b = true.
Proof.
  intros ff pos g t b Hff Hpos Happ Ht.
  pose proof (forallb_In _ _ _ ff spec_tbl_true Hff) as H1. cbv beta in H1.
  pose proof (forallb_In _ _ _ pos H1 Hpos) as H2. cbv beta in H2.
  pose proof (forallb_In _ _ _ g H2 (in_all_groups g)) as H3. cbv beta in H3.
  pose proof (forallb_In _ _ _ t H3 Ht) as H4. cbv beta in H4.
  pose proof (forallb_In _ _ _ b H4 (in_bools b)) as H5. cbv beta in H5.
  rewrite Happ in H5. exact H5.
Qed.

Theorem decide_spec : forall ff pos g t (ph pka : Q),
  In ff six_ffs -> In pos proper_positions -> applicable pos g = true -> In t (carriers g) ->
  let o := decide ff pos g (below ph pka) in
  (target_supported (lostf ff) t pos g (below ph pka) = true ->
     (protonated_after g o = true <-> (ph < pka)%Q)) /\
  (target_supported (lostf ff) t pos g (below ph pka) = false ->
     o = Keep true).
Proof.
  intros ff pos g t ph pka Hff Hpos Happ Ht o.
  pose proof (spec_ok_all ff pos g t (below ph pka) Hff Hpos Happ Ht) as H.
  unfold spec_ok in H. fold o in H.
  split; intros Hs; rewrite Hs in H.
  - apply eqb_prop in H. rewrite H. apply below_spec.
  - apply outcome_eqb_eq in H. exact H.
Qed.

(* a user force field matches none of the guard lists: titration follows the pKa
   alone, except that a neutral ARG is only ever applied for "parse" *)
Theorem decide_user_ff : forall pos g b, applicable pos g = true ->
  decide OtherFF pos g b =
  match g, wanted_patch g b with
  | _, None => Keep false
  | GARG, Some _ => Keep true
  | _, Some p => Patch p
  end.
Proof. intros pos g b H. destruct pos, g, b; cbn in *; try reflexivity; discriminate H. Qed.

(* ---- never dropped ------------------------------------------------------------------- *)

Lemma safe_tbl_true :
  forallb (fun ff => forallb (fun c => let '(t, (pos, s)) := c in
     implb (existsb (fun p => Bool.eqb (is_n_term p) (is_n_term pos) && Bool.eqb (is_c_term p) (is_c_term pos)) proper_positions)
           (safe_cell (lostf ff) ff t pos s))
     res_cells) six_ffs = true.
Proof. vm_compute. reflexivity. Qed.

(* no residue is dropped because of titration: every residue type, the three
   positions, every combination of decided sites *)
Theorem never_dropped : forall ff t pos s,
  In ff six_ffs -> In pos proper_positions ->
  safe_cell (lostf ff) ff t pos s = true.
Proof.
  intros ff t pos s Hff Hpos.
  pose proof (forallb_In _ _ _ ff safe_tbl_true Hff) as H1. cbv beta in H1.
  pose proof (forallb_In _ _ _ _ H1 (in_res_cells t pos s)) as H. cbv beta iota in H.
  assert (Hp : existsb (fun p => Bool.eqb (is_n_term p) (is_n_term pos) && Bool.eqb (is_c_term p) (is_c_term pos)) proper_positions = true).
  { cbn in Hpos. repeat (destruct Hpos as [Hpos | Hpos]; [subst pos; reflexivity|]). contradiction. }
  rewrite Hp in H. exact H.
Qed.

(* for residues with pKa values at any pH *)
Corollary never_dropped_at_ph : forall ff (r : tspec) (ph : Q),
  In ff six_ffs -> In (ts_pos r) proper_positions ->
  safe_cell (lostf ff) ff (ts_type r) (ts_pos r) (sides_at ph r) = true.
Proof. intros. apply never_dropped; assumption. Qed.

(* ---- naming: the model's state names are what aa.py set_state produces ----------------- *)

Definition naming_tbl : bool :=
  forallb (fun row => let '(t, pos, ps, name) := row in existsb (String.eqb name) (ffname_after t pos ps))
          Generated.Titration.setstate_tbl.

Theorem naming_matches_code : naming_tbl = true /\ Generated.Titration.setstate_tbl <> [].
Proof. split; [vm_compute; reflexivity | discriminate]. Qed.

(* ---- charge monotonicity ------------------------------------------------------------------ *)

(* [hi] is at least as protonated as [lo], site by site *)
Definition ob_ge (hi lo : option bool) : bool :=
  match hi, lo with
  | None, None => true
  | Some x, Some y => implb y x
  | _, _ => false
  end.

Definition sides_ge (hi lo : sides) : bool :=
  ob_ge (s_n hi) (s_n lo) && ob_ge (s_c hi) (s_c lo) && ob_ge (s_side hi) (s_side lo).

Lemma ob_ge_at : forall (ph1 ph2 : Q) (o : option Q), (ph1 <= ph2)%Q ->
  ob_ge (option_map (below ph1) o) (option_map (below ph2) o) = true.
Proof.
  intros ph1 ph2 [v|] Hle; cbn; [|reflexivity].
  destruct (below ph2 v) eqn:E; [|reflexivity].
  rewrite (below_mono ph1 ph2 v Hle E). reflexivity.
Qed.

Lemma sides_at_mono : forall (ph1 ph2 : Q) (r : tspec), (ph1 <= ph2)%Q ->
  sides_ge (sides_at ph1 r) (sides_at ph2 r) = true.
Proof.
  intros. unfold sides_ge, sides_at. cbn [s_n s_c s_side].
  rewrite !ob_ge_at by assumption. reflexivity.
Qed.

(* table: formal charge of the assigned state is defined and does not grow when
   sites become less protonated - every force field (incl. user), all four positions *)
Lemma formal_mono_tbl_true :
  forallb (fun ff => forallb (fun c => let '(t, (pos, s1)) := c in
     match residue_formal formalf ff t pos s1 with
     | None => false
     | Some q1 =>
         forallb (fun s2 => implb (sides_ge s1 s2)
                    (match residue_formal formalf ff t pos s2 with Some q2 => Z.leb q2 q1 | None => false end))
                 all_sides
     end) res_cells) all_ffs = true.
Proof. vm_compute. reflexivity. Qed.

Lemma formal_defined : forall ff t pos s, residue_formal formalf ff t pos s <> None.
Proof.
  intros ff t pos s.
  pose proof (forallb_In _ _ _ ff formal_mono_tbl_true (in_all_ffs ff)) as H1. cbv beta in H1.
  pose proof (forallb_In _ _ _ _ H1 (in_res_cells t pos s)) as H. cbv beta iota in H.
  destruct (residue_formal formalf ff t pos s); [discriminate | discriminate H].
Qed.

Lemma formal_mono_cell : forall ff t pos s1 s2, sides_ge s1 s2 = true ->
  (residue_formalZ formalf ff t pos s2 <= residue_formalZ formalf ff t pos s1)%Z.
Proof.
  intros ff t pos s1 s2 Hge.
  pose proof (forallb_In _ _ _ ff formal_mono_tbl_true (in_all_ffs ff)) as H1. cbv beta in H1.
  pose proof (forallb_In _ _ _ _ H1 (in_res_cells t pos s1)) as H. cbv beta iota in H.
  unfold residue_formalZ.
  destruct (residue_formal formalf ff t pos s1) as [q1|]; [|discriminate H].
  pose proof (forallb_In _ _ _ s2 H (in_all_sides s2)) as H'. cbv beta in H'. clear H. rename H' into H.
  rewrite Hge in H. cbn [implb] in H.
  destruct (residue_formal formalf ff t pos s2) as [q2|]; [|discriminate H].
  apply Z.leb_le. exact H.
Qed.

(* list induction, for any per-residue charge function *)
Lemma total_mono : forall (resq : ffid -> rtype -> position -> sides -> Z) ff (ph1 ph2 : Q) (rs : list tspec),
  (forall r, In r rs ->
     (resq ff (ts_type r) (ts_pos r) (sides_at ph2 r) <= resq ff (ts_type r) (ts_pos r) (sides_at ph1 r))%Z) ->
  (total_charge resq ff ph2 rs <= total_charge resq ff ph1 rs)%Z.
Proof.
  intros resq ff ph1 ph2 rs. induction rs as [|r rs IH]; intros H.
  - cbn. lia.
  - cbn [total_charge fold_right].
    assert (H1 := H r (or_introl eq_refl)).
    assert (H2 : (total_charge resq ff ph2 rs <= total_charge resq ff ph1 rs)%Z).
    { apply IH. intros r' Hr'. apply H. right. exact Hr'. }
    unfold total_charge in H2. lia.
Qed.

(* for ALL residue lists, ALL pKa assignments, every force field and position:
   the total formal charge of the assigned states never increases as pH rises *)
Theorem charge_monotone_formal : forall ff (rs : list tspec) (ph1 ph2 : Q),
  (ph1 <= ph2)%Q ->
  (total_charge (residue_formalZ formalf) ff ph2 rs <= total_charge (residue_formalZ formalf) ff ph1 rs)%Z.
Proof.
  intros ff rs ph1 ph2 Hle. apply total_mono. intros r _.
  apply formal_mono_cell. apply sides_at_mono. exact Hle.
Qed.

(* ---- the EXACT output charge: decide -> state -> C02 state row -> FF_<ff>.built ------------ *)

Definition builtf (ff : ffid) : ffmap :=
  match ff with
  | Amber => FF_AMBER.built | Charmm => FF_CHARMM.built | Parse => FF_PARSE.built
  | Tyl06 => FF_TYL06.built | Peoepb => FF_PEOEPB.built | Swanson => FF_SWANSON.built
  | OtherFF => []
  end.

(* (charge written for the residue, atoms written without parameters) of the
   state the code produces for residue type [t] at [pos] with decided sites [s] *)
Definition cell_out (ff : ffid) (t : rtype) (pos : position) (s : sides) : option (Z * list id) :=
  state_out PV.Generated.States.arows Generated.Titration.never_final (builtf ff) t pos (residue_patches ff t pos s).

Definition exactZ (ff : ffid) (t : rtype) (pos : position) (s : sides) : Z :=
  match cell_out ff t pos s with Some (q, _) => q | None => 0%Z end.

Definition no_sides : sides := mksides None None None.

(* atoms the NEUTRAL-CTERM patch adds (PATCHES.xml, generated): the only atoms a
   one-residue chain can lose in addition to those it loses untitrated *)
Definition cterm_added : list id :=
  flat_map (fun row => let '(n, _, adds, _) := row in if String.eqb n "NEUTRAL-CTERM" then adds else [])
           Generated.Titration.patch_tbl.

(* facts about one (force field, residue type, position) cell, over an arbitrary
   output function [f] of the decided sites (instantiated with [cell_out ff t pos]) *)
Definition sv_of (f : sides -> option (Z * list id)) : list (sides * option (Z * list id)) :=
  map (fun s => (s, f s)) all_sides.

Definition cell_ok (f : sides -> option (Z * list id)) (one_residue : bool) : bool :=
  let sv := sv_of f in
  forallb (fun p1 => match snd p1 with
     | None => false
     | Some (q1, m1) =>
         forallb (fun p2 => match snd p2 with
            | None => false
            | Some (q2, _) => implb (sides_ge (fst p1) (fst p2)) (Z.leb q2 q1)
            end) sv
     end) sv &&
  match f no_sides with
  | None => false
  | Some (_, md) =>
      forallb (fun p => match snd p with
         | None => false
         | Some (_, mx) => forallb (fun a => mem_id a md || one_residue && mem_id a cterm_added) mx
         end) sv
  end.

Definition is_nc (pos : position) : bool := match pos with PosNC => true | _ => false end.

Lemma cell_ok_spec : forall f one, cell_ok f one = true ->
  (forall s1 s2, exists q1 m1 q2 m2, f s1 = Some (q1, m1) /\ f s2 = Some (q2, m2) /\
                                      (sides_ge s1 s2 = true -> (q2 <= q1)%Z)) /\
  (forall s, exists q0 md q mx, f no_sides = Some (q0, md) /\ f s = Some (q, mx) /\
             forall a, In a mx -> mem_id a md = true \/ (one = true /\ mem_id a cterm_added = true)).
Proof.
  intros f one H. unfold cell_ok in H. cbv zeta in H.
  apply andb_true_iff in H. destruct H as [Ha Hb].
  assert (Hin : forall s, In (s, f s) (sv_of f)).
  { intros s. unfold sv_of. apply (in_map (fun s => (s, f s))). apply in_all_sides. }
  split.
  - intros s1 s2.
    pose proof (forallb_In _ _ _ _ Ha (Hin s1)) as H1. cbv beta in H1. cbn [snd fst] in H1.
    destruct (f s1) as [[q1 m1]|]; [|discriminate H1].
    pose proof (forallb_In _ _ _ _ H1 (Hin s2)) as H2. cbv beta in H2. cbn [snd fst] in H2.
    destruct (f s2) as [[q2 m2]|]; [|discriminate H2].
    exists q1, m1, q2, m2. split; [reflexivity|]. split; [reflexivity|].
    intros Hge. rewrite Hge in H2. cbn [implb] in H2. apply Z.leb_le. exact H2.
  - intros s. destruct (f no_sides) as [[q0 md]|]; [|discriminate Hb].
    pose proof (forallb_In _ _ _ _ Hb (Hin s)) as H1. cbv beta in H1. cbn [snd] in H1.
    destruct (f s) as [[q mx]|]; [|discriminate H1].
    exists q0, md, q, mx. split; [reflexivity|]. split; [reflexivity|].
    intros a Ha'. pose proof (forallb_In _ _ _ a H1 Ha') as H2. cbv beta in H2.
    apply orb_true_iff in H2. destruct H2 as [H2|H2]; [left; exact H2|].
    right. apply andb_true_iff in H2. exact H2.
Qed.

(* table over every force field x residue type x ALL FOUR positions: the output
   is defined for all 27 site combinations, exact charges are ordered like the
   protonation, and titration adds no unparameterised atom (a one-residue chain:
   none but what NEUTRAL-CTERM adds) *)
Lemma out_tbl_true :
  forallb (fun ff => forallb (fun t => forallb (fun pos =>
    cell_ok (cell_out ff t pos) (is_nc pos)) all_positions_) all_rtypes) six_ffs = true.
Proof. vm_compute. reflexivity. Qed.

Lemma out_cell_ok : forall ff t pos, In ff six_ffs -> cell_ok (cell_out ff t pos) (is_nc pos) = true.
Proof.
  intros ff t pos Hff.
  pose proof (forallb_In _ _ _ ff out_tbl_true Hff) as H1. cbv beta in H1.
  pose proof (forallb_In _ _ _ t H1 (in_all_rtypes t)) as H2. cbv beta in H2.
  exact (forallb_In _ _ _ pos H2 (in_all_positions_ pos)).
Qed.

Lemma out_defined : forall ff t pos s, In ff six_ffs -> cell_out ff t pos s <> None.
Proof.
  intros ff t pos s Hff.
  destruct (proj1 (cell_ok_spec _ _ (out_cell_ok ff t pos Hff)) s s) as [q1 [m1 [_ [_ [E _]]]]].
  rewrite E. discriminate.
Qed.

Lemma exact_mono_cell : forall ff t pos s1 s2, In ff six_ffs -> sides_ge s1 s2 = true ->
  (exactZ ff t pos s2 <= exactZ ff t pos s1)%Z.
Proof.
  intros ff t pos s1 s2 Hff Hge.
  destruct (proj1 (cell_ok_spec _ _ (out_cell_ok ff t pos Hff)) s1 s2) as [q1 [m1 [q2 [m2 [E1 [E2 Hle]]]]]].
  unfold exactZ. rewrite E1, E2. apply Hle. exact Hge.
Qed.

(* FULL output statement: ALL residue lists (all four positions, one-residue
   chains included), ALL pKa assignments, pH1 <= pH2, six force fields: the sum of
   the exact force-field charges written for the states the code produces never
   increases *)
Theorem charge_monotone_output : forall ff (rs : list tspec) (ph1 ph2 : Q),
  In ff six_ffs -> (ph1 <= ph2)%Q ->
  (total_charge exactZ ff ph2 rs <= total_charge exactZ ff ph1 rs)%Z.
Proof.
  intros ff rs ph1 ph2 Hff Hle. apply total_mono. intros r _.
  apply exact_mono_cell; [exact Hff|]. apply sides_at_mono. exact Hle.
Qed.

Lemma mem_id_In : forall a l, mem_id a l = true -> In a l.
Proof.
  intros a l H. unfold mem_id in H. apply existsb_exists in H. destruct H as [x [Hx He]].
  apply Pos.eqb_eq in He. subst x. exact Hx.
Qed.

(* titration never makes an atom unparameterised: every atom the decided state
   is written without is one the untitrated residue is written without too, or -
   in a one-residue chain, whose N* name cannot carry a neutral C-terminus - one
   of the atoms NEUTRAL-CTERM adds *)
Theorem decided_state_parameterised : forall ff t pos s, In ff six_ffs ->
  exists q0 md q mx,
    cell_out ff t pos no_sides = Some (q0, md) /\ cell_out ff t pos s = Some (q, mx) /\
    forall a, In a mx -> In a md \/ (pos = PosNC /\ In a cterm_added).
Proof.
  intros ff t pos s Hff.
  destruct (proj2 (cell_ok_spec _ _ (out_cell_ok ff t pos Hff)) s) as [q0 [md [q [mx [E0 [E Hin]]]]]].
  exists q0, md, q, mx. split; [exact E0|]. split; [exact E|].
  intros a Ha. destruct (Hin a Ha) as [H|[Hp Hc]].
  - left. apply mem_id_In. exact H.
  - right. split; [destruct pos; try discriminate Hp; reflexivity | apply mem_id_In; exact Hc].
Qed.

(* at the three ordinary positions: a fully parameterised untitrated residue
   stays fully parameterised in every state titration can give it *)
Corollary decided_state_fully_parameterised : forall ff t pos s q0, In ff six_ffs -> In pos proper_positions ->
  cell_out ff t pos no_sides = Some (q0, []) ->
  exists q, cell_out ff t pos s = Some (q, []).
Proof.
  intros ff t pos s q0 Hff Hpos H0.
  destruct (decided_state_parameterised ff t pos s Hff) as [q0' [md [q [mx [E0 [E Hin]]]]]].
  rewrite H0 in E0. inversion E0; subst. exists q. rewrite E. f_equal. f_equal.
  destruct mx as [|a mx']; [reflexivity|]. exfalso.
  destruct (Hin a (or_introl eq_refl)) as [[]|[Hp _]]. subst pos. cbn in Hpos. intuition discriminate.
Qed.

(* composition with C02: a state row alternative that is written completely
   carries EXACTLY the formal charge of the state (C02 state_exact), except the
   states C02 lists as findings (PARSE: NEUTRAL-CPRO) *)
Lemma assigned_resolve : forall m res atoms q, assigned m res atoms = (q, []) ->
  PV.Model.States.resolve m res atoms = Some q.
Proof.
  intros m res atoms. induction atoms as [|a rest IH]; intros q H.
  - cbn in H. inversion H. reflexivity.
  - cbn [assigned] in H. destruct (assigned m res rest) as [q' miss] eqn:E.
    cbn [PV.Model.States.resolve].
    destruct (lookup m res a) as [e|]; [|inversion H].
    inversion H; subst. rewrite (IH q' eq_refl). reflexivity.
Qed.

Lemma real_alts_incl : forall nf r alt, In alt (real_alts nf r) -> In alt (PV.Model.States.ar_alts r).
Proof.
  intros nf r alt H. unfold real_alts in H.
  destruct (filter _ (PV.Model.States.ar_alts r)) as [|x l] eqn:E; [exact H|].
  rewrite <- E in H. apply filter_In in H. exact (proj1 H).
Qed.

Definition exc_keys (ff : ffid) : list nat :=
  match ff with
  | Amber => StatesFF_AMBER.known_exceptions | Charmm => StatesFF_CHARMM.known_exceptions
  | Parse => StatesFF_PARSE.known_exceptions | Tyl06 => StatesFF_TYL06.known_exceptions
  | Peoepb => StatesFF_PEOEPB.known_exceptions | Swanson => StatesFF_SWANSON.known_exceptions
  | OtherFF => []
  end.

(* C02's exactness check (Generated/StatesFF_<ff>.state_exact, the same boolean
   function over the same tables) for the six maps at once; evaluated here by
   vm_compute so that no conversion has to unfold the force-field maps lazily *)
Lemma state_exact_six :
  forallb (fun ff => PV.Model.States.check_arows 0 (builtf ff) (exc_keys ff) PV.Generated.States.arows) six_ffs = true.
Proof. vm_compute. reflexivity. Qed.

Lemma state_exact_ff : forall ff, In ff six_ffs ->
  PV.Model.States.check_arows 0 (builtf ff) (exc_keys ff) PV.Generated.States.arows = true.
Proof. intros ff H. exact (forallb_In _ _ _ ff state_exact_six H). Qed.

Lemma output_is_formal_gen : forall (rows : list PV.Model.States.arow) nf m exc,
  PV.Model.States.check_arows 0 m exc rows = true ->
  forall t pos ps r alt q,
  In r (rows_for rows t pos ps) -> In alt (real_alts nf r) ->
  ~ In (PV.Model.States.ar_key r) exc ->
  assigned m (PV.Model.States.ar_ff r) alt = (q, []) ->
  q = (PV.Model.States.ar_formal r * PV.Model.States.SCALE)%Z.
Proof.
  intros rows nf m exc Hchk t pos ps r alt q Hr Halt Hexc Hq.
  unfold rows_for in Hr. apply filter_In in Hr. destruct Hr as [Hr _].
  pose proof (PV.Proofs.States.state_charge_sound 0 m exc rows Hchk r Hr Hexc
                alt q (real_alts_incl _ _ _ Halt) (assigned_resolve _ _ _ _ Hq)) as H.
  lia.
Qed.

Theorem output_is_formal : forall ff t pos ps r alt q, In ff six_ffs ->
  In r (rows_for PV.Generated.States.arows t pos ps) ->
  In alt (real_alts Generated.Titration.never_final r) ->
  ~ In (PV.Model.States.ar_key r) (exc_keys ff) ->
  assigned (builtf ff) (PV.Model.States.ar_ff r) alt = (q, []) ->
  q = (PV.Model.States.ar_formal r * PV.Model.States.SCALE)%Z.
Proof.
  intros ff t pos ps r alt q Hff.
  exact (output_is_formal_gen PV.Generated.States.arows Generated.Titration.never_final (builtf ff) (exc_keys ff)
           (state_exact_ff ff Hff) t pos ps r alt q).
Qed.

(* the C02 rows selected for a cell carry the very state name(s) this model's
   naming (tied to aa.py by naming_matches_code) gives the cell *)
Lemma rows_match_names_tbl :
  forallb (fun ff => forallb (fun c => let '(t, (pos, s)) := c in
     forallb (fun r => existsb (fun n => match name_id Generated.Titration.name_ids n with
                                         | Some i => Pos.eqb i (PV.Model.States.ar_ff r)
                                         | None => false
                                         end) (residue_names ff t pos s))
             (rows_for PV.Generated.States.arows t pos (residue_patches ff t pos s)))
     res_cells) all_ffs = true.
Proof. vm_compute. reflexivity. Qed.

Theorem rows_match_names : forall ff t pos s r,
  In r (rows_for PV.Generated.States.arows t pos (residue_patches ff t pos s)) ->
  exists n, In n (residue_names ff t pos s) /\
            name_id Generated.Titration.name_ids n = Some (PV.Model.States.ar_ff r).
Proof.
  intros ff t pos s r Hr.
  pose proof (forallb_In _ _ _ ff rows_match_names_tbl (in_all_ffs ff)) as H1. cbv beta in H1.
  pose proof (forallb_In _ _ _ _ H1 (in_res_cells t pos s)) as H2. cbv beta iota in H2.
  pose proof (forallb_In _ _ _ r H2 Hr) as H3. cbv beta in H3.
  apply existsb_exists in H3. destruct H3 as [n [Hn Hi]]. exists n. split; [exact Hn|].
  destruct (name_id Generated.Titration.name_ids n) as [i|]; [|discriminate Hi].
  apply Pos.eqb_eq in Hi. subst i. reflexivity.
Qed.

(* what the code does with a one-residue chain, as it is: the residue is named
   N* only, so OXT (and HO under NEUTRAL-CTERM) are written without parameters
   and the chain carries the charge of its N-terminal state alone *)
Example one_residue_chain_as_is :
  (exists oxt, cell_out Amber ALA PosNC no_sides = Some (100000000%Z, [oxt])) /\
  (exists ho oxt, cell_out Parse ALA PosNC (mksides None (Some true) None) = Some (100000000%Z, [ho; oxt])) /\
  cell_out Parse ALA PosNC (mksides (Some false) None None) <> cell_out Parse ALA PosNC no_sides /\
  cell_out Amber CYS PosMid (mksides None None (Some false)) = Some ((-100000000)%Z, []) /\
  cell_out Amber ALA PosC no_sides = Some ((-100000000)%Z, []).
Proof.
  split; [eexists; vm_compute; reflexivity|]. split; [do 2 eexists; vm_compute; reflexivity|].
  split; [vm_compute; discriminate|]. split; vm_compute; reflexivity.
Qed.

(* regression (was the F10 refutation witness): C-terminal CYS in amber, pH 7 -> 10 *)
Example charge_monotone_output_former_witness :
  (total_charge exactZ Amber (10 # 1)%Q [mktspec CYS PosC None None (Some (8 # 1)%Q)]
   <= total_charge exactZ Amber (7 # 1)%Q [mktspec CYS PosC None None (Some (8 # 1)%Q)])%Z /\
  decide Amber PosC GCYS false = Keep true.
Proof. vm_compute. split; [discriminate | reflexivity]. Qed.

(* ---- keys: decisions are per residue only when keys are unique ----------------------------- *)

Lemma sget_sdel_other : forall d k k', k <> k' -> sget (sdel d k) k' = sget d k'.
Proof.
  induction d as [|[k0 v0] d IH]; intros k k' Hne; [reflexivity|].
  cbn [sdel sget]. destruct (String.eqb k k0) eqn:E.
  - apply String.eqb_eq in E. subst k0.
    destruct (String.eqb k' k) eqn:E'; [|reflexivity].
    apply String.eqb_eq in E'. congruence.
  - cbn [sget]. destruct (String.eqb k' k0); [reflexivity|]. apply IH. exact Hne.
Qed.

Lemma site_result_after_other : forall ff ph d it it',
  i_key it <> i_key it' -> site_result ff ph (site_dict d it) it' = site_result ff ph d it'.
Proof.
  intros ff ph d it it' Hne. unfold site_result, site_dict.
  destruct (sget d (i_key it)); [|reflexivity].
  rewrite sget_sdel_other by exact Hne. reflexivity.
Qed.

(* with pairwise distinct keys every site sees the value the ORIGINAL dict holds
   for its key: the decision for a residue does not depend on the other residues *)
Theorem run_items_independent : forall ff ph its d,
  NoDup (map i_key its) ->
  fst (run_items ff ph d its) = map (site_result ff ph d) its.
Proof.
  intros ff ph its. induction its as [|it rest IH]; intros d Hnd; [reflexivity|].
  cbn [run_items map]. inversion Hnd as [|k ks Hnotin Hnd']; subst.
  specialize (IH (site_dict d it) Hnd').
  destruct (run_items ff ph (site_dict d it) rest) as [rs d'] eqn:E.
  cbn [fst] in *. rewrite IH. f_equal.
  apply map_ext_in. intros it' Hin.
  apply site_result_after_other. intros Heq. apply Hnotin. rewrite Heq. apply in_map. exact Hin.
Qed.

Theorem apply_pka_independent : forall ff ph d rs,
  NoDup (map i_key (flat_map items_of rs)) ->
  fst (apply_pka_values ff ph d rs) = map (site_result ff ph d) (flat_map items_of rs).
Proof. intros. unfold apply_pka_values. apply run_items_independent. assumption. Qed.

Local Open Scope string_scope.

(* two residues that differ only in insertion code share the key: the first
   consumes it, the second is not titrated although the table has its pKa *)
Theorem key_collision_refuted :
  exists ff ph d (r1 r2 : residue),
    key_side r1 = key_side r2 /\
    fst (apply_pka_values ff ph d [r1; r2]) <> map (site_result ff ph d) (flat_map items_of [r1; r2]).
Proof.
  exists Parse, (7 # 1)%Q, [("ASP 10 A", (9 # 1)%Q)],
         (mkres true "ASP" 10 "A" false false), (mkres true "ASP" 10 "A" false false).
  split; [reflexivity|]. vm_compute. discriminate.
Qed.

(* ---- the dict key main.py builds for a row IS the key apply_pka_values looks up ---------------- *)

Lemma is_empty_app_r : forall a t : string, t <> EmptyString -> is_empty (a ++ t) = false.
Proof. intros a t Ht. destruct a; cbn; [destruct t; [contradiction|reflexivity] | reflexivity]. Qed.

Lemma rstrip_app_keep : forall a t : string, rstrip t = t -> t <> EmptyString -> rstrip (a ++ t) = (a ++ t)%string.
Proof.
  intros a t Ht Hne. induction a as [|c a IH]; [exact Ht|].
  cbn [append rstrip]. rewrite IH. rewrite (is_empty_app_r a t Hne). rewrite andb_false_r. reflexivity.
Qed.

(* for ALL integers (negative, zero, any number of digits) and all residue names /
   chain ids without outer whitespace: main.py's unstripped dict key equals the
   stripped key apply_pka_values computes for that residue *)
Theorem row_key_is_lookup_key : forall (name chain label : string) (num : Z) (pka : Q) (am nt ct : bool),
  lstrip name = name -> name <> EmptyString -> rstrip chain = chain -> chain <> EmptyString ->
  row_key (mkpkarow name num chain label pka) = key_side (mkres am name num chain nt ct).
Proof.
  intros name chain label num pka am nt ct Hn Hne Hc Hce.
  unfold row_key, key_side, strip. cbn [row_resname row_resnum row_chain r_name r_seq r_chain].
  assert (Hl : lstrip (name ++ " " ++ Z_to_string num ++ " " ++ chain) = (name ++ " " ++ Z_to_string num ++ " " ++ chain)%string).
  { destruct name as [|c n]; [contradiction|]. cbn [append lstrip] in *.
    destruct (is_ws c) eqn:E; [|reflexivity].
    (* lstrip (String c n) = String c n with is_ws c = true is impossible: the result is shorter *)
    exfalso. clear - Hn E.
    assert (Hlen : forall s, (String.length (lstrip s) <= String.length s)%nat).
    { induction s as [|x s IHs]; cbn; [lia|]. destruct (is_ws x); cbn; lia. }
    pose proof (Hlen n) as H. rewrite Hn in H. cbn in H. lia. }
  rewrite Hl.
  replace (name ++ " " ++ Z_to_string num ++ " " ++ chain)%string
     with ((name ++ " " ++ Z_to_string num ++ " ") ++ chain)%string
     by (rewrite !app_assoc_s; reflexivity).
  symmetry. apply rstrip_app_keep; assumption.
Qed.

(* hence a side-chain row of a residue is found at that residue's site, whatever its number *)
Theorem row_reaches_site : forall (name chain label : string) (num : Z) (pka : Q) (am nt ct : bool),
  lstrip name = name -> name <> EmptyString -> rstrip chain = chain -> chain <> EmptyString ->
  prefix_of name label = true ->
  sget (dict_of_rows [mkpkarow name num chain label pka]) (key_side (mkres am name num chain nt ct)) = Some pka.
Proof.
  intros name chain label num pka am nt ct Hn Hne Hc Hce Hp.
  rewrite <- (row_key_is_lookup_key name chain label num pka am nt ct Hn Hne Hc Hce).
  unfold dict_of_rows. cbn [fold_left row_resname row_label]. rewrite Hp. cbn [sset sget].
  rewrite String.eqb_refl. reflexivity.
Qed.

Example row_reaches_site_nonvacuous :
  sget (dict_of_rows [mkpkarow "ASP" 1005 "A" (propka_label "ASP" 1005 "A") (39 # 10)%Q])
       (key_side (mkres true "ASP" 1005 "A" false false)) = Some (39 # 10)%Q /\
  propka_label "ASP" 1005 "A" = "ASP1005 A" /\
  key_side (mkres true "ASP" (-12) "A" false false) = "ASP -12 A".
Proof. vm_compute. repeat split; reflexivity. Qed.

(* ---- the pH that decides is the requested pH ---------------------------------------------------- *)

Theorem requested_ph_decides : forall ff (ph : Q) rows rs,
  run_titration ff ph rows rs = pipeline ff ph rows rs.
Proof. reflexivity. Qed.

(* with decide_spec: the side of the comparison is taken at the requested value itself,
   so two requests on different sides of a pKa, however close, are decided differently *)
Example requested_ph_full_resolution :
  let row := mkpkarow "ASP" 2 "A" (propka_label "ASP" 2 "A") (38 # 10)%Q in
  let r := mkres true "ASP" 2 "A" false false in
  fst (run_titration Parse (3796 # 1000)%Q [row] [r]) = [Decided GASP (Patch P_ASH)] /\
  fst (run_titration Parse (3799999 # 1000000)%Q [row] [r]) = [Decided GASP (Patch P_ASH)] /\
  fst (run_titration Parse (38 # 10)%Q [row] [r]) = [Decided GASP (Keep false)].
Proof. vm_compute. repeat split; reflexivity. Qed.

(* ---- main.py: terminus rows never reach apply_pka_values --------------------------------------- *)

Lemma dict_of_rows_acc : forall rows acc,
  Forall (fun r => prefix_of (row_resname r) (row_label r) = false) rows ->
  fold_left (fun d r => if prefix_of (row_resname r) (row_label r) then sset d (row_key r) (row_pka r) else d)
            rows acc = acc.
Proof.
  induction rows as [|r rows IH]; intros acc H; [reflexivity|].
  inversion H as [|r' rows' Hr Hrest]; subst. cbn [fold_left]. rewrite Hr. apply IH. exact Hrest.
Qed.

(* rows whose label does not start with the residue name (PROPKA labels the
   termini "N+" / "C-") are filtered out before titration *)
Theorem rows_filtered : forall rows,
  Forall (fun r => prefix_of (row_resname r) (row_label r) = false) rows ->
  dict_of_rows rows = [].
Proof. intros. unfold dict_of_rows. apply dict_of_rows_acc. assumption. Qed.

(* "a terminus is titrated from its pKa row" is refuted for the pipeline: PARSE
   supports the neutral N-terminus and decide would apply it, but the N+ row
   is dropped and the N+ site finds no key (finding F11) *)
Theorem pipeline_terminus_refuted :
  exists (t : rtype) (ph pka : Q) (r : residue) (row : pkarow),
    row_label row = propka_label "N+" (r_seq r) (r_chain r) /\
    r_nterm r = true /\ r_name r = rtype_name t /\
    target_supported (lostf Parse) t PosN GNplus (below ph pka) = true /\
    decide Parse PosN GNplus (below ph pka) = Patch P_NEUTRAL_NTERM /\
    fst (pipeline Parse ph [row] [r]) = [Absent; Absent].
Proof.
  exists ALA, (12 # 1)%Q, (8 # 1)%Q, (mkres true "ALA" 1 "A" true false),
         (mkpkarow "ALA" 1 "A" (propka_label "N+" 1 "A") (8 # 1)%Q).
  repeat split; vm_compute; reflexivity.
Qed.

(* a side-chain row of the same residue does reach its site *)
Example pipeline_side_row_reaches :
  fst (pipeline Parse (12 # 1)%Q [mkpkarow "LYS" 7 "A" (propka_label "LYS" 7 "A") (10 # 1)%Q]
                [mkres true "LYS" 7 "A" false false]) = [Decided GLYS (Patch P_LYN)].
Proof. vm_compute. reflexivity. Qed.

(* ---- non-vacuity ---------------------------------------------------------------------------------- *)

Example nonvacuous :
  (* a guarded-in cell where a patch is applied and supported, one where the
     guard keeps the default with a warning, and residue charges that really move *)
  target_supported (lostf Parse) CYS PosN GCYS false = true /\ decide Parse PosN GCYS false = Patch P_CYM /\
  target_supported (lostf Charmm) CYS PosMid GCYS false = false /\ decide Charmm PosMid GCYS false = Keep true /\
  residue_formal formalf Parse CYS PosN (mksides None None (Some false)) = Some 0%Z /\
  residue_formal formalf Parse CYS PosN (mksides None None (Some true)) = Some 1%Z /\
  safe_cell (lostf Parse) Parse CYS PosN (mksides None None (Some false)) = true /\
  (* the repaired guards: kept at the terminus, applied in the middle of the chain *)
  decide Amber PosN GCYS false = Keep true /\ decide Amber PosMid GCYS false = Patch P_CYM.
Proof. vm_compute. repeat split; reflexivity. Qed.
