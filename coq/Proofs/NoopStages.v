(* C04, third sentence ("with --clean, --assign-only, or --nodebump together with --noopt, no input heavy
   atom moves"): an obligation on the stage table that gen/stages.py translates from pdb2pqr/main.py
   (Generated/Stages.v, shared with C09/C12).  Definitions only.

   What the table can say: [sd_reads] of a stage are the options its effect may depend on, INCLUDING the
   tests of the enclosing `if`s (control dependence).  The obligation: every stage that calls
   Debump.debump_biomolecule is controlled by args.debump and, besides it, by nothing but assign_only and
   clean (the two options transform_arguments derives debump/opt from); the stages that set up the full
   hydrogen-bond optimisation (the only place Flip objects are created) likewise by args.opt; and no stage
   other than transform_arguments writes debump or opt.  It does not express the polarity of the test
   (`if args.debump` vs `if not args.debump`): that is observed at run time (no debumping pass with
   args.debump false, over random points of the option lattice). *)
From Coq Require Import String List Bool Arith.
From PV Require Import Model.Pipeline.
Import ListNotations.
Local Open Scope string_scope.

Definition subset (a b : list string) : bool := forallb (fun x => mem x b) a.

Definition guarded_by (o : string) (d : sdesc) : bool :=
  mem o (sd_reads d) && subset (sd_reads d) [o; "assign_only"; "clean"].

Definition full_opt_stages : list string :=
  ["initialize_full_optimization"; "set_optimizeable_hydrogens"; "hold_residues"].

Definition count_named (n : string) (ds : list sdesc) : nat :=
  List.length (filter (fun d => String.eqb (sd_name d) n) ds).

Definition noop_obligation (ds : list sdesc) : bool :=
  forallb (fun d => negb (String.eqb (sd_name d) "debump_biomolecule") || guarded_by "debump" d) ds
  && Nat.leb 2 (count_named "debump_biomolecule" ds)
  && forallb (fun d => negb (mem (sd_name d) full_opt_stages) || guarded_by "opt" d) ds
  && Nat.leb 1 (count_named "initialize_full_optimization" ds)
  && forallb (fun d => forallb (fun w => negb (mem (fst w) ["debump"; "opt"])
                                        || (String.eqb (sd_name d) "transform_arguments"
                                            && subset (snd w) ["assign_only"; "clean"]))
                               (sd_writes d)) ds.
