(* C04 - input coordinates are preserved; only rigid side-chain rotations move
   atoms. Property theorems only; proofs in Proofs/Moves.v, generated table in
   Generated/MovesTable.v (regenerated from /repo's topology on every run). *)
From Coq Require Import List PArith Bool String Arith.
From Coq Require Import Reals ZArith.
From PV Require Import Model.ForceField Model.Topology Model.Moves Proofs.Moves.
From PV Require Import Model.Quatfit Model.Debump Proofs.Debump Proofs.DebumpTable.
From PV Require Import Model.Flip Proofs.Quatfit Proofs.Flip Proofs.FlipR.
From PV Require Import Generated.Topology Generated.MovesTable Generated.FlipTable.
From PV Require Proofs.NoopStages Generated.Stages.
Import ListNotations.

(* For ALL bond graphs, ALL moved sets M meeting the (boolean, checkable)
   conditions and ANY motion Rt that preserves distances and fixes the two axis
   atoms: every bond length among the atoms of interest is preserved ... *)
Theorem C04_bond_preserved :
  forall (P D : Type) (dist : P -> P -> D) (Rt : P -> P),
  (forall x y, dist (Rt x) (Rt y) = dist x y) ->
  forall (keep : id -> bool) (g : graph) (b c : id) (M : list id) (pos : id -> P),
  Rt (pos b) = pos b -> Rt (pos c) = pos c -> rigid_ok keep g b c M = true ->
  forall u v, In u (nodes g) -> In v (nbrs g u) -> keep u = true -> keep v = true ->
  dist (pos' P Rt M pos u) (pos' P Rt M pos v) = dist (pos u) (pos v).
Proof. exact bond_preserved. Qed.

(* ... and every bond angle u - v - w (the third side of each bonded triangle) *)
Theorem C04_angle_preserved :
  forall (P D : Type) (dist : P -> P -> D) (Rt : P -> P),
  (forall x y, dist (Rt x) (Rt y) = dist x y) ->
  forall (keep : id -> bool) (g : graph) (b c : id) (M : list id) (pos : id -> P),
  Rt (pos b) = pos b -> Rt (pos c) = pos c -> rigid_ok keep g b c M = true ->
  forall u v w, In v (nodes g) -> In u (nbrs g v) -> In w (nbrs g v) ->
  keep u = true -> keep v = true -> keep w = true ->
  dist (pos' P Rt M pos u) (pos' P Rt M pos w) = dist (pos u) (pos w).
Proof. exact angle_preserved. Qed.

(* an atom outside the moved set keeps its coordinates exactly *)
Theorem C04_frame :
  forall (P : Type) (Rt : P -> P) (M : list id) (pos : id -> P) a,
  inM M a = false -> pos' P Rt M pos a = pos a.
Proof. exact frame. Qed.

(* generated obligation: for EVERY amino-acid template of the topology
   (including all N-/C-terminal and neutral-terminal variants and named
   protonation states) and EVERY dihedral it defines, under all four terminus
   flag combinations, the set selected by set_reference_distance +
   get_moveable_names meets the rigidity conditions on heavy atoms, contains no
   backbone atom, and leaves both axis atoms in place *)
Theorem C04_heavy_subtree_table : forallb (ok_all_flags keep_heavy) pairs = true.
Proof. vm_compute. reflexivity. Qed.

(* generated obligation (PARTIAL: two other storage orders, not all permutations): for every template
   x dihedral x terminus flags the moved set is the same set when residue.atoms and every bond list
   are stored in reverse order and in alphabetical (id) order instead of template order *)
Theorem C04_moved_set_order_table_partial :
  forallb (fun p => order_insensitive nm (tgraph (fst p)) (let '(_, _, c, _) := snd p in c)) pairs = true.
Proof. vm_compute. reflexivity. Qed.

(* the table is not empty *)
Example C04_nonvacuous : Nat.leb 100 (List.length pairs) = true /\ Nat.leb 20 (List.length aminos) = true.
Proof. vm_compute. split; reflexivity. Qed.

(* what the rank-only selection used before fix a31aee4 did: on C-terminal
   templates a chi1 rotation also selected OXT, which is bonded to the unmoved C *)
Theorem C04_rank_selection_refuted :
  existsb (fun p => negb (ok_pair_by_rank keep_heavy false true p)) pairs = true.
Proof. vm_compute. reflexivity. Qed.

(* ---------------------------------------------------------------------- *)
(* Debump.debump_residue (Model/Debump.v): which dihedral is scanned, which   *)
(* angle is kept and when the search stops are decided by bump scores; the  *)
(* theorems hold for ALL such decisions                                     *)

(* (a) geometry as the oracle - ANY score / conflict / dihedral-measuring functions of the
   coordinates, ANY motion family rotf: the coordinates after debump_residue are the rotations of
   the recorded operation list (each about the middle bond of its dihedral, moving exactly that
   dihedral's moveable set) applied in order to the initial coordinates; nothing else moves *)
Theorem C04_debump_ops_are_rotations :
  forall (A P : Type) (ar : Arith A) (rotf : P -> P -> A -> P -> P) (dihs : list dihedral)
         (score_fn : (id -> P) -> nat -> A) (conf_fn : (id -> P) -> list id) (meas_fn : (id -> P) -> nat -> A)
         (angles : list (option A)) (pos0 : id -> P) (conf : list id),
  let st := snd (debump_residue ar (geo_oracle rotf dihs score_fn conf_fn meas_fn) dihs angles pos0 conf) in
  st_w st = apply_ops rotf dihs (ops_of st) pos0.
Proof. exact @debump_ops_are_rotations. Qed.

(* (b) if every dihedral of the residue meets the graph conditions and each motion is distance
   preserving and fixes its two axis points, then after debump_residue - whatever the scores,
   conflicts and measured angles were - every bond length and every bond angle (1-3 distance)
   among the atoms of interest is what it was *)
Theorem C04_debump_rigid :
  forall (A P D : Type) (ar : Arith A) (dist : P -> P -> D) (rotf : P -> P -> A -> P -> P),
  (forall pb pc d x y, dist (rotf pb pc d x) (rotf pb pc d y) = dist x y) ->
  (forall pb pc d, rotf pb pc d pb = pb) ->
  (forall pb pc d, rotf pb pc d pc = pc) ->
  forall (keep : id -> bool) (g : graph) (dihs : list dihedral),
  (forall d, In d dihs -> rigid_ok keep g (d_b d) (d_c d) (d_mov d) = true) ->
  forall (score_fn : (id -> P) -> nat -> A) (conf_fn : (id -> P) -> list id) (meas_fn : (id -> P) -> nat -> A)
         (angles : list (option A)) (pos0 : id -> P) (conf : list id),
  let pos1 := st_w (snd (debump_residue ar (geo_oracle rotf dihs score_fn conf_fn meas_fn) dihs angles pos0 conf)) in
  (forall u v, In u (nodes g) -> In v (nbrs g u) -> keep u = true -> keep v = true ->
               dist (pos1 u) (pos1 v) = dist (pos0 u) (pos0 v)) /\
  (forall u v w, In v (nodes g) -> In u (nbrs g v) -> In w (nbrs g v) ->
                 keep u = true -> keep v = true -> keep w = true ->
                 dist (pos1 u) (pos1 w) = dist (pos0 u) (pos0 w)).
Proof. exact @debump_rigid. Qed.

(* the same for ANY list of rotation operations (not only those debump_residue produces) *)
Theorem C04_rotation_list_rigid :
  forall (A P D : Type) (dist : P -> P -> D) (rotf : P -> P -> A -> P -> P),
  (forall pb pc d x y, dist (rotf pb pc d x) (rotf pb pc d y) = dist x y) ->
  (forall pb pc d, rotf pb pc d pb = pb) ->
  (forall pb pc d, rotf pb pc d pc = pc) ->
  forall (keep : id -> bool) (g : graph) (dihs : list dihedral),
  (forall d, In d dihs -> rigid_ok keep g (d_b d) (d_c d) (d_mov d) = true) ->
  forall (ops : list (nat * A)) (pos : id -> P) u v,
  In u (nodes g) -> In v (nbrs g u) -> keep u = true -> keep v = true ->
  dist (apply_ops rotf dihs ops pos u) (apply_ops rotf dihs ops pos v) = dist (pos u) (pos v).
Proof. exact apply_ops_bond. Qed.

(* the hypothesis of (b) holds for the dihedral list of EVERY amino-acid template of the topology
   under all terminus flags (heavy atoms), and no moveable set contains a backbone atom *)
Theorem C04_debump_hypothesis_from_table :
  forall (t : tres) (nt ct : bool), In t aminos ->
  forall d, In d (template_dihedrals nm nt ct (tgraph t) (tr_dihedrals t)) ->
  rigid_ok keep_heavy (tgraph t) (d_b d) (d_c d) (d_mov d) = true /\
  existsb (fun a => mem a (nm_backbone nm)) (d_mov d) = false.
Proof. exact (table_gives_debump_hypothesis C04_heavy_subtree_table). Qed.

(* (c) an atom that is in no dihedral's moveable set has exactly its initial coordinates after
   debump_residue (no hypothesis on the motions at all) *)
Theorem C04_debump_backbone_fixed :
  forall (A P : Type) (ar : Arith A) (rotf : P -> P -> A -> P -> P) (dihs : list dihedral)
         (score_fn : (id -> P) -> nat -> A) (conf_fn : (id -> P) -> list id) (meas_fn : (id -> P) -> nat -> A)
         (angles : list (option A)) (pos0 : id -> P) (conf : list id) (a : id),
  (forall d, In d dihs -> mem a (d_mov d) = false) ->
  st_w (snd (debump_residue ar (geo_oracle rotf dihs score_fn conf_fn meas_fn) dihs angles pos0 conf)) a = pos0 a.
Proof. exact debump_backbone_fixed. Qed.

(* (d) for ALL oracles over any world: at most DEBUMP_ANGLE_TEST_COUNT * DEBUMP_ANGLE_STEPS = 720
   set_dihedral_angle calls, one rotation per call, every rotation about an index inside
   residue.dihedrals, and the TypeError/IndexError paths are never taken *)
Theorem C04_debump_terminates_within :
  forall (A : Type) (ar : Arith A) (W : Type) (o : oracle A W) (dihs : list dihedral)
         (angles : list (option A)) (w : W) (conf : list id),
  let st := snd (debump_residue ar o dihs angles w conf) in
  List.length (ops_of st) <= DEBUMP_ANGLE_TEST_COUNT * DEBUMP_ANGLE_STEPS /\
  List.length (calls_of st) = List.length (ops_of st) /\
  st_err st = false /\
  List.length (st_dih st) = List.length angles /\
  Forall (fun op => fst op < List.length angles) (ops_of st).
Proof. exact @debump_terminates_full. Qed.

(* (e) angles over R; hypothesis: the dihedral measured after a rotation is the requested angle
   up to whole turns.  For every dihedral the sum of all rotation angles applied to it equals
   (angle stored at the end) - (angle stored at the start) modulo 360 ... *)
Theorem C04_debump_net_rotation :
  forall (W : Type) (o : oracle R W) (dihs : list dihedral),
  (forall w n req d, cong360 (fst (o_set R W o w n req d)) req) ->
  forall (angles0 : list (option R)) (w : W) (conf : list id),
  net_inv angles0 (snd (debump_residue RArith o dihs angles0 w conf)).
Proof. exact @debump_net_rotation_full. Qed.

(* ... and an attempt that does not return True ends with set_dihedral_angle(anglenum, bestangle):
   the stored angle is bestangle modulo 360, and bestangle is the angle the attempt started from
   unless an improvement was found - a fruitless scan returns to where it started (with
   C04_debump_net_rotation: its rotation angles sum to 0 modulo 360) *)
Theorem C04_debump_attempt_ends_at_bestangle :
  forall (W : Type) (o : oracle R W),
  (forall w n req d, cong360 (fst (o_set R W o w n req d)) req) ->
  forall (st : dstate R W) (n : nat) (orig : R) (st' : dstate R W) (ba : R) (fd : bool) (cn : list id),
  nth_error (st_dih st) n = Some (Some orig) ->
  attempt RArith o st n = AttNext st' ba fd cn ->
  hd_error (st_calls st') = Some (n, ba) /\
  (exists m, nth_error (st_dih st') n = Some (Some m) /\ cong360 m ba) /\
  (fd = false -> ba = orig).
Proof. exact @attempt_ends_at_bestangle. Qed.

(* non-vacuity: a residue with two dihedrals meeting the graph conditions, an answer sequence
   with a fruitless attempt (72 calls, back at the start), an accepted one and a final attempt
   that returns True; an oracle meeting the hypothesis of (e) *)
Example C04_debump_nonvacuous :
  forallb (fun d => rigid_ok (fun _ => true) ex_graph (d_b d) (d_c d) (d_mov d)) ex_dihs = true /\
  (let '(r, st) := debump_residue ZAr (script_oracle 0%Z) ex_dihs ex_angles ex_script [6%positive] in
   r = true /\ st_err st = false /\ sc_under (st_w st) = false /\
   sc_scores (st_w st) = [] /\ sc_confs (st_w st) = [] /\ sc_meas (st_w st) = [] /\
   map fst (ops_of st) = (repeat 1 72 ++ repeat 0 3 ++ [1])%list /\
   nth_error (calls_of st) 71 = Some (1, 175%Z) /\
   nth_error (calls_of st) 74 = Some (0, (-50)%Z) /\
   fold_left Z.add (map snd (firstn 72 (ops_of st))) 0%Z = 0%Z /\
   st_dih st = [Some (-50)%Z; Some 180%Z]) /\
  (forall w n req d, cong360 (fst (o_set R unit (mkoracle R unit (fun w _ => (0%R, w)) (fun w => ([], w)) (fun w _ req _ => (req, w))) w n req d)) req).
Proof. exact debump_nonvacuous. Qed.

(* ---------------------------------------------------------------------- *)
(* the flip path: hydrogens/structures.py Flip (Model/Flip.v)                 *)

(* For ALL residues (atom lists without *FLIP atoms), ALL rotated sets M, ANY motion Rt, and
   EVERY sequence of fix_flip with a FLIP-named atom / fix_flip with a plain-named atom / finalize calls between
   Flip.__init__ and complete(): afterwards the residue is fixed, has no *FLIP atom, and its
   coordinates by name are EITHER exactly the input coordinates OR the input with the WHOLE set M
   moved by Rt - never a mixture.  (Hypothesis: "HO", which the code drops from the copy list of a
   C-terminal residue, is not among the rotated atoms - C04_flip_table shows that.) *)
Theorem C04_flip_all_or_nothing :
  forall (P : Type) (Rt : P -> P) (HO : id) (is_c_term : bool) (M : list id)
         (atoms0 : list (fatom P)) (ops : list fop),
  (forall a, In a atoms0 -> fa_flip a = false) ->
  (is_c_term = false \/ mem HO M = false) ->
  let r := flip_run Rt M (copy_names HO is_c_term M) ops atoms0 in
  snd r = true /\
  (forall a, In a (fst r) -> fa_flip a = false) /\
  ((forall n, coords_of (fst r) n = coords_of atoms0 n) \/
   (forall n, coords_of (fst r) n = moved_coords Rt M atoms0 n)).
Proof. exact flip_all_or_nothing_code. Qed.

(* coordinates over R^3, the motion = Debump.set_dihedral_angle's rotation with cos = -1, sin = 0
   about the b - c bond (non-degenerate), M meeting the graph conditions: in both outcomes every
   bonded pair and every 1-3 pair of kept atoms present in the input has its input distance *)
Theorem C04_flip_rigid :
  forall (keep : id -> bool) (g : graph) (b c : id) (M : list id) (HO : id) (is_c_term : bool)
         (atoms0 : list (fatom Rpt)) (pb pc : Rpt) (ops : list fop),
  (forall a, In a atoms0 -> fa_flip a = false) ->
  (is_c_term = false \/ mem HO M = false) ->
  coords_of atoms0 b = Some pb -> coords_of atoms0 c = Some pc ->
  dot3 RA (psub RA pc pb) (psub RA pc pb) <> 0%R ->
  rigid_ok keep g b c M = true ->
  let final := coords_of (fst (flip_run (rot180 pb pc) M (copy_names HO is_c_term M) ops atoms0)) in
  (forall u v pu pv, In u (nodes g) -> In v (nbrs g u) -> keep u = true -> keep v = true ->
     coords_of atoms0 u = Some pu -> coords_of atoms0 v = Some pv ->
     exists pu' pv', final u = Some pu' /\ final v = Some pv' /\ dist2 pu' pv' = dist2 pu pv) /\
  (forall u v w pu pw, In v (nodes g) -> In u (nbrs g v) -> In w (nbrs g v) ->
     keep u = true -> keep v = true -> keep w = true ->
     coords_of atoms0 u = Some pu -> coords_of atoms0 w = Some pw ->
     exists pu' pw', final u = Some pu' /\ final w = Some pw' /\ dist2 pu' pw' = dist2 pu pw).
Proof. exact flip_rigid_R. Qed.

(* over R the 180-degree rotation about a non-degenerate axis is an involution (flipping twice
   restores every coordinate exactly), preserves distances and fixes both axis atoms.  In binary64
   the code rotates by cos(pi) = -1.0, sin(pi) = 1.2246e-16: the tie measures the round trip *)
Theorem C04_flip_involution :
  forall o a : Rpt, dot3 RA (psub RA a o) (psub RA a o) <> 0%R ->
  (forall p, rot180 o a (rot180 o a p) = p) /\
  (forall p q, dist2 (rot180 o a p) (rot180 o a q) = dist2 p q) /\
  rot180 o a o = o /\ rot180 o a a = a.
Proof. exact rot180_facts. Qed.

(* generated obligation (HYDROGENS.xml through the repo's loader): every template x dihedral that is
   the optangle of a Flip definition meets the rigidity conditions on heavy atoms under all terminus
   flags, its moved set contains no backbone atom and not HO, and every Flip definition has the
   template of its own name among them *)
Theorem C04_flip_table :
  forallb (fun p => ok_all_flags keep_heavy p &&
                    forallb (fun f : bool * bool =>
                               match ranks nm (fst f) (snd f) (tgraph (fst p)) with
                               | Some rk => negb (mem (nm_HO nm) (moveable (tgraph (fst p)) rk (let '(_, _, c, _) := snd p in c)))
                               | None => false
                               end) [(false, false); (true, false); (false, true); (true, true)])
          flip_pairs = true /\
  forallb (fun fd => existsb (fun p => Pos.eqb (tr_name (fst p)) (fst fd) && dih_eqb (snd p) (snd fd)) flip_pairs) flip_defs = true /\
  Nat.leb 3 (List.length flip_defs) = true.
Proof. vm_compute. repeat split; reflexivity. Qed.

(* non-vacuity: an ASN-like residue on the integer lattice, motion = rotation by 180 degrees about
   the z axis through CB and CG; both outcomes occur, and flipping twice gives the input back *)
Example C04_flip_nonvacuous :
  rigid_ok (fun _ => true) fx_graph 4%positive 5%positive fx_M = true /\
  (forall p q, zdist (zrot p) (zrot q) = zdist p q) /\
  zrot (0, 0, 0)%Z = (0, 0, 0)%Z /\ zrot (0, 0, 2)%Z = (0, 0, 2)%Z /\
  flip_run zrot fx_M fx_M [] fx_atoms
    = (firstn 5 fx_atoms ++ [mkfatom 6%positive false (2, 0, 3)%Z; mkfatom 7%positive false (-2, 1, 3)%Z], true)%list /\
  flip_run zrot fx_M fx_M [FixFlip true; FixFlip false; Finalize] fx_atoms = flip_run zrot fx_M fx_M [] fx_atoms /\
  flip_run zrot fx_M fx_M [FixFlip false; FixFlip true] fx_atoms
    = (firstn 5 fx_atoms ++ [mkfatom 6%positive false (-2, 0, 3)%Z; mkfatom 7%positive false (2, -1, 3)%Z], true)%list /\
  map (fun a => (fa_name a, fa_pos a)) (fst (flip_run zrot fx_M fx_M [FixFlip false] (fst (flip_run zrot fx_M fx_M [FixFlip false] fx_atoms))))
    = map (fun a => (fa_name a, fa_pos a)) fx_atoms.
Proof. exact flip_nonvacuous. Qed.

(* generated obligation on the stage table of main.py (gen/stages.py): both debumping passes are controlled
   by args.debump (and otherwise only by assign_only / clean), the set-up of the full optimisation (where
   Flip objects are created) by args.opt, and debump / opt are written only by transform_arguments from
   assign_only and clean.  PARTIAL: dependence of the guards, not their polarity (observed at run time) *)
Theorem C04_noop_stage_table :
  PV.Proofs.NoopStages.noop_obligation PV.Generated.Stages.stages = true.
Proof. vm_compute. reflexivity. Qed.

Print Assumptions C04_bond_preserved.
Print Assumptions C04_angle_preserved.
Print Assumptions C04_frame.
Print Assumptions C04_heavy_subtree_table.
Print Assumptions C04_nonvacuous.
Print Assumptions C04_rank_selection_refuted.
Print Assumptions C04_debump_ops_are_rotations.
Print Assumptions C04_debump_rigid.
Print Assumptions C04_rotation_list_rigid.
Print Assumptions C04_debump_hypothesis_from_table.
Print Assumptions C04_debump_backbone_fixed.
Print Assumptions C04_debump_terminates_within.
Print Assumptions C04_debump_net_rotation.
Print Assumptions C04_debump_attempt_ends_at_bestangle.
Print Assumptions C04_debump_nonvacuous.
Print Assumptions C04_moved_set_order_table_partial.
Print Assumptions C04_flip_all_or_nothing.
Print Assumptions C04_flip_rigid.
Print Assumptions C04_flip_involution.
Print Assumptions C04_flip_table.
Print Assumptions C04_flip_nonvacuous.
Print Assumptions C04_noop_stage_table.
