(* C04 - input coordinates are preserved; only rigid side-chain rotations move
   atoms. Property theorems only; proofs in Proofs/Moves.v, generated table in
   Generated/MovesTable.v (regenerated from /repo's topology on every run). *)
From Coq Require Import List PArith Bool String Arith.
From PV Require Import Model.ForceField Model.Topology Model.Moves Proofs.Moves.
From PV Require Import Generated.Topology Generated.MovesTable.
Import ListNotations.

(* For ALL bond graphs, ALL moved sets M meeting the (boolean, checkable)
   conditions and ANY motion Rt that preserves distances and fixes the two axis
   atoms: every bond length among the atoms of interest is preserved ... *)
Theorem C04_bond_preserved :
  forall (P D : Type) (dist : P -> P -> D) (Rt : P -> P),
  (forall x y, dist (Rt x) (Rt y) = dist x y) ->
  forall (keep : id -> bool) (g : graph) (b c : id) (M : list id) (pos : id -> P),
  Rt (pos b) = pos b -> Rt (pos c) = pos c -> rigid_ok keep g b c M = true ->
  forall u v, In u (nodes g) -> In v (nbrs g u) -> keep u = true -> keep v = true ->
  dist (pos' P Rt M pos u) (pos' P Rt M pos v) = dist (pos u) (pos v).
Proof. exact bond_preserved. Qed.

(* ... and every bond angle u - v - w (the third side of each bonded triangle) *)
Theorem C04_angle_preserved :
  forall (P D : Type) (dist : P -> P -> D) (Rt : P -> P),
  (forall x y, dist (Rt x) (Rt y) = dist x y) ->
  forall (keep : id -> bool) (g : graph) (b c : id) (M : list id) (pos : id -> P),
  Rt (pos b) = pos b -> Rt (pos c) = pos c -> rigid_ok keep g b c M = true ->
  forall u v w, In v (nodes g) -> In u (nbrs g v) -> In w (nbrs g v) ->
  keep u = true -> keep v = true -> keep w = true ->
  dist (pos' P Rt M pos u) (pos' P Rt M pos w) = dist (pos u) (pos w).
Proof. exact angle_preserved. Qed.

(* an atom outside the moved set keeps its coordinates exactly *)
Theorem C04_frame :
  forall (P : Type) (Rt : P -> P) (M : list id) (pos : id -> P) a,
  inM M a = false -> pos' P Rt M pos a = pos a.
Proof. exact frame. Qed.

(* generated obligation: for EVERY amino-acid template of the topology
   (including all N-/C-terminal and neutral-terminal variants and named
   protonation states) and EVERY dihedral it defines, under all four terminus
   flag combinations, the set selected by set_reference_distance +
   get_moveable_names meets the rigidity conditions on heavy atoms, contains no
   backbone atom, and leaves both axis atoms in place *)
Theorem C04_heavy_subtree_table : forallb (ok_all_flags keep_heavy) pairs = true.
Proof. vm_compute. reflexivity. Qed.

(* the table is not empty *)
Example C04_nonvacuous : Nat.leb 100 (List.length pairs) = true /\ Nat.leb 20 (List.length aminos) = true.
Proof. vm_compute. split; reflexivity. Qed.

(* what the rank-only selection used before fix a31aee4 did: on C-terminal
   templates a chi1 rotation also selected OXT, which is bonded to the unmoved C *)
Theorem C04_rank_selection_refuted :
  existsb (fun p => negb (ok_pair_by_rank keep_heavy false true p)) pairs = true.
Proof. vm_compute. reflexivity. Qed.

Print Assumptions C04_bond_preserved.
Print Assumptions C04_angle_preserved.
Print Assumptions C04_frame.
Print Assumptions C04_heavy_subtree_table.
Print Assumptions C04_nonvacuous.
Print Assumptions C04_rank_selection_refuted.
