(* C14 - neighbour search returns every atom within range.
   Property theorems only; proofs are in Proofs/Cells.v. *)
From Coq Require Import ZArith List.
From PV Require Import Model.Cells Proofs.Cells.
Import ListNotations.
Local Open Scope Z_scope.

(* the code's int()-then-floor-division bucket is the cell index of width
   D*size (times size) - for negative, zero, boundary and huge coordinates *)
Theorem C14_key_code_idx : forall size D m,
  0 < size -> 0 < D -> key_code size D m = idx (D * size) m * size.
Proof. exact key_code_idx. Qed.

(* coordinates closer than one cell width fall in the same or adjacent cells *)
Theorem C14_idx_adjacent : forall S m1 m2,
  0 < S -> Z.abs (m1 - m2) < S -> Z.abs (idx S m1 - idx S m2) <= 1.
Proof. exact idx_adjacent. Qed.

(* in any state meeting the invariant, a query followed by distance filtering
   with any cutoff <= cell size equals the brute-force all-pairs answer *)
Theorem C14_query_exact : forall size D, 0 < size -> 0 < D ->
  forall s a b c, Inv size D s -> 0 <= c <= D * size -> registered s a ->
  (In b (filter (within c s a) (get_near_cells size s a)) <->
   registered s b /\ b <> a /\ within c s a b = true).
Proof. exact query_exact. Qed.

(* no atom is reported twice *)
Theorem C14_query_nodup : forall size D, 0 < size ->
  forall s a, Inv size D s -> NoDup (get_near_cells size s a).
Proof. intros size D H. exact (query_nodup size D H). Qed.

(* every disciplined operation keeps the invariant *)
Theorem C14_inv_step : forall size D s o,
  Inv size D s -> disciplined s o -> Inv size D (step size D s o).
Proof. exact inv_step. Qed.

(* hence: after ANY disciplined history of add/remove/move from the empty
   map, for any coordinates, queries equal brute force and have no duplicates *)
Theorem C14_reachable_query_exact : forall size D, 0 < size -> 0 < D ->
  forall p0 ops a b c,
  disciplined_run size D (init p0) ops ->
  0 <= c <= D * size ->
  let s := run size D (init p0) ops in
  registered s a ->
  (In b (filter (within c s a) (get_near_cells size s a)) <->
   registered s b /\ b <> a /\ within c s a b = true) /\
  NoDup (get_near_cells size s a).
Proof. exact reachable_query_exact. Qed.

(* the discipline is necessary: moving a registered atom loses a neighbour.
   Whether pdb2pqr's real histories are disciplined is checked on traces. *)
Theorem C14_undisciplined_miss :
  exists (p0 : nat -> pos) (ops : list op) (a b : nat),
    let s := run 5 1 (init p0) ops in
    cell_of s a <> None /\ cell_of s b <> None /\ b <> a /\
    within 5 s a b = true /\ ~ In b (get_near_cells 5 s a).
Proof. exact undisciplined_miss. Qed.

Example C14_nonvacuous :
  let p0 := fun n : nat => match n with 0%nat => (-3, 0, 7) | 1%nat => (1, -4, 9) | _ => (40, 40, 40) end in
  let ops := [Add 0%nat; Add 1%nat; Add 2%nat; Remove 1%nat; Move 1%nat (1, -2, 9); Add 1%nat] in
  disciplined_run 5 1 (init p0) ops /\
  filter (within 5 (run 5 1 (init p0) ops) 0%nat) (get_near_cells 5 (run 5 1 (init p0) ops) 0%nat) = [1%nat].
Proof. exact nonvacuous. Qed.

Print Assumptions C14_key_code_idx.
Print Assumptions C14_idx_adjacent.
Print Assumptions C14_query_exact.
Print Assumptions C14_query_nodup.
Print Assumptions C14_inv_step.
Print Assumptions C14_reachable_query_exact.
Print Assumptions C14_undisciplined_miss.
Print Assumptions C14_nonvacuous.
