(* C14 - neighbour search returns every atom within range.
   Property theorems only; proofs are in Proofs/Cells.v. *)
From Coq Require Import ZArith List.
From PV Require Import Model.Cells Proofs.Cells Model.CellsUse Proofs.CellsUse Generated.C14Sites.
Import ListNotations.
Local Open Scope Z_scope.

(* the code's int()-then-floor-division bucket is the cell index of width
   D*size (times size) - for negative, zero, boundary and huge coordinates *)
Theorem C14_key_code_idx : forall size D m,
  0 < size -> 0 < D -> key_code size D m = idx (D * size) m * size.
Proof. exact key_code_idx. Qed.

(* coordinates closer than one cell width fall in the same or adjacent cells *)
Theorem C14_idx_adjacent : forall S m1 m2,
  0 < S -> Z.abs (m1 - m2) < S -> Z.abs (idx S m1 - idx S m2) <= 1.
Proof. exact idx_adjacent. Qed.

(* in any state meeting the invariant, a query followed by distance filtering
   with any cutoff <= cell size equals the brute-force all-pairs answer *)
Theorem C14_query_exact : forall size D, 0 < size -> 0 < D ->
  forall s a b c, Inv size D s -> 0 <= c <= D * size -> registered s a ->
  (In b (filter (within c s a) (get_near_cells size s a)) <->
   registered s b /\ b <> a /\ within c s a b = true).
Proof. exact query_exact. Qed.

(* no atom is reported twice *)
Theorem C14_query_nodup : forall size D, 0 < size ->
  forall s a, Inv size D s -> NoDup (get_near_cells size s a).
Proof. intros size D H. exact (query_nodup size D H). Qed.

(* every disciplined operation keeps the invariant *)
Theorem C14_inv_step : forall size D s o,
  Inv size D s -> disciplined s o -> Inv size D (step size D s o).
Proof. exact inv_step. Qed.

(* hence: after ANY disciplined history of add/remove/move from the empty
   map, for any coordinates, queries equal brute force and have no duplicates *)
Theorem C14_reachable_query_exact : forall size D, 0 < size -> 0 < D ->
  forall p0 ops a b c,
  disciplined_run size D (init p0) ops ->
  0 <= c <= D * size ->
  let s := run size D (init p0) ops in
  registered s a ->
  (In b (filter (within c s a) (get_near_cells size s a)) <->
   registered s b /\ b <> a /\ within c s a b = true) /\
  NoDup (get_near_cells size s a).
Proof. exact reachable_query_exact. Qed.

(* the discipline is necessary: moving a registered atom loses a neighbour.
   Whether pdb2pqr's real histories are disciplined is checked on traces. *)
Theorem C14_undisciplined_miss :
  exists (p0 : nat -> pos) (ops : list op) (a b : nat),
    let s := run 5 1 (init p0) ops in
    cell_of s a <> None /\ cell_of s b <> None /\ b <> a /\
    within 5 s a b = true /\ ~ In b (get_near_cells 5 s a).
Proof. exact undisciplined_miss. Qed.

Example C14_nonvacuous :
  let p0 := fun n : nat => match n with 0%nat => (-3, 0, 7) | 1%nat => (1, -4, 9) | _ => (40, 40, 40) end in
  let ops := [Add 0%nat; Add 1%nat; Add 2%nat; Remove 1%nat; Move 1%nat (1, -2, 9); Add 1%nat] in
  disciplined_run 5 1 (init p0) ops /\
  filter (within 5 (run 5 1 (init p0) ops) 0%nat) (get_near_cells 5 (run 5 1 (init p0) ops) 0%nat) = [1%nat].
Proof. exact nonvacuous. Qed.

(* ==== the call-site protocols (Model/CellsUse.v) ============================
   Good size D u  =  object allocation is sane, the cell list is truthful
   about exactly the atoms of the structure (Inv, registered <-> present), and
   it was so at every get_near_cells call logged so far. *)

(* the source has exactly the call-site skeletons the model was written from *)
Theorem C14_sites_table_matches_model : table_eqb sites modelled_sites = true.
Proof. exact sites_table_matches_model. Qed.

(* Cells.assign_cells on a new Cells object, atoms = the atoms of the structure *)
Theorem C14_protocol_assign_cells_disciplined : forall size D, 0 < size -> 0 < D ->
  forall atoms u0, NoDup atoms -> (forall a, In a atoms <-> present u0 a = true) -> alloc u0 ->
  Good size D (assign_cells size D atoms u0).
Proof. exact T_protocol_assign_cells_disciplined. Qed.

(* Debump.set_dihedral_angle, for all atom lists and all new coordinates *)
Theorem C14_protocol_set_dihedral_angle_disciplined : forall size D atoms f u,
  Good size D u -> Good size D (set_dihedral_angle size D atoms f u).
Proof. exact P_set_dihedral. Qed.

(* the whole debump window: any interleaving of set_dihedral_angle calls and
   find_nearby_atoms queries; every query is logged in a truthful state *)
Theorem C14_protocol_debump_window_disciplined : forall size D sc u,
  Good size D u -> Good size D (debump_run size D sc u).
Proof. exact P_debump_run. Qed.

(* remove_cell(a); remove_atom(a) for any list of atoms: Flip.fix_flip,
   Flip.finalize, Alcoholic.__init__, the undo of try_both, the complete() tails,
   Carboxylic.fix / try_acceptor / rename *)
Theorem C14_protocol_remove_delete_disciplined : forall size D dels u,
  Good size D u -> Good size D (remove_delete_all dels u).
Proof. exact P_remove_delete_all. Qed.

(* Flip.__init__ *)
Theorem C14_protocol_flip_init_disciplined : forall size D atoms f news u,
  Good size D u -> Good size D (flip_init size D atoms f news u).
Proof. exact P_flip_init. Qed.

(* Carboxylic.__init__ / try_acceptor / fix / finalize (with its queries) *)
Theorem C14_protocol_carboxylic_disciplined : forall size D u, Good size D u ->
  (forall steps, Good size D (carboxylic_init size D steps u)) /\
  (forall del ren, Good size D (carboxylic_try_acceptor del ren u)) /\
  (forall dels ren, Good size D (carboxylic_fix dels ren u)) /\
  (forall fixed qs dels ren, Good size D (carboxylic_finalize fixed qs dels ren u)).
Proof. exact T_protocol_carboxylic_disciplined. Qed.

(* get_positions_with_two_bonds / get_position_with_three_bonds (as repaired by
   e1a3cf3, C14-F6): registered atoms are rotated twice and then written back to
   their saved coordinates; for ALL rotation results the cell list is truthful
   again afterwards (no query is issued in between) *)
Theorem C14_protocol_get_positions_disciplined : forall size D atom g u,
  Good size D u ->
  Good size D (get_positions_with_two_bonds atom g u) /\
  Good size D (get_position_with_three_bonds atom g u).
Proof. exact T_protocol_get_positions_disciplined. Qed.

(* regression of C14-F6: H2 exactly on a cell boundary is found after the call *)
Example C14_get_positions_regression :
  let u' := get_positions_with_two_bonds 0%nat f6_g f6_u in
  posn (cs u') 2%nat = (50, 0, 0) /\ cell_of (cs u') 2%nat = Some (5, 0, 0) /\
  filter (within 50 (cs u') 3%nat) (get_near_cells 5 (cs u') 3%nat) = [0%nat; 1%nat; 2%nat].
Proof. exact get_positions_regression. Qed.

(* Alcoholic/Water.try_donor and try_acceptor with everything they call in
   optimize.py (the make_ , try_single_alcoholic_ , try_positions_ and
   get_position families), for all oracle answers and every bond count *)
Theorem C14_protocol_try_donor_acceptor_disciplined : forall size D o a u, Good size D u ->
  Good size D (alcoholic_try_donor size D o a u) /\ Good size D (alcoholic_try_acceptor size D o a u) /\
  Good size D (water_try_donor size D o a u) /\ Good size D (water_try_acceptor size D o a u).
Proof. exact T_protocol_try_donor_acceptor_disciplined. Qed.

(* X.try_both: own try_donor, the other object's try_acceptor, undo *)
Theorem C14_protocol_try_both_disciplined : forall size D mine other ok undo u,
  (forall u, Good size D u -> Good size D (mine u)) -> (forall u, Good size D u -> Good size D (other u)) ->
  Good size D u -> Good size D (try_both_undo mine other ok undo u).
Proof. exact P_try_both_undo. Qed.

(* Alcoholic.finalize and Water.finalize (any recursion depth), with the
   get_near_cells / get_closest_atom calls inside their loops *)
Theorem C14_protocol_finalize_disciplined : forall size D u, Good size D u ->
  (forall o atom, Good size D (alcoholic_finalize size D o atom u)) /\
  (forall fuel o atom, Good size D (water_finalize size D fuel o atom u)).
Proof. exact T_protocol_finalize_disciplined. Qed.

(* static half of "the block used for atom a was queried for a": every loop over a
   get_near_cells block iterates it in the statement list where it was queried,
   unconditionally, and the block variable has no other binding (table from the source) *)
Theorem C14_blocks_used_where_queried : forallb (fun r => snd r) query_use = true.
Proof. exact blocks_used_where_queried. Qed.

(* why that matters: a block queried for atom 0 and used for its group mate 1 misses
   atom 2, which is within range of atom 1 and in the block queried for atom 1 *)
Theorem C14_block_reuse_misses :
  Good 5 10 reuse_u /\
  let q := mkQ 0%nat 1%nat (cs reuse_u) (present reuse_u) in
  q_present q 2%nat = true /\ within 50 (q_cs q) (q_used q) 2%nat = true /\
  ~ In 2%nat (get_near_cells 5 (q_cs q) (q_atom q)) /\
  In 2%nat (get_near_cells 5 (q_cs q) (q_used q)).
Proof. exact block_reuse_misses. Qed.

(* ANY sequence of the modelled protocols after assign_cells: every block of
   neighbours is used for the atom it was queried for, and after distance
   filtering around THAT atom it equals brute force over the atoms that were in the
   structure at that moment; so does any query on the final state *)
Theorem C14_histories_of_protocols : forall size D, 0 < size -> 0 < D ->
  forall atoms u0 cl,
  NoDup atoms -> (forall a, In a atoms <-> present u0 a = true) -> alloc u0 ->
  let u := run_calls size D cl (assign_cells size D atoms u0) in
  (forall q, In q (qlog u) -> q_used q = q_atom q) /\
  (forall q, In q (qlog u) -> q_present q (q_used q) = true ->
     forall b c0, 0 <= c0 <= D * size ->
     (In b (filter (within c0 (q_cs q) (q_used q)) (get_near_cells size (q_cs q) (q_atom q))) <->
      q_present q b = true /\ b <> q_used q /\ within c0 (q_cs q) (q_used q) b = true)) /\
  (forall a, present u a = true -> forall b c0, 0 <= c0 <= D * size ->
     (In b (filter (within c0 (cs u) a) (get_near_cells size (cs u) a)) <->
      present u b = true /\ b <> a /\ within c0 (cs u) a b = true)).
Proof. exact histories_of_protocols. Qed.

Example C14_history_nonvacuous :
  let o := mkFin false (42, 5, 0) [0%nat] (fun i m => (42, 5, Z.of_nat i)) (Some (43, 4, 1)) (0, 0, 0) false true false in
  let t := mkTry true (41, -3, 2) [0%nat] (fun i m => (60, 60, Z.of_nat i)) true true (39, 2, -5) (Some (41, -3, 2)) in
  let u0 := mkU (mk (fun _ => []) (fun _ => None)
                    (fun a => match a with 0%nat => (40, 0, 0) | 1%nat => (38, 8, 0) | _ => (-1, 0, 0) end))
                (fun a => Nat.ltb a 3) (fun a => match a with 0%nat => [1%nat] | 1%nat => [0%nat] | _ => [] end) 3 [] in
  let u := run_calls 5 10 [CSetDihedral [1%nat] (fun _ => (38, 9, 1)); CAlcFinalize o 0%nat; CAlcTryAcceptor t 0%nat; CDetect [0%nat]] (assign_cells 5 10 [0%nat; 1%nat; 2%nat] u0) in
  List.length (qlog u) = 19%nat /\ present u 3%nat = true /\ present u 4%nat = true /\
  posn (cs u) 3%nat = (43, 4, 1) /\
  filter (within 50 (cs u) 0%nat) (get_near_cells 5 (cs u) 0%nat) = [2%nat; 4%nat; 1%nat; 3%nat].
Proof. exact history_nonvacuous. Qed.

Print Assumptions C14_key_code_idx.
Print Assumptions C14_idx_adjacent.
Print Assumptions C14_query_exact.
Print Assumptions C14_query_nodup.
Print Assumptions C14_inv_step.
Print Assumptions C14_reachable_query_exact.
Print Assumptions C14_undisciplined_miss.
Print Assumptions C14_nonvacuous.
Print Assumptions C14_sites_table_matches_model.
Print Assumptions C14_protocol_assign_cells_disciplined.
Print Assumptions C14_protocol_set_dihedral_angle_disciplined.
Print Assumptions C14_protocol_debump_window_disciplined.
Print Assumptions C14_protocol_remove_delete_disciplined.
Print Assumptions C14_protocol_flip_init_disciplined.
Print Assumptions C14_protocol_carboxylic_disciplined.
Print Assumptions C14_protocol_try_donor_acceptor_disciplined.
Print Assumptions C14_protocol_try_both_disciplined.
Print Assumptions C14_protocol_finalize_disciplined.
Print Assumptions C14_protocol_get_positions_disciplined.
Print Assumptions C14_get_positions_regression.
Print Assumptions C14_blocks_used_where_queried.
Print Assumptions C14_block_reuse_misses.
Print Assumptions C14_histories_of_protocols.
Print Assumptions C14_history_nonvacuous.
