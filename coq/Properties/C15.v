(* C15 - rigid-body fitting reproduces exact placements; setting a torsion
   leaves the measured torsion at the requested angle and keeps the distances
   to the axis atoms.
   Property theorems only (over the real-number instance RArith of the model
   Model/Quatfit.v); proofs are in Proofs/Quatfit.v.

   Conventions: [rot1 RA m v] is what quatfit.rotmol does to one point (the
   TRANSPOSE of m is applied); [rigid m T X] = T + rotmol(m) X;
   [dist2] = squared distance; [eigen_contract defrel refrel q] = "q is a unit
   vector maximising q^T C q over unit vectors, C = the 4x4 matrix of qtrfit"
   (what jacobi is trusted to deliver; validated per call by the harness). *)
From Coq Require Import Reals List ZArith.
From PV Require Import Model.Quatfit Proofs.Quatfit.
Import ListNotations.
Local Open Scope R_scope.

(* never a mirror image, whatever unit vector the eigen-solver returns:
   U^T U = U U^T = I, det U = 1, dot and cross products are carried along *)
Theorem C15_q2mat_rotation : forall q : quat (A := R), qnorm2 RA q = 1 ->
  proper_rotation (q2mat RA q) /\
  (forall v w, dot3 RA (rot1 RA (q2mat RA q) v) (rot1 RA (q2mat RA q) w) = dot3 RA v w) /\
  (forall v w, rot1 RA (q2mat RA q) (cross3 RA v w)
               = cross3 RA (rot1 RA (q2mat RA q) v) (rot1 RA (q2mat RA q) w)).
Proof. exact q2mat_rotation_full. Qed.

(* q^T C q = sum_i y_i . rotmol(q2mat q) x_i for the exact matrix entries of
   qtrfit and the exact indexing of rotmol (pins the transposition convention) *)
Theorem C15_rayleigh_identity : forall (defs refs : list (pt (A := R))) (q : quat (A := R)),
  rayleigh RA (cmat RA defs refs) q
  = lsum (fun xy => dot3 RA (snd xy) (rot1 RA (q2mat RA q) (fst xy))) (combine defs refs).
Proof. exact rayleigh_identity. Qed.

(* FULL statement: the structure atoms are a rotated (unit quaternion p) and
   translated (T) copy of >= 3 non-collinear template atoms; the eigen-solver
   meets its contract; then the fitted rotation equals that of p on every
   fitted point, and find_coordinates returns exactly T + R(p) atom *)
Theorem C15_fit_exact_image : forall (defs : list (pt (A := R))) (p : quat (A := R)) (T atom : pt (A := R)),
  qnorm2 RA p = 1 -> noncollinear defs ->
  let refs := map (rigid (q2mat RA p) T) defs in
  let defrel := snd (center RA defs) in
  let refrel := snd (center RA refs) in
  eigen_contract defrel refrel (qtrfit_quat RA NROT defrel refrel) ->
  (forall x, In x defrel ->
     rot1 RA (q2mat RA (qtrfit_quat RA NROT defrel refrel)) x = rot1 RA (q2mat RA p) x) /\
  find_coordinates RA (length defs) refs defs atom = Some (rigid (q2mat RA p) T atom).
Proof. exact fit_exact_image. Qed.

(* the contract hypothesis is satisfiable for every exact image (p itself is a
   unit maximiser: Cauchy-Schwarz bound q^T C q <= sum |x_i|^2, attained at p) *)
Theorem C15_eigen_contract_satisfiable : forall (defs : list (pt (A := R))) (p : quat (A := R)) (T : pt (A := R)),
  qnorm2 RA p = 1 -> defs <> [] ->
  eigen_contract (snd (center RA defs)) (snd (center RA (map (rigid (q2mat RA p) T) defs))) p.
Proof. exact eigen_contract_satisfiable. Qed.

(* the placed atom moves with the structure under any further proper rigid motion *)
Theorem C15_fit_equivariant : forall (defs : list (pt (A := R))) (p g : quat (A := R)) (T S atom : pt (A := R)),
  qnorm2 RA p = 1 -> qnorm2 RA g = 1 -> noncollinear defs ->
  let refs := map (rigid (q2mat RA p) T) defs in
  let refs' := map (rigid (q2mat RA g) S) refs in
  let defrel := snd (center RA defs) in
  eigen_contract defrel (snd (center RA refs)) (qtrfit_quat RA NROT defrel (snd (center RA refs))) ->
  eigen_contract defrel (snd (center RA refs')) (qtrfit_quat RA NROT defrel (snd (center RA refs'))) ->
  exists r, find_coordinates RA (length defs) refs defs atom = Some r /\
            find_coordinates RA (length defs) refs' defs atom = Some (rigid (q2mat RA g) S r).
Proof. exact fit_equivariant. Qed.

(* qchichange maps every list element by one map that fixes the axis line
   pointwise (no condition on c, s) *)
Theorem C15_chi_axis_fixed : forall (c s : R) (init : pt (A := R)) (coords : list (pt (A := R))) (t : R),
  dot3 RA init init <> 0 ->
  qchichange RA c s init coords = map (chi_map c s init) coords /\
  chi_map c s init (scale t init) = scale t init /\
  (forall l : pt (A := R), dot3 RA l l = 1 -> rot1 RA (chi_mat RA l c s) (scale t l) = scale t l).
Proof. exact chi_axis_fixed_full. Qed.

(* ... and with c^2 + s^2 = 1 it is a proper rotation: all distances between
   moved points and from a moved point to any point of the axis are kept *)
Theorem C15_chi_isometry : forall (c s : R) (init v w : pt (A := R)) (t : R),
  dot3 RA init init <> 0 -> c * c + s * s = 1 ->
  dist2 (chi_map c s init v) (chi_map c s init w) = dist2 v w /\
  dist2 (chi_map c s init v) (scale t init) = dist2 v (scale t init) /\
  proper_rotation (chi_mat RA (normalize RA init) c s) /\
  chi_map c s init (cross3 RA v w) = cross3 RA (chi_map c s init v) (chi_map c s init w).
Proof. exact chi_isometry_full. Qed.

(* Debump.set_dihedral_angle / Residue.rotate_tetrahedral (origin o = 2nd
   dihedral atom, a = 3rd): distances of a moved atom to both axis atoms, to
   every point of the axis and to every other moved atom are unchanged *)
Theorem C15_set_dihedral_distances : forall (c s : R) (o a p p' : pt (A := R)) (t : R),
  dot3 RA (psub RA a o) (psub RA a o) <> 0 -> c * c + s * s = 1 ->
  dist2 (rotate_about RA c s o a p) o = dist2 p o /\
  dist2 (rotate_about RA c s o a p) a = dist2 p a /\
  dist2 (rotate_about RA c s o a p) (padd RA (scale t (psub RA a o)) o)
    = dist2 p (padd RA (scale t (psub RA a o)) o) /\
  dist2 (rotate_about RA c s o a p) (rotate_about RA c s o a p') = dist2 p p'.
Proof. exact set_dihedral_distances. Qed.

(* torsion addition with the code's sign conventions: cos(phi) = scal,
   sin(phi) = chiral/|p3-p2| as computed by utilities.dihedral (its value is
   sign(chiral)*acos(scal)); after rotating p4 about p2->p3 by (c, s) as
   set_dihedral_angle does, (cos, sin) of the measured torsion are those of
   phi + theta, and (scal, chiral/L) lies on the unit circle *)
Theorem C15_torsion_addition : forall (p1 p2 p3 p4 : pt (A := R)) (c s : R),
  c * c + s * s = 1 ->
  dot3 RA (tors_n1 p1 p2 p3) (tors_n1 p1 p2 p3) <> 0 ->
  dot3 RA (tors_n2 p2 p3 p4) (tors_n2 p2 p3 p4) <> 0 ->
  let p4' := rotate_about RA c s p2 p3 p4 in
  let L := norm3 RA (psub RA p3 p2) in
  let cs := dihedral_sc RA p1 p2 p3 p4 in
  let cs' := dihedral_sc RA p1 p2 p3 p4' in
  fst cs' = c * fst cs - s * (snd cs / L) /\
  snd cs' / L = s * fst cs + c * (snd cs / L) /\
  fst cs * fst cs + (snd cs / L) * (snd cs / L) = 1.
Proof. exact torsion_addition. Qed.

Theorem C15_torsion_addition_angles : forall (p1 p2 p3 p4 : pt (A := R)) (phi theta : R),
  dot3 RA (tors_n1 p1 p2 p3) (tors_n1 p1 p2 p3) <> 0 ->
  dot3 RA (tors_n2 p2 p3 p4) (tors_n2 p2 p3 p4) <> 0 ->
  let L := norm3 RA (psub RA p3 p2) in
  fst (dihedral_sc RA p1 p2 p3 p4) = cos phi ->
  snd (dihedral_sc RA p1 p2 p3 p4) / L = sin phi ->
  let p4' := rotate_about RA (cos theta) (sin theta) p2 p3 p4 in
  fst (dihedral_sc RA p1 p2 p3 p4') = cos (phi + theta) /\
  snd (dihedral_sc RA p1 p2 p3 p4') / L = sin (phi + theta).
Proof. exact torsion_addition_angles. Qed.

(* rebuild_tetrahedral: rotation by +-120 degrees about the bond *)
Theorem C15_tetra_120 : forall (l v : pt (A := R)) (c s : R),
  dot3 RA l l = 1 -> c = - (1 / 2) -> s * s = 3 / 4 ->
  let v' := rot1 RA (chi_mat RA l c s) v in
  let rho2 := dot3 RA v v - dot3 RA l v * dot3 RA l v in
  dot3 RA v' v' = dot3 RA v v /\
  dot3 RA l v' = dot3 RA l v /\
  (forall t, dist2 v' (scale t l) = dist2 v (scale t l)) /\
  dist2 v' v = 3 * rho2.
Proof. exact tetra_120. Qed.

(* non-vacuity: a 4-point template, the 120-degree rotation about (1,1,1) and a
   translation meet every hypothesis of C15_fit_exact_image (a unit maximiser
   exists), the image of (1,2,3) is (12,-17,31); qchichange by the angle with
   cos = 3/5, sin = 4/5 about the z axis takes (1,0,5) to (3/5,4/5,5) *)
Example C15_nonvacuous :
  qnorm2 RA ex_p = 1 /\ noncollinear ex_defs /\
  (exists q, eigen_contract (snd (center RA ex_defs))
               (snd (center RA (map (rigid (q2mat RA ex_p) ex_T) ex_defs))) q) /\
  rigid (q2mat RA ex_p) ex_T (1, 2, 3) = (12, -17, 31) /\
  (let c := 3 / 5 in let s := 4 / 5 in let init : pt (A := R) := (0, 0, 2) in
   c * c + s * s = 1 /\ dot3 RA init init <> 0 /\
   qchichange RA c s init ((1, 0, 5) :: nil) = ((3 / 5, 4 / 5, 5) :: nil)).
Proof. exact fit_nonvacuous. Qed.

Print Assumptions C15_q2mat_rotation.
Print Assumptions C15_rayleigh_identity.
Print Assumptions C15_fit_exact_image.
Print Assumptions C15_eigen_contract_satisfiable.
Print Assumptions C15_fit_equivariant.
Print Assumptions C15_chi_axis_fixed.
Print Assumptions C15_chi_isometry.
Print Assumptions C15_set_dihedral_distances.
Print Assumptions C15_torsion_addition.
Print Assumptions C15_torsion_addition_angles.
Print Assumptions C15_tetra_120.
Print Assumptions C15_nonvacuous.
