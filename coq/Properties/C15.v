(* C15 - rigid-body fitting reproduces exact placements; setting a torsion
   leaves the measured torsion at the requested angle and keeps the distances
   to the axis atoms.
   Property theorems only (over the real-number instance RArith of the model
   Model/Quatfit.v); proofs are in Proofs/Quatfit.v.

   Conventions: [rot1 RA m v] is what quatfit.rotmol does to one point (the
   TRANSPOSE of m is applied); [rigid m T X] = T + rotmol(m) X;
   [dist2] = squared distance; [eigen_contract defrel refrel q] = "q is a unit
   vector maximising q^T C q over unit vectors, C = the 4x4 matrix of qtrfit"
   (what jacobi is trusted to deliver; validated per call by the harness).

   Jacobi layer (theorems C15_jacobi_...): a 4x4 matrix is an index function nat->nat->R of
   which only indices 0..3 matter ([meq] = equal on 0..3 x 0..3, [mmul], [mT],
   [mI]); [wfst st] = amat, vmat are 4x4 lists of lists and dvec has 4 entries;
   [st_sym st] = the symmetric matrix the code maintains: diagonal = dvec,
   off-diagonal = STRICT UPPER triangle of amat (diagonal and lower triangle of
   amat are never read or written by the rotations); [st_V st] = vmat;
   [planeJ c s p q] = identity except J_pp = J_qq = c, J_pq = s, J_qp = -s;
   [A0_of am] = symmetric matrix given by the upper triangle (with diagonal) of
   the argument of jacobi; [offzero st] = all six strict-upper entries are 0;
   [qf A r] = r^T A r, [n2 r] = |r|^2, [mv A r] = A r.
   NOT proved: that the off-diagonal mass reaches the threshold within the 30
   sweeps (convergence), the effect of the non-zero threshold 1e-12 beyond the
   residual identity C15_jacobi_exit_residual, and rounding. *)
From Coq Require Import Reals List ZArith.
From PV Require Import Model.Quatfit Proofs.Quatfit Proofs.QuatfitJacobi Proofs.QuatfitExit.
Import ListNotations.
Local Open Scope R_scope.

(* never a mirror image, whatever unit vector the eigen-solver returns:
   U^T U = U U^T = I, det U = 1, dot and cross products are carried along *)
Theorem C15_q2mat_rotation : forall q : quat (A := R), qnorm2 RA q = 1 ->
  proper_rotation (q2mat RA q) /\
  (forall v w, dot3 RA (rot1 RA (q2mat RA q) v) (rot1 RA (q2mat RA q) w) = dot3 RA v w) /\
  (forall v w, rot1 RA (q2mat RA q) (cross3 RA v w)
               = cross3 RA (rot1 RA (q2mat RA q) v) (rot1 RA (q2mat RA q) w)).
Proof. exact q2mat_rotation_full. Qed.

(* q^T C q = sum_i y_i . rotmol(q2mat q) x_i for the exact matrix entries of
   qtrfit and the exact indexing of rotmol (pins the transposition convention) *)
Theorem C15_rayleigh_identity : forall (defs refs : list (pt (A := R))) (q : quat (A := R)),
  rayleigh RA (cmat RA defs refs) q
  = lsum (fun xy => dot3 RA (snd xy) (rot1 RA (q2mat RA q) (fst xy))) (combine defs refs).
Proof. exact rayleigh_identity. Qed.

(* FULL statement: the structure atoms are a rotated (unit quaternion p) and
   translated (T) copy of >= 3 non-collinear template atoms; the eigen-solver
   meets its contract; then the fitted rotation equals that of p on every
   fitted point, and find_coordinates returns exactly T + R(p) atom *)
Theorem C15_fit_exact_image : forall (defs : list (pt (A := R))) (p : quat (A := R)) (T atom : pt (A := R)),
  qnorm2 RA p = 1 -> noncollinear defs ->
  let refs := map (rigid (q2mat RA p) T) defs in
  let defrel := snd (center RA defs) in
  let refrel := snd (center RA refs) in
  eigen_contract defrel refrel (qtrfit_quat RA NROT defrel refrel) ->
  (forall x, In x defrel ->
     rot1 RA (q2mat RA (qtrfit_quat RA NROT defrel refrel)) x = rot1 RA (q2mat RA p) x) /\
  find_coordinates RA (length defs) refs defs atom = Some (rigid (q2mat RA p) T atom).
Proof. exact fit_exact_image. Qed.

(* the contract hypothesis is satisfiable for every exact image (p itself is a
   unit maximiser: Cauchy-Schwarz bound q^T C q <= sum |x_i|^2, attained at p) *)
Theorem C15_eigen_contract_satisfiable : forall (defs : list (pt (A := R))) (p : quat (A := R)) (T : pt (A := R)),
  qnorm2 RA p = 1 -> defs <> [] ->
  eigen_contract (snd (center RA defs)) (snd (center RA (map (rigid (q2mat RA p) T) defs))) p.
Proof. exact eigen_contract_satisfiable. Qed.

(* the placed atom moves with the structure under any further proper rigid motion *)
Theorem C15_fit_equivariant : forall (defs : list (pt (A := R))) (p g : quat (A := R)) (T S atom : pt (A := R)),
  qnorm2 RA p = 1 -> qnorm2 RA g = 1 -> noncollinear defs ->
  let refs := map (rigid (q2mat RA p) T) defs in
  let refs' := map (rigid (q2mat RA g) S) refs in
  let defrel := snd (center RA defs) in
  eigen_contract defrel (snd (center RA refs)) (qtrfit_quat RA NROT defrel (snd (center RA refs))) ->
  eigen_contract defrel (snd (center RA refs')) (qtrfit_quat RA NROT defrel (snd (center RA refs'))) ->
  exists r, find_coordinates RA (length defs) refs defs atom = Some r /\
            find_coordinates RA (length defs) refs' defs atom = Some (rigid (q2mat RA g) S r).
Proof. exact fit_equivariant. Qed.

(* qchichange maps every list element by one map that fixes the axis line
   pointwise (no condition on c, s) *)
Theorem C15_chi_axis_fixed : forall (c s : R) (init : pt (A := R)) (coords : list (pt (A := R))) (t : R),
  dot3 RA init init <> 0 ->
  qchichange RA c s init coords = map (chi_map c s init) coords /\
  chi_map c s init (scale t init) = scale t init /\
  (forall l : pt (A := R), dot3 RA l l = 1 -> rot1 RA (chi_mat RA l c s) (scale t l) = scale t l).
Proof. exact chi_axis_fixed_full. Qed.

(* ... and with c^2 + s^2 = 1 it is a proper rotation: all distances between
   moved points and from a moved point to any point of the axis are kept *)
Theorem C15_chi_isometry : forall (c s : R) (init v w : pt (A := R)) (t : R),
  dot3 RA init init <> 0 -> c * c + s * s = 1 ->
  dist2 (chi_map c s init v) (chi_map c s init w) = dist2 v w /\
  dist2 (chi_map c s init v) (scale t init) = dist2 v (scale t init) /\
  proper_rotation (chi_mat RA (normalize RA init) c s) /\
  chi_map c s init (cross3 RA v w) = cross3 RA (chi_map c s init v) (chi_map c s init w).
Proof. exact chi_isometry_full. Qed.

(* Debump.set_dihedral_angle / Residue.rotate_tetrahedral (origin o = 2nd
   dihedral atom, a = 3rd): distances of a moved atom to both axis atoms, to
   every point of the axis and to every other moved atom are unchanged *)
Theorem C15_set_dihedral_distances : forall (c s : R) (o a p p' : pt (A := R)) (t : R),
  dot3 RA (psub RA a o) (psub RA a o) <> 0 -> c * c + s * s = 1 ->
  dist2 (rotate_about RA c s o a p) o = dist2 p o /\
  dist2 (rotate_about RA c s o a p) a = dist2 p a /\
  dist2 (rotate_about RA c s o a p) (padd RA (scale t (psub RA a o)) o)
    = dist2 p (padd RA (scale t (psub RA a o)) o) /\
  dist2 (rotate_about RA c s o a p) (rotate_about RA c s o a p') = dist2 p p'.
Proof. exact set_dihedral_distances. Qed.

(* torsion addition with the code's sign conventions: cos(phi) = scal,
   sin(phi) = chiral/|p3-p2| as computed by utilities.dihedral (its value is
   sign(chiral)*acos(scal)); after rotating p4 about p2->p3 by (c, s) as
   set_dihedral_angle does, (cos, sin) of the measured torsion are those of
   phi + theta, and (scal, chiral/L) lies on the unit circle *)
Theorem C15_torsion_addition : forall (p1 p2 p3 p4 : pt (A := R)) (c s : R),
  c * c + s * s = 1 ->
  dot3 RA (tors_n1 p1 p2 p3) (tors_n1 p1 p2 p3) <> 0 ->
  dot3 RA (tors_n2 p2 p3 p4) (tors_n2 p2 p3 p4) <> 0 ->
  let p4' := rotate_about RA c s p2 p3 p4 in
  let L := norm3 RA (psub RA p3 p2) in
  let cs := dihedral_sc RA p1 p2 p3 p4 in
  let cs' := dihedral_sc RA p1 p2 p3 p4' in
  fst cs' = c * fst cs - s * (snd cs / L) /\
  snd cs' / L = s * fst cs + c * (snd cs / L) /\
  fst cs * fst cs + (snd cs / L) * (snd cs / L) = 1.
Proof. exact torsion_addition. Qed.

Theorem C15_torsion_addition_angles : forall (p1 p2 p3 p4 : pt (A := R)) (phi theta : R),
  dot3 RA (tors_n1 p1 p2 p3) (tors_n1 p1 p2 p3) <> 0 ->
  dot3 RA (tors_n2 p2 p3 p4) (tors_n2 p2 p3 p4) <> 0 ->
  let L := norm3 RA (psub RA p3 p2) in
  fst (dihedral_sc RA p1 p2 p3 p4) = cos phi ->
  snd (dihedral_sc RA p1 p2 p3 p4) / L = sin phi ->
  let p4' := rotate_about RA (cos theta) (sin theta) p2 p3 p4 in
  fst (dihedral_sc RA p1 p2 p3 p4') = cos (phi + theta) /\
  snd (dihedral_sc RA p1 p2 p3 p4') / L = sin (phi + theta).
Proof. exact torsion_addition_angles. Qed.

(* rebuild_tetrahedral: rotation by +-120 degrees about the bond *)
Theorem C15_tetra_120 : forall (l v : pt (A := R)) (c s : R),
  dot3 RA l l = 1 -> c = - (1 / 2) -> s * s = 3 / 4 ->
  let v' := rot1 RA (chi_mat RA l c s) v in
  let rho2 := dot3 RA v v - dot3 RA l v * dot3 RA l v in
  dot3 RA v' v' = dot3 RA v v /\
  dot3 RA l v' = dot3 RA l v /\
  (forall t, dist2 v' (scale t l) = dist2 v (scale t l)) /\
  dist2 v' v = 3 * rho2.
Proof. exact tetra_120. Qed.

(* ---- the Jacobi iteration itself (Proofs/QuatfitJacobi.v, QuatfitExit.v) ---- *)

(* over R the code's (cscl, sscl) lies on the unit circle and is the EXACT
   annihilating angle for every input with bscl <> 0 (the shortcut branch
   `abs(dma) + abs(bscl) <= abs(dma)` is dead over R) *)
Theorem C15_jacobi_angle_exact : forall b dp dq : R, b <> 0 ->
  let cs := jcs b (dq - dp) in
  let c := fst cs in let s := snd cs in
  c * c + s * s = 1 /\ c * s * (dp - dq) + (c * c - s * s) * b = 0.
Proof. exact jcs_exact. Qed.

(* one rotation of the model (both branches of `if abs(amat[ip][iq]) > 0.0`)
   is an orthogonal similarity: A' = J^T A J on [st_sym], V' = V J, the pivot
   entry of A' is 0, the diagonal gains 2 a_pq^2, the diagonal/lower triangle of
   amat is a frame *)
Theorem C15_jacobi_rotation_similarity : forall (st : jstate (A := R)) (p q : nat),
  wfst st -> In (p, q) pairs ->
  let st' := jrot RA st (p, q) in
  wfst st' /\
  exists c s : R,
    c * c + s * s = 1 /\
    meq (st_sym st') (mmul (mT (planeJ c s p q)) (mmul (st_sym st) (planeJ c s p q))) /\
    meq (st_V st') (mmul (st_V st) (planeJ c s p q)) /\
    st_sym st' p q = 0 /\
    sum4 (fun i => st_sym st' i i * st_sym st' i i)
      = sum4 (fun i => st_sym st i i * st_sym st i i) + 2 * (st_sym st p q * st_sym st p q) /\
    (forall i j, (i < 4)%nat -> (j <= i)%nat -> mget RA (fst (fst st')) i j = mget RA (fst (fst st)) i j).
Proof. exact jrot_similarity. Qed.

(* the plane rotation is orthogonal: J^T J = J J^T = I *)
Theorem C15_jacobi_plane_orthogonal : forall (c s : R) (p q : nat),
  In (p, q) pairs -> c * c + s * s = 1 -> orth (planeJ c s p q).
Proof. exact planeJ_orth. Qed.

(* trace and Frobenius norm are kept, the off-diagonal mass (sum over i <> j)
   drops by 2 a_pq^2: the classical Jacobi identity *)
Theorem C15_jacobi_rotation_masses : forall (st : jstate (A := R)) (p q : nat),
  wfst st -> In (p, q) pairs ->
  let st' := jrot RA st (p, q) in
  trace4 (st_sym st') = trace4 (st_sym st) /\
  frob2 (st_sym st') = frob2 (st_sym st) /\
  off2 (st_sym st') = off2 (st_sym st) - 2 * (st_sym st p q * st_sym st p q).
Proof. exact jrot_masses. Qed.

(* the invariant is kept by ANY sequence of pivots taken from the code's six
   pairs, and holds at every exit of the sweep loop, for every fuel value
   (converged, or fuel exhausted): V^T V = V V^T = I and V^T A0 V = A_current *)
Theorem C15_jacobi_invariant_any_pivots : forall (A0 : fmat) (l : list (nat * nat)) (st : jstate (A := R)),
  (forall ij, In ij l -> In ij pairs) -> jinv A0 st -> jinv A0 (fold_left (jrot RA) l st).
Proof. exact jinv_fold. Qed.

Theorem C15_jacobi_invariant : forall (am : mat (A := R)) (nrot : nat), wf4 am ->
  let st := jsweeps RA nrot (jinit RA am) in
  wfst st /\ orth (st_V st) /\
  meq (mmul (mT (st_V st)) (mmul (A0_of am) (st_V st))) (st_sym st).
Proof. exact jacobi_invariant. Qed.

(* exact exit: columns of V are eigenvectors; the column qtrfit takes after the
   ascending sort (column 3) is a unit eigenvector of the largest dvec entry and
   maximises r^T A0 r over all unit r *)
Theorem C15_jacobi_exit_exact : forall (am : mat (A := R)) (nrot : nat), wf4 am ->
  let A0 := A0_of am in
  let st := jsweeps RA nrot (jinit RA am) in
  offzero st ->
  let V := st_V st in
  let d := fun k => st_sym st k k in
  orth V /\
  (forall i k, (i < 4)%nat -> (k < 4)%nat -> mmul A0 V i k = d k * V i k) /\
  let res := jacobi RA am nrot in
  let q := fun i => mget RA (snd res) i 3 in
  let lam := vget RA (fst res) 3 in
  n2 q = 1 /\
  (forall i, (i < 4)%nat -> mv A0 q i = lam * q i) /\
  qf A0 q = lam /\
  (forall k, (k < 4)%nat -> d k <= lam) /\
  (forall r, n2 r = 1 -> qf A0 r <= qf A0 q).
Proof. exact jacobi_exit_exact. Qed.

(* the eigen-solver contract is a THEOREM for every call whose iteration stops
   with zero off-diagonal part *)
Theorem C15_jacobi_eigen_contract : forall (defrel refrel : list (pt (A := R))) (nrot : nat),
  offzero (jsweeps RA nrot (jinit RA (cm_rows RA (cmat RA defrel refrel)))) ->
  eigen_contract defrel refrel (qtrfit_quat RA nrot defrel refrel).
Proof. exact jacobi_eigen_contract. Qed.

(* C15_fit_exact_image with the contract hypothesis replaced by "jacobi stops
   with zero off-diagonal part" *)
Theorem C15_fit_exact_image_jacobi : forall (defs : list (pt (A := R))) (p : quat (A := R)) (T atom : pt (A := R)),
  qnorm2 RA p = 1 -> noncollinear defs ->
  let refs := map (rigid (q2mat RA p) T) defs in
  let defrel := snd (center RA defs) in
  let refrel := snd (center RA refs) in
  offzero (jsweeps RA NROT (jinit RA (cm_rows RA (cmat RA defrel refrel)))) ->
  (forall x, In x defrel ->
     rot1 RA (q2mat RA (qtrfit_quat RA NROT defrel refrel)) x = rot1 RA (q2mat RA p) x) /\
  find_coordinates RA (length defs) refs defs atom = Some (rigid (q2mat RA p) T atom).
Proof. exact fit_exact_image_jacobi. Qed.

(* inexact exit (any fuel, no hypothesis): column k of V misses being an
   eigenvector for S_kk by exactly the off-diagonal mass of column k of the
   current matrix S, which is at most half the total off-diagonal mass *)
Theorem C15_jacobi_exit_residual : forall (am : mat (A := R)) (nrot k : nat), wf4 am -> (k < 4)%nat ->
  let A0 := A0_of am in
  let st := jsweeps RA nrot (jinit RA am) in
  let V := st_V st in
  let S := st_sym st in
  sum4 (fun i => (mv A0 (fun j => V j k) i - S k k * V i k) * (mv A0 (fun j => V j k) i - S k k * V i k))
  = sum4 (fun m => if (m =? k)%nat then 0 else S m k * S m k)
  /\ 2 * sum4 (fun m => if (m =? k)%nat then 0 else S m k * S m k) <= off2 S.
Proof. exact jacobi_exit_residual. Qed.

(* non-vacuity of the exit hypothesis: 6-point template with diagonal second
   moments, turned by 180 degrees about x and translated by (10,-20,30): the
   qtrfit matrix is diag(-24, 28, -12, 8), the iteration stops with zero
   off-diagonal part, the sort moves column 1 to position 3, and the image of
   (1,2,3) is (11,-22,27) *)
Example C15_jacobi_nonvacuous :
  qnorm2 RA jex_p = 1 /\ noncollinear jex_defs /\
  (let refs := map (rigid (q2mat RA jex_p) jex_T) jex_defs in
   let defrel := snd (center RA jex_defs) in
   let refrel := snd (center RA refs) in
   offzero (jsweeps RA NROT (jinit RA (cm_rows RA (cmat RA defrel refrel)))) /\
   c11 (cmat RA defrel refrel) = 28 /\ c00 (cmat RA defrel refrel) = -24 /\
   find_coordinates RA 6 refs jex_defs (1, 2, 3) = Some (11, -22, 27)).
Proof. exact jacobi_nonvacuous. Qed.

(* non-vacuity: a 4-point template, the 120-degree rotation about (1,1,1) and a
   translation meet every hypothesis of C15_fit_exact_image (a unit maximiser
   exists), the image of (1,2,3) is (12,-17,31); qchichange by the angle with
   cos = 3/5, sin = 4/5 about the z axis takes (1,0,5) to (3/5,4/5,5) *)
Example C15_nonvacuous :
  qnorm2 RA ex_p = 1 /\ noncollinear ex_defs /\
  (exists q, eigen_contract (snd (center RA ex_defs))
               (snd (center RA (map (rigid (q2mat RA ex_p) ex_T) ex_defs))) q) /\
  rigid (q2mat RA ex_p) ex_T (1, 2, 3) = (12, -17, 31) /\
  (let c := 3 / 5 in let s := 4 / 5 in let init : pt (A := R) := (0, 0, 2) in
   c * c + s * s = 1 /\ dot3 RA init init <> 0 /\
   qchichange RA c s init ((1, 0, 5) :: nil) = ((3 / 5, 4 / 5, 5) :: nil)).
Proof. exact fit_nonvacuous. Qed.

Print Assumptions C15_q2mat_rotation.
Print Assumptions C15_rayleigh_identity.
Print Assumptions C15_fit_exact_image.
Print Assumptions C15_eigen_contract_satisfiable.
Print Assumptions C15_fit_equivariant.
Print Assumptions C15_chi_axis_fixed.
Print Assumptions C15_chi_isometry.
Print Assumptions C15_set_dihedral_distances.
Print Assumptions C15_torsion_addition.
Print Assumptions C15_torsion_addition_angles.
Print Assumptions C15_tetra_120.
Print Assumptions C15_nonvacuous.
Print Assumptions C15_jacobi_angle_exact.
Print Assumptions C15_jacobi_rotation_similarity.
Print Assumptions C15_jacobi_plane_orthogonal.
Print Assumptions C15_jacobi_rotation_masses.
Print Assumptions C15_jacobi_invariant_any_pivots.
Print Assumptions C15_jacobi_invariant.
Print Assumptions C15_jacobi_exit_exact.
Print Assumptions C15_jacobi_eigen_contract.
Print Assumptions C15_fit_exact_image_jacobi.
Print Assumptions C15_jacobi_exit_residual.
Print Assumptions C15_jacobi_nonvacuous.
