(* C13 - disulfide bridges are detected symmetrically and exclusively.
   Property theorems only; model in Model/SSBridge.v, proofs in Proofs/SSBridge.v.

   `close a b` stands for  util.distance(a.coords, b.coords) < BONDED_SS_LIMIT ;
   `rs` is the list of CYS-class residues in the order of Biomolecule.residues
   (ANY order: the theorems quantify over all lists).  *)
From Coq Require Import List ZArith Bool Permutation String.
From PV Require Import Model.SSBridge Proofs.SSBridge Model.Pipeline Proofs.SSOrder.
From PV Require Generated.Stages.
Import ListNotations.

(* Two cysteines whose sulfurs are within the limit of each other and of no
   third sulfur: both partner lists are exactly the other sulfur, both are
   flagged, point at each other, carry the CYX patch and the CYX force-field
   name, and neither has an HG after add_hydrogens (whether or not HG was in
   the input). *)
Theorem C13_ss_pair_symmetric :
  forall (close : nat -> nat -> bool), (forall a b, close a b = close b a) ->
  forall (rs : list cres) (ri rj : cres),
    (In ri rs /\ In rj rs /\ c_sg ri = true /\ c_sg rj = true /\ c_id ri <> c_id rj /\
     close (c_id ri) (c_id rj) = true /\
     forall rk, In rk rs -> c_sg rk = true -> c_id rk <> c_id ri -> c_id rk <> c_id rj ->
       close (c_id ri) (c_id rk) = false /\ close (c_id rj) (c_id rk) = false) ->
    let oi := ss_result close rs ri in
    let oj := ss_result close rs rj in
    o_partners oi = [c_id rj] /\ o_partners oj = [c_id ri] /\
    o_bonded oi = true /\ o_bonded oj = true /\
    o_partner oi = Some (c_id rj) /\ o_partner oj = Some (c_id ri) /\
    o_patched oi = true /\ o_patched oj = true /\
    o_ff oi = CYX /\ o_ff oj = CYX /\
    o_hg oi = false /\ o_hg oj = false.
Proof. exact ss_pair_symmetric. Qed.

(* A residue named CYS with no sulfur within the limit (or no sulfur at all) is
   not flagged, has no partner, no CYX patch, has HG after add_hydrogens and
   keeps the name CYS.  Guard: HG is present on input or can be placed (three
   of SG CB CA HB2 HB3 exist - always true after repair_heavy; see
   C13_ss_free_unbuildable_named_CYX for the excluded case). *)
Theorem C13_ss_isolated_free :
  forall (close : nat -> nat -> bool), (forall a b, close a b = close b a) ->
  forall (rs : list cres) (r : cres),
    c_name r = CYS ->
    (forall rk, In rk rs -> c_sg rk = true -> c_id rk <> c_id r -> close (c_id r) (c_id rk) = false) ->
    (c_hg r = true \/ c_build r = true) ->
    let o := ss_result close rs r in
    o_partners o = [] /\ o_bonded o = false /\ o_partner o = None /\ o_patched o = false /\
    o_hg o = true /\ o_ff o = CYS.
Proof. exact ss_isolated_free. Qed.

(* Order independence, per residue: if r's sulfur has at most one sulfur in
   range (weaker than the property's hypothesis, which also constrains the
   partner), everything observed for r is the same for every permutation of
   the residue list. *)
Theorem C13_ss_perm_invariant :
  forall (close : nat -> nat -> bool), (forall a b, close a b = close b a) ->
  forall (rs rs' : list cres) (r : cres),
    Permutation rs rs' -> In r rs ->
    (forall r1 r2, In r1 rs -> In r2 rs -> c_sg r1 = true -> c_sg r2 = true ->
       c_id r1 <> c_id r -> c_id r2 <> c_id r ->
       close (c_id r) (c_id r1) = true -> close (c_id r) (c_id r2) = true -> c_id r1 = c_id r2) ->
    ss_result close rs' r = ss_result close rs r.
Proof. exact ss_perm_invariant. Qed.

(* Order independence, whole structure: if every sulfur has at most one sulfur
   in range, reordering the residues only reorders the results. *)
Theorem C13_ss_perm_invariant_all :
  forall (close : nat -> nat -> bool), (forall a b, close a b = close b a) ->
  forall (rs rs' : list cres),
    Permutation rs rs' ->
    (forall r, In r rs ->
       forall r1 r2, In r1 rs -> In r2 rs -> c_sg r1 = true -> c_sg r2 = true ->
       c_id r1 <> c_id r -> c_id r2 <> c_id r ->
       close (c_id r) (c_id r1) = true -> close (c_id r) (c_id r2) = true -> c_id r1 = c_id r2) ->
    Permutation (ss_results close rs) (ss_results close rs').
Proof. exact ss_perm_invariant_all. Qed.

(* Chain membership and numbering: the result does not change under any
   relabelling of chain labels and residue numbers (no hypothesis at all). *)
Theorem C13_ss_label_invariant :
  forall (close : nat -> nat -> bool) (f : cres -> nat) (g : cres -> Z) (rs : list cres) (r : cres),
    ss_result close (map (relabel f g) rs) (relabel f g r) = ss_result close rs r.
Proof. exact ss_label_invariant. Qed.

(* The exact-coordinate instance of `close` is symmetric. *)
Theorem C13_closeZ_symmetric :
  forall (tab : list (nat * (Z * Z * Z))) (a b : nat), closeZ tab a b = closeZ tab b a.
Proof. exact closeZ_sym. Qed.

(* Outside the hypothesis - a third sulfur in range: the result depends on the
   processing order (three sulfurs pairwise 2.0 A apart; residue 0 is unbonded
   in order 0,1,2 and bonded in order 2,1,0) ... *)
Theorem C13_ss_third_sulfur_order_dependent :
  exists (tab : list (nat * (Z * Z * Z))) (rs rs' : list cres) (r : cres),
    Permutation rs rs' /\ In r rs /\
    o_bonded (ss_result (closeZ tab) rs r) = false /\
    o_bonded (ss_result (closeZ tab) rs' r) = true.
Proof. exact ss_third_sulfur_order_dependent. Qed.

(* ... and flagging is not mutual there: a flagged residue points at a residue
   that is not flagged and points nowhere. *)
Theorem C13_ss_third_sulfur_not_mutual :
  exists (tab : list (nat * (Z * Z * Z))) (rs : list cres) (ri rj : cres),
    In ri rs /\ In rj rs /\
    o_partner (ss_result (closeZ tab) rs ri) = Some (c_id rj) /\
    o_bonded (ss_result (closeZ tab) rs rj) = false /\
    o_partner (ss_result (closeZ tab) rs rj) = None.
Proof. exact ss_third_sulfur_not_mutual. Qed.

(* The case excluded by the guard of C13_ss_isolated_free: a free CYS whose HG
   is absent and cannot be placed is named CYX by CYS.set_state. *)
Theorem C13_ss_free_unbuildable_named_CYX :
  exists (rs : list cres) (r : cres),
    In r rs /\ c_name r = CYS /\
    (forall rk, In rk rs -> c_sg rk = true -> c_id rk <> c_id r -> closeZ [] (c_id r) (c_id rk) = false) /\
    o_bonded (ss_result (closeZ []) rs r) = false /\
    o_hg (ss_result (closeZ []) rs r) = false /\
    o_ff (ss_result (closeZ []) rs r) = CYX.
Proof. exact ss_free_unbuildable_named_CYX. Qed.

(* Non-vacuity: a concrete structure (coordinates in 0.001 A) with an exclusive
   pair 0-1 at 2.499 A, a sulfur 2 at exactly 2.500 A from 3 (not bonded: the
   test is strict) and HG present on input for 1 and 3.  The hypotheses of the
   pair and isolated theorems hold and the model computes the stated result. *)
Example C13_nonvacuous :
  let tab := [(0, (0, 0, 0)%Z); (1, (2499, 0, 0)%Z); (2, (20000, 0, 0)%Z); (3, (21500, 2000, 0)%Z)] in
  let rs := [mkres 2 CYS true false true 0 5%Z; mkres 0 CYS true false true 1 7%Z;
             mkres 3 CYS true true true 1 (-3)%Z; mkres 1 CYS true true true 2 7%Z] in
  closeZ tab 0 1 = true /\
  forallb (fun k => negb (closeZ tab 0 k) && negb (closeZ tab 1 k)) [2; 3] = true /\
  forallb (fun k => negb (closeZ tab 2 k)) [0; 1; 3] = true /\
  dist2Z tab 2 3 = 6250000%Z /\
  map show_out (ss_results (closeZ tab) rs) =
    ["2::0:-:0:1:CYS"; "0:1:1:1:1:0:CYX"; "3::0:-:0:1:CYS"; "1:0:1:0:1:0:CYX"]%string.
Proof. vm_compute. repeat split; reflexivity. Qed.

(* Pipeline level: the property speaks of the sulfurs of the RETURNED model.  For every stage list that meets
   the order obligation (the detection is not controlled by args.debump; behind it no second detection and no
   heavy-atom mover other than one controlled by args.debump) and every semantics of the stages respecting the
   three frame conditions, the flags of the state returned with --nodebump are detect(its final sulfurs) - so
   the theorems above apply to the returned model, including cysteines whose sulfur was rebuilt by
   repair_heavy.  PARTIAL: the frame conditions are modelled (tied at run time by the rebuilt-sulfur stage
   of the harness); with debumping on, the returned sulfurs may differ from those the detection saw. *)
Theorem C13_detection_sees_final_sulfurs :
  forall (state S F : Type) (sulfurs : state -> S) (flags : state -> F) (detect : S -> F)
         (sem : sdesc -> state -> state),
    (forall d s, is_ss d = true -> flags (sem d s) = detect (sulfurs s) /\ sulfurs (sem d s) = sulfurs s) ->
    (forall d s, is_ss d = false -> flags (sem d s) = flags s) ->
    (forall d s, mover d = false -> sulfurs (sem d s) = sulfurs s) ->
    forall ds s, order_ok ds = true ->
      flags (run state sem ds s) = detect (sulfurs (run state sem ds s)).
Proof. exact detection_sees_final_sulfurs. Qed.

(* the stage table translated from the current pdb2pqr/main.py meets the obligation (and has the stages it
   speaks about) *)
Theorem C13_ss_stage_order_table :
  ss_order_obligation PV.Generated.Stages.stages = true.
Proof. vm_compute. reflexivity. Qed.

(* the obligation is needed: detection before repair_heavy, under a semantics meeting the frame conditions,
   returns flags that are not those of the returned sulfurs *)
Theorem C13_detection_before_repair_is_wrong :
  let ds := [w_stage "update_ss_bridges"; w_stage "repair_heavy"] in
  order_ok ds = false /\
  (forall d s, is_ss d = true -> snd (w_sem d s) = fst s /\ fst (w_sem d s) = fst s) /\
  (forall d s, is_ss d = false -> snd (w_sem d s) = snd s) /\
  (forall d s, mover d = false -> fst (w_sem d s) = fst s) /\
  snd (run w_state w_sem ds (0, 0)) <> fst (run w_state w_sem ds (0, 0)).
Proof. exact detection_before_repair_is_wrong. Qed.

Print Assumptions C13_ss_pair_symmetric.
Print Assumptions C13_ss_isolated_free.
Print Assumptions C13_ss_perm_invariant.
Print Assumptions C13_ss_perm_invariant_all.
Print Assumptions C13_ss_label_invariant.
Print Assumptions C13_closeZ_symmetric.
Print Assumptions C13_ss_third_sulfur_order_dependent.
Print Assumptions C13_ss_third_sulfur_not_mutual.
Print Assumptions C13_ss_free_unbuildable_named_CYX.
Print Assumptions C13_nonvacuous.
Print Assumptions C13_detection_sees_final_sulfurs.
Print Assumptions C13_ss_stage_order_table.
Print Assumptions C13_detection_before_repair_is_wrong.
