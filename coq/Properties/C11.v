(* C11 - runs are deterministic and independent of process history.
   Property theorems only; proofs are in Proofs/History.v (generic) and
   Proofs/Survivors.v (generated tables).

   Scope: the theorems are about a DEPENDENCY ABSTRACTION (Model/History.v):
   process state = values of the survivors listed by the AST scan, a run reads
   only survivors marked flows_to_output and entropy sites that are live, and
   writes only survivors marked written (the two hypotheses reads_only /
   writes_only are the trusted meaning of the scan; the write side is checked
   at run time by deep-hash snapshots).  Interpreter-level nondeterminism is
   explored by the harness (hash seeds, A-B-A histories), not proved.

   ENVIRONMENT: the entropy assignment of a run carries, besides set orders,
   ids and the clock, everything the process environment supplies - what a
   lookup relative to the current working directory finds (E_fs_cwd), the
   environment variables / user / time zone (E_env_read), the locale
   (E_locale).  e1 e2 below are arbitrary, so the theorems are statements about
   runs that differ in the working directory, the environment and the locale. *)
From Coq Require Import String List Bool.
From PV Require Import Model.History Proofs.History Generated.Survivors Proofs.Survivors.
Import ListNotations.

(* if every survivor is either never written after import or never read on a
   path to the output, and no entropy site (unordered iteration, clock, id...)
   reaches the output un-neutralised, then for ALL histories h1 h2 (complete
   runs and crashed runs with arbitrary partial writes) and ALL inputs i the
   output of i is the same - also for different hash seeds / addresses (e1 e2) *)
Theorem C11_history_independence :
  forall (Val EVal Input Output : Type)
         (run : state Val -> entropy EVal -> Input -> Output * state Val)
         (t : list surv) (et : list esite),
    writes_only run t ->
    reads_only run t et ->
    survivor_obligation t = true ->
    entropy_obligation et = true ->
    forall (st0 : state Val) (h1 h2 : list (@event Val EVal Input)) (i : Input) (e1 e2 : entropy EVal),
      Forall (crash_ok t) h1 -> Forall (crash_ok t) h2 ->
      out run st0 (h1 ++ [Run i e1]) = out run st0 (h2 ++ [Run i e2]).
Proof. exact history_independence. Qed.

(* the same history of requests replayed in a different environment (every
   run of it, and the final one, under a moved working directory / changed
   variables / another locale: `move` re-tags the entropy of every earlier run)
   gives the same bytes *)
Theorem C11_environment_independence :
  forall (Val EVal Input Output : Type)
         (run : state Val -> entropy EVal -> Input -> Output * state Val)
         (t : list surv) (et : list esite),
    writes_only run t ->
    reads_only run t et ->
    survivor_obligation t = true ->
    entropy_obligation et = true ->
    forall (st0 : state Val) (h : list (@event Val EVal Input)) (i : Input)
           (e1 e2 : entropy EVal) (move : entropy EVal -> entropy EVal),
      Forall (crash_ok t) h ->
      out run st0 (h ++ [Run i e1]) = out run st0 (map (retag Val EVal Input move) h ++ [Run i e2]).
Proof. exact environment_independence. Qed.

(* a run that fails AFTER writing survivors (arbitrary partial writes w to anything
   some run-time path writes: a cache filled while parsing, a half-updated registry),
   followed by a retry: the retry gives what the request gives alone in a fresh process *)
Theorem C11_retry_after_crash :
  forall (Val EVal Input Output : Type)
         (run : state Val -> entropy EVal -> Input -> Output * state Val)
         (t : list surv) (et : list esite),
    writes_only run t ->
    reads_only run t et ->
    survivor_obligation t = true ->
    entropy_obligation et = true ->
    forall (st0 : state Val) (h : list (@event Val EVal Input)) (w : state Val -> state Val)
           (i : Input) (e1 e2 : entropy EVal),
      Forall (crash_ok t) h -> crash_ok t (@Crash Val EVal Input w) ->
      out run st0 ((h ++ [Crash w]) ++ [Run i e1]) = out run st0 ([] ++ [Run i e2]).
Proof. exact retry_after_crash. Qed.

(* ... and not without the obligation: a survivor written before the failure point
   and read by the retry makes the retry differ from the fresh process *)
Theorem C11_retry_after_crash_necessary :
  exists (t : list surv) (run : state nat -> entropy nat -> nat -> nat * state nat),
    reads_only run t [] /\ writes_only run t /\ survivor_obligation t = false /\
    exists st0 (w : state nat -> state nat) i e,
      crash_ok t (@Crash nat nat nat w) /\
      out run st0 (([] ++ [Crash w]) ++ [Run i e]) <> out run st0 ([] ++ [Run i e]).
Proof. exact retry_after_crash_necessary. Qed.

(* the survivors table generated from the current tree meets the obligation *)
Theorem C11_generated_obligation : survivor_obligation survivors = true.
Proof. exact generated_obligation. Qed.

(* the generated list of set iterations / entropy sources reaching the output
   un-sorted is empty *)
Theorem C11_no_unordered_iteration : entropy_obligation entropy_sites = true.
Proof. exact generated_entropy_obligation. Qed.

(* both together: history independence of the current tree modulo the scan *)
Theorem C11_generated_history_independence :
  forall (Val EVal Input Output : Type)
         (run : state Val -> entropy EVal -> Input -> Output * state Val),
    reads_only run survivors entropy_sites ->
    writes_only run survivors ->
    forall (st0 : state Val) (h1 h2 : list (@event Val EVal Input)) (i : Input) (e1 e2 : entropy EVal),
      Forall (crash_ok survivors) h1 -> Forall (crash_ok survivors) h2 ->
      out run st0 (h1 ++ [Run i e1]) = out run st0 (h2 ++ [Run i e2]).
Proof. exact generated_history_independence. Qed.

(* the obligation is not decorative: a system meeting both trusted hypotheses
   but with one written-and-read survivor has two histories that disagree *)
Theorem C11_obligation_necessary :
  exists (t : list surv) (run : state nat -> entropy nat -> nat -> nat * state nat),
    reads_only run t [] /\ writes_only run t /\ survivor_obligation t = false /\
    exists st0 (h1 h2 : list (@event nat nat nat)) i e,
      Forall (crash_ok t) h1 /\ Forall (crash_ok t) h2 /\
      out run st0 (h1 ++ [Run i e]) <> out run st0 (h2 ++ [Run i e]).
Proof. exact obligation_necessary. Qed.

Theorem C11_entropy_obligation_necessary :
  exists (et : list esite) (run : state nat -> entropy nat -> nat -> nat * state nat),
    reads_only run [] et /\ writes_only run [] /\ entropy_obligation et = false /\
    exists st0 i ea eb,
      out run st0 (([] : list (@event nat nat nat)) ++ [Run i ea]) <> out run st0 ([] ++ [Run i eb]).
Proof. exact entropy_obligation_necessary. Qed.

(* and for the environment: a system with NO written-and-read survivor, whose
   only offending site is a data-file lookup relative to the working directory
   (kind E_fs_cwd), gives different outputs for the same request after the same
   history when a same-named file sits in the directory *)
Theorem C11_environment_obligation_necessary :
  exists (t : list surv) (et : list esite) (run : state nat -> entropy nat -> nat -> nat * state nat),
    reads_only run t et /\ writes_only run t /\
    survivor_obligation t = true /\ entropy_obligation et = false /\
    Forall (fun e => e_kind e = E_fs_cwd) et /\
    exists st0 (h : list (@event nat nat nat)) i ea eb,
      Forall (crash_ok t) h /\
      out run st0 (h ++ [Run i ea]) <> out run st0 (h ++ [Run i eb]).
Proof. exact environment_obligation_necessary. Qed.

(* non-vacuity: a two-survivor system (a table that is read, a counter that is
   written - also by a crashed run) meets every hypothesis, its state really
   changes, its output really depends on the state, and the outputs agree *)
Example C11_nonvacuous :
  survivor_obligation good_table = true /\ entropy_obligation good_sites = true /\
  reads_only good_run good_table good_sites /\ writes_only good_run good_table /\
  Forall (crash_ok good_table) demo_history /\
  fst (exec good_run (demo_state 10 0) demo_history) "counter"%string = 100 /\
  out good_run (demo_state 10 0) (demo_history ++ [Run 3 e0]) = Some 13 /\
  out good_run (demo_state 10 0) ([] ++ [Run 3 e1]) = Some 13 /\
  out good_run (demo_state 20 0) ([] ++ [Run 3 e1]) = Some 23.
Proof. exact nonvacuous. Qed.

(* non-vacuity with environment sites present: a side file written into the
   cwd and a locale-decoded ASCII data file are listed, do not flow, and the
   whole history replayed "elsewhere" ends in the same output *)
Example C11_nonvacuous_environment :
  entropy_obligation env_good_sites = true /\
  reads_only good_run good_table env_good_sites /\
  (exists e, In e env_good_sites /\ e_kind e = E_fs_cwd) /\
  out good_run (demo_state 10 0) (demo_history ++ [Run 3 e0]) = Some 13 /\
  out good_run (demo_state 10 0) (map (retag nat nat nat (fun _ => cwd_decoy)) demo_history ++ [Run 3 cwd_decoy]) = Some 13.
Proof. exact nonvacuous_environment. Qed.

Print Assumptions C11_history_independence.
Print Assumptions C11_environment_independence.
Print Assumptions C11_retry_after_crash.
Print Assumptions C11_retry_after_crash_necessary.
Print Assumptions C11_environment_obligation_necessary.
Print Assumptions C11_nonvacuous_environment.
Print Assumptions C11_generated_obligation.
Print Assumptions C11_no_unordered_iteration.
Print Assumptions C11_generated_history_independence.
Print Assumptions C11_obligation_necessary.
Print Assumptions C11_entropy_obligation_necessary.
Print Assumptions C11_nonvacuous.
