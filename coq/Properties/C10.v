(* C10 - mmCIF and PDB encodings of one structure give the same result.
   Property theorems only; model in Model/CifLine.v (cif.atom_site AFTER the repairs
   fix_C10_P1..P6), proofs in Proofs/CifLine.v.

   FULL STATEMENT (what the property text asks of the two readers), for every
   covered missing-value convention mv of the mmCIF library and every _atom_site
   row r that is expressible as one PDB ATOM/HETATM record:

       forall mv r, mv_ok mv = true -> expressible r = true -> agrees mv r

   It is now PROVED (C10_cif_eq_pdb_agrees), in the stronger form that the line
   cif.atom_site assembles IS the PDB v3.3 record of the row, character for character
   (C10_cif_line_is_pdb_record), so that all sixteen parsed fields - alternate
   location, insertion code, four-character names, formal charge included - are
   those of the atom the row denotes (C10_cif_eq_pdb), and whole loops with one or
   several models give one record per row (C10_atom_site_single, C10_atom_site_models).
   mv_ok: '.' and '?' arrive as one of "", ".", "?", None - the installed
   mmcif_pdbx 2.1.0 and verbatim readers; outside it the statement is false
   (C10_mv_ok_needed).  expressible: the fields fit their PDB columns; the atom and
   residue name are the auth_ item when the row gives one, else the label_ item; a
   name, alt-loc or insertion code that is literally "." or "?" is outside (it cannot
   be told from a missing value once a reader is verbatim).
   Charges and radii are computed by the pipeline after the readers; identical
   records give identical runs (explored by the harness, and composed with the ingest
   and print models in Properties/E2E_CifClean.v; not a theorem here). *)
From Coq Require Import String List ZArith.
From PV Require Import Lib.Strings Lib.Decimal Model.CifLine Proofs.CifLine.
Import ListNotations.
Local Open Scope string_scope.

(* PDB side: the PDB v3.3 line of every expressible row parses, with pdb.ATOM/HETATM,
   to exactly the atom the row denotes (all 16 fields) *)
Theorem C10_spec_roundtrip : forall r k,
  expressible r = true -> spec_kind r = Some k ->
  exists serial seq,
    py_int (tok_or "" (id r)) = Ok serial /\ py_int (tok_or "" (auth_seq_id r)) = Ok seq /\
    parse_atom k (pdb_line_of_row r) = Ok (fields_of_row k serial seq r).
Proof. exact spec_roundtrip. Qed.

(* the line the mmCIF reader hands to pdb.ATOM/HETATM is the PDB record of the row *)
Theorem C10_cif_line_is_pdb_record : forall mv r k,
  mv_ok mv = true -> expressible r = true -> spec_kind r = Some k ->
  row_line mv r = Ok (Some (k, pdb_line_of_row r)).
Proof. exact cif_line_is_pdb_record. Qed.

(* mmCIF = PDB for every expressible row under every covered convention, all 16 fields
   (kind, serial, name, alt-loc, residue, chain, number, insertion code, x, y, z,
   occupancy, B, segment, element, formal charge) *)
Theorem C10_cif_eq_pdb : forall mv r,
  mv_ok mv = true -> expressible r = true ->
  exists k serial seq,
    spec_kind r = Some k /\
    row_fields mv r = Ok (Some (pdb_line_of_row r, fields_of_row k serial seq r)) /\
    parse_atom k (pdb_line_of_row r) = Ok (fields_of_row k serial seq r).
Proof. exact cif_eq_pdb. Qed.

(* the full statement as written above *)
Theorem C10_cif_eq_pdb_agrees : forall mv r,
  mv_ok mv = true -> expressible r = true -> agrees mv r.
Proof. exact cif_agrees. Qed.

(* in particular for the installed mmcif_pdbx 2.1.0 and for a verbatim reader *)
Theorem C10_cif_eq_pdb_both_conventions : forall r,
  expressible r = true -> agrees mv_installed r /\ agrees mv_legacy r.
Proof. exact cif_eq_pdb_both. Qed.

(* the convention hypothesis cannot be dropped *)
Theorem C10_mv_ok_needed : exists mv r, mv_ok mv = false /\ expressible r = true /\ ~ agrees mv r.
Proof. exact mv_ok_needed. Qed.

(* whole atom_site(block), one model: one record per row, in file order, nothing
   skipped, no exception, no error entry  (guard r = expressible r) *)
Theorem C10_atom_site_single : forall mv rows m,
  mv_ok mv = true -> rows <> [] ->
  (forall r, In r rows -> expressible r = true /\ pdbx_PDB_model_num r = Tok m) ->
  exists recs, atom_site mv rows = mkout recs [] None /\ Forall2 (row_ok mv) rows recs.
Proof. exact atom_site_single_partial. Qed.

(* several models: MODEL n / that model's rows in file order / ENDMDL for each
   distinct model number (1-4 characters, an integer) in order of first appearance *)
Theorem C10_atom_site_models : forall mv rows models,
  mv_ok mv = true -> rows_good rows ->
  count_models mv rows [] = Ok models -> List.length models <> 1 ->
  exists blocks,
    atom_site mv rows = mkout (concat blocks) [] None /\
    Forall2 (block_ok mv rows) models blocks.
Proof. exact atom_site_models_partial. Qed.

(* cif.read_cif: PROVIDED none of the other category handlers (header, title, compnd, source,
   keywds, expdata, author, ssbond, cispep, cryst1, origxn, scalen, conect) raises, the call
   returns and its coordinate records are exactly atom_site's, whatever those categories hold
   (the harness checks the proviso on the real handlers for every generated file) *)
Theorem C10_read_cif_atoms : forall (O : Type) mv rows (pre post : list (hres O)),
  (forall h, In h (pre ++ post)%list -> exists p, h = Ok p) ->
  o_exn (atom_site mv rows) = None ->
  exists l errs, read_cif mv rows pre post = Ok (l, errs) /\ site_recs l = o_recs (atom_site mv rows).
Proof. exact read_cif_atoms. Qed.

(* the proviso cannot be dropped: one raising handler and the mmCIF route yields nothing *)
Theorem C10_read_cif_handler_raises : forall (O : Type) mv rows (pre post : list (hres O)) e,
  In (Err e) (pre ++ post)%list -> exists e', read_cif mv rows pre post = Err e'.
Proof. exact read_cif_handler_raises. Qed.

(* cif.read_cif as repaired by fix_c10_r4 (the 13 non-coordinate handlers go through
   _optional_records): whatever those handlers do - return, or raise one of the caught
   exceptions - the call returns and its coordinate records are exactly atom_site's *)
Theorem C10_read_cif_guarded_atoms : forall (O : Type) mv rows (pre post : list (string * hres O)),
  o_exn (atom_site mv rows) = None ->
  exists l errs, read_cif_guarded mv rows pre post = Ok (l, errs) /\ site_recs l = o_recs (atom_site mv rows).
Proof. exact read_cif_guarded_atoms. Qed.

(* atom_site stays strict *)
Theorem C10_read_cif_guarded_strict : forall (O : Type) mv rows (pre post : list (string * hres O)) e,
  o_exn (atom_site mv rows) = Some e -> read_cif_guarded mv rows pre post = Err e.
Proof. exact read_cif_guarded_strict. Qed.

(* several data blocks (fix_c10_f25): blocks without an atom_site category - a ligand dictionary
   before or after the coordinates - neither abort read_cif nor change its result *)
Theorem C10_read_cif_blocks_one_site : forall (O : Type) mv (l1 l2 : list (cblock O)) rows pre post,
  (forall b, In b (l1 ++ l2)%list -> fst b = None) ->
  read_cif_blocks mv (l1 ++ (Some rows, (pre, post)) :: l2)%list ([], []) = read_cif_guarded mv rows pre post.
Proof. exact read_cif_blocks_one_site. Qed.

(* FILE LAYER (io.get_molecule): a file whose suffix is .cif in any case goes to the mmCIF reader
   whatever its text is - in particular with every legal opening (comment / blank preamble, the
   CIF 1.1 magic line, DATA_ in any case); the harness ties classify_input to the reader the real
   io.get_molecule calls on every generated file *)
Theorem C10_file_layer_cif_any_text : forall suffix text,
  lower_s suffix = ".cif" -> classify_input suffix text = RCif.
Proof. exact classify_cif_any_text. Qed.

Theorem C10_file_layer_legal_opening : forall suffix text,
  lower_s suffix = ".cif" -> legal_opening text = true -> classify_input suffix text = RCif.
Proof. exact classify_legal_opening. Qed.

(* every other suffix (.mmcif, .ent, none) goes to the PDB reader *)
Theorem C10_file_layer_other_suffix : forall suffix text,
  lower_s suffix <> ".cif" -> classify_input suffix text = RPdb.
Proof. exact classify_other_suffix. Qed.

Example C10_file_layer_nonvacuous :
  lower_s ".CIF" = ".cif" /\ lower_s ".Cif" = ".cif" /\
  legal_opening ("#\#CIF_1.1" ++ nl ++ "# written by a program" ++ nl ++ nl ++ "  DATA_1ABC" ++ nl ++ "#" ++ nl) = true /\
  legal_opening ("data_TEST" ++ nl) = true /\
  legal_opening ("ATOM      1  N   ALA A   1" ++ nl) = false /\
  classify_input ".CIF" ("#\#CIF_1.1" ++ nl ++ "Data_x" ++ nl) = RCif /\
  classify_input ".mmcif" ("data_x" ++ nl) = RPdb /\ classify_input ".pdb" ("data_x" ++ nl) = RPdb.
Proof. exact file_layer_nonvacuous. Qed.

(* non-vacuity and regression: all former refutation witnesses and a row without auth
   names are expressible and agree under both conventions; the formal charge (1+, 2-),
   the author's names (HOH, CA1), the label fallback (CA, LYS) and -100.123 come back *)
Example C10_guard_nonvacuous :
  forallb expressible fixed_witnesses = true /\
  forallb (agreesb mv_installed) fixed_witnesses = true /\
  forallb (agreesb mv_legacy) fixed_witnesses = true /\
  (exists l, row_fields mv_installed w_charge = Ok (Some (l, fields_of_row KATOM 7 12 w_charge))
             /\ f_chg (fields_of_row KATOM 7 12 w_charge) = "1+") /\
  (exists l f, row_fields mv_legacy w_comp = Ok (Some (l, f)) /\ f_resname f = "HOH") /\
  (exists l f, row_fields mv_installed w_atomname = Ok (Some (l, f)) /\ f_name f = "CA1") /\
  (exists l f, row_fields mv_installed w_noauth = Ok (Some (l, f)) /\ f_name f = "CA" /\ f_resname f = "LYS" /\ f_chg f = "2-") /\
  (exists l f, row_fields mv_installed w_wide = Ok (Some (l, f)) /\ f_x f = "-100.123").
Proof. exact guard_nonvacuous. Qed.

Print Assumptions C10_spec_roundtrip.
Print Assumptions C10_cif_line_is_pdb_record.
Print Assumptions C10_cif_eq_pdb.
Print Assumptions C10_cif_eq_pdb_agrees.
Print Assumptions C10_cif_eq_pdb_both_conventions.
Print Assumptions C10_mv_ok_needed.
Print Assumptions C10_atom_site_single.
Print Assumptions C10_atom_site_models.
Print Assumptions C10_read_cif_atoms.
Print Assumptions C10_read_cif_handler_raises.
Print Assumptions C10_read_cif_guarded_atoms.
Print Assumptions C10_read_cif_guarded_strict.
Print Assumptions C10_read_cif_blocks_one_site.
Print Assumptions C10_file_layer_cif_any_text.
Print Assumptions C10_file_layer_legal_opening.
Print Assumptions C10_file_layer_other_suffix.
Print Assumptions C10_file_layer_nonvacuous.
Print Assumptions C10_guard_nonvacuous.
