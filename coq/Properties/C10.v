(* C10 - mmCIF and PDB encodings of one structure give the same result.
   Property theorems only; model in Model/CifLine.v (cif.atom_site AFTER the repairs
   fix_C10_P1..P4), proofs in Proofs/CifLine.v.

   FULL STATEMENT (what the property text asks of the two readers), for every
   covered missing-value convention mv of the mmCIF library and every _atom_site
   row r that is expressible as one PDB ATOM/HETATM record:

       forall mv r, mv_ok mv = true -> expressible r = true -> agrees mv r

   (agrees = cif.atom_site's assembled line parsed by pdb.ATOM/HETATM, and the
   PDB v3.3 record of the same row parsed by the same class, both succeed and give
   the same record kind, serial, atom name, alt-loc, residue name, chain, residue
   number, insertion code and coordinate texts.  mv_ok: '.' and '?' arrive as one
   of "", ".", "?", None - the installed mmcif_pdbx 2.1.0 and verbatim readers.)

   After the repairs this holds for alternate locations, insertion codes,
   4-character atom names, 8-character coordinates, 6-character occupancies,
   label_asym_id <> auth_asym_id and both library conventions (they were six
   refuted classes before).  It is still REFUTED where label_atom_id <>
   auth_atom_id or label_comp_id <> auth_comp_id (atom and residue name are read
   from the label_ items, the PDB file carries the auth_ ones): C10_label_comp_refuted,
   C10_label_atom_refuted; [guard] is exactly [expressible] minus that class.
   The formal charge (columns 79-80) is still not written; it is not among the
   fields the property names (C10_formal_charge_field_dropped).
   Charges and radii are computed by the pipeline after the readers; identical
   records give identical runs (explored by the harness, not a theorem here). *)
From Coq Require Import String List ZArith.
From PV Require Import Lib.Strings Lib.Decimal Model.CifLine Proofs.CifLine.
Import ListNotations.
Local Open Scope string_scope.

(* PDB side, full strength: the PDB v3.3 line of every expressible row parses,
   with pdb.ATOM/HETATM, to exactly the atom the row denotes (all 16 fields) *)
Theorem C10_spec_roundtrip : forall r k,
  expressible r = true -> spec_kind r = Some k ->
  exists serial seq,
    py_int (tok_or "" (id r)) = Ok serial /\ py_int (tok_or "" (auth_seq_id r)) = Ok seq /\
    parse_atom k (pdb_line_of_row r) = Ok (fields_of_row k serial seq r).
Proof. exact spec_roundtrip. Qed.

(* mmCIF = PDB on every expressible row whose label atom/residue names are the author's,
   for every covered library convention: both readers succeed and return the atom the row denotes *)
Theorem C10_cif_eq_pdb_partial : forall mv r,
  mv_ok mv = true -> guard r = true ->
  exists k serial seq l f,
    spec_kind r = Some k /\
    row_fields mv r = Ok (Some (l, f)) /\
    parse_atom k (pdb_line_of_row r) = Ok (fields_of_row k serial seq r) /\
    primary f = primary (fields_of_row k serial seq r).
Proof. exact cif_eq_pdb_partial. Qed.

(* in particular for the installed mmcif_pdbx 2.1.0 and for a verbatim reader *)
Theorem C10_cif_eq_pdb_both_conventions : forall r,
  guard r = true -> agrees mv_installed r /\ agrees mv_legacy r.
Proof. exact cif_eq_pdb_both. Qed.

(* ... and all sixteen parsed fields (occupancy, B, segment, element, charge too)
   whenever the PDB record's charge columns are blank *)
Theorem C10_cif_full_partial : forall mv r k,
  mv_ok mv = true -> guard r = true -> charge_blank r = true -> spec_kind r = Some k ->
  exists serial seq l,
    py_int (tok_or "" (id r)) = Ok serial /\ py_int (tok_or "" (auth_seq_id r)) = Ok seq /\
    row_fields mv r = Ok (Some (l, fields_of_row k serial seq r)).
Proof. exact cif_full_partial. Qed.

(* whole atom_site(block), one model: one record per row, in file order, nothing
   skipped, no exception, no error entry *)
Theorem C10_atom_site_single_partial : forall mv rows m,
  mv_ok mv = true -> rows <> [] ->
  (forall r, In r rows -> guard r = true /\ pdbx_PDB_model_num r = Tok m) ->
  exists recs, atom_site mv rows = mkout recs [] None /\ Forall2 (row_ok mv) rows recs.
Proof. exact atom_site_single_partial. Qed.

(* several models: MODEL n / that model's rows in file order / ENDMDL for each
   distinct model number in order of first appearance *)
Theorem C10_atom_site_models_partial : forall mv rows models,
  mv_ok mv = true -> rows_good rows ->
  count_models mv rows [] = Ok models -> List.length models <> 1 ->
  exists blocks,
    atom_site mv rows = mkout (concat blocks) [] None /\
    Forall2 (block_ok mv rows) models blocks.
Proof. exact atom_site_models_partial. Qed.

(* still refuted: the residue name comes from label_comp_id (PDB: auth_comp_id) *)
Theorem C10_label_comp_refuted : exists r l f,
  expressible r = true /\ c_label_ne_auth r = true /\
  ~ agrees mv_installed r /\ ~ agrees mv_legacy r /\
  auth_comp_id r = Tok "HOH" /\ row_fields mv_installed r = Ok (Some (l, f)) /\ f_resname f = "WAT".
Proof. exact label_comp_refuted. Qed.

(* still refuted: the atom name comes from label_atom_id (PDB: auth_atom_id) *)
Theorem C10_label_atom_refuted : exists r l f,
  expressible r = true /\ c_label_ne_auth r = true /\
  ~ agrees mv_installed r /\ ~ agrees mv_legacy r /\
  auth_atom_id r = Tok "CA1" /\ row_fields mv_installed r = Ok (Some (l, f)) /\ f_name f = "CA".
Proof. exact label_atom_refuted. Qed.

(* formal charge: same atom in the fields the property names, but columns 79-80
   are never written (only --pdb-output shows it) *)
Theorem C10_formal_charge_field_dropped : exists r k l f fs,
  guard r = true /\ pdbx_formal_charge r = Tok "1" /\
  spec_kind r = Some k /\ row_fields mv_installed r = Ok (Some (l, f)) /\
  parse_atom k (pdb_line_of_row r) = Ok fs /\
  primary f = primary fs /\ f_chg fs = "1+" /\ f_chg f = "".
Proof. exact formal_charge_refuted. Qed.

(* non-vacuity and regression: the former refutation witnesses (ordinary row with the
   installed library, alt-loc, HD21, insertion code, -100.123, occupancy 1.0000,
   label_asym_id B / auth_asym_id A, formal charge) are inside the guard and agree under
   both conventions; HD21 and -100.123 are read back exactly *)
Example C10_guard_nonvacuous :
  forallb guard fixed_witnesses = true /\
  forallb (agreesb mv_installed) fixed_witnesses = true /\
  forallb (agreesb mv_legacy) fixed_witnesses = true /\
  (exists l, row_fields mv_installed w_name4 = Ok (Some (l, fields_of_row KATOM 7 12 w_name4))) /\
  (exists l, row_fields mv_installed w_wide = Ok (Some (l, fields_of_row KATOM 7 12 w_wide))
             /\ f_x (fields_of_row KATOM 7 12 w_wide) = "-100.123").
Proof. exact guard_nonvacuous. Qed.

Print Assumptions C10_spec_roundtrip.
Print Assumptions C10_cif_eq_pdb_partial.
Print Assumptions C10_cif_eq_pdb_both_conventions.
Print Assumptions C10_cif_full_partial.
Print Assumptions C10_atom_site_single_partial.
Print Assumptions C10_atom_site_models_partial.
Print Assumptions C10_label_comp_refuted.
Print Assumptions C10_label_atom_refuted.
Print Assumptions C10_formal_charge_field_dropped.
Print Assumptions C10_guard_nonvacuous.
