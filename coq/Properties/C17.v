(* C17 - the suggested APBS grid encloses the molecule and is multigrid-legal.
   Property theorems only; the model is Model/Psize.v (pdb2pqr/psize.py after
   commit 54cff74 and the repairs of findings C17-F11, C17-F12 and C17-F13,
   inputgen.Input/Elec as used by io.dump_apbs), proofs are in
   Proofs/Psize.v.  [QA] is the exact-rational instance of the arithmetic
   record; theorems that mention [ops] hold for every instance (floats too). *)
From Coq Require Import String Ascii List ZArith QArith Bool.
From PV Require Import Lib.Strings Lib.Decimal Model.Psize Proofs.Psize.
Import ListNotations.

(* every grid dimension is 32k+1 with k >= 1, hence >= 33: for ALL boxes and
   ALL parameter values, in every arithmetic (pure Z reasoning) *)
Theorem C17_grid_form : forall (A : Type) (ops : Arith A) (p : params (A:=A)) (mn mx : vec3 A) (i : axis),
  (exists k : Z, ax i (ngrid_of ops p mn mx) = 32 * k + 1 /\ 1 <= k)%Z /\
  (33 <= ax i (ngrid_of ops p mn mx))%Z.
Proof. exact (@ngrid_of_ok). Qed.

(* ... and that is the grid set_all stores whenever it returns *)
Theorem C17_grid_form_set_all : forall (A : Type) (ops : Arith A) (p : params (A:=A)) (st : pstate (A:=A)) (sz : sizing (A:=A)),
  set_all ops p st = Ok sz -> forall i, grid_ok (ax i (s_ngrid sz)).
Proof. exact (@grid_form). Qed.

(* exact arithmetic, cfac >= 1, fadd >= 0: centre +- fine/2 and centre +- coarse/2
   contain [minlen, maxlen] on every axis (fine = min(mol + fadd, coarse)) *)
Theorem C17_boxes_contain : forall (p : params (A:=Q)) (mn mx : vec3 Q) (i : axis),
  (1 <= p_cfac p -> 0 <= p_fadd p ->
  let c := ax i (center_of QA mn mx) in
  let fine := ax i (fine_of QA p mn mx) in
  let coarse := ax i (coarse_of QA p mn mx) in
  (c - fine / 2 <= ax i mn /\ ax i mx <= c + fine / 2) /\
  (c - coarse / 2 <= ax i mn /\ ax i mx <= c + coarse / 2))%Q.
Proof. exact boxes_contain. Qed.

(* the guard is needed: with cfac < 1 the fine box is cut to the coarse box
   and no longer reaches minlen *)
Theorem C17_boxes_contain_guard_needed :
  exists (p : params (A:=Q)) (mn mx : vec3 Q),
    (p_cfac p < 1 /\ 0 <= p_fadd p /\
    ~ (ax AX (center_of QA mn mx) - ax AX (fine_of QA p mn mx) / 2 <= ax AX mn))%Q.
Proof. exact boxes_need_cfac. Qed.

(* for every parameter value *)
Theorem C17_fine_le_coarse : forall (p : params (A:=Q)) (mn mx : vec3 Q) (i : axis),
  (ax i (fine_of QA p mn mx) <= ax i (coarse_of QA p mn mx))%Q.
Proof. exact fine_le_coarse. Qed.

Theorem C17_centered : forall (mn mx : vec3 Q) (i : axis),
  (ax i (center_of QA mn mx) == (ax i mx + ax i mn) / 2)%Q.
Proof. exact centered. Qed.

(* for ALL event lists (= line lists after parse_line): after accumulation every
   measured atom has minlen <= c - r and c + r <= maxlen on every axis *)
Theorem C17_minmax_contains_all : forall (evs : list (event (A:=Q))) (st st' : pstate (A:=Q)),
  run_events QA st evs = Ok st' ->
  forall h x y z q r, In (EvAtom h (x, y, z, q, r)) evs ->
  exists mn mx, box st' = Some (mn, mx) /\
    forall i, (ax i mn <= ax i (x, y, z) - r /\ ax i (x, y, z) + r <= ax i mx)%Q.
Proof. exact minmax_contains_all. Qed.

(* composition: every measured atom sphere lies in the fine and the coarse box
   that set_all stores *)
Theorem C17_spheres_in_boxes : forall (p : params (A:=Q)) (evs : list (event (A:=Q))) (st : pstate (A:=Q)) (sz : sizing (A:=Q)),
  (1 <= p_cfac p)%Q -> (0 <= p_fadd p)%Q ->
  run_events QA (init_state QA) evs = Ok st -> set_all QA p st = Ok sz ->
  forall h x y z q r, In (EvAtom h (x, y, z, q, r)) evs -> (0 <= r)%Q ->
  forall i,
    (let c := ax i (s_center sz) in
    let pos := ax i (x, y, z) in
    (c - ax i (s_fine sz) / 2 <= pos - r /\ pos + r <= c + ax i (s_fine sz) / 2) /\
    (c - ax i (s_coarse sz) / 2 <= pos - r /\ pos + r <= c + ax i (s_coarse sz) / 2))%Q.
Proof. exact spheres_in_boxes. Qed.

(* io.dump_apbs parses the file twice: the box is the same as after one pass *)
Theorem C17_double_parse_same_box : forall (evs : list (event (A:=Q))) (st1 st2 : pstate (A:=Q)),
  run_events QA (init_state QA) evs = Ok st1 -> run_events QA st1 evs = Ok st2 ->
  box st2 = box st1.
Proof. exact double_parse_same_box. Qed.

(* the set_smallest loop ends within the fuel computed from ngrid (never
   ErrFuel); the only exception is the code's own ValueError; on success every
   entry is the integer 32k+1 (k >= 0), not above ngrid, and the product fits
   the ceiling *)
Theorem C17_smallest_terminates : forall (p : params (A:=Q)) (mn mx : vec3 Q),
  let ng := ngrid_of QA p mn mx in
  match smallest QA (smallest_fuel ng) (p_gmemceil p) ng with
  | Err e => e = ErrCeiling
  | Ok ns =>
      (forall i, exists k : Z, (0 <= k)%Z /\ ax i ns = (32 * k + 1)%Z /\
                               (32 * k + 1 <= ax i ng)%Z) /\
      (mem_mb QA ns < p_gmemceil p)%Q
  end.
Proof. exact smallest_terminates. Qed.

(* ... and the ValueError is raised only for a ceiling not above the size of a
   1x1x1 grid (200 bytes): for every other ceiling set_smallest returns *)
Theorem C17_smallest_succeeds : forall (p : params (A:=Q)) (mn mx : vec3 Q),
  (200 / 1024 / 1024 < p_gmemceil p)%Q ->
  let ng := ngrid_of QA p mn mx in
  exists ns, smallest QA (smallest_fuel ng) (p_gmemceil p) ng = Ok ns.
Proof. exact smallest_succeeds. Qed.

(* whenever Psize.__str__ reports memory figures they are 200*nx*ny*nz/1024/1024
   for the grid they are reported with.  That grid is ngrid when it fits the
   ceiling (sequential solve); otherwise (parallel solve) it is nsmall, whose
   entries are 32k+1 (k >= 0), not above ngrid, and the figure is under the
   ceiling *)
Theorem C17_mem_estimate : forall (p : params (A:=Q)) (st : pstate (A:=Q)) (sz : sizing (A:=Q)) (m : mem_report (A:=Q)),
  set_all QA p st = Ok sz -> report QA p st sz = Ok (Some m) ->
  (let '(nx, ny, nz) := r_grid m in
   (r_est_mb m == 200 * inject_Z (nx * ny * nz) / 1024 / 1024 /\
    r_per_proc_mb m == 200 * inject_Z (nx * ny * nz) / 1024 / 1024)%Q) /\
  (if r_parallel m
   then r_grid m = s_nsmall sz /\ (p_gmemceil p < mem_mb QA (s_ngrid sz))%Q /\
        (r_est_mb m < p_gmemceil p)%Q /\
        (forall i, exists k : Z, (0 <= k)%Z /\ ax i (r_grid m) = (32 * k + 1)%Z /\
                                 (32 * k + 1 <= ax i (s_ngrid sz))%Z)
   else r_grid m = s_ngrid sz /\ (r_est_mb m <= p_gmemceil p)%Q).
Proof. exact mem_estimate. Qed.

(* for every structure with an ATOM record, every grid and ofrac >= 0 the report
   is produced, sequential or parallel (full strength since finding C17-F12 was
   repaired: nsmall and proc_grid are python ints - in the model by their type
   [vec3 Z], tied to the code by the harness - so no ':d' format can fail, and
   no division of __str__ is by zero) *)
Theorem C17_report_total : forall (p : params (A:=Q)) (st : pstate (A:=Q)) (sz : sizing (A:=Q)),
  set_all QA p st = Ok sz -> (0 <= p_ofrac p)%Q -> (0 < gotatom st)%Z ->
  exists m, report QA p st sz = Ok (Some m).
Proof. exact report_total. Qed.

(* the former witness of C17-F12 (two atoms 100 A apart, default parameters):
   a parallel solve, 4 x 3 x 3 processors, 97 x 129 x 129 points each, 307.880 MB *)
Example C17_report_parallel_witness :
  let p := mkP (17 # 10) 20 (1 # 2) 200 400 (1 # 10) (1 # 4) in
  let evs := [EvAtom false (0, 0, 0, 1 # 10, 3 # 2); EvAtom false (100, 100, 100, 1 # 10, 3 # 2)]%Q : list (event (A:=Q)) in
  exists st sz m,
    run_events QA (init_state QA) evs = Ok st /\ set_all QA p st = Ok sz /\
    report QA p st sz = Ok (Some m) /\
    r_parallel m = true /\ s_ngrid sz = (257, 257, 257)%Z /\
    r_grid m = (97, 129, 129)%Z /\ s_nproc sz = (4, 3, 3)%Z /\ s_nfocus sz = 3%Z /\
    r_est_mb m = (40354425 # 131072)%Q.
Proof. exact report_parallel_witness. Qed.

(* for ALL line lists and every float() behaviour: a line that starts with
   neither ATOM nor HETATM, inserted anywhere, changes no output of run_psize
   nor of the double parse of io.dump_apbs (full strength since 54cff74) *)
Theorem C17_header_lines_ignored : forall (A : Type) (ops : Arith A) (pfloat : string -> option A)
  (p : params (A:=A)) (l1 l2 : list string) (h : string),
  is_coord_line h = false ->
  run_psize ops pfloat p (l1 ++ h :: l2) = run_psize ops pfloat p (l1 ++ l2) /\
  run_dump_apbs ops pfloat p (l1 ++ h :: l2) = run_dump_apbs ops pfloat p (l1 ++ l2).
Proof. exact (@header_insert_run). Qed.

(* ... equivalently, only the coordinate lines matter *)
Theorem C17_header_lines_filtered : forall (A : Type) (ops : Arith A) (pfloat : string -> option A)
  (st : pstate (A:=A)) (lines : list string),
  parse_lines ops pfloat st (filter is_coord_line lines) = parse_lines ops pfloat st lines.
Proof. exact (@header_filter). Qed.

(* every ATOM/HETATM line in the fixed-column layout of Atom.get_pqr_string
   whose five numbers fit their columns (8, 8, 8, 8, 7 characters; the '.' of a
   %8.3f coordinate at offset 4 of its field) is measured with exactly the five
   numbers written, whether or not neighbouring fields touch (full strength
   since finding C17-F11 was repaired).  [pfloat] is any float() that ignores
   leading blanks, as python's does. *)
Theorem C17_fixed_columns_measured : forall (A : Type) (pfloat : string -> option A)
  (head : string) (a0 a1 a2 a3 a4 : nat) (t0 t1 t2 t3 t4 trail : string) (x y z q r : A),
  String.length head = 30%nat -> is_coord_line head = true ->
  clean_tok t0 = true -> clean_tok t1 = true -> clean_tok t2 = true ->
  clean_tok t3 = true -> clean_tok t4 = true ->
  (a0 + String.length t0 = 8)%nat -> (a1 + String.length t1 = 8)%nat ->
  (a2 + String.length t2 = 8)%nat -> (a3 + String.length t3 = 8)%nat ->
  (a4 + String.length t4 = 7)%nat ->
  String.get 4 (repeat_char sp a0 ++ t0) = Some "."%char ->
  String.get 4 (repeat_char sp a1 ++ t1) = Some "."%char ->
  String.get 4 (repeat_char sp a2 ++ t2) = Some "."%char ->
  all_chars is_ws trail = true ->
  (forall n t, pfloat (repeat_char sp n ++ t)%string = pfloat t) ->
  pfloat t0 = Some x -> pfloat t1 = Some y -> pfloat t2 = Some z ->
  pfloat t3 = Some q -> pfloat t4 = Some r ->
  parse_line pfloat
    (head ++ (repeat_char sp a0 ++ t0) ++ (repeat_char sp a1 ++ t1) ++ (repeat_char sp a2 ++ t2) ++
     (repeat_char sp a3 ++ t3) ++ (repeat_char sp a4 ++ t4) ++ trail)%string
  = EvAtom (negb (prefix_of "ATOM" head)) (x, y, z, q, r).
Proof. exact (@parse_line_fixed_columns). Qed.

(* any layout (the --whitespace layout in particular): when each of the five
   fields after column 30 is kept apart from its predecessor by a blank or its
   own minus sign, the line is measured with exactly the five written numbers *)
Theorem C17_separated_fields_measured : forall (A : Type) (pfloat : string -> option A)
  (head : string) (a0 a1 a2 a3 a4 : nat) (t0 t1 t2 t3 t4 trail : string) (x y z q r : A),
  String.length head = 30%nat -> is_coord_line head = true ->
  clean_tok t0 = true -> clean_tok t1 = true -> clean_tok t2 = true ->
  clean_tok t3 = true -> clean_tok t4 = true ->
  ((1 <= a1)%nat \/ starts_dash t1 = true) -> ((1 <= a2)%nat \/ starts_dash t2 = true) ->
  ((1 <= a3)%nat \/ starts_dash t3 = true) -> ((1 <= a4)%nat \/ starts_dash t4 = true) ->
  all_chars is_ws trail = true ->
  pfloat t0 = Some x -> pfloat t1 = Some y -> pfloat t2 = Some z ->
  pfloat t3 = Some q -> pfloat t4 = Some r ->
  parse_line pfloat
    (head ++ repeat_char sp a0 ++ t0 ++ repeat_char sp a1 ++ t1 ++ repeat_char sp a2 ++ t2 ++
     repeat_char sp a3 ++ t3 ++ repeat_char sp a4 ++ t4 ++ trail)%string
  = EvAtom (negb (prefix_of "ATOM" head)) (x, y, z, q, r).
Proof. exact (@parse_line_separated). Qed.

(* whitespace-delimited records - the decimal points are not in the PDB
   coordinate columns 34/42/50, as in both --whitespace layouts: [render fs trail]
   writes the words of [fs], each after its number of blanks.  Whatever words
   precede the five numbers after column 30 (the insertion code of a
   --whitespace record, tokens pushed right by wide fields), the LAST five
   words are measured, provided every word after the first is kept apart from
   its predecessor by a blank or its own minus sign (finding C17-F13 repaired) *)
Theorem C17_ws_tail_measured : forall (A : Type) (pfloat : string -> option A)
  (head : string) (pre : list (nat * string)) (a0 a1 a2 a3 a4 : nat) (t0 t1 t2 t3 t4 trail : string)
  (x y z q r : A),
  let fs := (pre ++ [(a0, t0); (a1, t1); (a2, t2); (a3, t3); (a4, t4)])%list in
  String.length head = 30%nat -> is_coord_line head = true ->
  Forall (fun f => clean_tok (snd f) = true) fs ->
  Forall kept_apart (tl fs) ->
  all_chars is_ws trail = true ->
  coord_dots (head ++ render fs trail) = false ->
  pfloat t0 = Some x -> pfloat t1 = Some y -> pfloat t2 = Some z ->
  pfloat t3 = Some q -> pfloat t4 = Some r ->
  parse_line pfloat (head ++ render fs trail) = EvAtom (negb (prefix_of "ATOM" head)) (x, y, z, q, r).
Proof. exact (@parse_line_ws_tail). Qed.

(* non-vacuity: --whitespace records (a blank at every field boundary) with a
   letter / a digit / no insertion code at index 30 *)
Example C17_ws_tail_witness :
  let tab := [("1.000", Some (1 # 1)); ("2.000", Some (2 # 1)); ("3.000", Some (3 # 1)); ("1", Some (1 # 1));
              ("0.5000", Some (1 # 2)); ("1.5000", Some (3 # 2)); ("-10.5000", Some (-21 # 2));
              ("1000.000", Some (1000 # 1)); ("-999.999", Some (-999999 # 1000))]%string%Q in
  parse_line (pfloat_tab tab) "ATOM       1  CA   ALA A   12 B      1.000    2.000    3.000   0.5000  1.5000"
    = EvAtom false (1 # 1, 2 # 1, 3 # 1, 1 # 2, 3 # 2)%Q /\
  parse_line (pfloat_tab tab) "HETATM 12345  O    HOH A 1000 1   1000.000 -999.999    3.000 -10.5000  1.5000"
    = EvAtom true (1000 # 1, -999999 # 1000, 3 # 1, -21 # 2, 3 # 2)%Q /\
  parse_line (pfloat_tab tab) "ATOM       1  CA   ALA     12        1.000    2.000    3.000   0.5000  1.5000"
    = EvAtom false (1 # 1, 2 # 1, 3 # 1, 1 # 2, 3 # 2)%Q.
Proof. exact ws_tail_witness. Qed.

(* non-vacuity of C17_fixed_columns_measured: the former witness of C17-F11
   (y = 1000.000 fuses with x), a record whose five numbers all run together,
   both measured by a table-driven float() that strips leading blanks; and the
   first line is what the writer's column code (pqr_tail) produces *)
Example C17_fixed_columns_witness :
  let tab := [("12.345", Some (12345 # 1000)); ("1000.000", Some (1000 # 1)); ("5.000", Some (5 # 1));
              ("0.1000", Some (1 # 10)); ("1.5000", Some (3 # 2)); ("1234.567", Some (1234567 # 1000));
              ("100.0000", Some (100 # 1)); ("10.0000", Some (10 # 1))]%string%Q in
  parse_line (pfloat_tab tab) "ATOM      2  CA  ALA     2      12.3451000.000   5.000  0.1000 1.5000"
    = EvAtom false (12345 # 1000, 1000 # 1, 5 # 1, 1 # 10, 3 # 2)%Q /\
  parse_line (pfloat_tab tab) "HETATM    2  CA  ALA     2    1234.5671000.0001234.567100.000010.0000"
    = EvAtom true (1234567 # 1000, 1000 # 1, 1234567 # 1000, 100 # 1, 10 # 1)%Q /\
  ("ATOM      2  CA  ALA     2    " ++ pqr_tail "  12.345" "1000.000" "   5.000" "0.1000" "1.5000"
    = "ATOM      2  CA  ALA     2      12.3451000.000   5.000  0.1000 1.5000")%string /\
  (forall n t, pfloat_tab tab (repeat_char sp n ++ t)%string = pfloat_tab tab t).
Proof. split; [|split; [|split]]; [apply fixed_columns_witness .. | apply pfloat_tab_blanks]. Qed.

(* the input file written by io.dump_apbs opens with the read section naming
   Path(pqrpath).name, and for dir/name paths that is name *)
Theorem C17_input_names_pqr : forall (A : Type) (fmt4 : A -> string) (pqrpath : string) (sz : sizing (A:=A)),
  exists rest,
    dump_apbs_text fmt4 pqrpath sz =
    ("read" ++ nl ++ "    mol pqr " ++ basename pqrpath ++ nl ++ "end" ++ nl ++ rest)%string.
Proof. exact (@dump_apbs_names_pqr). Qed.

Theorem C17_basename : forall dir name : string,
  no_chr "/" name = true -> path_part_ok name = true ->
  basename (dir ++ "/" ++ name)%string = name /\ basename name = name.
Proof. exact basename_spec. Qed.

(* its ELEC section is mg-auto with dime = ngrid, cglen = coarse, fglen = fine,
   both centred on the molecule *)
Theorem C17_input_grid_lines : forall (A : Type) (fmt4 : A -> string) (pqrpath : string) (sz : sizing (A:=A)),
  exists pre post,
    dump_apbs_text fmt4 pqrpath sz =
    (pre ++ "    mg-auto" ++ nl ++ z3_line "dime" (s_ngrid sz) ++
    f3_line fmt4 "cglen" (s_coarse sz) ++ f3_line fmt4 "fglen" (s_fine sz) ++
    "    cgcent mol 1" ++ nl ++ "    fgcent mol 1" ++ nl ++ post)%string.
Proof. exact (@dump_apbs_grid_lines). Qed.

(* non-vacuity: a concrete run meeting every hypothesis above, with the values
   the real code prints for it *)
Example C17_nonvacuous :
  let p := mkP (17 # 10) 20 (1 # 2) 200 400 (1 # 10) (1 # 4) in
  let evs := [EvAtom false (0, 0, 0, 1 # 10, 3 # 2); EvCount false; EvSkip;
              EvAtom true (10, 10, 10, 1 # 10, 3 # 2)]%Q : list (event (A:=Q)) in
  exists st sz m,
    run_events QA (init_state QA) evs = Ok st /\ set_all QA p st = Ok sz /\
    report QA p st sz = Ok (Some m) /\
    (1 <= p_cfac p)%Q /\ (0 <= p_fadd p)%Q /\ (0 <= p_ofrac p)%Q /\
    gotatom st = 2%Z /\ gothet st = 1%Z /\
    box st = Some ((-3 # 2, -3 # 2, -3 # 2), (23 # 2, 23 # 2, 23 # 2))%Q /\
    s_ngrid sz = (33, 33, 33)%Z /\ s_center sz = (5, 5, 5)%Q /\
    s_fine sz = (221 # 10, 221 # 10, 221 # 10)%Q /\ s_coarse sz = (221 # 10, 221 # 10, 221 # 10)%Q /\
    s_nfocus sz = 2%Z /\ r_est_mb m = (898425 # 131072)%Q.
Proof. exact nonvacuous. Qed.

Print Assumptions C17_grid_form.
Print Assumptions C17_grid_form_set_all.
Print Assumptions C17_boxes_contain.
Print Assumptions C17_boxes_contain_guard_needed.
Print Assumptions C17_fine_le_coarse.
Print Assumptions C17_centered.
Print Assumptions C17_minmax_contains_all.
Print Assumptions C17_spheres_in_boxes.
Print Assumptions C17_double_parse_same_box.
Print Assumptions C17_smallest_terminates.
Print Assumptions C17_smallest_succeeds.
Print Assumptions C17_mem_estimate.
Print Assumptions C17_report_total.
Print Assumptions C17_report_parallel_witness.
Print Assumptions C17_header_lines_ignored.
Print Assumptions C17_header_lines_filtered.
Print Assumptions C17_fixed_columns_measured.
Print Assumptions C17_separated_fields_measured.
Print Assumptions C17_fixed_columns_witness.
Print Assumptions C17_ws_tail_measured.
Print Assumptions C17_ws_tail_witness.
Print Assumptions C17_input_names_pqr.
Print Assumptions C17_basename.
Print Assumptions C17_input_grid_lines.
Print Assumptions C17_nonvacuous.
