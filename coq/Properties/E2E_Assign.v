(* E2E_Assign - `pdb2pqr --assign-only --ff=<FF> [--drop-water] [--keep-chain] [--whitespace]`
   end to end, as the composition of the C07 model (ingest), set_termini (Model/CleanRun.v),
   the C02 state model (States.set_state / nuc_state), the C01 force-field map and
   assignment (ForceField.assign / lookup over Generated.FF_<ff>.built) and the C08
   formatter.  Property theorems only; model in Model/AssignRun.v, proofs in
   Proofs/AssignRun.v (nothing of C01 / C02 / C07 / C08 is re-proved).

   Objects:
     assign_only_run fok tab ct pt near r3 names unk m rn dropw keep ws lines
         = AOk chunks missed   the strings print_pqr writes + results["missed_residues"]
         | AErr cls            the exception class that leaves main_driver
       m = Forcefield(ff).map (Generated.FF_<ff>.built, equal to pdb2pqr's by C01_table_eq_<ff>);
       names/unk = the interner's string table (Generated/E2ENames.v);  ct = residue name ->
       python class;  rn = rendering oracles of '%.4f' (decimal ties, negative zero), compared
       with Python for every entry of the map on every run;  fok/r3/near/tab/pt as in E2E_Clean.
     named_residues ... dropw lines = inr ns   the residue objects after set_termini with the name
                                               apply_force_field looks each one up under
     ff_residues names unk ns                  the same residues as C01's interned residues
     sid names unk s                           id of string s (unk outside the closed universe)

   What the file contains: ONLY the atom lines of the matched atoms, TER between chains,
   TER END (print_pqr ignores the header and the "missed" lines: they only produce a log
   warning, so no REMARK line is written even with --include-header).

   FULL STATEMENT wanted: for all inputs, every coordinate record of the first model is
   written with exactly the parameters  lookup (built ff) (state name) (atom name)  or is
   in the missed list, exactly once, in order.  Proved for ALL inputs relative to the atoms
   after set_termini (E2E_assign_written_exact / _missed_exact / _partition_order); relative
   to the INPUT records only under C07's guard and a quiet set_termini
   (E2E_assign_faithful_partial) - without it set_termini deletes the 5' phosphate and
   renames terminal atoms (E2E_clean_run_faithful_refuted).  Not modelled: --ligand,
   --ffout, --userff/--usernames, --neutraln/--neutralc; float summation of Residue.charge
   is modelled by exact decimals (round4). *)
From Coq Require Import String List ZArith NArith PArith Bool Permutation.
From PV Require Import Lib.Strings Lib.Decimal Model.PdbRead Model.Group Model.PdbSpec Model.CleanRun
  Model.AssignRun Proofs.CleanRun Proofs.AssignRun.
From PV Require Model.PqrFormat Proofs.PqrFormat Model.ForceField Proofs.ForceField Model.States Proofs.States.
From PV Require Generated.E2ENames Generated.FF_AMBER.
Import ListNotations.
Local Open Scope string_scope.

Module MP := PV.Model.PqrFormat.
Module PP := PV.Proofs.PqrFormat.
Module FF := PV.Model.ForceField.
Module ST := PV.Model.States.
Module PST := PV.Proofs.States.

(* ALL inputs (default layout): the file is the atom lines of the hits in order; every hit
   is an atom of a residue after set_termini whose entry is exactly
   lookup m (id of the residue's state name) (id of the atom name); and within C08's column
   capacities each line reads back to its atom - charge and radius included
   (f_charge = Some (pf_of 4 (q4_charge rn e)), f_radius = Some (pf_of 4 (q4 rn (e_r e)))
   by definition of expected_fixed on conv_hit) *)
Theorem E2E_assign_written_exact :
  forall fok tab ct pt near (r3 : string -> MP.fx) names unk (m : FF.ffmap) rn dropw keep lines chunks missed,
  assign_only_run fok tab ct pt near r3 names unk m rn dropw keep false lines = AOk chunks missed ->
  exists ns hits,
    named_residues fok tab ct pt near dropw lines = inr ns /\
    hits = fst (FF.assign m (ff_residues names unk ns)) /\
    chunks = map MP.item_text (MP.print_items keep (map (conv_hit rn r3) hits)) /\
    (forall a e, In (a, e) hits ->
       exists t fn, In (t, fn) ns /\ In a (r_atoms (t_r t)) /\
         FF.lookup m (sid names unk fn) (sid names unk (a_name a)) = Some e) /\
    (PP.all_ok (MP.fixed_ok keep) 0 (map (conv_hit rn r3) hits) ->
       map MP.read_fixed (PP.atom_lines (MP.print_items keep (map (conv_hit rn r3) hits))) =
       map (MP.expected_fixed keep) (PP.renumbered 0 (map (conv_hit rn r3) hits))).
Proof. exact assign_written_exact. Qed.

(* ALL inputs, any flags: an atom is reported missing (and not written) only when the map
   has no entry under the residue's state name *)
Theorem E2E_assign_missed_exact :
  forall fok tab ct pt near (r3 : string -> MP.fx) names unk (m : FF.ffmap) rn dropw keep ws lines chunks missed,
  assign_only_run fok tab ct pt near r3 names unk m rn dropw keep ws lines = AOk chunks missed ->
  exists ns, named_residues fok tab ct pt near dropw lines = inr ns /\
    forall a, In a missed ->
      exists t fn, In (t, fn) ns /\ In a (r_atoms (t_r t)) /\
        FF.lookup m (sid names unk fn) (sid names unk (a_name a)) = None.
Proof. exact assign_missed_exact. Qed.

(* ALL inputs: written ++ missing is a permutation of the atoms after set_termini (none
   lost, none twice), and both lists keep the order of the atoms: the written ones are the
   atoms WITH an entry in order, the missing ones the atoms WITHOUT *)
Theorem E2E_assign_partition_order :
  forall fok tab ct pt near (r3 : string -> MP.fx) names unk (m : FF.ffmap) rn dropw keep ws lines chunks missed,
  assign_only_run fok tab ct pt near r3 names unk m rn dropw keep ws lines = AOk chunks missed ->
  exists ns, named_residues fok tab ct pt near dropw lines = inr ns /\
    Permutation (map fst (fst (FF.assign m (ff_residues names unk ns))) ++ missed) (atoms_of_named ns) /\
    map fst (fst (FF.assign m (ff_residues names unk ns))) = hit_atoms m (ff_residues names unk ns) /\
    missed = miss_atoms m (ff_residues names unk ns).
Proof. exact assign_partition_order. Qed.

(* the state name of an amino-acid residue is C02's: prefix(terminus flags) x
   base(side-chain state) of the descriptor read off the residue (C02_set_state_spec) *)
Theorem E2E_assign_names_are_C02 : forall (ct : ctab) (t : tres) (n : string),
  t_kind t = KAmino -> state_name ct t = SName n ->
  exists cn c b d sb,
    lookup (r_name (t_r t)) ct = Some cn /\ class_of_str cn = Some c /\
    base_of_str (r_name (t_r t)) = Some b /\ d = adesc_of c b t /\
    PST.spec_base d = Some sb /\ n = ST.show_sname (PST.spec_prefix d, sb).
Proof. exact names_are_C02. Qed.

(* relative to the INPUT: under C07's guard and a quiet set_termini every coordinate record
   C07's column read selects is either written with parameters or reported missing, once *)
Theorem E2E_assign_faithful_partial :
  forall fok tab ct pt near (r3 : string -> MP.fx) names unk (m : FF.ffmap) rn keep ws lines chunks missed,
  guard fok tab lines = true ->
  (forall rs, ingest fok tab false lines = Done rs -> termini_quiet tab pt near rs = true) ->
  assign_only_run fok tab ct pt near r3 names unk m rn false keep ws lines = AOk chunks missed ->
  exists ns, named_residues fok tab ct pt near false lines = inr ns /\
    Permutation (map a_src (map fst (fst (FF.assign m (ff_residues names unk ns))) ++ missed))
                (map strip (cols_read lines)).
Proof. exact assign_faithful_partial. Qed.

(* non-vacuity: pdb2pqr's own hydrogenated SER-HIS-ALA with a ligand and a water under
   AMBER: the residues are looked up as NSER, HID (HD1 only, set_hip), CALA, LIG, WAT; 44
   atom lines with the stated parameters, the two ligand atoms missing; the exact file *)
Example E2E_assign_nonvacuous :
  guard py_float_ok xtab ex_assign = true /\
  (exists chunks missed, ex_run = AOk chunks missed /\
     String.concat "" chunks = ex_assign_out /\
     map a_name missed = ["C1"; "O1"] /\ List.length chunks = 45) /\
  match named_residues py_float_ok xtab xct ept near_dec false ex_assign with
  | inr ns => map snd ns = ["NSER"; "HID"; "CALA"; "LIG"; "WAT"]
  | inl _ => False
  end.
Proof. exact ex_assign_ok. Qed.

Print Assumptions E2E_assign_written_exact.
Print Assumptions E2E_assign_missed_exact.
Print Assumptions E2E_assign_partition_order.
Print Assumptions E2E_assign_names_are_C02.
Print Assumptions E2E_assign_faithful_partial.
Print Assumptions E2E_assign_nonvacuous.
