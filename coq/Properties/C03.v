(* C03 - no atom is silently lost, duplicated or invented.
   Property theorems only; proofs are in Proofs/NameProtocol.v, Proofs/ForceField.v
   and the generated obligations in Generated/C03Table.v.

   Flip, Alcoholic and Water are proved for ARBITRARY residues (any ordered name list
   meeting the boolean well-formedness predicate wf_*, defined in Model/NameProtocol.v);
   the generated table instances meet wf_* (vm_compute obligation), so the *_table
   theorems are corollaries.  Carboxylic is proved per table instance only (reachable-set
   certificate): C03_carboxylic_names_partial.  Its parametric statement, still open:

     forall c base, wf_carb c base = true -> forall ord lf,
       proto_ok (carb_step c) (carb_complete c) (carb_expected c base) (carb_start c ord lf base) *)
From Coq Require Import String List Bool Permutation Arith.
From PV Require Import Lib.Strings Model.NameProtocol Proofs.NameProtocol Generated.C03Table Generated.C03Pipe.
From PV Require Model.ForceField Proofs.ForceField.
Import ListNotations.

(* soundness of a reachable-set certificate, for any machine *)
Theorem C03_certificate_sound : forall (L C : Type) (step : pst -> L -> outcome) (complete : pst -> C -> outcome)
  (labels : list L) (clabels : list C) (good : nl -> bool),
  (forall s l, step s l <> Disabled -> In l labels) ->
  (forall s c, complete s c <> Disabled -> In c clabels) ->
  forall S, closed L step labels S = true -> all_good C complete clabels good S = true ->
  forall s0, memP s0 S = true -> run_ok L C step complete good s0.
Proof. exact certificate_sound. Qed.

(* the boolean used by the certificates means: no duplicate name, exactly the
   expected set, no *FLIP / LP* / FLIP placeholder *)
Theorem C03_good_names_meaning : forall e l, good_names e l = true ->
  NoDup l /\ (forall x, In x l <-> In x e) /\ (forall x, In x l -> placeholder x = false).
Proof. exact good_names_spec. Qed.

(* ---- parametric: every residue ------------------------------------------------
   proto_ok step complete expected start  :=  start is not Error, and for EVERY label
   list ls: the run never reaches Error, and from wherever it stops complete yields
   names l with NoDup l, (In x l <-> In x expected), no placeholder in l. *)

(* Flip, any residue: base = its ordered atom names, mv = the moveable names.
   wf_flip: names distinct, mv distinct and a sub-list of base, no name of the residue is a
   placeholder (ends in "FLIP", starts with "LP", is "FLIP") - hence no xFLIP copy clashes. *)
Theorem C03_flip_names : forall base mv, wf_flip base mv = true ->
  proto_ok _ _ (flip_step mv) flip_complete base (flip_start base mv).
Proof. exact flip_names_param. Qed.

(* Alcoholic, any residue with hydroxyl/thiol hydrogen h (present or absent on entry).
   wf_alc: names distinct, no name is a placeholder (so LP1/LP2 are free and complete
   deletes nothing else), h is not a placeholder.  Expected: base without h, then h. *)
Theorem C03_alcoholic_names : forall h base, wf_alc h base = true ->
  proto_ok _ _ (alc_step h) (alc_complete h) (alc_expected h base) (alc_start h base).
Proof. exact alc_names_param. Qed.

(* Water, any residue.  wf_wat: names distinct, no placeholder, not (H2 without H1) -
   exactly the complement of C03_water_names_refuted.  Expected: base + missing H1, H2. *)
Theorem C03_water_names : forall base, wf_wat base = true ->
  proto_ok _ _ wat_step wat_complete (wat_expected base) (wat_start base).
Proof. exact wat_names_param. Qed.

(* ---- table instances (corollaries; instances_wf is a generated obligation) ------ *)

(* Flip (HIS family, ASN, GLN): any sequence of fix_flip(atom)/finalize, then complete *)
Theorem C03_flip_names_table : forall i mv, In i instances -> i_kind i = KFlip mv ->
  proto_ok _ _ (flip_step mv) flip_complete (i_expected i) (flip_start (i_base i) mv).
Proof. intros i mv. exact (flip_table_param instances i mv instances_wf). Qed.

(* Alcoholic (SER, THR, TYR, CYS): any sequence of try_donor/try_acceptor outcomes
   (incl. the undo of try_both) and finalize, then complete *)
Theorem C03_alcoholic_names_table : forall i h, In i instances -> i_kind i = KAlc h ->
  proto_ok _ _ (alc_step h) (alc_complete h) (i_expected i) (alc_start h (i_base i)).
Proof. intros i h. exact (alc_table_param instances i h instances_wf). Qed.

(* Water: O alone or O+H1+H2 on input *)
Theorem C03_water_names_table : forall i, In i instances -> i_kind i = KWat ->
  proto_ok _ _ wat_step wat_complete (i_expected i) (wat_start (i_base i)).
Proof. intros i. exact (wat_table_param instances i instances_wf). Qed.

(* Carboxylic (ASH, GLH), for every order / longflag decision of __init__, followed
   by HydrogenRoutines.cleanup.  Oracle assumption carried by the model: finalize's
   bestatom is None only when hlist is empty (some hydrogen has energy < 999.99). *)
Theorem C03_carboxylic_names_partial : forall i c ord lf, In i instances -> i_kind i = KCarb c ->
  proto_ok _ _ (carb_step c) (carb_complete c) (i_expected i) (carb_start c ord lf (i_base i)).
Proof. intros i c ord lf. exact (carb_table_sound instances i c ord lf instances_ok). Qed.

(* a residue without hydrogen-bond partners is finalized and, once fixed, never
   completed: its names are final already *)
Theorem C03_flip_nohb_table : forall i mv, In i instances -> i_kind i = KFlip mv ->
  match flip_start (i_base i) mv with
  | Next s0 _ => match flip_step mv s0 FFinalize with
                 | Next s' _ => fixed s' = true -> final_ok (i_expected i) (names s')
                 | Disabled => True
                 | Error => False
                 end
  | _ => True
  end.
Proof. intros i mv. exact (flip_nohb_sound instances i mv instances_ok). Qed.

Theorem C03_water_nohb_table : forall i, In i instances -> i_kind i = KWat ->
  match wat_start (i_base i) with
  | Next s0 _ => match wat_step s0 WFinalize with
                 | Next s' _ => fixed s' = true -> final_ok (i_expected i) (names s')
                 | Disabled => True
                 | Error => False
                 end
  | _ => True
  end.
Proof. intros i. exact (wat_nohb_sound instances i instances_ok). Qed.

(* FULL statement "every water ends as O, H1, H2" is REFUTED by the model for a water
   that arrives with H2 but without H1: try_donor and finalize both return as soon as
   H2 exists, so H1 is never built (the real run then aborts on the non-integral
   residue charge - loud, not silent; see notes/C03.md). *)
Theorem C03_water_names_refuted :
  exists s', wat_complete (mkP ["O"; "H2"]%string false [] []) tt = Next s' [] /\
             names s' = ["O"; "H2"]%string.
Proof. eexists. split; vm_compute; reflexivity. Qed.

(* ---- set_termini's split at hidden chain ends is the identity on the residues ----------
   for every chain and every marker predicate: the strands are non-empty and, concatenated in
   order, are exactly the chain - no residue lost, none in two strands *)
Theorem C03_split_hidden_ends : forall (A : Type) (mark : A -> bool) (rs : list A),
  concat (split_at A mark [] rs) = rs /\ (forall s, In s (split_at A mark [] rs) -> s <> []).
Proof. intros A mark rs. split; [exact (split_at_concat A mark rs [])|intros s; exact (split_at_nonempty A mark rs [] s)]. Qed.

(* ---- the residue constructors (Amino / Nucleic / WAT __init__) -----------------------
   For ALL record-name lists and ALL alias tables: the constructed atom list has no
   duplicate, it is exactly the first occurrences of the CANONICAL names in file order
   (so alt-loc copies, repeated records and alias + canonical spellings of one atom give
   one atom), and the object-list + dict residue built the same way is consistent and has
   those names. *)
Theorem C03_residue_init_nodup : forall alt recs,
  NoDup (residue_init alt recs) /\
  residue_init alt recs = first_occ [] (map (canon alt) recs) /\
  (forall x, In x (residue_init alt recs) <-> In x (map (canon alt) recs)).
Proof. exact residue_init_nodup. Qed.

Theorem C03_residue_init_layers : forall alt recs,
  WFres (res_init alt recs) /\ res_names (res_init alt recs) = residue_init alt recs.
Proof. exact res_init_agrees. Qed.

(* ---- why a name list may stand for a Residue -------------------------------------
   For every operation sequence whose guards hold in the name-list layer (create: name
   absent; remove: present; rename: old present, new absent), the object-list + dict layer
   (Residue.atoms + Residue.map) does not raise, dict and list stay consistent (no
   duplicate object, dict = exactly the (name, object) pairs of the list), both layers list
   the same names in the same order, names are distinct and has_atom = list membership. *)
Theorem C03_layers_agree : forall ops s w w', WFres s -> res_names s = w_names w ->
  apply_ops w ops = Some w' ->
  exists s', res_run s (map rop_of ops) = Some s' /\ WFres s' /\ res_names s' = w_names w' /\
             NoDup (w_names w') /\ (forall n, res_has n s' = mem n (w_names w')).
Proof. exact layers_agree. Qed.

(* ... and where the remove/rename guard fails on a consistent residue, Python raises KeyError *)
Theorem C03_layer_keyerror : forall s n x, WFres s -> ~ In n (res_names s) ->
  res_remove n s = None /\ res_rename n x s = None.
Proof. exact keyerror_ok. Qed.

(* ---- repair_heavy + add_hydrogens accounting ---------------------------------------
   For EVERY residue (any ordered names ns, any extra or missing atoms; no OP1/OP2 on a
   template that says O1P/O2P, no pseudo-atom name in ns) and EVERY reference name list: if
   the placement oracles never fail, repair_heavy (a) deletes and logs exactly the names
   outside the reference, in order, (b) does not raise, and after add_hydrogens the residue
   holds exactly the reference's atoms, no duplicate (N+1/C-1 are not atoms; HG of a bridged
   cysteine is not built).  Not proved: that fuel n*n+n+1 always suffices (OUT-OF-FUEL is
   never reached) - the loop is compared with the real one on every monitored run instead. *)
Theorem C03_repair_add_complete : forall ref ns ssb,
  NoDup ns -> NoDup ref -> mem "OP1" ns = false -> mem "OP2" ns = false ->
  (forall x, In x ns -> is_pseudo x = false) ->
  exists w logged, repair_heavy ref (fun _ _ => true) true ns = RDone w logged /\
    logged = filter (fun a => negb (mem a ref)) ns /\
    exists w', add_hydrogens ref (fun _ _ => true) ssb w = Some w' /\ NoDup (w_names w') /\
      forall x, In x (w_names w') <->
                In x ref /\ is_pseudo x = false /\ ~ (ssb = true /\ x = "HG"%string /\ ~ In x ns).
Proof. intros ref. exact (repair_add_complete ref (fun _ _ => true) (fun _ _ => true) (fun _ _ => eq_refl) (fun _ _ => eq_refl)). Qed.

(* generated: for every amino-acid template, with get_nearest_bonds as the feasibility test
   and no neighbouring residue, the seenmap loop rebuilds the whole side chain from
   N, CA, C, O, and any single missing side-chain atom: it cannot get stuck or raise *)
Theorem C03_rebuild_templates_table : forall t, In t rtemplates ->
  rebuild_from_backbone_ok t = true /\ rebuild_single_ok t = true.
Proof. intros t. exact (rtemplates_meaning rtemplates t rtemplates_all_ok). Qed.

(* ---- the third clause end to end, at name level ------------------------------------
   pipeline_names (Model/NameProtocol.v) composes, for ONE residue: terminus patches
   (removals + alternate-name renames) -> repair_heavy -> state patches -> add_hydrogens ->
   the optimisation protocol of the residue's kind -> cleanup -> HIS.set_state -> partition
   by "the force field has an entry".

   For ALL input name lists ns, terminus patch effects ps1 that apply without clash, final
   reference name lists ref, flags (any atom missing in the molecule, bridged cysteine,
   opt / noopt), protocol kinds k in {none, Flip mv, Alcoholic h, Water} with ANY label
   list ls (any oracle answers, any length), cleanup / histidine choices, placement oracles
   that never fail, and ANY force-field predicate entry that has an entry for every expected
   name (the residue is fully parameterised): if the boolean guards hold
     wf_input: names after the terminus patches and the reference names are distinct, no
               OP1/OP2, no N+1/C-1 among the atoms, no placeholder name in the reference,
               and (repair runs, or nothing is missing or extra),
     wf_kind:  moveable names distinct and among the reference atoms / h not a placeholder /
               not (H2 without H1),
   then the run ends (or the label list did not fit the protocol) with
     - final names = written names, none unassigned, no duplicate, no placeholder, and
       exactly the expected final-state set (reference atoms; + h; + H1,H2; minus the
       cleanup / set_state hydrogen),
     - the deletions logged by repair_heavy are exactly the names outside the reference,
     - every input heavy atom that belongs to the reference occurs exactly once.
   Not covered by this theorem: state patches after repair (ps2 = []), Carboxylic protocols
   (C03_pipeline_carboxylic_partial), nucleic OP1/OP2 aliasing. *)
Theorem C03_pipeline_written_set :
  forall (ref : nl) (feas hfeas : string -> nl -> bool) (entry : string -> bool),
  (forall a l, feas a l = true) -> (forall a l, hfeas a l = true) ->
  forall ps1 ns w0 am ssb opt k ls cl his,
  apply_patches ps1 (mkW ns []) = Some w0 ->
  let l0 := w_names w0 in
  let R := ref_atoms ref ssb l0 in
  wf_input ref l0 am = true ->
  wf_kind k R = true ->
  (forall c, cl = Some c -> is_hyd (c_h1 c) = true) ->
  (forall x, In x (expected_final opt k cl his R) -> entry x = true) ->
  pipeline_ok ref l0 am (expected_final opt k cl his R)
    (pipeline_names ref feas hfeas entry (MFull opt) ps1 [] am ssb k ls cl his ns).
Proof. exact pipeline_written_set. Qed.

(* the same with the predicate taken from C01's force-field map: entry x = "lookup m r (idf x)
   is defined", for any map m, residue key r and name interning idf *)
Theorem C03_pipeline_written_set_lookup :
  forall (m : ForceField.ffmap) (r : ForceField.id) (idf : string -> ForceField.id)
         (ref : nl) (feas hfeas : string -> nl -> bool),
  let entry := fun x => match ForceField.lookup m r (idf x) with Some _ => true | None => false end in
  (forall a l, feas a l = true) -> (forall a l, hfeas a l = true) ->
  forall ps1 ns w0 am ssb opt k ls cl his,
  apply_patches ps1 (mkW ns []) = Some w0 ->
  wf_input ref (w_names w0) am = true ->
  wf_kind k (ref_atoms ref ssb (w_names w0)) = true ->
  (forall c, cl = Some c -> is_hyd (c_h1 c) = true) ->
  (forall x, In x (expected_final opt k cl his (ref_atoms ref ssb (w_names w0))) ->
             exists e, ForceField.lookup m r (idf x) = Some e) ->
  pipeline_ok ref (w_names w0) am (expected_final opt k cl his (ref_atoms ref ssb (w_names w0)))
    (pipeline_names ref feas hfeas entry (MFull opt) ps1 [] am ssb k ls cl his ns).
Proof.
  intros m r idf ref feas hfeas entry Hf Hh ps1 ns w0 am ssb opt k ls cl his Hp Hw Hk Hc He.
  apply (pipeline_written_set ref feas hfeas entry Hf Hh ps1 ns w0 am ssb opt k ls cl his Hp Hw Hk Hc).
  intros x Hx. destruct (He x Hx) as [e E]. unfold entry. rewrite E. reflexivity.
Qed.

(* ---- instantiated on the six built-in force fields ----------------------------------
   pcases (Generated/C03Pipe.v): 53 concrete one-residue pipeline inputs observed on builder
   peptides (every optimisable residue type and ALA/GLY neighbours at N-terminal / internal /
   C-terminal position, charged and neutral termini, waters).  full_<FF> = the cases whose
   expected final names all have an entry in the map C01 builds from <FF>.DAT/.names
   (FF_<FF>.built) under the residue name the run ended with.  For each such case: every
   label list, every never-failing placement oracle -> the pipeline writes exactly the expected
   names (pipeline_ok as above). *)
Theorem C03_pipeline_written_set_AMBER : forall c, In c full_AMBER ->
  forall feas hfeas ls, (forall a x, feas a x = true) -> (forall a x, hfeas a x = true) ->
  exists w0 e, apply_patches (pc_ps1 c) (mkW (pc_ns c) []) = Some w0 /\ pcase_expected c = Some e /\
    pipeline_ok (pc_ref c) (w_names w0) false e
      (pipeline_names (pc_ref c) feas hfeas (entry_AMBER c) (MFull true) (pc_ps1 c) [] false (pc_ssb c)
                      (pc_kind c) ls (pc_cl c) (pc_his c) (pc_ns c)).
Proof. exact (pcases_ff_sound pcases entry_AMBER pcases_guard). Qed.

Theorem C03_pipeline_written_set_CHARMM : forall c, In c full_CHARMM ->
  forall feas hfeas ls, (forall a x, feas a x = true) -> (forall a x, hfeas a x = true) ->
  exists w0 e, apply_patches (pc_ps1 c) (mkW (pc_ns c) []) = Some w0 /\ pcase_expected c = Some e /\
    pipeline_ok (pc_ref c) (w_names w0) false e
      (pipeline_names (pc_ref c) feas hfeas (entry_CHARMM c) (MFull true) (pc_ps1 c) [] false (pc_ssb c)
                      (pc_kind c) ls (pc_cl c) (pc_his c) (pc_ns c)).
Proof. exact (pcases_ff_sound pcases entry_CHARMM pcases_guard). Qed.

Theorem C03_pipeline_written_set_PARSE : forall c, In c full_PARSE ->
  forall feas hfeas ls, (forall a x, feas a x = true) -> (forall a x, hfeas a x = true) ->
  exists w0 e, apply_patches (pc_ps1 c) (mkW (pc_ns c) []) = Some w0 /\ pcase_expected c = Some e /\
    pipeline_ok (pc_ref c) (w_names w0) false e
      (pipeline_names (pc_ref c) feas hfeas (entry_PARSE c) (MFull true) (pc_ps1 c) [] false (pc_ssb c)
                      (pc_kind c) ls (pc_cl c) (pc_his c) (pc_ns c)).
Proof. exact (pcases_ff_sound pcases entry_PARSE pcases_guard). Qed.

Theorem C03_pipeline_written_set_PEOEPB : forall c, In c full_PEOEPB ->
  forall feas hfeas ls, (forall a x, feas a x = true) -> (forall a x, hfeas a x = true) ->
  exists w0 e, apply_patches (pc_ps1 c) (mkW (pc_ns c) []) = Some w0 /\ pcase_expected c = Some e /\
    pipeline_ok (pc_ref c) (w_names w0) false e
      (pipeline_names (pc_ref c) feas hfeas (entry_PEOEPB c) (MFull true) (pc_ps1 c) [] false (pc_ssb c)
                      (pc_kind c) ls (pc_cl c) (pc_his c) (pc_ns c)).
Proof. exact (pcases_ff_sound pcases entry_PEOEPB pcases_guard). Qed.

Theorem C03_pipeline_written_set_SWANSON : forall c, In c full_SWANSON ->
  forall feas hfeas ls, (forall a x, feas a x = true) -> (forall a x, hfeas a x = true) ->
  exists w0 e, apply_patches (pc_ps1 c) (mkW (pc_ns c) []) = Some w0 /\ pcase_expected c = Some e /\
    pipeline_ok (pc_ref c) (w_names w0) false e
      (pipeline_names (pc_ref c) feas hfeas (entry_SWANSON c) (MFull true) (pc_ps1 c) [] false (pc_ssb c)
                      (pc_kind c) ls (pc_cl c) (pc_his c) (pc_ns c)).
Proof. exact (pcases_ff_sound pcases entry_SWANSON pcases_guard). Qed.

Theorem C03_pipeline_written_set_TYL06 : forall c, In c full_TYL06 ->
  forall feas hfeas ls, (forall a x, feas a x = true) -> (forall a x, hfeas a x = true) ->
  exists w0 e, apply_patches (pc_ps1 c) (mkW (pc_ns c) []) = Some w0 /\ pcase_expected c = Some e /\
    pipeline_ok (pc_ref c) (w_names w0) false e
      (pipeline_names (pc_ref c) feas hfeas (entry_TYL06 c) (MFull true) (pc_ps1 c) [] false (pc_ssb c)
                      (pc_kind c) ls (pc_cl c) (pc_his c) (pc_ns c)).
Proof. exact (pcases_ff_sound pcases entry_TYL06 pcases_guard). Qed.

(* non-vacuity: how many of the 53 cases are fully parameterised, per force field
   (AMBER, CHARMM, PARSE, PEOEPB, SWANSON, TYL06); only PARSE has the neutral termini *)
Example C03_pipeline_ff_nonvacuous : full_counts = [33; 33; 53; 33; 33; 33].
Proof. vm_compute. reflexivity. Qed.

(* --clean prints every atom left after the terminus patches and adds nothing *)
Theorem C03_pipeline_clean : forall ref feas hfeas entry ps1 ps2 ns w0 am ssb k ls cl his,
  apply_patches ps1 (mkW ns []) = Some w0 ->
  pipeline_names ref feas hfeas entry MClean ps1 ps2 am ssb k ls cl his ns = PRes (w_names w0) (w_names w0) [] [].
Proof. exact pipeline_clean. Qed.

(* --assign-only: written = the current names that have an entry, the rest is reported
   unassigned, nothing is added *)
Theorem C03_pipeline_assign_only : forall ref feas hfeas entry ps1 ps2 ns w0 w1 am ssb k ls cl his,
  apply_patches ps1 (mkW ns []) = Some w0 -> apply_patches ps2 w0 = Some w1 -> NoDup (w_names w1) ->
  exists final written un,
    pipeline_names ref feas hfeas entry MAssignOnly ps1 ps2 am ssb k ls cl his ns = PRes final written un [] /\
    final = his_names his (w_names w1) /\ written = filter entry final /\
    un = filter (fun x => negb (entry x)) final /\
    (forall x, In x written -> In x (w_names w1) /\ entry x = true).
Proof. exact pipeline_assign_only. Qed.

(* Carboxylic residues: the protocol stage of the pipeline, for every table instance (atom
   list as presented when the object is constructed), every order/longflag decision, every
   label list and finalize choice *)
Theorem C03_pipeline_carboxylic_partial : forall i c ord lf ls best, In i instances -> i_kind i = KCarb c ->
  match proto_stage (PCarb c ord lf) (LCarb ls best) (i_base i) with
  | POk l' => final_ok (i_expected i) l'
  | PDisabled => True
  | PErr => False
  end.
Proof. intros i c ord lf ls best. exact (pipeline_carb_stage instances i c ord lf ls best instances_ok). Qed.

(* apply_force_field: hits ++ misses is a permutation of the atoms (none lost, none
   duplicated); the printed list is exactly the hits *)
Theorem C03_partition_no_loss_no_dup : forall (A : Type) (m : ForceField.ffmap) (rs : list (@ForceField.res A)),
  Permutation (map fst (fst (ForceField.assign m rs)) ++ snd (ForceField.assign m rs)) (Proofs.ForceField.all_atoms rs) /\
  (NoDup (Proofs.ForceField.all_atoms rs) ->
   NoDup (map fst (fst (ForceField.assign m rs)) ++ snd (ForceField.assign m rs))).
Proof. exact partition_no_loss_no_dup. Qed.

(* generated: among the patches applied at run time only 5TERM removes heavy atoms,
   and exactly P, O1P, O2P; every other run-time patch removes hydrogens only *)
Theorem C03_patch_removals_table : forall p, In p patches -> p_runtime p = true ->
  (p_key p = "5TERM"%string -> NoDup (heavy_removed p) /\ forall x, In x (heavy_removed p) <-> In x phosphate) /\
  (p_key p <> "5TERM"%string -> forall x, In x (p_remove p) -> is_hyd x = true).
Proof. intros p. exact (patch_table_sound patches p patch_table_ok). Qed.

(* non-vacuity: the table has instances of all four kinds, a concrete GLN-like flip
   run with steps reaches complete with the expected names, and a run-time patch
   that removes heavy atoms exists *)
Example C03_nonvacuous :
  (existsb (fun i => match i_kind i with KFlip _ => true | _ => false end) instances &&
   existsb (fun i => match i_kind i with KAlc _ => true | _ => false end) instances &&
   existsb (fun i => match i_kind i with KWat => true | _ => false end) instances &&
   existsb (fun i => match i_kind i with KCarb _ => true | _ => false end) instances &&
   existsb (fun p => p_runtime p && negb (nl_eqb (heavy_removed p) [])) patches = true) /\
  (let base := ["N"; "CA"; "CG"; "OD1"; "ND2"; "HD21"]%string in
   let mv := ["OD1"; "ND2"; "HD21"]%string in
   match flip_start base mv with
   | Next s0 _ => match run _ (flip_step mv) s0 [FFix "ND2FLIP"%string; FFix "OD1FLIP"%string] with
                  | Next s _ => match flip_complete s tt with
                                | Next s' _ => names s' = ["N"; "CA"; "CG"; "OD1"; "ND2"; "HD21"]%string
                                | _ => False
                                end
                  | _ => False
                  end
   | _ => False
   end).
Proof. split; vm_compute; reflexivity. Qed.

(* non-vacuity of the repair theorems: the ARG template is in the table with a non-trivial
   nearest-bond list, and a residue given without CB, with an unknown atom, is repaired *)
Example C03_nonvacuous_repair :
  existsb (fun t => String.eqb (rt_name t) "ARG" && Nat.ltb 20 (List.length (rt_nearest t))) rtemplates = true /\
  show_rres (repair_heavy ["N"; "CA"; "C"; "O"; "CB"; "H"; "HA"]%string (fun _ _ => true) true
                          ["N"; "CA"; "XX"; "C"; "O"]%string)
  = "DONE N CA C O CB | logged XX"%string.
Proof. split; vm_compute; reflexivity. Qed.

(* (placed last: the Peoe modules are imported only from here on) *)
From PV Require Import Model.Peoe Proofs.Peoe.

(* "each atom is written exactly once" also with --ligand (C16's transfer theorem, proved
   at full strength after the ligand-loop fix): for all residue lists with distinct atom
   identities, no atom is written twice, and every ligand atom the MOL2 file names is
   written exactly once *)
Theorem C03_ligand_step_once :
  forall (P : Type) (lnames heavy : list string) (lig : list (string * P)) (rs : list (presidue P)),
  NoDup (map (@pa_id P) (all_atoms rs)) ->
  let names := lig_names lnames heavy lig rs in
  NoDup (map fst (written lnames heavy lig rs)) /\
  (forall r a p, In r rs -> selected names r = true ->
                 In a (het_prefix (pr_atoms r)) ->
                 lookup (pa_name a) lig = Some p ->
                 In (pa_id a, Some p) (written lnames heavy lig rs) /\
                 count_occ Nat.eq_dec (map fst (written lnames heavy lig rs)) (pa_id a) = 1%nat).
Proof. intros P lnames heavy lig rs Hnd. exact (proj2 (transfer_only_ligand_holds lig lnames heavy rs Hnd)). Qed.

Print Assumptions C03_certificate_sound.
Print Assumptions C03_good_names_meaning.
Print Assumptions C03_flip_names.
Print Assumptions C03_alcoholic_names.
Print Assumptions C03_water_names.
Print Assumptions C03_split_hidden_ends.
Print Assumptions C03_residue_init_nodup.
Print Assumptions C03_residue_init_layers.
Print Assumptions C03_layers_agree.
Print Assumptions C03_layer_keyerror.
Print Assumptions C03_flip_names_table.
Print Assumptions C03_alcoholic_names_table.
Print Assumptions C03_water_names_table.
Print Assumptions C03_carboxylic_names_partial.
Print Assumptions C03_flip_nohb_table.
Print Assumptions C03_water_nohb_table.
Print Assumptions C03_water_names_refuted.
Print Assumptions C03_repair_add_complete.
Print Assumptions C03_rebuild_templates_table.
Print Assumptions C03_pipeline_written_set.
Print Assumptions C03_pipeline_written_set_lookup.
Print Assumptions C03_pipeline_written_set_AMBER.
Print Assumptions C03_pipeline_written_set_CHARMM.
Print Assumptions C03_pipeline_written_set_PARSE.
Print Assumptions C03_pipeline_written_set_PEOEPB.
Print Assumptions C03_pipeline_written_set_SWANSON.
Print Assumptions C03_pipeline_written_set_TYL06.
Print Assumptions C03_pipeline_ff_nonvacuous.
Print Assumptions C03_pipeline_clean.
Print Assumptions C03_pipeline_assign_only.
Print Assumptions C03_pipeline_carboxylic_partial.
Print Assumptions C03_partition_no_loss_no_dup.
Print Assumptions C03_ligand_step_once.
Print Assumptions C03_patch_removals_table.
Print Assumptions C03_nonvacuous.
Print Assumptions C03_nonvacuous_repair.
