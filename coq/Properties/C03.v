(* C03 - no atom is silently lost, duplicated or invented.
   Property theorems only; proofs are in Proofs/NameProtocol.v, Proofs/ForceField.v
   and the generated obligations in Generated/C03Table.v.

   Scope of the four *_names_table theorems: for EVERY optimisation-object instance
   of the generated table (every optimisable residue type x chain position x
   terminus-charge option, atom names as the real pipeline presents them), for EVERY
   sequence of protocol steps and oracle answers (any length), the run never raises /
   never corrupts the residue, and completing it leaves exactly the expected names.
   The statement for residues OUTSIDE the table (arbitrary name lists) is not proved:

     forall base mv, NoDup base -> incl mv base -> (forall x, In x base -> placeholder x = false) ->
       proto_ok (flip_step mv) flip_complete base (flip_start base mv)      (and alike for the others)

   is left open; the table is regenerated from /repo on every run instead. *)
From Coq Require Import String List Bool Permutation.
From PV Require Import Lib.Strings Model.NameProtocol Proofs.NameProtocol Generated.C03Table.
From PV Require Model.ForceField Proofs.ForceField.
Import ListNotations.

(* soundness of a reachable-set certificate, for any machine *)
Theorem C03_certificate_sound : forall (L C : Type) (step : pst -> L -> outcome) (complete : pst -> C -> outcome)
  (labels : list L) (clabels : list C) (good : nl -> bool),
  (forall s l, step s l <> Disabled -> In l labels) ->
  (forall s c, complete s c <> Disabled -> In c clabels) ->
  forall S, closed L step labels S = true -> all_good C complete clabels good S = true ->
  forall s0, memP s0 S = true -> run_ok L C step complete good s0.
Proof. exact certificate_sound. Qed.

(* the boolean used by the certificates means: no duplicate name, exactly the
   expected set, no *FLIP / LP* / FLIP placeholder *)
Theorem C03_good_names_meaning : forall e l, good_names e l = true ->
  NoDup l /\ (forall x, In x l <-> In x e) /\ (forall x, In x l -> placeholder x = false).
Proof. exact good_names_spec. Qed.

(* Flip (HIS family, ASN, GLN): any sequence of fix_flip(atom)/finalize, then complete *)
Theorem C03_flip_names_table : forall i mv, In i instances -> i_kind i = KFlip mv ->
  proto_ok _ _ (flip_step mv) flip_complete (i_expected i) (flip_start (i_base i) mv).
Proof. intros i mv. exact (flip_table_sound instances i mv instances_ok). Qed.

(* Alcoholic (SER, THR, TYR, CYS): any sequence of try_donor/try_acceptor outcomes
   (incl. the undo of try_both) and finalize, then complete *)
Theorem C03_alcoholic_names_table : forall i h, In i instances -> i_kind i = KAlc h ->
  proto_ok _ _ (alc_step h) (alc_complete h) (i_expected i) (alc_start h (i_base i)).
Proof. intros i h. exact (alc_table_sound instances i h instances_ok). Qed.

(* Water: O alone or O+H1+H2 on input *)
Theorem C03_water_names_table : forall i, In i instances -> i_kind i = KWat ->
  proto_ok _ _ wat_step wat_complete (i_expected i) (wat_start (i_base i)).
Proof. intros i. exact (wat_table_sound instances i instances_ok). Qed.

(* Carboxylic (ASH, GLH), for every order / longflag decision of __init__, followed
   by HydrogenRoutines.cleanup.  Oracle assumption carried by the model: finalize's
   bestatom is None only when hlist is empty (some hydrogen has energy < 999.99). *)
Theorem C03_carboxylic_names_table : forall i c ord lf, In i instances -> i_kind i = KCarb c ->
  proto_ok _ _ (carb_step c) (carb_complete c) (i_expected i) (carb_start c ord lf (i_base i)).
Proof. intros i c ord lf. exact (carb_table_sound instances i c ord lf instances_ok). Qed.

(* a residue without hydrogen-bond partners is finalized and, once fixed, never
   completed: its names are final already *)
Theorem C03_flip_nohb_table : forall i mv, In i instances -> i_kind i = KFlip mv ->
  match flip_start (i_base i) mv with
  | Next s0 _ => match flip_step mv s0 FFinalize with
                 | Next s' _ => fixed s' = true -> final_ok (i_expected i) (names s')
                 | Disabled => True
                 | Error => False
                 end
  | _ => True
  end.
Proof. intros i mv. exact (flip_nohb_sound instances i mv instances_ok). Qed.

Theorem C03_water_nohb_table : forall i, In i instances -> i_kind i = KWat ->
  match wat_start (i_base i) with
  | Next s0 _ => match wat_step s0 WFinalize with
                 | Next s' _ => fixed s' = true -> final_ok (i_expected i) (names s')
                 | Disabled => True
                 | Error => False
                 end
  | _ => True
  end.
Proof. intros i. exact (wat_nohb_sound instances i instances_ok). Qed.

(* FULL statement "every water ends as O, H1, H2" is REFUTED by the model for a water
   that arrives with H2 but without H1: try_donor and finalize both return as soon as
   H2 exists, so H1 is never built (the real run then aborts on the non-integral
   residue charge - loud, not silent; see notes/C03.md). *)
Theorem C03_water_names_refuted :
  exists s', wat_complete (mkP ["O"; "H2"]%string false [] []) tt = Next s' [] /\
             names s' = ["O"; "H2"]%string.
Proof. eexists. split; vm_compute; reflexivity. Qed.

(* apply_force_field: hits ++ misses is a permutation of the atoms (none lost, none
   duplicated); the printed list is exactly the hits *)
Theorem C03_partition_no_loss_no_dup : forall (A : Type) (m : ForceField.ffmap) (rs : list (@ForceField.res A)),
  Permutation (map fst (fst (ForceField.assign m rs)) ++ snd (ForceField.assign m rs)) (Proofs.ForceField.all_atoms rs) /\
  (NoDup (Proofs.ForceField.all_atoms rs) ->
   NoDup (map fst (fst (ForceField.assign m rs)) ++ snd (ForceField.assign m rs))).
Proof. exact partition_no_loss_no_dup. Qed.

(* generated: among the patches applied at run time only 5TERM removes heavy atoms,
   and exactly P, O1P, O2P; every other run-time patch removes hydrogens only *)
Theorem C03_patch_removals_table : forall p, In p patches -> p_runtime p = true ->
  (p_key p = "5TERM"%string -> NoDup (heavy_removed p) /\ forall x, In x (heavy_removed p) <-> In x phosphate) /\
  (p_key p <> "5TERM"%string -> forall x, In x (p_remove p) -> is_hyd x = true).
Proof. intros p. exact (patch_table_sound patches p patch_table_ok). Qed.

(* non-vacuity: the table has instances of all four kinds, a concrete GLN-like flip
   run with steps reaches complete with the expected names, and a run-time patch
   that removes heavy atoms exists *)
Example C03_nonvacuous :
  (existsb (fun i => match i_kind i with KFlip _ => true | _ => false end) instances &&
   existsb (fun i => match i_kind i with KAlc _ => true | _ => false end) instances &&
   existsb (fun i => match i_kind i with KWat => true | _ => false end) instances &&
   existsb (fun i => match i_kind i with KCarb _ => true | _ => false end) instances &&
   existsb (fun p => p_runtime p && negb (nl_eqb (heavy_removed p) [])) patches = true) /\
  (let base := ["N"; "CA"; "CG"; "OD1"; "ND2"; "HD21"]%string in
   let mv := ["OD1"; "ND2"; "HD21"]%string in
   match flip_start base mv with
   | Next s0 _ => match run _ (flip_step mv) s0 [FFix "ND2FLIP"%string; FFix "OD1FLIP"%string] with
                  | Next s _ => match flip_complete s tt with
                                | Next s' _ => names s' = ["N"; "CA"; "CG"; "OD1"; "ND2"; "HD21"]%string
                                | _ => False
                                end
                  | _ => False
                  end
   | _ => False
   end).
Proof. split; vm_compute; reflexivity. Qed.

Print Assumptions C03_certificate_sound.
Print Assumptions C03_good_names_meaning.
Print Assumptions C03_flip_names_table.
Print Assumptions C03_alcoholic_names_table.
Print Assumptions C03_water_names_table.
Print Assumptions C03_carboxylic_names_table.
Print Assumptions C03_flip_nohb_table.
Print Assumptions C03_water_nohb_table.
Print Assumptions C03_water_names_refuted.
Print Assumptions C03_partition_no_loss_no_dup.
Print Assumptions C03_patch_removals_table.
Print Assumptions C03_nonvacuous.
