(* C18 - DX to cube conversion preserves the grid data.
   Property theorems only; proofs are in Proofs/DxCube.v. *)
From Coq Require Import String List ZArith.
From PV Require Import Lib.Strings Model.DxCube Proofs.DxCube.
Import ListNotations.

(* every value is written exactly once, in order, whatever n mod 6 is *)
Theorem C18_chunks_concat : forall (V : Type) (vals : list V),
  concat (map fst (chunks V vals)) = vals.
Proof. exact chunks_concat. Qed.

(* full lines hold 6 values and end in a newline; the last holds 1..6 *)
Theorem C18_chunks_shaped : forall (V : Type) (vals : list V),
  vals <> [] -> shaped V (chunks V vals).
Proof. exact chunks_shaped. Qed.

(* read_dx returns the data tokens in file order for any tokens-per-line *)
Theorem C18_read_dx_values : forall (V : Type) (pfloat : string -> V) (pint : string -> Z)
  (lines : list string) (d : dx V),
  read_dx V pfloat pint lines = Some d ->
  dx_values V d = map pfloat (data_tokens lines).
Proof. exact read_dx_values. Qed.

(* the value block of the cube tokenises to exactly the DX values *)
Theorem C18_body_tokens : forall (V : Type) (fmtE : V -> string) (core : V -> string),
  (forall v, tokens (fmtE v) = [core v]) ->
  forall d : dx V,
  tokens (String.concat "" (cube_body V fmtE d)) = map core (dx_values V d).
Proof. exact body_tokens. Qed.

(* signed counts, origin, spacings, one line per atom in order *)
Theorem C18_header_fields : forall (V : Type) (fmtF : V -> string) (fmtI : Z -> string)
  (coreF : V -> string) (coreI : Z -> string),
  (forall v, tokens (fmtF v) = [coreF v]) ->
  (forall n, tokens (fmtI n) = [coreI n]) ->
  forall comment (d : dx V) atoms hdr,
  cube_header V fmtF fmtI comment d atoms = Some hdr ->
  exists ox oy oz nx ny nz s0 s1 s2 rest,
    dx_origin V d = Some (ox, oy, oz) /\ dx_counts V d = Some (nx, ny, nz) /\
    dx_deltas V d = s0 :: s1 :: s2 :: rest /\
    map tokens (skipn 2 hdr) =
      ([coreI (Z.of_nat (length atoms)); coreF ox; coreF oy; coreF oz]
       :: (coreI (- nx)%Z :: map coreF [fst (fst s0); snd (fst s0); snd s0])
       :: (coreI (- ny)%Z :: map coreF [fst (fst s1); snd (fst s1); snd s1])
       :: (coreI (- nz)%Z :: map coreF [fst (fst s2); snd (fst s2); snd s2])
       :: map (atom_fields V coreF coreI) atoms).
Proof. exact header_fields. Qed.

(* composition read_dx ; write_cube *)
Theorem C18_dx2cube_values : forall (V : Type) (pfloat : string -> V) (pint : string -> Z)
  (fmtE fmtF : V -> string) (fmtI : Z -> string) (core : V -> string),
  (forall v, tokens (fmtE v) = [core v]) ->
  forall lines d comment atoms text,
  read_dx V pfloat pint lines = Some d ->
  write_cube V fmtE fmtF fmtI comment d atoms = Some text ->
  exists hdr,
    cube_header V fmtF fmtI comment d atoms = Some hdr /\
    length hdr = 6 + length atoms /\
    text = (String.concat "" hdr ++ String.concat "" (cube_body V fmtE d))%string /\
    tokens (String.concat "" (cube_body V fmtE d)) = map core (map pfloat (data_tokens lines)).
Proof. exact dx2cube_values. Qed.

(* non-vacuity: a formatter meeting the token hypothesis exists, and a
   7-value grid gives one full line and a last line of one value *)
Example C18_nonvacuous :
  (forall v : bool, tokens ((fun b : bool => if b then " 1.00000E+00 " else "-2.50000E-01 ")%string v)
                    = [(fun b : bool => if b then "1.00000E+00" else "-2.50000E-01")%string v]) /\
  map (fun c => (length (fst c), snd c)) (chunks bool [true; false; true; true; false; false; true])
  = [(6, true); (1, false)].
Proof. split; [intros [|]; reflexivity | reflexivity]. Qed.

Print Assumptions C18_chunks_concat.
Print Assumptions C18_chunks_shaped.
Print Assumptions C18_read_dx_values.
Print Assumptions C18_body_tokens.
Print Assumptions C18_header_fields.
Print Assumptions C18_dx2cube_values.
Print Assumptions C18_nonvacuous.
