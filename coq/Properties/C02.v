(* C02 - every residue carries the formal charge of its protonation and terminal state.
   Property theorems only; proofs are in Proofs/States.v, the per-force-field table
   facts (vm_compute) in Generated/StatesFF_<ff>.v (regenerated from /repo on every run).

   Units: charges are integers, value * 10^8 (SCALE); TOL = 10^5 = 1e-3 e.
   A state row (Generated/States.v arows) = (class, side-chain state, terminus kind) with
   the name the REAL set_state code gives it, its formal charge (chemistry table of the
   generator, cross-checked by proton counting) and the alternatives of its final atom set.
   "fully parameterised" = some alternative resolves completely: resolve = Some q.
   StatesFF_<ff>.built is by definition FF_<ff>.built, the map C01 proves equal to pdb2pqr's. *)
From Coq Require Import List Bool ZArith PArith String.
From PV Require Import Model.ForceField Model.States Proofs.States.
From PV Require Generated.States Generated.FF_AMBER Generated.StatesFF_AMBER Generated.FF_CHARMM Generated.StatesFF_CHARMM Generated.FF_PARSE Generated.StatesFF_PARSE Generated.FF_PEOEPB Generated.StatesFF_PEOEPB Generated.FF_SWANSON Generated.StatesFF_SWANSON Generated.FF_TYL06 Generated.StatesFF_TYL06.
Import ListNotations.

Theorem C02_state_charge_AMBER : forall r, In r States.arows ->
  forall alt q, In alt (ar_alts r) -> resolve StatesFF_AMBER.built (ar_ff r) alt = Some q ->
  (Z.abs (q - ar_formal r * SCALE) <= TOL)%Z.
Proof. exact (state_charge_all TOL _ _ _ eq_refl StatesFF_AMBER.state_charge). Qed.

Theorem C02_state_charge_CHARMM : forall r, In r States.arows ->
  forall alt q, In alt (ar_alts r) -> resolve StatesFF_CHARMM.built (ar_ff r) alt = Some q ->
  (Z.abs (q - ar_formal r * SCALE) <= TOL)%Z.
Proof. exact (state_charge_all TOL _ _ _ eq_refl StatesFF_CHARMM.state_charge). Qed.

(* FULL statement (refuted for PARSE, finding C02-F1):
     forall r, In r States.arows -> forall alt q, In alt (ar_alts r) ->
       resolve StatesFF_PARSE.built (ar_ff r) alt = Some q -> |q - formal| <= TOL
   fails exactly for the state NEUTRAL-CPRO (neutral C-terminal PRO, --neutralc) *)
Theorem C02_state_charge_PARSE_refuted :
  exists r alt q, In r States.arows /\ ar_name r = (PNC, B_PRO) /\ In alt (ar_alts r) /\
    resolve StatesFF_PARSE.built (ar_ff r) alt = Some q /\ (TOL < Z.abs (q - ar_formal r * SCALE))%Z.
Proof. exact (state_charge_refuted_named TOL _ _ _ _ (PNC, B_PRO) StatesFF_PARSE.state_charge StatesFF_PARSE.exceptions_named (or_introl eq_refl)). Qed.

Theorem C02_state_charge_PARSE_partial : forall r, In r States.arows -> ~ In (ar_name r) [(PNC, B_PRO)] ->
  forall alt q, In alt (ar_alts r) -> resolve StatesFF_PARSE.built (ar_ff r) alt = Some q ->
  (Z.abs (q - ar_formal r * SCALE) <= TOL)%Z.
Proof. exact (state_charge_named TOL _ _ _ _ StatesFF_PARSE.state_charge StatesFF_PARSE.exceptions_named). Qed.

Theorem C02_state_charge_PEOEPB : forall r, In r States.arows ->
  forall alt q, In alt (ar_alts r) -> resolve StatesFF_PEOEPB.built (ar_ff r) alt = Some q ->
  (Z.abs (q - ar_formal r * SCALE) <= TOL)%Z.
Proof. exact (state_charge_all TOL _ _ _ eq_refl StatesFF_PEOEPB.state_charge). Qed.

Theorem C02_state_charge_SWANSON : forall r, In r States.arows ->
  forall alt q, In alt (ar_alts r) -> resolve StatesFF_SWANSON.built (ar_ff r) alt = Some q ->
  (Z.abs (q - ar_formal r * SCALE) <= TOL)%Z.
Proof. exact (state_charge_all TOL _ _ _ eq_refl StatesFF_SWANSON.state_charge). Qed.

Theorem C02_state_charge_TYL06 : forall r, In r States.arows ->
  forall alt q, In alt (ar_alts r) -> resolve StatesFF_TYL06.built (ar_ff r) alt = Some q ->
  (Z.abs (q - ar_formal r * SCALE) <= TOL)%Z.
Proof. exact (state_charge_all TOL _ _ _ eq_refl StatesFF_TYL06.state_charge). Qed.

(* the name in every row is what the model of set_state computes on every route
   (descriptor) that reaches the state, and it is the interned force-field key *)
Theorem C02_names_model_eq_code : forall r, In r States.arows ->
  (forall d, In d (ar_descs r) -> ffname_of d = Some (ar_name r)) /\ ar_descs r <> [] /\
  assoc sname_eqb (ar_name r) States.name_ids = Some (ar_ff r).
Proof. exact (arows_names_sound _ _ States.arows_names_ok). Qed.

(* strands of ANY length >= 2 with free ends, one sugar type: exactly -1 per phosphate *)
Theorem C02_strand_AMBER : forall r5 mids r3 q5 qmids q3,
  In r5 States.nrows -> In r3 States.nrows ->
  Forall (fun r => In r States.nrows /\ is_internal r = true) mids ->
  is_five r5 = true -> is_three r3 = true -> pairable false r5 r3 = true ->
  In q5 (nrow_charges StatesFF_AMBER.built r5) -> In q3 (nrow_charges StatesFF_AMBER.built r3) ->
  Forall2 (fun r q => In q (nrow_charges StatesFF_AMBER.built r)) mids qmids ->
  phosphates (r5 :: mids ++ [r3]) = S (List.length mids) /\
  zsum (q5 :: qmids ++ [q3]) = (- Z.of_nat (phosphates (r5 :: mids ++ [r3])) * SCALE)%Z.
Proof. exact (strand_charge_exact _ _ StatesFF_AMBER.strand_exact). Qed.

(* strands of ANY length >= 2 with free ends, one sugar type: exactly -1 per phosphate *)
Theorem C02_strand_CHARMM : forall r5 mids r3 q5 qmids q3,
  In r5 States.nrows -> In r3 States.nrows ->
  Forall (fun r => In r States.nrows /\ is_internal r = true) mids ->
  is_five r5 = true -> is_three r3 = true -> pairable false r5 r3 = true ->
  In q5 (nrow_charges StatesFF_CHARMM.built r5) -> In q3 (nrow_charges StatesFF_CHARMM.built r3) ->
  Forall2 (fun r q => In q (nrow_charges StatesFF_CHARMM.built r)) mids qmids ->
  phosphates (r5 :: mids ++ [r3]) = S (List.length mids) /\
  zsum (q5 :: qmids ++ [q3]) = (- Z.of_nat (phosphates (r5 :: mids ++ [r3])) * SCALE)%Z.
Proof. exact (strand_charge_exact _ _ StatesFF_CHARMM.strand_exact). Qed.

(* strands of ANY length >= 2 with free ends, one sugar type: exactly -1 per phosphate *)
Theorem C02_strand_PARSE : forall r5 mids r3 q5 qmids q3,
  In r5 States.nrows -> In r3 States.nrows ->
  Forall (fun r => In r States.nrows /\ is_internal r = true) mids ->
  is_five r5 = true -> is_three r3 = true -> pairable false r5 r3 = true ->
  In q5 (nrow_charges StatesFF_PARSE.built r5) -> In q3 (nrow_charges StatesFF_PARSE.built r3) ->
  Forall2 (fun r q => In q (nrow_charges StatesFF_PARSE.built r)) mids qmids ->
  phosphates (r5 :: mids ++ [r3]) = S (List.length mids) /\
  zsum (q5 :: qmids ++ [q3]) = (- Z.of_nat (phosphates (r5 :: mids ++ [r3])) * SCALE)%Z.
Proof. exact (strand_charge_exact _ _ StatesFF_PARSE.strand_exact). Qed.

(* strands of ANY length >= 2 with free ends, one sugar type: exactly -1 per phosphate *)
Theorem C02_strand_TYL06 : forall r5 mids r3 q5 qmids q3,
  In r5 States.nrows -> In r3 States.nrows ->
  Forall (fun r => In r States.nrows /\ is_internal r = true) mids ->
  is_five r5 = true -> is_three r3 = true -> pairable false r5 r3 = true ->
  In q5 (nrow_charges StatesFF_TYL06.built r5) -> In q3 (nrow_charges StatesFF_TYL06.built r3) ->
  Forall2 (fun r q => In q (nrow_charges StatesFF_TYL06.built r)) mids qmids ->
  phosphates (r5 :: mids ++ [r3]) = S (List.length mids) /\
  zsum (q5 :: qmids ++ [q3]) = (- Z.of_nat (phosphates (r5 :: mids ++ [r3])) * SCALE)%Z.
Proof. exact (strand_charge_exact _ _ StatesFF_TYL06.strand_exact). Qed.

(* any mixture of DNA and RNA ends, code tolerance: within 1e-3 per phosphate *)
Theorem C02_strand_tolerance : forall tol mixed m rows, check_strand tol mixed m rows = true ->
  forall r5 mids r3 q5 qmids q3,
  In r5 rows -> In r3 rows -> Forall (fun r => In r rows /\ is_internal r = true) mids ->
  is_five r5 = true -> is_three r3 = true -> pairable mixed r5 r3 = true ->
  In q5 (nrow_charges m r5) -> In q3 (nrow_charges m r3) ->
  Forall2 (fun r q => In q (nrow_charges m r)) mids qmids ->
  let p := phosphates (r5 :: mids ++ [r3]) in
  p = S (List.length mids) /\
  (Z.abs (zsum (q5 :: qmids ++ [q3]) + Z.of_nat p * SCALE) <= Z.of_nat p * tol)%Z.
Proof. exact strand_charge. Qed.

Theorem C02_water_AMBER : exists q, resolve StatesFF_AMBER.built States.wat_id States.wat_atoms = Some q /\ (Z.abs q <= 0)%Z.
Proof. exact (water_sound _ _ _ _ StatesFF_AMBER.water_neutral). Qed.

Theorem C02_water_CHARMM : exists q, resolve StatesFF_CHARMM.built States.wat_id States.wat_atoms = Some q /\ (Z.abs q <= 0)%Z.
Proof. exact (water_sound _ _ _ _ StatesFF_CHARMM.water_neutral). Qed.

Theorem C02_water_PARSE : exists q, resolve StatesFF_PARSE.built States.wat_id States.wat_atoms = Some q /\ (Z.abs q <= 0)%Z.
Proof. exact (water_sound _ _ _ _ StatesFF_PARSE.water_neutral). Qed.

Theorem C02_water_PEOEPB : exists q, resolve StatesFF_PEOEPB.built States.wat_id States.wat_atoms = Some q /\ (Z.abs q <= 0)%Z.
Proof. exact (water_sound _ _ _ _ StatesFF_PEOEPB.water_neutral). Qed.

Theorem C02_water_SWANSON : exists q, resolve StatesFF_SWANSON.built States.wat_id States.wat_atoms = Some q /\ (Z.abs q <= 0)%Z.
Proof. exact (water_sound _ _ _ _ StatesFF_SWANSON.water_neutral). Qed.

Theorem C02_water_TYL06 : exists q, resolve StatesFF_TYL06.built States.wat_id States.wat_atoms = Some q /\ (Z.abs q <= 0)%Z.
Proof. exact (water_sound _ _ _ _ StatesFF_TYL06.water_neutral). Qed.

(* residues at exactly their formal charge: the total is the integer sum and the
   integrality guard (main.py / utilities.noninteger_charge) cannot fire *)
Theorem C02_total_is_sum : forall (rs : list (list Z)) (formals : list Z),
  Forall2 (fun r f => res_charge r = (f * SCALE)%Z) rs formals ->
  total_charge rs = (zsum formals * SCALE)%Z /\ guard_ok (total_charge rs) = true.
Proof. exact total_is_sum. Qed.

Theorem C02_total_within : forall e (rs : list (list Z)) (formals : list Z),
  Forall2 (fun r f => (Z.abs (res_charge r - f * SCALE) <= e)%Z) rs formals ->
  (Z.abs (total_charge rs - zsum formals * SCALE) <= Z.of_nat (List.length rs) * e)%Z.
Proof. exact total_within. Qed.

Theorem C02_guard_ok_near : forall t k, (Z.abs (t - k * SCALE) <= TOL)%Z -> guard_ok t = true.
Proof. exact guard_ok_near. Qed.

(* set_state, for ALL descriptors: name = prefix(terminus) x base(side-chain state) *)
Theorem C02_set_state_spec : forall d : adesc,
  ffname_of d = match spec_base d with Some b => Some (spec_prefix d, b) | None => None end.
Proof. exact set_state_spec. Qed.

(* wrinkle: a residue that is both chain ends is named as an N-terminus only *)
Theorem C02_one_residue_chain_gets_N_only : forall d p b,
  ad_nterm d = true -> ffname_of d = Some (p, b) -> p = PN \/ p = PNN.
Proof. exact one_residue_chain_gets_N_only. Qed.

(* wrinkle: an N-terminal PRO is NPRO whatever patch it carries (NEUTRAL-NTERM included) *)
Theorem C02_nterm_pro_is_NPRO : forall d,
  ad_cls d = C_PRO -> ad_nterm d = true -> ffname_of d = Some (PN, ad_name d).
Proof. exact nterm_pro_is_NPRO. Qed.

(* assign_termini on an untouched chain: cyclic -> nothing; otherwise exactly one N/5' flag
   (on the head, iff it is a polymer residue), exactly one C/3' flag (iff the search from the
   end reaches a polymer residue before an NH2/NME cap), one patch per flag *)
Theorem C02_assign_spec : forall o close l l',
  Forall unflagged l -> assign o close l = Some l' ->
  map rs_d l' = map rs_d l /\ chain_ok close l'.
Proof. exact assign_spec. Qed.

(* set_termini, ALL chain lists without hidden chain ends *)
Theorem C02_termini_once : forall o close chains out,
  termini o close chains = Done out ->
  no_hidden o close chains ->
  Forall2 (fun c oc => map rs_d oc = snd c /\ chain_ok close oc) chains out.
Proof. exact termini_once. Qed.

(* set_termini, ALL chain lists (hidden chain ends included).  FULL statement wanted:
   Forall (chain_ok close) out.  Proved part: residues preserved in order, N/5' flags on
   chain heads only, flags respect the residue kind.  Not proved in general: at most one
   C/3' flag per chain after a split, and the patch count (patches ARE re-applied). *)
Theorem C02_termini_general_partial : forall o close chains out,
  termini o close chains = Done out ->
  List.concat (map (map rs_d) out) = List.concat (map snd chains) /\
  Forall (fun c => Forall kind_ok c /\ Forall (fun r => nflag r = false) (tl c)) out.
Proof. exact termini_general. Qed.

(* wrinkle: after a hidden-chain-end split both halves have one N- and one C-terminus, and
   the terminus patches of the outer residues are applied twice *)
Example C02_hidden_end_example : show_termini (termini ex_opts (close_of []) ex_hidden)
  = "0:1000:NTERM+NTERM:B,1:0100:CTERM:B|2:1000:NTERM:A,3:0100:CTERM+CTERM:A"%string.
Proof. exact ex_hidden_termini. Qed.

(* non-vacuity: a three-chain list (peptide + water, cyclic tripeptide, blank-chain
   dinucleotide) meets no_hidden and gets the expected flags; the state table has a
   fully parameterised charged state; an AMBER strand resolves *)
Example C02_nonvacuous :
  no_hidden ex_opts ex_close ex_chains /\
  show_termini (termini ex_opts ex_close ex_chains)
    = "0:1000:NTERM:A,1:0000::A,2:0100:CTERM:A,3:0000::A|10:0000::B,11:0000::B,12:0000::B|20:0010:5TERM:C,21:0001:3TERM:C"%string /\
  StatesFF_AMBER.covered <> [] /\ StatesFF_AMBER.nucleic_covered <> [] /\
  StatesFF_PARSE.known_exceptions <> [].
Proof. split; [exact ex_no_hidden|]. split; [exact ex_termini|]. repeat split; discriminate. Qed.

Print Assumptions C02_state_charge_AMBER.
Print Assumptions C02_state_charge_CHARMM.
Print Assumptions C02_state_charge_PEOEPB.
Print Assumptions C02_state_charge_SWANSON.
Print Assumptions C02_state_charge_TYL06.
Print Assumptions C02_state_charge_PARSE_refuted.
Print Assumptions C02_state_charge_PARSE_partial.
Print Assumptions C02_names_model_eq_code.
Print Assumptions C02_strand_AMBER.
Print Assumptions C02_strand_CHARMM.
Print Assumptions C02_strand_PARSE.
Print Assumptions C02_strand_TYL06.
Print Assumptions C02_strand_tolerance.
Print Assumptions C02_water_AMBER.
Print Assumptions C02_water_CHARMM.
Print Assumptions C02_water_PARSE.
Print Assumptions C02_water_PEOEPB.
Print Assumptions C02_water_SWANSON.
Print Assumptions C02_water_TYL06.
Print Assumptions C02_total_is_sum.
Print Assumptions C02_total_within.
Print Assumptions C02_guard_ok_near.
Print Assumptions C02_set_state_spec.
Print Assumptions C02_one_residue_chain_gets_N_only.
Print Assumptions C02_nterm_pro_is_NPRO.
Print Assumptions C02_assign_spec.
Print Assumptions C02_termini_once.
Print Assumptions C02_termini_general_partial.
Print Assumptions C02_hidden_end_example.
Print Assumptions C02_nonvacuous.
