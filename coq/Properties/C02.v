(* C02 - every residue carries the formal charge of its protonation and terminal state.
   Property theorems only; proofs are in Proofs/States.v, the per-force-field table
   facts (vm_compute) in Generated/StatesFF_<ff>.v (regenerated from /repo on every run).

   Units: charges are integers, value * 10^8 (SCALE); TOL = 10^5 = 1e-3 e.
   A state row (Generated/States.v arows) = (class, side-chain state, terminus kind) with
   the name the REAL set_state code gives it, its formal charge (chemistry table of the
   generator, cross-checked by proton counting) and the alternatives of its final atom set.
   "fully parameterised" = some alternative resolves completely: resolve = Some q.
   StatesFF_<ff>.built is by definition FF_<ff>.built, the map C01 proves equal to pdb2pqr's. *)
From Coq Require Import List Bool ZArith PArith String Permutation.
From PV Require Import Model.ForceField Model.States Proofs.States.
From PV Require Generated.States Generated.FF_AMBER Generated.StatesFF_AMBER Generated.FF_CHARMM Generated.StatesFF_CHARMM Generated.FF_PARSE Generated.StatesFF_PARSE Generated.FF_PEOEPB Generated.StatesFF_PEOEPB Generated.FF_SWANSON Generated.StatesFF_SWANSON Generated.FF_TYL06 Generated.StatesFF_TYL06.
Import ListNotations.

Theorem C02_state_charge_AMBER : forall r, In r States.arows ->
  forall alt q, In alt (ar_alts r) -> resolve StatesFF_AMBER.built (ar_ff r) alt = Some q ->
  (Z.abs (q - ar_formal r * SCALE) <= TOL)%Z.
Proof. exact (state_charge_all TOL _ _ _ eq_refl StatesFF_AMBER.state_charge). Qed.

Theorem C02_state_charge_CHARMM : forall r, In r States.arows ->
  forall alt q, In alt (ar_alts r) -> resolve StatesFF_CHARMM.built (ar_ff r) alt = Some q ->
  (Z.abs (q - ar_formal r * SCALE) <= TOL)%Z.
Proof. exact (state_charge_all TOL _ _ _ eq_refl StatesFF_CHARMM.state_charge). Qed.

(* FULL statement (refuted for PARSE, finding C02-F1):
     forall r, In r States.arows -> forall alt q, In alt (ar_alts r) ->
       resolve StatesFF_PARSE.built (ar_ff r) alt = Some q -> |q - formal| <= TOL
   fails exactly for the state NEUTRAL-CPRO (neutral C-terminal PRO, --neutralc) *)
Theorem C02_state_charge_PARSE_refuted :
  exists r alt q, In r States.arows /\ ar_name r = (PNC, B_PRO) /\ In alt (ar_alts r) /\
    resolve StatesFF_PARSE.built (ar_ff r) alt = Some q /\ (TOL < Z.abs (q - ar_formal r * SCALE))%Z.
Proof. exact (state_charge_refuted_named TOL _ _ _ _ (PNC, B_PRO) StatesFF_PARSE.state_charge StatesFF_PARSE.exceptions_named (or_introl eq_refl)). Qed.

Theorem C02_state_charge_PARSE_partial : forall r, In r States.arows -> ~ In (ar_name r) [(PNC, B_PRO)] ->
  forall alt q, In alt (ar_alts r) -> resolve StatesFF_PARSE.built (ar_ff r) alt = Some q ->
  (Z.abs (q - ar_formal r * SCALE) <= TOL)%Z.
Proof. exact (state_charge_named TOL _ _ _ _ StatesFF_PARSE.state_charge StatesFF_PARSE.exceptions_named). Qed.

Theorem C02_state_charge_PEOEPB : forall r, In r States.arows ->
  forall alt q, In alt (ar_alts r) -> resolve StatesFF_PEOEPB.built (ar_ff r) alt = Some q ->
  (Z.abs (q - ar_formal r * SCALE) <= TOL)%Z.
Proof. exact (state_charge_all TOL _ _ _ eq_refl StatesFF_PEOEPB.state_charge). Qed.

Theorem C02_state_charge_SWANSON : forall r, In r States.arows ->
  forall alt q, In alt (ar_alts r) -> resolve StatesFF_SWANSON.built (ar_ff r) alt = Some q ->
  (Z.abs (q - ar_formal r * SCALE) <= TOL)%Z.
Proof. exact (state_charge_all TOL _ _ _ eq_refl StatesFF_SWANSON.state_charge). Qed.

Theorem C02_state_charge_TYL06 : forall r, In r States.arows ->
  forall alt q, In alt (ar_alts r) -> resolve StatesFF_TYL06.built (ar_ff r) alt = Some q ->
  (Z.abs (q - ar_formal r * SCALE) <= TOL)%Z.
Proof. exact (state_charge_all TOL _ _ _ eq_refl StatesFF_TYL06.state_charge). Qed.

(* the name in every row is what the model of set_state computes on every route
   (descriptor) that reaches the state, and it is the interned force-field key *)
Theorem C02_names_model_eq_code : forall r, In r States.arows ->
  (forall d, In d (ar_descs r) -> ffname_of d = Some (ar_name r)) /\ ar_descs r <> [] /\
  assoc sname_eqb (ar_name r) States.name_ids = Some (ar_ff r).
Proof. exact (arows_names_sound _ _ States.arows_names_ok). Qed.

(* strands of ANY length >= 2 with free ends, one sugar type: exactly -1 per phosphate *)
Theorem C02_strand_AMBER : forall r5 mids r3 q5 qmids q3,
  In r5 States.nrows -> In r3 States.nrows ->
  Forall (fun r => In r States.nrows /\ is_internal r = true) mids ->
  is_five r5 = true -> is_three r3 = true -> pairable false r5 r3 = true ->
  In q5 (nrow_charges StatesFF_AMBER.built r5) -> In q3 (nrow_charges StatesFF_AMBER.built r3) ->
  Forall2 (fun r q => In q (nrow_charges StatesFF_AMBER.built r)) mids qmids ->
  phosphates (r5 :: mids ++ [r3]) = S (List.length mids) /\
  zsum (q5 :: qmids ++ [q3]) = (- Z.of_nat (phosphates (r5 :: mids ++ [r3])) * SCALE)%Z.
Proof. exact (strand_charge_exact _ _ StatesFF_AMBER.strand_exact). Qed.

(* strands of ANY length >= 2 with free ends, one sugar type: exactly -1 per phosphate *)
Theorem C02_strand_CHARMM : forall r5 mids r3 q5 qmids q3,
  In r5 States.nrows -> In r3 States.nrows ->
  Forall (fun r => In r States.nrows /\ is_internal r = true) mids ->
  is_five r5 = true -> is_three r3 = true -> pairable false r5 r3 = true ->
  In q5 (nrow_charges StatesFF_CHARMM.built r5) -> In q3 (nrow_charges StatesFF_CHARMM.built r3) ->
  Forall2 (fun r q => In q (nrow_charges StatesFF_CHARMM.built r)) mids qmids ->
  phosphates (r5 :: mids ++ [r3]) = S (List.length mids) /\
  zsum (q5 :: qmids ++ [q3]) = (- Z.of_nat (phosphates (r5 :: mids ++ [r3])) * SCALE)%Z.
Proof. exact (strand_charge_exact _ _ StatesFF_CHARMM.strand_exact). Qed.

(* strands of ANY length >= 2 with free ends, one sugar type: exactly -1 per phosphate *)
Theorem C02_strand_PARSE : forall r5 mids r3 q5 qmids q3,
  In r5 States.nrows -> In r3 States.nrows ->
  Forall (fun r => In r States.nrows /\ is_internal r = true) mids ->
  is_five r5 = true -> is_three r3 = true -> pairable false r5 r3 = true ->
  In q5 (nrow_charges StatesFF_PARSE.built r5) -> In q3 (nrow_charges StatesFF_PARSE.built r3) ->
  Forall2 (fun r q => In q (nrow_charges StatesFF_PARSE.built r)) mids qmids ->
  phosphates (r5 :: mids ++ [r3]) = S (List.length mids) /\
  zsum (q5 :: qmids ++ [q3]) = (- Z.of_nat (phosphates (r5 :: mids ++ [r3])) * SCALE)%Z.
Proof. exact (strand_charge_exact _ _ StatesFF_PARSE.strand_exact). Qed.

(* strands of ANY length >= 2 with free ends, one sugar type: exactly -1 per phosphate *)
Theorem C02_strand_TYL06 : forall r5 mids r3 q5 qmids q3,
  In r5 States.nrows -> In r3 States.nrows ->
  Forall (fun r => In r States.nrows /\ is_internal r = true) mids ->
  is_five r5 = true -> is_three r3 = true -> pairable false r5 r3 = true ->
  In q5 (nrow_charges StatesFF_TYL06.built r5) -> In q3 (nrow_charges StatesFF_TYL06.built r3) ->
  Forall2 (fun r q => In q (nrow_charges StatesFF_TYL06.built r)) mids qmids ->
  phosphates (r5 :: mids ++ [r3]) = S (List.length mids) /\
  zsum (q5 :: qmids ++ [q3]) = (- Z.of_nat (phosphates (r5 :: mids ++ [r3])) * SCALE)%Z.
Proof. exact (strand_charge_exact _ _ StatesFF_TYL06.strand_exact). Qed.

(* any mixture of DNA and RNA ends, code tolerance: within 1e-3 per phosphate *)
Theorem C02_strand_tolerance : forall tol mixed m rows, check_strand tol mixed m rows = true ->
  forall r5 mids r3 q5 qmids q3,
  In r5 rows -> In r3 rows -> Forall (fun r => In r rows /\ is_internal r = true) mids ->
  is_five r5 = true -> is_three r3 = true -> pairable mixed r5 r3 = true ->
  In q5 (nrow_charges m r5) -> In q3 (nrow_charges m r3) ->
  Forall2 (fun r q => In q (nrow_charges m r)) mids qmids ->
  let p := phosphates (r5 :: mids ++ [r3]) in
  p = S (List.length mids) /\
  (Z.abs (zsum (q5 :: qmids ++ [q3]) + Z.of_nat p * SCALE) <= Z.of_nat p * tol)%Z.
Proof. exact strand_charge. Qed.

Theorem C02_water_AMBER : exists q, resolve StatesFF_AMBER.built States.wat_id States.wat_atoms = Some q /\ (Z.abs q <= 0)%Z.
Proof. exact (water_sound _ _ _ _ StatesFF_AMBER.water_neutral). Qed.

Theorem C02_water_CHARMM : exists q, resolve StatesFF_CHARMM.built States.wat_id States.wat_atoms = Some q /\ (Z.abs q <= 0)%Z.
Proof. exact (water_sound _ _ _ _ StatesFF_CHARMM.water_neutral). Qed.

Theorem C02_water_PARSE : exists q, resolve StatesFF_PARSE.built States.wat_id States.wat_atoms = Some q /\ (Z.abs q <= 0)%Z.
Proof. exact (water_sound _ _ _ _ StatesFF_PARSE.water_neutral). Qed.

Theorem C02_water_PEOEPB : exists q, resolve StatesFF_PEOEPB.built States.wat_id States.wat_atoms = Some q /\ (Z.abs q <= 0)%Z.
Proof. exact (water_sound _ _ _ _ StatesFF_PEOEPB.water_neutral). Qed.

Theorem C02_water_SWANSON : exists q, resolve StatesFF_SWANSON.built States.wat_id States.wat_atoms = Some q /\ (Z.abs q <= 0)%Z.
Proof. exact (water_sound _ _ _ _ StatesFF_SWANSON.water_neutral). Qed.

Theorem C02_water_TYL06 : exists q, resolve StatesFF_TYL06.built States.wat_id States.wat_atoms = Some q /\ (Z.abs q <= 0)%Z.
Proof. exact (water_sound _ _ _ _ StatesFF_TYL06.water_neutral). Qed.

(* residues at exactly their formal charge: the total is the integer sum and the
   integrality guard (main.py / utilities.noninteger_charge) cannot fire *)
Theorem C02_total_is_sum : forall (rs : list (list Z)) (formals : list Z),
  Forall2 (fun r f => res_charge r = (f * SCALE)%Z) rs formals ->
  total_charge rs = (zsum formals * SCALE)%Z /\ guard_ok (total_charge rs) = true.
Proof. exact total_is_sum. Qed.

Theorem C02_total_within : forall e (rs : list (list Z)) (formals : list Z),
  Forall2 (fun r f => (Z.abs (res_charge r - f * SCALE) <= e)%Z) rs formals ->
  (Z.abs (total_charge rs - zsum formals * SCALE) <= Z.of_nat (List.length rs) * e)%Z.
Proof. exact total_within. Qed.

Theorem C02_guard_ok_near : forall t k, (Z.abs (t - k * SCALE) <= TOL)%Z -> guard_ok t = true.
Proof. exact guard_ok_near. Qed.

(* set_state, for ALL descriptors: name = prefix(terminus) x base(side-chain state) *)
Theorem C02_set_state_spec : forall d : adesc,
  ffname_of d = match spec_base d with Some b => Some (spec_prefix d, b) | None => None end.
Proof. exact set_state_spec. Qed.

(* wrinkle: a residue that is both chain ends is named as an N-terminus only *)
Theorem C02_one_residue_chain_gets_N_only : forall d p b,
  ad_nterm d = true -> ffname_of d = Some (p, b) -> p = PN \/ p = PNN.
Proof. exact one_residue_chain_gets_N_only. Qed.

(* wrinkle: an N-terminal PRO is NPRO whatever patch it carries (NEUTRAL-NTERM included) *)
Theorem C02_nterm_pro_is_NPRO : forall d,
  ad_cls d = C_PRO -> ad_nterm d = true -> ffname_of d = Some (PN, ad_name d).
Proof. exact nterm_pro_is_NPRO. Qed.

(* assign_termini on an untouched chain: cyclic -> nothing; otherwise exactly one N/5' flag
   (on the head, iff it is a polymer residue), exactly one C/3' flag (iff the search from the
   end reaches a polymer residue before an NH2/NME cap), one patch per flag *)
Theorem C02_assign_spec : forall o close l l',
  Forall unflagged l -> assign o close l = Some l' ->
  map rs_d l' = map rs_d l /\ chain_ok close l'.
Proof. exact assign_spec. Qed.

(* set_termini, ALL chain lists without hidden chain ends *)
Theorem C02_termini_once : forall o close chains out,
  termini o close chains = Done out ->
  no_hidden o close chains ->
  Forall2 (fun c oc => map rs_d oc = snd c /\ chain_ok close oc) chains out.
Proof. exact termini_once. Qed.

(* set_termini, ALL chain lists, hidden chain ends (OXT / H3T inside a chain) included.
   Every resulting chain segment c satisfies
     seg_ok o c   = flags respect the residue kind /\ the SET of patches of each residue is the
                    function of its flags (patch_set_ok; the list may repeat a patch) /\
                    no residue but the head carries an N/5' flag /\
                    c_ok (rev c): a C/3' flag sits only on the last polymer residue, and only
                    if no NH2/NME cap follows it
     seg_full close c = if c is not cyclic: the head is flagged iff it is a polymer residue and
                    there is exactly one C/3' flag iff the search from the end finds a residue
   and the residues are neither lost, duplicated nor reordered by the splitting. *)
Theorem C02_termini_general : forall o close chains out,
  termini o close chains = Done out ->
  List.concat (map (map rs_d) out) = List.concat (map snd chains) /\
  Forall (seg_ok o) out /\ Forall (seg_full close) out.
Proof. exact termini_general. Qed.

Theorem C02_seg_ok_at_most_one : forall o c, seg_ok o c -> count nflag c <= 1 /\ count cflag c <= 1.
Proof. exact seg_ok_at_most_one. Qed.

(* one terminus STATE per flagged residue: whatever the patch list looks like (duplicates
   after re-application), the prefix set_state puts into ffname is term_prefix(flags, options,
   descriptor) *)
Theorem C02_state_from_flags : forall o r d,
  patch_set_ok o r -> rd_kind (rs_d r) = KAmino -> kind_ok r ->
  ad_nterm d = rs_n r -> ad_cterm d = rs_c r -> ad_patches d = rs_patches r ->
  spec_prefix d = term_prefix o (ad_cls d) r.
Proof. exact state_from_flags. Qed.

(* FULL statement wanted in addition: forall c in out, cyclic close c = true -> Forall unflagged c.
   REFUTED when a split is involved: a segment that is split off AFTER phase 1 flagged the
   whole (non-cyclic) chain keeps the N flag of its head although it is cyclic itself.
   Replayed on the real Biomolecule.set_termini (ring of 5 with OXT on residue 5, two more
   residues in the same chain): same flags; the pipeline then aborts ("Found gap in
   biomolecule structure for atom OXT"), so no PQR is written.  Without hidden chain ends the
   clause holds: C02_termini_once (chain_ok). *)
Theorem C02_termini_cyclic_after_split_refuted :
  exists o close chains out c, termini o close chains = Done out /\ In c out /\
    cyclic close c = true /\ hd_nflag c = true /\ ~ Forall unflagged c.
Proof. exact cyclic_after_split_refuted. Qed.

Example C02_cyclic_split_example : show_termini (termini ex_opts (close_of [(0, 2)]) ex_cyc_split)
  = "0:1000:NTERM:B,1:0000::B,2:0000::B|3:1000:NTERM:A,4:0100:CTERM+CTERM:A"%string.
Proof. exact ex_cyc_split_termini. Qed.

(* wrinkle: after a hidden-chain-end split both halves have one N- and one C-terminus, and
   the terminus patches of the outer residues are applied twice *)
Example C02_hidden_end_example : show_termini (termini ex_opts (close_of []) ex_hidden)
  = "0:1000:NTERM+NTERM:B,1:0100:CTERM:B|2:1000:NTERM:A,3:0100:CTERM+CTERM:A"%string.
Proof. exact ex_hidden_termini. Qed.

(* the closure test looks at the first N-bearing and the last C-bearing residue of the chain
   (fix C02-F3): a ring with waters listed before and after it under its chain id stays untouched *)
Example C02_ring_with_water_example : show_termini (termini ex_opts (close_of [(0, 2)]) ex_ring_water)
  = "9:0000::A,0:0000::A,1:0000::A,2:0000::A,3:0000::A"%string.
Proof. exact ex_ring_water_termini. Qed.

(* non-vacuity: a three-chain list (peptide + water, cyclic tripeptide, blank-chain
   dinucleotide) meets no_hidden and gets the expected flags; the state table has a
   fully parameterised charged state; an AMBER strand resolves *)
Example C02_nonvacuous :
  no_hidden ex_opts ex_close ex_chains /\
  show_termini (termini ex_opts ex_close ex_chains)
    = "0:1000:NTERM:A,1:0000::A,2:0100:CTERM:A,3:0000::A|10:0000::B,11:0000::B,12:0000::B|20:0010:5TERM:C,21:0001:3TERM:C"%string /\
  StatesFF_AMBER.covered <> [] /\ StatesFF_AMBER.nucleic_covered <> [] /\
  StatesFF_PARSE.known_exceptions <> [] /\ StatesFF_PARSE.neutral_pairs <> 0.
Proof. split; [exact ex_no_hidden|]. split; [exact ex_termini|]. repeat split; try discriminate; vm_compute; discriminate. Qed.

(* the integrality guard of main.non_trivial (sum of Residue.charge = 4-decimal roundings,
   then utilities.noninteger_charge) never raises on residues in table states of AMBER *)
Theorem C02_guard_never_fires_AMBER : forall units qs,
  Forall (unit_valid StatesFF_AMBER.built StatesFF_AMBER.known_exceptions States.arows States.nrows States.wat_id States.wat_atoms) units ->
  Permutation qs (List.concat (map unit_charges units)) ->
  (exists k, guard_total qs = (k * SCALE)%Z) /\
  guard_raises qs = false /\
  (forall t, (Z.abs (t - guard_total qs) <= TOL)%Z -> guard_ok t = true).
Proof. exact (guard_never_fires _ _ _ _ _ _ StatesFF_AMBER.state_exact StatesFF_AMBER.strand_exact StatesFF_AMBER.round4_facts StatesFF_AMBER.water_neutral). Qed.

(* the integrality guard of main.non_trivial (sum of Residue.charge = 4-decimal roundings,
   then utilities.noninteger_charge) never raises on residues in table states of CHARMM *)
Theorem C02_guard_never_fires_CHARMM : forall units qs,
  Forall (unit_valid StatesFF_CHARMM.built StatesFF_CHARMM.known_exceptions States.arows States.nrows States.wat_id States.wat_atoms) units ->
  Permutation qs (List.concat (map unit_charges units)) ->
  (exists k, guard_total qs = (k * SCALE)%Z) /\
  guard_raises qs = false /\
  (forall t, (Z.abs (t - guard_total qs) <= TOL)%Z -> guard_ok t = true).
Proof. exact (guard_never_fires _ _ _ _ _ _ StatesFF_CHARMM.state_exact StatesFF_CHARMM.strand_exact StatesFF_CHARMM.round4_facts StatesFF_CHARMM.water_neutral). Qed.

(* the integrality guard of main.non_trivial (sum of Residue.charge = 4-decimal roundings,
   then utilities.noninteger_charge) never raises on residues in table states of PARSE *)
Theorem C02_guard_never_fires_PARSE : forall units qs,
  Forall (unit_valid StatesFF_PARSE.built StatesFF_PARSE.known_exceptions States.arows States.nrows States.wat_id States.wat_atoms) units ->
  Permutation qs (List.concat (map unit_charges units)) ->
  (exists k, guard_total qs = (k * SCALE)%Z) /\
  guard_raises qs = false /\
  (forall t, (Z.abs (t - guard_total qs) <= TOL)%Z -> guard_ok t = true).
Proof. exact (guard_never_fires _ _ _ _ _ _ StatesFF_PARSE.state_exact StatesFF_PARSE.strand_exact StatesFF_PARSE.round4_facts StatesFF_PARSE.water_neutral). Qed.

(* the integrality guard of main.non_trivial (sum of Residue.charge = 4-decimal roundings,
   then utilities.noninteger_charge) never raises on residues in table states of PEOEPB *)
Theorem C02_guard_never_fires_PEOEPB : forall units qs,
  Forall (unit_valid StatesFF_PEOEPB.built StatesFF_PEOEPB.known_exceptions States.arows States.nrows States.wat_id States.wat_atoms) units ->
  Permutation qs (List.concat (map unit_charges units)) ->
  (exists k, guard_total qs = (k * SCALE)%Z) /\
  guard_raises qs = false /\
  (forall t, (Z.abs (t - guard_total qs) <= TOL)%Z -> guard_ok t = true).
Proof. exact (guard_never_fires _ _ _ _ _ _ StatesFF_PEOEPB.state_exact StatesFF_PEOEPB.strand_exact StatesFF_PEOEPB.round4_facts StatesFF_PEOEPB.water_neutral). Qed.

(* the integrality guard of main.non_trivial (sum of Residue.charge = 4-decimal roundings,
   then utilities.noninteger_charge) never raises on residues in table states of SWANSON *)
Theorem C02_guard_never_fires_SWANSON : forall units qs,
  Forall (unit_valid StatesFF_SWANSON.built StatesFF_SWANSON.known_exceptions States.arows States.nrows States.wat_id States.wat_atoms) units ->
  Permutation qs (List.concat (map unit_charges units)) ->
  (exists k, guard_total qs = (k * SCALE)%Z) /\
  guard_raises qs = false /\
  (forall t, (Z.abs (t - guard_total qs) <= TOL)%Z -> guard_ok t = true).
Proof. exact (guard_never_fires _ _ _ _ _ _ StatesFF_SWANSON.state_exact StatesFF_SWANSON.strand_exact StatesFF_SWANSON.round4_facts StatesFF_SWANSON.water_neutral). Qed.

(* the integrality guard of main.non_trivial (sum of Residue.charge = 4-decimal roundings,
   then utilities.noninteger_charge) never raises on residues in table states of TYL06 *)
Theorem C02_guard_never_fires_TYL06 : forall units qs,
  Forall (unit_valid StatesFF_TYL06.built StatesFF_TYL06.known_exceptions States.arows States.nrows States.wat_id States.wat_atoms) units ->
  Permutation qs (List.concat (map unit_charges units)) ->
  (exists k, guard_total qs = (k * SCALE)%Z) /\
  guard_raises qs = false /\
  (forall t, (Z.abs (t - guard_total qs) <= TOL)%Z -> guard_ok t = true).
Proof. exact (guard_never_fires _ _ _ _ _ _ StatesFF_TYL06.state_exact StatesFF_TYL06.strand_exact StatesFF_TYL06.round4_facts StatesFF_TYL06.water_neutral). Qed.

(* PARSE (the only force field main.check_options accepts --neutraln/--neutralc for): a neutral
   terminus state carries exactly one unit less (N) / more (C) than the charged one *)
Theorem C02_neutral_shift_PARSE : forall r1 r2 s, In r1 States.arows -> In r2 States.arows ->
  ar_cls r1 = ar_cls r2 -> ar_state r1 = ar_state r2 -> ~ In (ar_key r2) StatesFF_PARSE.known_exceptions ->
  shift_of (ar_term r1) (ar_term r2) = Some s ->
  forall q1 q2, In q1 (row_charges StatesFF_PARSE.built r1) -> In q2 (row_charges StatesFF_PARSE.built r2) ->
  q2 = (q1 + s * SCALE)%Z.
Proof. exact (neutral_shift_table _ _ _ StatesFF_PARSE.neutral_shift). Qed.

Theorem C02_neutral_absent_AMBER : forall r, In r States.arows -> is_neutral_name (ar_name r) = true ->
  forall alt a, In alt (ar_alts r) -> In a alt -> lookup StatesFF_AMBER.built (ar_ff r) a = None.
Proof. exact (neutral_absent_table _ _ StatesFF_AMBER.neutral_absent). Qed.

Theorem C02_neutral_absent_CHARMM : forall r, In r States.arows -> is_neutral_name (ar_name r) = true ->
  forall alt a, In alt (ar_alts r) -> In a alt -> lookup StatesFF_CHARMM.built (ar_ff r) a = None.
Proof. exact (neutral_absent_table _ _ StatesFF_CHARMM.neutral_absent). Qed.

Theorem C02_neutral_absent_PEOEPB : forall r, In r States.arows -> is_neutral_name (ar_name r) = true ->
  forall alt a, In alt (ar_alts r) -> In a alt -> lookup StatesFF_PEOEPB.built (ar_ff r) a = None.
Proof. exact (neutral_absent_table _ _ StatesFF_PEOEPB.neutral_absent). Qed.

Theorem C02_neutral_absent_SWANSON : forall r, In r States.arows -> is_neutral_name (ar_name r) = true ->
  forall alt a, In alt (ar_alts r) -> In a alt -> lookup StatesFF_SWANSON.built (ar_ff r) a = None.
Proof. exact (neutral_absent_table _ _ StatesFF_SWANSON.neutral_absent). Qed.

Theorem C02_neutral_absent_TYL06 : forall r, In r States.arows -> is_neutral_name (ar_name r) = true ->
  forall alt a, In alt (ar_alts r) -> In a alt -> lookup StatesFF_TYL06.built (ar_ff r) a = None.
Proof. exact (neutral_absent_table _ _ StatesFF_TYL06.neutral_absent). Qed.

Print Assumptions C02_state_charge_AMBER.
Print Assumptions C02_state_charge_CHARMM.
Print Assumptions C02_state_charge_PEOEPB.
Print Assumptions C02_state_charge_SWANSON.
Print Assumptions C02_state_charge_TYL06.
Print Assumptions C02_state_charge_PARSE_refuted.
Print Assumptions C02_state_charge_PARSE_partial.
Print Assumptions C02_names_model_eq_code.
Print Assumptions C02_strand_AMBER.
Print Assumptions C02_strand_CHARMM.
Print Assumptions C02_strand_PARSE.
Print Assumptions C02_strand_TYL06.
Print Assumptions C02_strand_tolerance.
Print Assumptions C02_water_AMBER.
Print Assumptions C02_water_CHARMM.
Print Assumptions C02_water_PARSE.
Print Assumptions C02_water_PEOEPB.
Print Assumptions C02_water_SWANSON.
Print Assumptions C02_water_TYL06.
Print Assumptions C02_total_is_sum.
Print Assumptions C02_total_within.
Print Assumptions C02_guard_ok_near.
Print Assumptions C02_set_state_spec.
Print Assumptions C02_one_residue_chain_gets_N_only.
Print Assumptions C02_nterm_pro_is_NPRO.
Print Assumptions C02_assign_spec.
Print Assumptions C02_termini_once.
Print Assumptions C02_termini_general.
Print Assumptions C02_seg_ok_at_most_one.
Print Assumptions C02_state_from_flags.
Print Assumptions C02_termini_cyclic_after_split_refuted.
Print Assumptions C02_cyclic_split_example.
Print Assumptions C02_hidden_end_example.
Print Assumptions C02_ring_with_water_example.
Print Assumptions C02_nonvacuous.
Print Assumptions C02_guard_never_fires_AMBER.
Print Assumptions C02_guard_never_fires_CHARMM.
Print Assumptions C02_guard_never_fires_PARSE.
Print Assumptions C02_guard_never_fires_PEOEPB.
Print Assumptions C02_guard_never_fires_SWANSON.
Print Assumptions C02_guard_never_fires_TYL06.
Print Assumptions C02_neutral_shift_PARSE.
Print Assumptions C02_neutral_absent_AMBER.
Print Assumptions C02_neutral_absent_CHARMM.
Print Assumptions C02_neutral_absent_PEOEPB.
Print Assumptions C02_neutral_absent_SWANSON.
Print Assumptions C02_neutral_absent_TYL06.
