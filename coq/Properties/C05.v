(* C05 - atoms added by pdb2pqr have template-consistent bonded geometry.
   Property theorems only.  Proofs: Proofs/Placement.v (on top of Proofs/Quatfit.v
   = C15 and Proofs/Moves.v = C04); generated tables Generated/MovesTable.v and
   Generated/C05Table.v are rebuilt from /repo's topology files on every run.

   Conventions (Model/Quatfit.v, real-number instance RA): [rigid M T x] = T + rotmol(M) x;
   [dist2] = squared distance; [rotate_about c s o a p] = what Residue.rotate_tetrahedral /
   Debump.set_dihedral_angle do to one moved atom p (origin o, axis o -> a, cos c, sin s);
   [eigen_contract] = the Jacobi solver returned a unit maximiser (checked per call at run
   time by C15's monitor, a hypothesis here).

   NOT proved (explored by the search of harness/props/c05.py, labelled so there):
   "within the distortion already present in the input" (how far the placed atom is off
   when the structure neighbours are NOT an exact image of the template's), the staggering
   of LEU/ILE methyls, the under-determined 2-point fits (find_coordinates 2), float rounding. *)
From Coq Require Import Reals List ZArith PArith Bool String.
From PV Require Import Model.ForceField Model.Topology Model.Moves Model.Quatfit Model.Placement.
From PV Require Import Proofs.Moves Proofs.Quatfit Proofs.Placement.
From PV Require Import Generated.Topology Generated.MovesTable Generated.C05Table.
Import ListNotations.

(* the n-point superposition used by add_hydrogens / repair_heavy / switchstate: if the
   structure neighbours are an exact proper rigid image of the template's (>= 3,
   non-collinear) the placed atom has EXACTLY the template's distance to every one of them
   - so the template bond length to its parent - and the template's bond angles (cosine
   numerator and both side lengths), for ALL templates, points, rotations, translations *)
Theorem C05_fit3_exact_geometry : forall (defs : list (pt (A := R))) (p : quat (A := R)) (T atom : pt (A := R)),
  qnorm2 RA p = 1%R -> noncollinear defs ->
  let image := rigid (q2mat RA p) T in
  let refs := map image defs in
  let defrel := snd (center RA defs) in
  let refrel := snd (center RA refs) in
  eigen_contract defrel refrel (qtrfit_quat RA NROT defrel refrel) ->
  exists X, find_coordinates RA (List.length defs) refs defs atom = Some X /\
    (forall d, dist2 X (image d) = dist2 atom d) /\
    (forall d d', dist2 (image d') (image d) = dist2 d' d /\
                  dot3 RA (psub RA X (image d)) (psub RA (image d') (image d))
                  = dot3 RA (psub RA atom d) (psub RA d' d)).
Proof. exact fit3_exact_geometry. Qed.

(* rebuild_tetrahedral / get_positions_with_two_bonds / get_position_with_three_bonds:
   rotating an existing atom h by +-120 degrees about the bond o -> a (a = its parent)
   keeps the bond length h - a and the distance h - o (bond angle h - a - o) and lands at
   squared distance 3 rho^2 from h (rho = distance of h to the axis): no coincident atoms *)
Theorem C05_tetra_120 : forall (c s : R) (o a h : pt (A := R)),
  dot3 RA (psub RA a o) (psub RA a o) <> 0%R -> c = (- (1 / 2))%R -> (s * s = 3 / 4)%R ->
  let h' := rotate_about RA c s o a h in
  let l := normalize RA (psub RA a o) in
  let rho2 := (dot3 RA (psub RA h o) (psub RA h o) - dot3 RA l (psub RA h o) * dot3 RA l (psub RA h o))%R in
  dist2 h' a = dist2 h a /\ dist2 h' o = dist2 h o /\
  dist2 h' h = (3 * rho2)%R /\ ((rho2 > 0)%R -> h' <> h).
Proof. exact tetra_120_about. Qed.

(* rebuild_tetrahedral with two of three hydrogens present (numbonds = 3) and
   get_position_with_three_bonds: n1 = h0 rotated by 120 degrees, n2 = n1 rotated again;
   n1 is taken unless the second existing hydrogen is within thr (0.1 A) of it.  If the two
   existing hydrogens are 120 degrees apart about the bond (h1 on n1 or on n2) and further
   than thr from each other, the new atom is at squared distance 3 rho^2 from BOTH existing
   hydrogens (never on top of either), at h0's bond length from the parent a and h0's
   distance from the axis atom o (bond angle) *)
Theorem C05_tetra3_choice : forall (thr c s : R) (o a h0 h1 : pt (A := R)),
  dot3 RA (psub RA a o) (psub RA a o) <> 0%R -> c = (- (1 / 2))%R -> (s * s = 3 / 4)%R ->
  let n1 := rotate_about RA c s o a h0 in
  let n2 := rotate_about RA c s o a n1 in
  let l := normalize RA (psub RA a o) in
  let rho2 := (dot3 RA (psub RA h0 o) (psub RA h0 o) - dot3 RA l (psub RA h0 o) * dot3 RA l (psub RA h0 o))%R in
  (0 < thr)%R -> (thr * thr < 3 * rho2)%R -> (h1 = n1 \/ h1 = n2) ->
  let x := rebuild3 RA thr c s o a h0 h1 in
  dist2 x h0 = (3 * rho2)%R /\ dist2 x h1 = (3 * rho2)%R /\ x <> h0 /\ x <> h1 /\
  dist2 x a = dist2 h0 a /\ dist2 x o = dist2 h0 o.
Proof. exact tetra3_choice. Qed.

(* every optimisation move is a rotation about a bond through the parent a: it keeps
   the distance to a, the distance to the other axis atom o, the bond angle p - a - o,
   and all distances between atoms moved together - for ALL points and ALL angles *)
Theorem C05_rotation_keeps_parent_geometry : forall (c s : R) (o a p : pt (A := R)),
  dot3 RA (psub RA a o) (psub RA a o) <> 0%R -> (c * c + s * s = 1)%R ->
  let p' := rotate_about RA c s o a p in
  dist2 p' a = dist2 p a /\ dist2 p' o = dist2 p o /\
  dot3 RA (psub RA p' a) (psub RA o a) = dot3 RA (psub RA p a) (psub RA o a) /\
  (forall q, dist2 p' (rotate_about RA c s o a q) = dist2 p q).
Proof. exact rotation_keeps_parent_geometry. Qed.

(* which template neighbours add_hydrogens / repair_heavy hand to the fit (name level, ANY bond
   graph and presence predicate): exactly three names, each a present atom of get_nearest_bonds,
   namely the first three present ones ... *)
Theorem C05_fit_neighbours : forall (g : graph) (present : id -> bool) (x : id) (l : list id),
  fit_names g present x = Some l ->
  List.length l = 3%nat /\
  (forall b, In b l -> In b (nearest_bonds g x) /\ present b = true) /\
  l = firstn 3 (filter present (nearest_bonds g x)).
Proof. exact fit_neighbours_sound. Qed.

(* ... so with an absent peptide pointer (chain break, terminus) the pseudo atom N+1 / C-1 is
   never used as a neighbour *)
Theorem C05_fit_skips_absent_pointer : forall (g : graph) (np1 cm1 : id) (has_pn has_pc : bool) (atoms : list id) (x : id) (l : list id),
  fit_names g (present_in np1 cm1 has_pn has_pc atoms) x = Some l ->
  (has_pn = false -> ~ In np1 l) /\ (has_pc = false -> np1 <> cm1 -> ~ In cm1 l).
Proof. exact fit_skips_absent_pointer. Qed.

(* the hydrogen / lone pair of a water oxygen without bonds is put exactly 1 A from it
   (the WAT template's O-H length is 1.000 A: generated table below) *)
Theorem C05_unit_placement : forall o from_ to_ : pt (A := R),
  dot3 RA (psub RA to_ from_) (psub RA to_ from_) <> 0%R ->
  dist2 (unit_place RA o from_ to_) o = 1%R.
Proof. exact unit_placement. Qed.

(* generated obligation: for EVERY amino-acid template (all terminal and protonation
   variants) x EVERY dihedral x all four terminus-flag combinations, the set moved by
   set_reference_distance + get_moveable_names is, over ALL atoms including hydrogens,
   exactly the bond-graph component beyond the pivot bond, the axis atoms stay, and every
   moved hydrogen has its bonded atom moved with it (or bonded to the pivot) *)
Theorem C05_all_atom_subtree_table : forall p, In p pairs -> forall nt ct : bool,
  exact_dihedral hyd nm nt ct (tgraph (fst p)) (snd p) = true.
Proof. exact all_atom_subtree_table. Qed.

(* what that boolean means, for ANY bond graph and selection *)
Theorem C05_hydrogens_move_with_parents : forall (hy : list id) (g : graph) (b c : id) (M : list id),
  exact_subtree hy g b c M = true ->
  (forall h, In h M -> In h hy -> forall p, In p (nbrs g h) -> In p M \/ p = c) /\
  (forall a, In a M <-> In a (beyond g b c)) /\ ~ In b M /\ ~ In c M.
Proof. exact exact_subtree_meaning. Qed.

(* FULL statement for the selection used before fix a31aee4 (rank only) is FALSE:
   on more than 100 (template, dihedral) pairs it rotated a hydrogen without its parent
   (known finding C05-F6, fixed) *)
Theorem C05_rank_selection_refuted :
  existsb (orphan_pair false false) pairs = true /\
  Nat.leb 100 (List.length (filter (fun p => orphan_pair false false p || orphan_pair true false p ||
                                              orphan_pair false true p || orphan_pair true true p) pairs)) = true.
Proof. exact rank_selection_refuted. Qed.

(* generated obligation: in every template atoms are placed from (amino acids incl. all
   variants, nucleotides, water) every atom has a bonded parent, all template bond lengths
   are within 0.90 .. 1.90 A and no two template atoms are closer than 0.80 A - except
   NPRO's H3, which the template puts on top of CD (pdb2pqr never builds it) *)
Theorem C05_template_geometry_table : forall t x, In t gtemplates -> In x (snd t) ->
  ~ In (fst t, fst (fst x)) geom_exceptions ->
  gatom_ok 810000000000 3610000000000 640000000000 t x = true.
Proof. exact template_geometry_table. Qed.

Example C05_nonvacuous :
  Nat.leb 100 (List.length pairs) = true /\ Nat.leb 100 (List.length gtemplates) = true /\
  existsb (fun p => Nat.leb 3 (List.length (beyond (tgraph (fst p)) (let '(_, b, _, _) := snd p in b)
                                                    (let '(_, _, c, _) := snd p in c)))) pairs = true /\
  existsb (fun t => Pos.eqb (fst t) (id_of "WAT"%string)) gtemplates = true.
Proof. exact c05_nonvacuous. Qed.

Print Assumptions C05_fit3_exact_geometry.
Print Assumptions C05_tetra_120.
Print Assumptions C05_tetra3_choice.
Print Assumptions C05_rotation_keeps_parent_geometry.
Print Assumptions C05_fit_neighbours.
Print Assumptions C05_fit_skips_absent_pointer.
Print Assumptions C05_unit_placement.
Print Assumptions C05_all_atom_subtree_table.
Print Assumptions C05_hydrogens_move_with_parents.
Print Assumptions C05_rank_selection_refuted.
Print Assumptions C05_template_geometry_table.
Print Assumptions C05_nonvacuous.
