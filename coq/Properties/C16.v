(* C16 - ligand charges conserve the formal charge and stay on the ligand.
   Property theorems only; proofs are in Proofs/Peoe.v, the model in Model/Peoe.v.

   Exact-field statements: [ops] is any arithmetic record over Q that obeys the
   field/order laws [QLaws]; [QA] (the instance that is executed against the
   Python code) is one ([C16_QA_laws]).  The binary64 instance [FA] is tied to
   the code bit for bit by the harness; the rounding gap between the two is
   measured, not proved. *)
From Coq Require Import String List ZArith QArith Bool.
From PV Require Import Lib.Strings Lib.Decimal Model.Peoe Proofs.Peoe Proofs.PeoeRelabel Model.Mol2Read Proofs.Mol2Read.
From PV Require Model.PqrFormat.
Import ListNotations.

Theorem C16_QA_laws : QLaws QA.
Proof. exact QA_laws. Qed.

(* peoe.equilibrate only redistributes charge: for ALL atom counts, type
   assignments, bond lists (any connectivity, rings, multiple and self bonds),
   entry charges, electronegativity functions chi, damping factors, non-zero
   scale factors and cycle counts >= 1, the returned charges sum to the entry
   (formal) charges.  Rests on: the normaliser chosen for the pair (i,j) is the
   one chosen for (j,i) (antisymmetric transfer), every bond contributes to both
   endpoints, and the formal-charge share 1/num_cycles is added num_cycles times. *)
Theorem C16_peoe_conserves :
  forall (ops : Arith Q), QLaws ops ->
  forall (T : Type) (chi : T -> Q -> Q) (n : nat) (ty : nat -> T)
         (bonds : list (nat * nat)) (ch : nat -> Q) (damp scale : Q) (ncyc : nat),
  bonds_ok n bonds = true -> ~ scale == 0 -> ncyc <> 0%nat ->
  Qsum (equilibrate ops chi n ty bonds ch damp scale ncyc) == Qsum (map ch (seq 0 n)).
Proof. exact peoe_conserves. Qed.

(* the excluded corner: num_cycles = 0 returns all-zero charges (the code's
   entry point always uses 6) *)
Theorem C16_peoe_zero_cycles :
  forall (ops : Arith Q), QLaws ops ->
  forall (T : Type) (chi : T -> Q -> Q) (n : nat) (ty : nat -> T)
         (bonds : list (nat * nat)) (ch : nat -> Q) (damp scale : Q) (ncyc : nat),
  ncyc = 0%nat -> Qsum (equilibrate ops chi n ty bonds ch damp scale ncyc) == 0.
Proof. exact peoe_zero_cycles. Qed.

(* Relabelling: move the atom at position i to position sigma i (tau = inverse)
   and rewrite the bond endpoints accordingly.  The charge of every atom is
   IDENTICAL (Leibniz equality of the rationals, not just closeness) - the
   result depends on positions only through the permutation; atom names do not
   occur in the model at all. *)
Theorem C16_peoe_equivariant :
  forall (ops : Arith Q), QLaws ops ->
  forall (T : Type) (chi : T -> Q -> Q) (n : nat) (ty : nat -> T)
         (bonds : list (nat * nat)) (ch : nat -> Q) (damp scale : Q) (ncyc : nat)
         (sigma tau : nat -> nat),
  (forall i, (i < n)%nat -> (sigma i < n)%nat) ->
  (forall k, (k < n)%nat -> (tau k < n)%nat) ->
  (forall i, (i < n)%nat -> tau (sigma i) = i) ->
  bonds_ok n bonds = true ->
  forall i, (i < n)%nat ->
  nth_error (equilibrate ops chi n (ty' ty tau) (bonds' bonds sigma) (ch' ch tau) damp scale ncyc) (sigma i) =
  nth_error (equilibrate ops chi n ty bonds ch damp scale ncyc) i.
Proof. exact peoe_equivariant. Qed.

(* every radius the lookup chain returns is an entry of the zap9 table or,
   failing that, of the Bondi table (by Sybyl type, then by upper-cased
   element) and is positive; with no entry the code raises (None) *)
Theorem C16_radius_positive :
  forall (t : string) (r : Z),
  radius_of t = Some r ->
  (0 < r)%Z /\
  (In (t, r) ZAP9 \/ In (upper (before_dot t), r) ZAP9 \/
   In (t, r) BONDI \/ In (upper (before_dot t), r) BONDI).
Proof. exact radius_positive. Qed.

(* each of the 23 supported Sybyl types has a positive radius, a valence, a
   non-bonded electron count, polynomial terms and a positive normaliser chi(+1)
   (so the kernel never divides by zero on supported input) *)
Theorem C16_supported_complete :
  forall t : string,
  In t SUPPORTED ->
  (exists r, radius_of t = Some r /\ (0 < r)%Z) /\
  lookup (before_dot t) VALENCE <> None /\ lookup t NONBONDED2 <> None /\
  poly_terms QA t <> None /\ 0 < chi_code QA t (a_ofZ QA 1).
Proof. exact supported_complete. Qed.

(* Mol2Molecule.assign_parameters end to end (code's tables, damping 0.778,
   scaling 1.56, any cycle count >= 1): whenever it succeeds there is one
   (radius, charge) per atom, each radius is the positive table entry of the
   atom's type, and the charges sum to the sum of Mol2Atom.formal_charge *)
Theorem C16_assign_parameters_sound :
  forall (m : mol) (ncyc : nat) (ps : list (Z * Q)),
  ncyc <> 0%nat ->
  assign_parameters_n QA m ncyc = Some ps ->
  exists fc2,
    formal_charges2 m = Some fc2 /\
    length ps = m_n m /\
    (forall p, In p ps -> (0 < fst p)%Z) /\
    map (fun p => Some (fst p)) ps = map radius_of (m_types m) /\
    Qsum (map snd ps) == Qsum (map (fun z => half QA z) fc2).
Proof. exact assign_parameters_sound. Qed.

(* The ligand loop of main.non_trivial AS CODED NOW (after the repair of finding
   C16-F4), for ALL residue lists, MOL2 residue names [lnames], MOL2 heavy-atom
   names [heavy], MOL2 atoms [lig] and force-field outcomes (hit or miss, on
   ligand atoms too).  [names] = the residue names the code selects
   ([lig_names]: the MOL2 residue names if some residue of the structure
   carries one, otherwise the names of the residues that consist of exactly the
   MOL2 file's heavy atoms plus any of its hydrogens).  Then
   (1) every written atom outside the selected residues carries the force
       field's parameters (waters, ions, other hetero groups are never touched,
       whatever their atoms are called),
   (2) no atom is written twice,
   (3) every atom of a selected residue (up to its first ATOM record) that the
       MOL2 file names is written with the MOL2 parameters, exactly once. *)
Theorem C16_transfer_only_ligand :
  forall (P : Type) (lnames heavy : list string) (lig : list (string * P)) (rs : list (presidue P)),
  NoDup (map pa_id (all_atoms rs)) ->
  let names := lig_names lnames heavy lig rs in
  (forall i w, ~ In i (ligand_ids names rs) -> In (i, w) (written lnames heavy lig rs) -> w = ff_param rs i) /\
  NoDup (map fst (written lnames heavy lig rs)) /\
  (forall r a p, In r rs -> selected names r = true -> In a (het_prefix (pr_atoms r)) ->
                 lookup (pa_name a) lig = Some p ->
                 In (pa_id a, Some p) (written lnames heavy lig rs) /\
                 count_occ Nat.eq_dec (map fst (written lnames heavy lig rs)) (pa_id a) = 1%nat).
Proof. intros P lnames heavy lig rs Hnd. exact (transfer_only_ligand_holds lig lnames heavy rs Hnd). Qed.

(* the selection, spelled out.  If the MOL2 residue name occurs in the
   structure, every atom of a residue with another name is written with exactly
   what the force field gave it ... *)
Theorem C16_transfer_other_residues_untouched :
  forall (P : Type) (lnames heavy : list string) (lig : list (string * P)) (rs : list (presidue P))
         (r : presidue P) (a : patom P) (w : option P),
  NoDup (map pa_id (all_atoms rs)) ->
  existsb (fun r : presidue P => smem (pr_name r) lnames) rs = true ->
  In r rs -> ~ In (pr_name r) lnames -> In a (pr_atoms r) ->
  In (pa_id a, w) (written lnames heavy lig rs) -> w = pa_ff a.
Proof. intros P lnames heavy lig. exact (other_residues_untouched lig lnames heavy). Qed.

(* ... and if it does not (placeholder residue name in the MOL2 file), so is
   every residue unless it bears the name of a residue that the MOL2 file
   describes atom by atom *)
Theorem C16_transfer_other_residues_untouched_fallback :
  forall (P : Type) (lnames heavy : list string) (lig : list (string * P)) (rs : list (presidue P))
         (r : presidue P) (a : patom P) (w : option P),
  NoDup (map pa_id (all_atoms rs)) ->
  existsb (fun r : presidue P => smem (pr_name r) lnames) rs = false ->
  In r rs ->
  (forall r' : presidue P, In r' rs -> pr_name r' = pr_name r -> describes heavy lig r' = false) ->
  In a (pr_atoms r) ->
  In (pa_id a, w) (written lnames heavy lig rs) -> w = pa_ff a.
Proof. intros P lnames heavy lig. exact (other_residues_untouched_fallback lig lnames heavy). Qed.

(* PRE-FIX CODE ONLY.  [written_old] is the loop as it was before the repair of
   C16-F4 (every HETATM-led residue visited, every matched atom appended); it is
   NOT the code as it is.  Witness: water H1 vs ligand H1 - a non-ligand atom is
   written with the ligand's parameters, and written twice. *)
Theorem C16_transfer_old_loop_refuted :
  exists (lnames : list string) (lig : list (string * (Z * Z))) (rs : list (presidue (Z * Z))),
    NoDup (map pa_id (all_atoms rs)) /\
    (exists i w, ~ In i (ligand_ids lnames rs) /\ In (i, w) (written_old lig rs) /\ w <> ff_param rs i) /\
    ~ NoDup (map fst (written_old lig rs)).
Proof. exact transfer_old_loop_refuted. Qed.

(* Mol2Atom.formal_charge (all decision rules, including the order-dependent
   phosphate rule, which walks BOND lines, not atoms) does not depend on the
   position of the atoms in the file: moving atom i to position sigma i and
   rewriting the bond endpoints gives the same formal charge *)
Theorem C16_formal_charge_equivariant :
  forall (m : mol) (sigma tau : nat -> nat),
  (forall i, (i < m_n m)%nat -> (sigma i < m_n m)%nat) ->
  (forall i, (i < m_n m)%nat -> tau (sigma i) = i) ->
  mol_ok m = true ->
  forall i, (i < m_n m)%nat ->
  formal_charge2 (relabel m sigma tau) (sigma i) = formal_charge2 m i.
Proof. exact formal_charge_equivariant. Qed.

(* non-vacuity: acetate (tests/data/acetate.mol2: O.co2=C.2(=O.co2)-C.3H3) is
   accepted, has formal charges 0,0,-1/2,-1/2 (doubled: -1), after two cycles
   every atom carries a non-zero charge and they sum to -1; a 3-cycle of the
   positions satisfies the permutation hypotheses; the transfer loop on the
   former F4 witness (name match, placeholder name, force-field hit on a ligand atom) *)
Example C16_nonvacuous :
  let m := mkmol ["O.co2"; "C.2"; "O.co2"; "C.3"; "H"; "H"; "H"]%string
                 [(0, 1, Double); (1, 2, Double); (1, 3, Single); (3, 4, Single);
                  (3, 5, Single); (3, 6, Single)]%nat in
  mol_ok m = true /\
  formal_charges2 m = Some [-1; 0; -1; 0; 0; 0; 0]%Z /\
  (exists ps, assign_parameters_n QA m 2 = Some ps /\
              forallb (fun p => negb (Qeq_bool (snd p) 0)) ps = true /\
              Qeq_bool (Qsum (map snd ps)) (-1 # 1) = true) /\
  (let sigma := fun i => match i with 0 => 1 | 1 => 2 | 2 => 0 | k => k end%nat in
   let tau := fun i => match i with 1 => 0 | 2 => 1 | 0 => 2 | k => k end%nat in
   forallb (fun i => (sigma i <? 7)%nat && (tau i <? 7)%nat && (tau (sigma i) =? i)%nat) (seq 0 7) = true /\
   map (formal_charge2 (relabel m sigma tau)) (seq 0 7) = map Some [-1; -1; 0; 0; 0; 0; 0]%Z) /\
  (* the phosphate rule fires: O=P(O)(O)(O), the first single-bonded O.3 in P's bond list gets -1 *)
  formal_charges2 (mkmol ["P.3"; "O.2"; "O.3"; "O.3"; "O.3"]%string
                         [(0, 1, Double); (3, 0, Single); (0, 2, Single); (0, 4, Single)]%nat)
    = Some [0; 0; 0; -2; 0]%Z /\
  (* the F4 witness through the loop as coded now: the water keeps the force
     field's parameters and is written once, the ligand gets the MOL2's *)
  written ["LIG"%string] ["C1"%string] f4_lig f4_complex =
    [(0%nat, Some (-4157, 18240)%Z); (1%nat, Some (337, 19080)%Z); (4%nat, Some (-8340, 17683)%Z);
     (5%nat, Some (4170, 0)%Z); (6%nat, Some (4170, 0)%Z);
     (2%nat, Some (-1200, 18700)%Z); (3%nat, Some (650, 11000)%Z)] /\
  (* placeholder residue name in the MOL2 file: the ligand is found by its atoms, same result *)
  written ["UNK"%string] ["C1"%string] f4_lig f4_complex = written ["LIG"%string] ["C1"%string] f4_lig f4_complex /\
  (* a ligand atom the force field already matched is overwritten but not appended again *)
  written ["LIG"%string] ["C1"%string] f4_lig
          [mkpres "LIG"%string [mkpatom 2%nat true "C1"%string (Some (1, 2)%Z); mkpatom 3%nat true "H1"%string None]]
    = [(2%nat, Some (-1200, 18700)%Z); (3%nat, Some (650, 11000)%Z)].
Proof.
  cbv zeta. split; [vm_compute; reflexivity|]. split; [vm_compute; reflexivity|].
  split.
  - eexists. split; [reflexivity|]. split; vm_compute; reflexivity.
  - split; [split; vm_compute; reflexivity|]. split; [vm_compute; reflexivity|].
    split; [vm_compute; reflexivity|]. split; vm_compute; reflexivity.
Qed.

(* ======================================================================== *)
(* From the MOL2 TEXT to the input of assign_parameters (Model/Mol2Read.v:
   Mol2Molecule.read / parse_atoms / parse_bonds at line and word level).
   [float_ok] = "float(word) does not raise" is an arbitrary oracle; [co] =
   false is the code as it is, true the code with the repair of C16-F5. *)

(* permuting the atoms of a molecule permutes the (radius, charge) list of
   assign_parameters exactly and raises iff the original raises: the
   composition of C16_peoe_equivariant, C16_formal_charge_equivariant and the
   per-type radius lookup, for ALL molecules and cycle counts (exact field) *)
Theorem C16_assign_parameters_relabel :
  forall (m : mol) (ncyc : nat) (sigma tau : nat -> nat),
  (forall i, (i < m_n m)%nat -> (sigma i < m_n m)%nat) ->
  (forall k, (k < m_n m)%nat -> (tau k < m_n m)%nat) ->
  (forall i, (i < m_n m)%nat -> tau (sigma i) = i) ->
  (forall k, (k < m_n m)%nat -> sigma (tau k) = k) ->
  mol_ok m = true ->
  match assign_parameters_n QA m ncyc, assign_parameters_n QA (relabel m sigma tau) ncyc with
  | Some ps, Some ps' => forall i, (i < m_n m)%nat -> nth_error ps' (sigma i) = nth_error ps i
  | None, None => True
  | _, _ => False
  end.
Proof. exact assign_parameters_relabel. Qed.

(* THE ROUND TRIP, for ALL molecules of the reader's domain: every field a
   blank-free word without '@', coordinates (and charge) numbers for float(),
   Sybyl type in normalised spelling, residue name <= 4 characters, distinct
   atom names, bond endpoints among the atoms, bond types 1 2 3 ar - ANY number
   of atoms and bonds, connectivity, multiple and self bonds, atom ids and bond
   ids - and for every header that has no ATOM marker and every trailer:
   reading the canonical Tripos rendering returns exactly the molecule.  So the
   reader neither drops, duplicates, reorders nor re-wires atoms or bonds, and
   no column is taken for another (name, x y z, type, subst id, subst name,
   charge; bond id, both atom ids, bond type). *)
Theorem C16_mol2_read_roundtrip :
  forall (float_ok : string -> bool) (co : bool) (hdr trailer : list string) (m : molecule),
  Forall (fun l => contains marker_atom l = false) hdr ->
  wf_molecule float_ok co m ->
  mol_of_text float_ok co (mol2_text_with hdr trailer m) = Ok m /\
  mol_of_text float_ok co (mol2_text m) = Ok m /\
  (forall i j, In j (nbrs (m_pairs (to_mol m)) i) <-> In i (nbrs (m_pairs (to_mol m)) j)).
Proof.
  intros float_ok co hdr trailer m Hh Hwf.
  split; [exact (mol2_read_roundtrip_with float_ok co hdr trailer m Hh Hwf)|].
  split; [exact (mol2_read_roundtrip float_ok co m Hwf) | exact (adjacency_symmetric m)].
Qed.

(* ATOM records permuted (the atom at position i moves to sigma i, ids
   renumbered 1..n) with the bond atom ids renumbered consistently, BOND lines
   in their order: the reader returns the permuted molecule - every atom with
   its own name, type, coordinates and charge at its new place, and the input
   of assign_parameters is the relabelled molecule of C16_peoe_equivariant *)
Theorem C16_mol2_order_equivariance :
  forall (float_ok : string -> bool) (co : bool) (m : molecule) (sigma tau : nat -> nat),
  let n := length (ml_atoms m) in
  (forall i, (i < n)%nat -> (sigma i < n)%nat) ->
  (forall k, (k < n)%nat -> (tau k < n)%nat) ->
  (forall i, (i < n)%nat -> tau (sigma i) = i) ->
  (forall k, (k < n)%nat -> sigma (tau k) = k) ->
  wf_molecule float_ok co m ->
  mol_of_text float_ok co (mol2_text (permute m sigma tau)) = Ok (permute m sigma tau) /\
  to_mol (permute m sigma tau) = relabel (to_mol m) sigma tau /\
  (forall i, (i < n)%nat ->
     let a := nth i (ml_atoms m) dummy_atom in
     let a' := nth (sigma i) (ml_atoms (permute m sigma tau)) dummy_atom in
     ra_name a' = ra_name a /\ ra_type a' = ra_type a /\ ra_x a' = ra_x a /\ ra_y a' = ra_y a /\
     ra_z a' = ra_z a /\ ra_charge a' = ra_charge a /\ ra_serial a' = Z.of_nat (S (sigma i))).
Proof. intros float_ok co m sigma tau n. exact (mol2_order_equivariance float_ok co m sigma tau). Qed.

(* TEXT -> CHARGES is independent of the order of the ATOM records: the
   (radius, charge) assigned to an atom from the reordered text is IDENTICAL
   to the one assigned from the original text, and one text is refused iff the
   other is.  PARTIAL in two declared respects: (a) exact arithmetic (instance
   QA; the binary64 instance is tied to CPython bit for bit by the harness, and
   the harness runs the same metamorphic test on the real code), (b) texts in
   canonical rendering (other spellings of the same records - column widths,
   tabs, CRLF, comment lines, extra fields - are covered by the tie).  No
   tie-freeness condition is needed HERE: BOND lines keep their order, and the
   only order-dependent rule of formal_charge (phosphate) walks BOND lines,
   not atoms.  Reordering BOND lines is a different statement: it holds only up
   to an exchange between the equivalent oxygens of a phosphate (notes, (i)). *)
Theorem C16_text_order_independent_partial :
  forall (float_ok : string -> bool) (co : bool) (m : molecule) (sigma tau : nat -> nat) (ncyc : nat),
  let n := length (ml_atoms m) in
  (forall i, (i < n)%nat -> (sigma i < n)%nat) ->
  (forall k, (k < n)%nat -> (tau k < n)%nat) ->
  (forall i, (i < n)%nat -> tau (sigma i) = i) ->
  (forall k, (k < n)%nat -> sigma (tau k) = k) ->
  wf_molecule float_ok co m ->
  exists m1 m2,
    mol_of_text float_ok co (mol2_text m) = Ok m1 /\
    mol_of_text float_ok co (mol2_text (permute m sigma tau)) = Ok m2 /\
    match assign_parameters_n QA (to_mol m1) ncyc, assign_parameters_n QA (to_mol m2) ncyc with
    | Some ps, Some ps' => forall i, (i < n)%nat -> nth_error ps' (sigma i) = nth_error ps i
    | None, None => True
    | _, _ => False
    end.
Proof.
  intros float_ok co m sigma tau ncyc n H1 H2 H3 H4 Hwf.
  exact (text_order_independent float_ok co m sigma tau H1 H2 H3 H4 Hwf ncyc).
Qed.

(* renaming the atoms (any distinct blank-free names without '@'): the text is
   read back as the renamed molecule; the input of assign_parameters - hence
   every radius and charge, in any arithmetic - does not change *)
Theorem C16_mol2_names_irrelevant :
  forall (float_ok : string -> bool) (co : bool) (m : molecule) (names : list string),
  wf_molecule float_ok co m ->
  length names = length (ml_atoms m) -> Forall (fun w => good_word w = true) names -> NoDup names ->
  mol_of_text float_ok co (mol2_text (rename m names)) = Ok (rename m names) /\
  to_mol (rename m names) = to_mol m /\
  map ra_name (ml_atoms (rename m names)) = names /\
  (forall A (ops : Arith A) ncyc,
     assign_parameters_n ops (to_mol (rename m names)) ncyc = assign_parameters_n ops (to_mol m) ncyc).
Proof. exact mol2_names_irrelevant. Qed.

(* FULL STATEMENT, refuted: "in an accepted file every bond atom id k denotes
   the k-th ATOM record".  Witness: BOND record `1 1 0 1` in a 3-atom molecule
   is accepted and bonds atom 1 to atom 3 (atom_names[0 - 1]).  Atom id 0 is not
   a MOL2 atom id, so the input is outside the property's quantifier: an
   OBSERVATION about error handling, not a finding. *)
Theorem C16_mol2_bond_id_zero_refuted :
  exists (lines : list string) (m : molecule),
    In "1 1 0 1"%string lines /\
    mol_of_text py_float_ok false lines = Ok m /\
    length (ml_atoms m) = 3%nat /\
    ml_bonds m = [mkrbond 1 0 2 Single].
Proof. exact mol2_bond_id_zero_refuted. Qed.

(* ... the guard: an accepted BOND record with atom ids in 1..n denotes exactly
   those ATOM records and its type word is one of 1 2 3 ar; the only other
   accepted ids are -n < id <= 0, counted from the end *)
Theorem C16_mol2_bond_ids_partial :
  forall (n : nat) (w0 w1 w2 w3 : string) (more : list string) (b : rbond) (i1 i2 : Z),
  parse_bond_words n (w0 :: w1 :: w2 :: w3 :: more) = Ok b ->
  PqrFormat.py_int w1 = Some i1 -> PqrFormat.py_int w2 = Some i2 ->
  (((1 <= i1 <= Z.of_nat n)%Z /\ Z.of_nat (rb_a1 b) = (i1 - 1)%Z) \/
   ((- Z.of_nat n < i1 <= 0)%Z /\ Z.of_nat (rb_a1 b) = (Z.of_nat n + i1 - 1)%Z)) /\
  (((1 <= i2 <= Z.of_nat n)%Z /\ Z.of_nat (rb_a2 b) = (i2 - 1)%Z) \/
   ((- Z.of_nat n < i2 <= 0)%Z /\ Z.of_nat (rb_a2 b) = (Z.of_nat n + i2 - 1)%Z)) /\
  bond_word w3 = Ok (rb_type b).
Proof. exact mol2_bond_ids_partial. Qed.

(* FULL STATEMENT, refuted for the code as it is (co = false): "every MOL2
   molecule with supported fields is read".  The charge field of an ATOM record
   is optional in the Tripos format and the code guards the access - with
   `len(line) > 8`, the number of CHARACTERS: an 8-word record raises IndexError
   (finding C16-F5).  With `len(words) > 8` (co = true) the same text is read
   back, as an instance of the round trip. *)
Theorem C16_mol2_eight_words_refuted :
  wf_molecule py_float_ok true ethanolish_nocharge /\
  mol_of_text py_float_ok false (mol2_text ethanolish_nocharge) = Raise IndexError /\
  mol_of_text py_float_ok true (mol2_text ethanolish_nocharge) = Ok ethanolish_nocharge.
Proof. exact mol2_eight_words_refuted. Qed.

(* non-vacuity of the text-level theorems: a 3-atom molecule in the domain of
   the code as it is, a 3-cycle of its atoms satisfying the four permutation
   hypotheses, the canonical text of the permuted molecule, and the charges
   from both texts (2 cycles, exact): succeeded, non-zero, moved with the atoms *)
Example C16_mol2_nonvacuous :
  let sigma := fun i => match i with 0 => 1 | 1 => 2 | 2 => 0 | k => k end%nat in
  let tau := fun i => match i with 1 => 0 | 2 => 1 | 0 => 2 | k => k end%nat in
  wf_molecule py_float_ok false ethanolish /\
  forallb (fun i => (sigma i <? 3)%nat && (tau i <? 3)%nat && (tau (sigma i) =? i)%nat && (sigma (tau i) =? i)%nat)
          (seq 0 3) = true /\
  mol2_text (permute ethanolish sigma tau) =
    ["@<TRIPOS>MOLECULE"; "ligand"; "3 2 1 0 0"; "SMALL"; "USER_CHARGES"; ""; "@<TRIPOS>ATOM";
     "1 H1 2.0 0.5 0.0 H 1 LIG 0.0"; "2 C1 0.0 0.0 0.0 C.3 1 LIG 0.0"; "3 O1 1.4 0.0 0.0 O.3 1 LIG 0.0";
     "@<TRIPOS>BOND"; "1 2 3 1"; "2 3 1 1"; "@<TRIPOS>SUBSTRUCTURE"; "1 LIG 1 TEMP 0 **** **** 0 ROOT"]%string /\
  (exists ps ps', assign_parameters_n QA (to_mol ethanolish) 2 = Some ps /\
                  assign_parameters_n QA (to_mol (permute ethanolish sigma tau)) 2 = Some ps' /\
                  forallb (fun p => negb (Qeq_bool (snd p) 0)) ps = true /\
                  ps <> ps' /\ nth_error ps' 1 = nth_error ps 0) /\
  mol_of_string py_float_ok false
    ("@<TRIPOS>MOLECULE" ++ nl ++ "x" ++ nl ++ "@<TRIPOS>ATOM" ++ nl ++ "1 C1 0 0 0 c.3 1 LIGAND 0" ++ nl)%string
    = Ok (mkmolecule [mkratom 1 "C1" "0" "0" "0" "C.3" 1 "LIGA" (Some "0"%string)] []).
Proof.
  cbv zeta. split; [exact ethanolish_wf|]. split; [vm_compute; reflexivity|]. split; [vm_compute; reflexivity|].
  split; [|vm_compute; reflexivity].
  eexists. eexists. split; [vm_compute; reflexivity|]. split; [vm_compute; reflexivity|].
  split; [vm_compute; reflexivity|]. split; [|vm_compute; reflexivity].
  intro H. discriminate H.
Qed.

(* Mol2Atom.assign_radius / Mol2Molecule.assign_radii for ALL pairs of tables
   (primary, secondary) and ALL types: the radius is the primary table's entry
   when it has one - under the Sybyl type first, then under the upper-cased
   element -, otherwise the secondary table's by the same rule; KeyError iff
   neither table has either key; for an atom the primary table covers the
   secondary table is irrelevant.  The default arguments give [radius_of]. *)
Theorem C16_radius_rule :
  forall (p s : list (string * Z)) (t : string),
  let e := upper (before_dot t) in
  (forall r, lookup t p = Some r -> radius_from p s t = Some r) /\
  (lookup t p = None -> forall r, lookup e p = Some r -> radius_from p s t = Some r) /\
  (lookup t p = None -> lookup e p = None -> radius_from p s t = radius_from s [] t) /\
  (radius_from p s t = None <->
     lookup t p = None /\ lookup e p = None /\ lookup t s = None /\ lookup e s = None) /\
  (forall s', (lookup t p <> None \/ lookup e p <> None) -> radius_from p s t = radius_from p s' t).
Proof. exact radius_rule. Qed.

Theorem C16_radius_default_tables : forall t, radius_of t = radius_from ZAP9 BONDI t.
Proof. exact radius_of_from. Qed.

(* non-vacuity: Bondi as primary, ZAP9 as backup: O.co2 is found under the
   element in the PRIMARY table (1.52), not under its type in the backup (1.76);
   with the tables the other way round it is 1.76; Br only from Bondi *)
Example C16_radius_rule_nonvacuous :
  radius_from BONDI ZAP9 "O.co2"%string = Some 152%Z /\ radius_from ZAP9 BONDI "O.co2"%string = Some 176%Z /\
  radius_from ZAP9 BONDI "Br"%string = Some 185%Z /\ radius_from ZAP9 [] "Br"%string = None /\
  radius_from [("C.3"%string, 190%Z)] BONDI "C.3"%string = Some 190%Z.
Proof. vm_compute. repeat split. Qed.

Print Assumptions C16_QA_laws.
Print Assumptions C16_peoe_conserves.
Print Assumptions C16_peoe_zero_cycles.
Print Assumptions C16_peoe_equivariant.
Print Assumptions C16_radius_positive.
Print Assumptions C16_supported_complete.
Print Assumptions C16_assign_parameters_sound.
Print Assumptions C16_transfer_only_ligand.
Print Assumptions C16_transfer_other_residues_untouched.
Print Assumptions C16_transfer_other_residues_untouched_fallback.
Print Assumptions C16_transfer_old_loop_refuted.
Print Assumptions C16_formal_charge_equivariant.
Print Assumptions C16_nonvacuous.
Print Assumptions C16_assign_parameters_relabel.
Print Assumptions C16_mol2_read_roundtrip.
Print Assumptions C16_mol2_order_equivariance.
Print Assumptions C16_text_order_independent_partial.
Print Assumptions C16_mol2_names_irrelevant.
Print Assumptions C16_mol2_bond_id_zero_refuted.
Print Assumptions C16_mol2_bond_ids_partial.
Print Assumptions C16_mol2_eight_words_refuted.
Print Assumptions C16_mol2_nonvacuous.
Print Assumptions C16_radius_rule.
Print Assumptions C16_radius_default_tables.
Print Assumptions C16_radius_rule_nonvacuous.
