(* C16 - ligand charges conserve the formal charge and stay on the ligand.
   Property theorems only; proofs are in Proofs/Peoe.v, the model in Model/Peoe.v.

   Exact-field statements: [ops] is any arithmetic record over Q that obeys the
   field/order laws [QLaws]; [QA] (the instance that is executed against the
   Python code) is one ([C16_QA_laws]).  The binary64 instance [FA] is tied to
   the code bit for bit by the harness; the rounding gap between the two is
   measured, not proved. *)
From Coq Require Import String List ZArith QArith Bool.
From PV Require Import Lib.Strings Model.Peoe Proofs.Peoe.
Import ListNotations.

Theorem C16_QA_laws : QLaws QA.
Proof. exact QA_laws. Qed.

(* peoe.equilibrate only redistributes charge: for ALL atom counts, type
   assignments, bond lists (any connectivity, rings, multiple and self bonds),
   entry charges, electronegativity functions chi, damping factors, non-zero
   scale factors and cycle counts >= 1, the returned charges sum to the entry
   (formal) charges.  Rests on: the normaliser chosen for the pair (i,j) is the
   one chosen for (j,i) (antisymmetric transfer), every bond contributes to both
   endpoints, and the formal-charge share 1/num_cycles is added num_cycles times. *)
Theorem C16_peoe_conserves :
  forall (ops : Arith Q), QLaws ops ->
  forall (T : Type) (chi : T -> Q -> Q) (n : nat) (ty : nat -> T)
         (bonds : list (nat * nat)) (ch : nat -> Q) (damp scale : Q) (ncyc : nat),
  bonds_ok n bonds = true -> ~ scale == 0 -> ncyc <> 0%nat ->
  Qsum (equilibrate ops chi n ty bonds ch damp scale ncyc) == Qsum (map ch (seq 0 n)).
Proof. exact peoe_conserves. Qed.

(* the excluded corner: num_cycles = 0 returns all-zero charges (the code's
   entry point always uses 6) *)
Theorem C16_peoe_zero_cycles :
  forall (ops : Arith Q), QLaws ops ->
  forall (T : Type) (chi : T -> Q -> Q) (n : nat) (ty : nat -> T)
         (bonds : list (nat * nat)) (ch : nat -> Q) (damp scale : Q) (ncyc : nat),
  ncyc = 0%nat -> Qsum (equilibrate ops chi n ty bonds ch damp scale ncyc) == 0.
Proof. exact peoe_zero_cycles. Qed.

(* Relabelling: move the atom at position i to position sigma i (tau = inverse)
   and rewrite the bond endpoints accordingly.  The charge of every atom is
   IDENTICAL (Leibniz equality of the rationals, not just closeness) - the
   result depends on positions only through the permutation; atom names do not
   occur in the model at all. *)
Theorem C16_peoe_equivariant :
  forall (ops : Arith Q), QLaws ops ->
  forall (T : Type) (chi : T -> Q -> Q) (n : nat) (ty : nat -> T)
         (bonds : list (nat * nat)) (ch : nat -> Q) (damp scale : Q) (ncyc : nat)
         (sigma tau : nat -> nat),
  (forall i, (i < n)%nat -> (sigma i < n)%nat) ->
  (forall k, (k < n)%nat -> (tau k < n)%nat) ->
  (forall i, (i < n)%nat -> tau (sigma i) = i) ->
  bonds_ok n bonds = true ->
  forall i, (i < n)%nat ->
  nth_error (equilibrate ops chi n (ty' ty tau) (bonds' bonds sigma) (ch' ch tau) damp scale ncyc) (sigma i) =
  nth_error (equilibrate ops chi n ty bonds ch damp scale ncyc) i.
Proof. exact peoe_equivariant. Qed.

(* every radius the lookup chain returns is an entry of the zap9 table or,
   failing that, of the Bondi table (by Sybyl type, then by upper-cased
   element) and is positive; with no entry the code raises (None) *)
Theorem C16_radius_positive :
  forall (t : string) (r : Z),
  radius_of t = Some r ->
  (0 < r)%Z /\
  (In (t, r) ZAP9 \/ In (upper (before_dot t), r) ZAP9 \/
   In (t, r) BONDI \/ In (upper (before_dot t), r) BONDI).
Proof. exact radius_positive. Qed.

(* each of the 23 supported Sybyl types has a positive radius, a valence, a
   non-bonded electron count, polynomial terms and a positive normaliser chi(+1)
   (so the kernel never divides by zero on supported input) *)
Theorem C16_supported_complete :
  forall t : string,
  In t SUPPORTED ->
  (exists r, radius_of t = Some r /\ (0 < r)%Z) /\
  lookup (before_dot t) VALENCE <> None /\ lookup t NONBONDED2 <> None /\
  poly_terms QA t <> None /\ 0 < chi_code QA t (a_ofZ QA 1).
Proof. exact supported_complete. Qed.

(* Mol2Molecule.assign_parameters end to end (code's tables, damping 0.778,
   scaling 1.56, any cycle count >= 1): whenever it succeeds there is one
   (radius, charge) per atom, each radius is the positive table entry of the
   atom's type, and the charges sum to the sum of Mol2Atom.formal_charge *)
Theorem C16_assign_parameters_sound :
  forall (m : mol) (ncyc : nat) (ps : list (Z * Q)),
  ncyc <> 0%nat ->
  assign_parameters_n QA m ncyc = Some ps ->
  exists fc2,
    formal_charges2 m = Some fc2 /\
    length ps = m_n m /\
    (forall p, In p ps -> (0 < fst p)%Z) /\
    map (fun p => Some (fst p)) ps = map radius_of (m_types m) /\
    Qsum (map snd ps) == Qsum (map (fun z => half QA z) fc2).
Proof. exact assign_parameters_sound. Qed.

(* FULL STATEMENT (does not hold for main.non_trivial as coded, finding F4):
     forall lig rs, NoDup (map pa_id (all_atoms rs)) -> transfer_only_ligand lig rs
   i.e. (1) atom lines outside the ligand residue carry force-field parameters,
   (2) no atom is written twice, (3) ligand atoms named in the MOL2 file are
   written with the MOL2 parameters.  The loop matches by atom NAME on every
   residue up to its first ATOM-typed atom, so a water H1 / another hetero group
   sharing a name with a ligand atom takes the ligand's (charge, radius) and is
   appended to the output a second time. *)
Theorem C16_transfer_only_ligand_refuted :
  exists (lig : list (string * (Z * Z))) (rs : list (presidue (Z * Z))),
    NoDup (map pa_id (all_atoms rs)) /\
    (exists i w, ~ In i (ligand_ids rs) /\ In (i, w) (written lig rs) /\ w <> ff_param rs i) /\
    ~ NoDup (map fst (written lig rs)).
Proof. exact transfer_only_ligand_refuted. Qed.

(* ... and it holds under the guard: no atom looked at outside the ligand
   residue has a name that occurs in the MOL2 file, and the force field has no
   parameters for the ligand's own atoms *)
Theorem C16_transfer_only_ligand_partial :
  forall (P : Type) (lig : list (string * P)) (rs : list (presidue P)),
  NoDup (map pa_id (all_atoms rs)) -> guard lig rs = true -> transfer_only_ligand lig rs.
Proof. exact @transfer_only_ligand_partial. Qed.

(* the guard is exact: whenever it is false the property fails *)
Theorem C16_transfer_guard_exact :
  forall (P : Type) (lig : list (string * P)) (rs : list (presidue P)),
  NoDup (map pa_id (all_atoms rs)) -> transfer_only_ligand lig rs -> guard lig rs = true.
Proof. exact @transfer_guard_exact. Qed.

(* Mol2Atom.formal_charge (all decision rules, including the order-dependent
   phosphate rule, which walks BOND lines, not atoms) does not depend on the
   position of the atoms in the file: moving atom i to position sigma i and
   rewriting the bond endpoints gives the same formal charge *)
Theorem C16_formal_charge_equivariant :
  forall (m : mol) (sigma tau : nat -> nat),
  (forall i, (i < m_n m)%nat -> (sigma i < m_n m)%nat) ->
  (forall i, (i < m_n m)%nat -> tau (sigma i) = i) ->
  mol_ok m = true ->
  forall i, (i < m_n m)%nat ->
  formal_charge2 (relabel m sigma tau) (sigma i) = formal_charge2 m i.
Proof. exact formal_charge_equivariant. Qed.

(* non-vacuity: acetate (tests/data/acetate.mol2: O.co2=C.2(=O.co2)-C.3H3) is
   accepted, has formal charges 0,0,-1/2,-1/2 (doubled: -1), after two cycles
   every atom carries a non-zero charge and they sum to -1; a 3-cycle of the
   positions satisfies the permutation hypotheses; the guard is true on a
   complex with a water whose names do not clash and false on the F4 witness *)
Example C16_nonvacuous :
  let m := mkmol ["O.co2"; "C.2"; "O.co2"; "C.3"; "H"; "H"; "H"]%string
                 [(0, 1, Double); (1, 2, Double); (1, 3, Single); (3, 4, Single);
                  (3, 5, Single); (3, 6, Single)]%nat in
  mol_ok m = true /\
  formal_charges2 m = Some [-1; 0; -1; 0; 0; 0; 0]%Z /\
  (exists ps, assign_parameters_n QA m 2 = Some ps /\
              forallb (fun p => negb (Qeq_bool (snd p) 0)) ps = true /\
              Qeq_bool (Qsum (map snd ps)) (-1 # 1) = true) /\
  (let sigma := fun i => match i with 0 => 1 | 1 => 2 | 2 => 0 | k => k end%nat in
   let tau := fun i => match i with 1 => 0 | 2 => 1 | 0 => 2 | k => k end%nat in
   forallb (fun i => (sigma i <? 7)%nat && (tau i <? 7)%nat && (tau (sigma i) =? i)%nat) (seq 0 7) = true /\
   map (formal_charge2 (relabel m sigma tau)) (seq 0 7) = map Some [-1; -1; 0; 0; 0; 0; 0]%Z) /\
  (* the phosphate rule fires: O=P(O)(O)(O), the first single-bonded O.3 in P's bond list gets -1 *)
  formal_charges2 (mkmol ["P.3"; "O.2"; "O.3"; "O.3"; "O.3"]%string
                         [(0, 1, Double); (3, 0, Single); (0, 2, Single); (0, 4, Single)]%nat)
    = Some [0; 0; 0; -2; 0]%Z /\
  guard f4_lig [ mkpres true [mkpatom 2 true "C1" None; mkpatom 3 true "H1" None];
                 mkpres false [mkpatom 4 true "O" (Some (-8340, 17683)%Z);
                               mkpatom 5 true "H1W" (Some (4170, 0)%Z)] ]%string = true /\
  guard f4_lig f4_complex = false.
Proof.
  cbv zeta. split; [vm_compute; reflexivity|]. split; [vm_compute; reflexivity|].
  split.
  - eexists. split; [reflexivity|]. split; vm_compute; reflexivity.
  - split; [split; vm_compute; reflexivity|]. split; [vm_compute; reflexivity|]. split; vm_compute; reflexivity.
Qed.

Print Assumptions C16_QA_laws.
Print Assumptions C16_peoe_conserves.
Print Assumptions C16_peoe_zero_cycles.
Print Assumptions C16_peoe_equivariant.
Print Assumptions C16_radius_positive.
Print Assumptions C16_supported_complete.
Print Assumptions C16_assign_parameters_sound.
Print Assumptions C16_transfer_only_ligand_refuted.
Print Assumptions C16_transfer_only_ligand_partial.
Print Assumptions C16_transfer_guard_exact.
Print Assumptions C16_formal_charge_equivariant.
Print Assumptions C16_nonvacuous.
