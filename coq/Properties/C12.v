(* C12 - a PQR file is only ever written complete, after all computation has
   succeeded; a failing run leaves the output path alone.
   Property theorems only; proofs are in Proofs/Pipeline.v (generic) and
   Proofs/StagesC12.v (facts about the stage table generated from main.py). *)
From Coq Require Import String List Bool Arith ZArith Permutation.
From PV Require Import Model.ForceField Model.States Proofs.States.
From PV Require Import Model.Pipeline Proofs.Pipeline Generated.Stages Proofs.StagesC12 Proofs.PipelineC12.
From PV Require Generated.GuardC12 Generated.States Generated.FF_AMBER Generated.StatesFF_AMBER Generated.FF_CHARMM Generated.StatesFF_CHARMM Generated.FF_PARSE Generated.StatesFF_PARSE Generated.FF_PEOEPB Generated.StatesFF_PEOEPB Generated.FF_SWANSON Generated.StatesFF_SWANSON Generated.FF_TYL06 Generated.StatesFF_TYL06.
Import ListNotations.
Local Open Scope string_scope.

(* For ALL stage lists satisfying the obligation, ALL fault vectors, ALL contents
   and ALL initial file states: a failure of any stage in front of the writer
   leaves the file state unchanged and raises; no failure => Finished, Complete. *)
Theorem C12_no_partial_output :
  forall (C : Type) (ds : list sdesc), c12_obligation ds = true ->
    forall (flt : nat -> fault) (c : C) (f : fstate C),
      ((exists j, j < writer_index ds /\ faulty (flt j) = true) ->
         snd (frun ds 0 flt c f) = f /\ exists i, fst (frun ds 0 flt c f) = Raised i)
      /\ ((forall k, k < List.length ds -> faulty (flt k) = false) ->
         frun ds 0 flt c f = (Finished, Complete c)).
Proof. exact no_partial_output. Qed.

(* sharper: the run stops at the FIRST faulty stage *)
Theorem C12_fault_before_writer :
  forall (C : Type) (ds : list sdesc), c12_obligation ds = true ->
    forall (flt : nat -> fault) (c : C) (f : fstate C),
      (exists j, j < writer_index ds /\ faulty (flt j) = true) ->
      exists i, i < writer_index ds /\ frun ds 0 flt c f = (Raised i, f)
                /\ faulty (flt i) = true /\ (forall k, k < i -> faulty (flt k) = false).
Proof. exact fault_before_writer. Qed.

(* real behaviour, stated explicitly: a failure INSIDE print_pqr (after the path
   was opened) leaves a partial file; at its entry, nothing *)
Theorem C12_fault_in_writer :
  forall (C : Type) (ds : list sdesc), c12_obligation ds = true ->
    forall (flt : nat -> fault) (c : C) (f : fstate C),
      (forall k, k < writer_index ds -> faulty (flt k) = false) ->
      (flt (writer_index ds) = Inside -> frun ds 0 flt c f = (Raised (writer_index ds), Partial))
      /\ (flt (writer_index ds) = AtEntry -> frun ds 0 flt c f = (Raised (writer_index ds), f)).
Proof. exact fault_in_writer. Qed.

(* real behaviour, stated explicitly: a failure AFTER print_pqr (--pdb-output,
   --apbs-input) raises but the complete PQR stays *)
Theorem C12_fault_after_writer :
  forall (C : Type) (ds : list sdesc), c12_obligation ds = true ->
    forall (flt : nat -> fault) (c : C) (f : fstate C),
      (forall k, k <= writer_index ds -> faulty (flt k) = false) ->
      (exists j, writer_index ds < j < List.length ds /\ faulty (flt j) = true) ->
      exists i, writer_index ds < i < List.length ds /\ frun ds 0 flt c f = (Raised i, Complete c).
Proof. exact fault_after_writer. Qed.

(* the obligation holds for the table generated from the current main.py *)
Theorem C12_generated_obligation : c12_obligation stages = true.
Proof. exact generated_c12_obligation. Qed.

Theorem C12_generated_guard_before_writer :
  all_before "raise_if_charge_err" "print_pqr" stages = true
  /\ all_before "raise_if_matched_atoms" "print_pqr" stages = true
  /\ all_before "apply_force_field" "print_pqr" stages = true
  /\ all_before "is_repairable" "print_pqr" stages = true
  /\ all_before "check_files" "print_pqr" stages = true
  /\ all_before "check_options" "print_pqr" stages = true
  /\ all_before "get_molecule" "print_pqr" stages = true
  (* the guard sees the FINAL charges: no Compute stage follows it, and the summing loop comes
     after apply_force_field AND after the --ligand block (loop_residue_tot_charge, assign_matched_atoms) *)
  /\ guard_is_last_compute stages = true
  /\ all_before "apply_force_field" "raise_if_charge_err" stages = true
  /\ all_before "loop_residue_tot_charge" "loop_residue_charge" stages = true
  /\ all_before "assign_matched_atoms" "loop_residue_charge" stages = true
  /\ all_before "loop_residue_charge" "raise_if_charge_err" stages = true.
Proof. exact generated_guard_before_writer. Qed.

Example C12_guard_order_nonvacuous :
  guard_is_last_compute
    [mk_sdesc "apply_force_field" "non_trivial" Compute [] [] [] false false;
     mk_sdesc "loop_residue_tot_charge" "non_trivial" Compute [] [] [] false false;
     mk_sdesc "raise_if_charge_err" "non_trivial" Compute [] [] [] false false;
     mk_sdesc "apply_name_scheme" "non_trivial" Rename [] [] [] false false;
     mk_sdesc "print_pqr" "main_driver" Output [] [] [("main.print_pqr", ["output_pqr"])] true false] = true
  /\ guard_is_last_compute
    [mk_sdesc "apply_force_field" "non_trivial" Compute [] [] [] false false;
     mk_sdesc "raise_if_charge_err" "non_trivial" Compute [] [] [] false false;
     mk_sdesc "loop_residue_tot_charge" "non_trivial" Compute [] [] [] false false;
     mk_sdesc "print_pqr" "main_driver" Output [] [] [("main.print_pqr", ["output_pqr"])] true false] = false
  /\ guard_is_last_compute [mk_sdesc "print_pqr" "main_driver" Output [] [] [] true false] = false.
Proof. exact guard_order_nonvacuous. Qed.

(* the guard's tolerance is the fixed model constant 1e-3 (TOL/SCALE), not a function of the structure *)
Theorem C12_generated_guard_tolerance :
  guard_tolerance_ok = true /\ Generated.GuardC12.charge_error_e8 = TOL /\ (TOL * 1000 = SCALE)%Z.
Proof. exact generated_guard_tolerance. Qed.

(* meaning of guard_is_last_compute, for ALL stage lists: every stage behind the (last) guard
   stage is not a Compute stage *)
Theorem C12_guard_is_last_compute_spec : forall ds,
  guard_is_last_compute ds = true ->
  exists pre g post, ds = (pre ++ g :: post)%list /\ sd_name g = "raise_if_charge_err"
    /\ forall d, In d post -> sd_kind d <> Compute.
Proof. exact guard_is_last_compute_spec. Qed.

Theorem C12_generated_no_partial_output :
  forall (C : Type) flt (c : C) f,
    ((exists j, j < writer_index stages /\ faulty (flt j) = true) ->
       snd (frun stages 0 flt c f) = f /\ exists i, fst (frun stages 0 flt c f) = Raised i)
    /\ ((forall k, k < List.length stages -> faulty (flt k) = false) ->
       frun stages 0 flt c f = (Finished, Complete c)).
Proof. exact generated_no_partial_output. Qed.


(* ------------------------------------------------------------------ *)
(* SUCCESS HALF, the provable part.
   "A structure made of complete standard residues in parameterised states cannot be
   rejected by the integrality guard": for ALL residue lists whose units are amino residues
   in non-excepted, fully parameterised rows of the state table, waters and complete strands
   (in any order), the total main.non_trivial hands to noninteger_charge is an integer
   multiple of SCALE, the guard does not raise, and any float total within TOL passes.
   (C02's guard_never_fires, restated here per built-in force field; units value * 10^8.)

   Combined with the stage model: on the stage table generated from the current main.py,
   if the structure is table-consistent, the guard stage faults exactly when the modelled
   guard raises and NO OTHER stage faults, the run reaches (Finished, Complete c).
   The hypothesis "no other stage faults" is what remains EXPLORATION: parsing, repair,
   debumping, hydrogen optimisation, pKa and parameter lookup can still raise on geometry
   or data and are not modelled (harness: builder structures x force fields). *)
Theorem C12_guard_never_fires_AMBER : forall units qs,
  Forall (unit_valid StatesFF_AMBER.built StatesFF_AMBER.known_exceptions States.arows States.nrows States.wat_id States.wat_atoms) units ->
  Permutation qs (List.concat (map unit_charges units)) ->
  (exists k, guard_total qs = (k * SCALE)%Z) /\
  guard_raises qs = false /\
  (forall t, (Z.abs (t - guard_total qs) <= TOL)%Z -> guard_ok t = true).
Proof. exact (guard_never_fires _ _ _ _ _ _ StatesFF_AMBER.state_exact StatesFF_AMBER.strand_exact StatesFF_AMBER.round4_facts StatesFF_AMBER.water_neutral). Qed.

Theorem C12_table_consistent_run_completes_AMBER :
  forall (C : Type) units qs (flt : nat -> fault) (c : C) (f : fstate C),
    Forall (unit_valid StatesFF_AMBER.built StatesFF_AMBER.known_exceptions States.arows States.nrows States.wat_id States.wat_atoms) units ->
    Permutation qs (List.concat (map unit_charges units)) ->
    (forall g, In g guard_stages -> faulty (flt g) = guard_raises qs) ->
    (forall k, k < List.length stages -> ~ In k guard_stages -> faulty (flt k) = false) ->
    frun stages 0 flt c f = (Finished, Complete c).
Proof. exact run_completes_AMBER. Qed.
Theorem C12_guard_never_fires_CHARMM : forall units qs,
  Forall (unit_valid StatesFF_CHARMM.built StatesFF_CHARMM.known_exceptions States.arows States.nrows States.wat_id States.wat_atoms) units ->
  Permutation qs (List.concat (map unit_charges units)) ->
  (exists k, guard_total qs = (k * SCALE)%Z) /\
  guard_raises qs = false /\
  (forall t, (Z.abs (t - guard_total qs) <= TOL)%Z -> guard_ok t = true).
Proof. exact (guard_never_fires _ _ _ _ _ _ StatesFF_CHARMM.state_exact StatesFF_CHARMM.strand_exact StatesFF_CHARMM.round4_facts StatesFF_CHARMM.water_neutral). Qed.

Theorem C12_table_consistent_run_completes_CHARMM :
  forall (C : Type) units qs (flt : nat -> fault) (c : C) (f : fstate C),
    Forall (unit_valid StatesFF_CHARMM.built StatesFF_CHARMM.known_exceptions States.arows States.nrows States.wat_id States.wat_atoms) units ->
    Permutation qs (List.concat (map unit_charges units)) ->
    (forall g, In g guard_stages -> faulty (flt g) = guard_raises qs) ->
    (forall k, k < List.length stages -> ~ In k guard_stages -> faulty (flt k) = false) ->
    frun stages 0 flt c f = (Finished, Complete c).
Proof. exact run_completes_CHARMM. Qed.
Theorem C12_guard_never_fires_PARSE : forall units qs,
  Forall (unit_valid StatesFF_PARSE.built StatesFF_PARSE.known_exceptions States.arows States.nrows States.wat_id States.wat_atoms) units ->
  Permutation qs (List.concat (map unit_charges units)) ->
  (exists k, guard_total qs = (k * SCALE)%Z) /\
  guard_raises qs = false /\
  (forall t, (Z.abs (t - guard_total qs) <= TOL)%Z -> guard_ok t = true).
Proof. exact (guard_never_fires _ _ _ _ _ _ StatesFF_PARSE.state_exact StatesFF_PARSE.strand_exact StatesFF_PARSE.round4_facts StatesFF_PARSE.water_neutral). Qed.

Theorem C12_table_consistent_run_completes_PARSE :
  forall (C : Type) units qs (flt : nat -> fault) (c : C) (f : fstate C),
    Forall (unit_valid StatesFF_PARSE.built StatesFF_PARSE.known_exceptions States.arows States.nrows States.wat_id States.wat_atoms) units ->
    Permutation qs (List.concat (map unit_charges units)) ->
    (forall g, In g guard_stages -> faulty (flt g) = guard_raises qs) ->
    (forall k, k < List.length stages -> ~ In k guard_stages -> faulty (flt k) = false) ->
    frun stages 0 flt c f = (Finished, Complete c).
Proof. exact run_completes_PARSE. Qed.
Theorem C12_guard_never_fires_PEOEPB : forall units qs,
  Forall (unit_valid StatesFF_PEOEPB.built StatesFF_PEOEPB.known_exceptions States.arows States.nrows States.wat_id States.wat_atoms) units ->
  Permutation qs (List.concat (map unit_charges units)) ->
  (exists k, guard_total qs = (k * SCALE)%Z) /\
  guard_raises qs = false /\
  (forall t, (Z.abs (t - guard_total qs) <= TOL)%Z -> guard_ok t = true).
Proof. exact (guard_never_fires _ _ _ _ _ _ StatesFF_PEOEPB.state_exact StatesFF_PEOEPB.strand_exact StatesFF_PEOEPB.round4_facts StatesFF_PEOEPB.water_neutral). Qed.

Theorem C12_table_consistent_run_completes_PEOEPB :
  forall (C : Type) units qs (flt : nat -> fault) (c : C) (f : fstate C),
    Forall (unit_valid StatesFF_PEOEPB.built StatesFF_PEOEPB.known_exceptions States.arows States.nrows States.wat_id States.wat_atoms) units ->
    Permutation qs (List.concat (map unit_charges units)) ->
    (forall g, In g guard_stages -> faulty (flt g) = guard_raises qs) ->
    (forall k, k < List.length stages -> ~ In k guard_stages -> faulty (flt k) = false) ->
    frun stages 0 flt c f = (Finished, Complete c).
Proof. exact run_completes_PEOEPB. Qed.
Theorem C12_guard_never_fires_SWANSON : forall units qs,
  Forall (unit_valid StatesFF_SWANSON.built StatesFF_SWANSON.known_exceptions States.arows States.nrows States.wat_id States.wat_atoms) units ->
  Permutation qs (List.concat (map unit_charges units)) ->
  (exists k, guard_total qs = (k * SCALE)%Z) /\
  guard_raises qs = false /\
  (forall t, (Z.abs (t - guard_total qs) <= TOL)%Z -> guard_ok t = true).
Proof. exact (guard_never_fires _ _ _ _ _ _ StatesFF_SWANSON.state_exact StatesFF_SWANSON.strand_exact StatesFF_SWANSON.round4_facts StatesFF_SWANSON.water_neutral). Qed.

Theorem C12_table_consistent_run_completes_SWANSON :
  forall (C : Type) units qs (flt : nat -> fault) (c : C) (f : fstate C),
    Forall (unit_valid StatesFF_SWANSON.built StatesFF_SWANSON.known_exceptions States.arows States.nrows States.wat_id States.wat_atoms) units ->
    Permutation qs (List.concat (map unit_charges units)) ->
    (forall g, In g guard_stages -> faulty (flt g) = guard_raises qs) ->
    (forall k, k < List.length stages -> ~ In k guard_stages -> faulty (flt k) = false) ->
    frun stages 0 flt c f = (Finished, Complete c).
Proof. exact run_completes_SWANSON. Qed.
Theorem C12_guard_never_fires_TYL06 : forall units qs,
  Forall (unit_valid StatesFF_TYL06.built StatesFF_TYL06.known_exceptions States.arows States.nrows States.wat_id States.wat_atoms) units ->
  Permutation qs (List.concat (map unit_charges units)) ->
  (exists k, guard_total qs = (k * SCALE)%Z) /\
  guard_raises qs = false /\
  (forall t, (Z.abs (t - guard_total qs) <= TOL)%Z -> guard_ok t = true).
Proof. exact (guard_never_fires _ _ _ _ _ _ StatesFF_TYL06.state_exact StatesFF_TYL06.strand_exact StatesFF_TYL06.round4_facts StatesFF_TYL06.water_neutral). Qed.

Theorem C12_table_consistent_run_completes_TYL06 :
  forall (C : Type) units qs (flt : nat -> fault) (c : C) (f : fstate C),
    Forall (unit_valid StatesFF_TYL06.built StatesFF_TYL06.known_exceptions States.arows States.nrows States.wat_id States.wat_atoms) units ->
    Permutation qs (List.concat (map unit_charges units)) ->
    (forall g, In g guard_stages -> faulty (flt g) = guard_raises qs) ->
    (forall k, k < List.length stages -> ~ In k guard_stages -> faulty (flt k) = false) ->
    frun stages 0 flt c f = (Finished, Complete c).
Proof. exact run_completes_TYL06. Qed.
(* the guard stage exists in the generated table and sits in front of the writer; were it
   to fire, the run raises and the file state is untouched *)
Theorem C12_guard_stage_in_table :
  guard_stages <> [] /\ forall g, In g guard_stages -> g < writer_index stages.
Proof. exact (conj guard_stage_exists guard_stage_before_writer). Qed.

(* non-vacuity of the success statements: a table-consistent structure exists (row 0 of the
   generated state table + a water), its guard does not raise, the guard stage exists *)
Example C12_success_nonvacuous :
  exists u q qs,
    pick_amino StatesFF_AMBER.built StatesFF_AMBER.known_exceptions States.arows 0 0 = Some u
    /\ Forall (unit_valid StatesFF_AMBER.built StatesFF_AMBER.known_exceptions States.arows States.nrows States.wat_id States.wat_atoms) [u; UWater q]
    /\ Permutation qs (List.concat (map unit_charges [u; UWater q]))
    /\ guard_raises qs = false
    /\ guard_stages <> [].
Proof. exact success_nonvacuous_AMBER. Qed.

(* ------------------------------------------------------------------ *)
(* HISTORIES: the property holds for the 2nd, 3rd ... attempt in one process.  In the model a
   run is a function of its own inputs and of the file state it starts from; [run_seq] threads the
   file state through a sequence of runs (a completed file is an old file for the next run).
   The tie (harness): in-process histories [fail, same again], [ok, fail], [fail, ok], [fail A,
   fail B] on the real main_driver; every step must equal the single-run outcome of its input. *)
Theorem C12_history_outcomes :
  forall (C : Type) ds inputs (f : fstate C),
    map fst (run_seq ds inputs f)
    = map (fun ic : (nat -> fault) * C => fst (frun ds 0 (fst ic) (snd ic) Absent)) inputs.
Proof. exact run_seq_outcomes. Qed.

Theorem C12_failing_history_keeps_file :
  forall (C : Type) ds, c12_obligation ds = true ->
    forall inputs (f : fstate C), settle f = f ->
      Forall (fun ic : (nat -> fault) * C => exists j, j < writer_index ds /\ faulty (fst ic j) = true) inputs ->
      Forall (fun res => snd res = f /\ exists i, fst res = Raised i) (run_seq ds inputs f).
Proof. exact failing_history_keeps_file. Qed.

Theorem C12_ok_after_failing_history :
  forall (C : Type) ds, c12_obligation ds = true ->
    forall inputs (f : fstate C) flt c, settle f = f ->
      Forall (fun ic : (nat -> fault) * C => exists j, j < writer_index ds /\ faulty (fst ic j) = true) inputs ->
      (forall k, k < List.length ds -> faulty (flt k) = false) ->
      List.last (run_seq ds (inputs ++ [(flt, c)]) f) (Finished, f) = (Finished, Complete c).
Proof. exact ok_after_failing_history. Qed.

(* instance on the generated table + non-vacuity: [fail at stage 5, fail at stage 5 again, ok] from an old file *)
Example C12_history_nonvacuous :
  c12_obligation stages = true /\
  run_seq stages [(one_fault 5 AtEntry, true); (one_fault 5 AtEntry, true); (fun _ => NoFault, true)] (Old false)
  = [(Raised 5, Old false); (Raised 5, Old false); (Finished, Complete true)].
Proof. split; [exact generated_c12_obligation | vm_compute; reflexivity]. Qed.

(* non-vacuity: the obligation is satisfiable by a small list and is needed -
   with a swallowing handler a failed run ends Finished with a Complete file,
   with the writer in front of the guard a failed run leaves a Complete file *)
Example C12_nonvacuous :
  c12_obligation
    [mk_sdesc "apply_force_field" "non_trivial" Compute [] [] [] false false;
     mk_sdesc "print_pqr" "main_driver" Output [] [] [("main.print_pqr", ["output_pqr"])] true false;
     mk_sdesc "print_pdb" "main_driver" Output [] [] [("main.print_pdb", ["pdb_output"])] false false] = true
  /\ (let ds := [mk_sdesc "apply_force_field" "non_trivial" Compute [] [] [] false true;
                 mk_sdesc "print_pqr" "main_driver" Output [] [] [("main.print_pqr", ["output_pqr"])] true false] in
      c12_obligation ds = false
      /\ frun ds 0 (one_fault 0 AtEntry) true (Old false) = (Finished, Complete true))
  /\ (let ds := [mk_sdesc "print_pqr" "main_driver" Output [] [] [("main.print_pqr", ["output_pqr"])] true false;
                 mk_sdesc "raise_if_charge_err" "non_trivial" Compute [] [] [] false false] in
      c12_obligation ds = false
      /\ frun ds 0 (one_fault 1 AtEntry) true (Old false) = (Raised 1, Complete true)).
Proof. exact (conj eq_refl (conj c12_swallow_breaks c12_early_writer_breaks)). Qed.

Print Assumptions C12_no_partial_output.
Print Assumptions C12_fault_before_writer.
Print Assumptions C12_fault_in_writer.
Print Assumptions C12_fault_after_writer.
Print Assumptions C12_generated_obligation.
Print Assumptions C12_generated_guard_before_writer.
Print Assumptions C12_generated_no_partial_output.
Print Assumptions C12_nonvacuous.
Print Assumptions C12_guard_never_fires_AMBER.
Print Assumptions C12_table_consistent_run_completes_AMBER.
Print Assumptions C12_guard_never_fires_CHARMM.
Print Assumptions C12_table_consistent_run_completes_CHARMM.
Print Assumptions C12_guard_never_fires_PARSE.
Print Assumptions C12_table_consistent_run_completes_PARSE.
Print Assumptions C12_guard_never_fires_PEOEPB.
Print Assumptions C12_table_consistent_run_completes_PEOEPB.
Print Assumptions C12_guard_never_fires_SWANSON.
Print Assumptions C12_table_consistent_run_completes_SWANSON.
Print Assumptions C12_guard_never_fires_TYL06.
Print Assumptions C12_table_consistent_run_completes_TYL06.
Print Assumptions C12_guard_stage_in_table.
Print Assumptions C12_success_nonvacuous.
Print Assumptions C12_guard_is_last_compute_spec.
Print Assumptions C12_guard_order_nonvacuous.
Print Assumptions C12_generated_guard_tolerance.
Print Assumptions C12_history_outcomes.
Print Assumptions C12_failing_history_keeps_file.
Print Assumptions C12_ok_after_failing_history.
Print Assumptions C12_history_nonvacuous.
