(* C12 - a PQR file is only ever written complete, after all computation has
   succeeded; a failing run leaves the output path alone.
   Property theorems only; proofs are in Proofs/Pipeline.v (generic) and
   Proofs/StagesC12.v (facts about the stage table generated from main.py). *)
From Coq Require Import String List Bool Arith.
From PV Require Import Model.Pipeline Proofs.Pipeline Generated.Stages Proofs.StagesC12.
Import ListNotations.
Local Open Scope string_scope.

(* For ALL stage lists satisfying the obligation, ALL fault vectors, ALL contents
   and ALL initial file states: a failure of any stage in front of the writer
   leaves the file state unchanged and raises; no failure => Finished, Complete. *)
Theorem C12_no_partial_output :
  forall (C : Type) (ds : list sdesc), c12_obligation ds = true ->
    forall (flt : nat -> fault) (c : C) (f : fstate C),
      ((exists j, j < writer_index ds /\ faulty (flt j) = true) ->
         snd (frun ds 0 flt c f) = f /\ exists i, fst (frun ds 0 flt c f) = Raised i)
      /\ ((forall k, k < length ds -> faulty (flt k) = false) ->
         frun ds 0 flt c f = (Finished, Complete c)).
Proof. exact no_partial_output. Qed.

(* sharper: the run stops at the FIRST faulty stage *)
Theorem C12_fault_before_writer :
  forall (C : Type) (ds : list sdesc), c12_obligation ds = true ->
    forall (flt : nat -> fault) (c : C) (f : fstate C),
      (exists j, j < writer_index ds /\ faulty (flt j) = true) ->
      exists i, i < writer_index ds /\ frun ds 0 flt c f = (Raised i, f)
                /\ faulty (flt i) = true /\ (forall k, k < i -> faulty (flt k) = false).
Proof. exact fault_before_writer. Qed.

(* real behaviour, stated explicitly: a failure INSIDE print_pqr (after the path
   was opened) leaves a partial file; at its entry, nothing *)
Theorem C12_fault_in_writer :
  forall (C : Type) (ds : list sdesc), c12_obligation ds = true ->
    forall (flt : nat -> fault) (c : C) (f : fstate C),
      (forall k, k < writer_index ds -> faulty (flt k) = false) ->
      (flt (writer_index ds) = Inside -> frun ds 0 flt c f = (Raised (writer_index ds), Partial))
      /\ (flt (writer_index ds) = AtEntry -> frun ds 0 flt c f = (Raised (writer_index ds), f)).
Proof. exact fault_in_writer. Qed.

(* real behaviour, stated explicitly: a failure AFTER print_pqr (--pdb-output,
   --apbs-input) raises but the complete PQR stays *)
Theorem C12_fault_after_writer :
  forall (C : Type) (ds : list sdesc), c12_obligation ds = true ->
    forall (flt : nat -> fault) (c : C) (f : fstate C),
      (forall k, k <= writer_index ds -> faulty (flt k) = false) ->
      (exists j, writer_index ds < j < length ds /\ faulty (flt j) = true) ->
      exists i, writer_index ds < i < length ds /\ frun ds 0 flt c f = (Raised i, Complete c).
Proof. exact fault_after_writer. Qed.

(* the obligation holds for the table generated from the current main.py *)
Theorem C12_generated_obligation : c12_obligation stages = true.
Proof. exact generated_c12_obligation. Qed.

Theorem C12_generated_guard_before_writer :
  all_before "raise_if_charge_err" "print_pqr" stages = true
  /\ all_before "raise_if_matched_atoms" "print_pqr" stages = true
  /\ all_before "apply_force_field" "print_pqr" stages = true
  /\ all_before "is_repairable" "print_pqr" stages = true
  /\ all_before "check_files" "print_pqr" stages = true
  /\ all_before "check_options" "print_pqr" stages = true
  /\ all_before "get_molecule" "print_pqr" stages = true.
Proof. exact generated_guard_before_writer. Qed.

Theorem C12_generated_no_partial_output :
  forall (C : Type) flt (c : C) f,
    ((exists j, j < writer_index stages /\ faulty (flt j) = true) ->
       snd (frun stages 0 flt c f) = f /\ exists i, fst (frun stages 0 flt c f) = Raised i)
    /\ ((forall k, k < length stages -> faulty (flt k) = false) ->
       frun stages 0 flt c f = (Finished, Complete c)).
Proof. exact generated_no_partial_output. Qed.

(* non-vacuity: the obligation is satisfiable by a small list and is needed -
   with a swallowing handler a failed run ends Finished with a Complete file,
   with the writer in front of the guard a failed run leaves a Complete file *)
Example C12_nonvacuous :
  c12_obligation
    [mk_sdesc "apply_force_field" "non_trivial" Compute [] [] [] false false;
     mk_sdesc "print_pqr" "main_driver" Output [] [] [("main.print_pqr", ["output_pqr"])] true false;
     mk_sdesc "print_pdb" "main_driver" Output [] [] [("main.print_pdb", ["pdb_output"])] false false] = true
  /\ (let ds := [mk_sdesc "apply_force_field" "non_trivial" Compute [] [] [] false true;
                 mk_sdesc "print_pqr" "main_driver" Output [] [] [("main.print_pqr", ["output_pqr"])] true false] in
      c12_obligation ds = false
      /\ frun ds 0 (one_fault 0 AtEntry) true (Old false) = (Finished, Complete true))
  /\ (let ds := [mk_sdesc "print_pqr" "main_driver" Output [] [] [("main.print_pqr", ["output_pqr"])] true false;
                 mk_sdesc "raise_if_charge_err" "non_trivial" Compute [] [] [] false false] in
      c12_obligation ds = false
      /\ frun ds 0 (one_fault 1 AtEntry) true (Old false) = (Raised 1, Complete true)).
Proof. exact (conj eq_refl (conj c12_swallow_breaks c12_early_writer_breaks)). Qed.

Print Assumptions C12_no_partial_output.
Print Assumptions C12_fault_before_writer.
Print Assumptions C12_fault_in_writer.
Print Assumptions C12_fault_after_writer.
Print Assumptions C12_generated_obligation.
Print Assumptions C12_generated_guard_before_writer.
Print Assumptions C12_generated_no_partial_output.
Print Assumptions C12_nonvacuous.
