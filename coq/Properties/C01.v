(* C01 - assigned charges and radii are exactly the selected force field's
   parameters. Property theorems only; proofs are in Proofs/ForceField.v and
   the generated obligations in Generated/FF_<name>.v. *)
From Coq Require Import ZArith List PArith Permutation Bool.
From PV Require Import Model.ForceField Proofs.ForceField.
From PV Require Generated.FF_AMBER Generated.FF_CHARMM Generated.FF_PARSE
                Generated.FF_PEOEPB Generated.FF_SWANSON Generated.FF_TYL06.
Import ListNotations.

(* For ALL parameter files and ALL .names rule lists (built-in or user): an
   entry of the resulting map IS one data row of the parameter file - charge,
   radius and native names from the same row; nothing defaulted or borrowed. *)
Theorem C01_build_sound : forall (rows : list row) (rules : list rule) (m : ffmap) r a e,
  build rows rules = Some m -> lookup m r a = Some e ->
  exists w, In w rows /\ e = entry_of_row w.
Proof. exact build_sound. Qed.

(* a residue name no rule matches keeps exactly its own rows *)
Theorem C01_build_frame : forall rows rules m k,
  Forall (untouched k) rules -> build rows rules = Some m ->
  dget m k = dget (load_dat rows) k.
Proof. exact build_frame. Qed.

(* apply_force_field, for ALL residue lists: a hit carries exactly
   lookup(ffname, atom name) ... *)
Theorem C01_assign_hit_exact : forall (A : Type) (m : ffmap) (rs : list (@res A)) (x : A) e,
  In (x, e) (fst (assign m rs)) ->
  exists r n, In r rs /\ In (x, n) (snd r) /\ lookup m (fst r) n = Some e.
Proof. exact @assign_hit_exact. Qed.

(* ... an atom is unassigned only when the force field has no entry ... *)
Theorem C01_assign_miss_exact : forall (A : Type) (m : ffmap) (rs : list (@res A)) (x : A),
  In x (snd (assign m rs)) ->
  exists r n, In r rs /\ In (x, n) (snd r) /\ lookup m (fst r) n = None.
Proof. exact @assign_miss_exact. Qed.

(* ... and hits + misses are exactly the atoms: none lost, none duplicated *)
Theorem C01_assign_partition : forall (A : Type) (m : ffmap) (rs : list (@res A)),
  Permutation (map fst (fst (assign m rs)) ++ snd (assign m rs)) (all_atoms rs).
Proof. exact @assign_partition. Qed.

(* soundness of the table comparison *)
Theorem C01_same_map_lookup : forall m dump n r a e,
  same_map m dump n = true -> In (r, a, e) dump -> lookup m r a = Some e.
Proof. exact same_map_lookup. Qed.

(* generated obligations: for each built-in force field the model, run on the
   DAT and .names file texts, reproduces the map built by forcefield.py *)
Theorem C01_table_eq_AMBER : check_build FF_AMBER.rows FF_AMBER.rules FF_AMBER.dump FF_AMBER.nres = true.
Proof. exact FF_AMBER.table_eq. Qed.
Theorem C01_table_eq_CHARMM : check_build FF_CHARMM.rows FF_CHARMM.rules FF_CHARMM.dump FF_CHARMM.nres = true.
Proof. exact FF_CHARMM.table_eq. Qed.
Theorem C01_table_eq_PARSE : check_build FF_PARSE.rows FF_PARSE.rules FF_PARSE.dump FF_PARSE.nres = true.
Proof. exact FF_PARSE.table_eq. Qed.
Theorem C01_table_eq_PEOEPB : check_build FF_PEOEPB.rows FF_PEOEPB.rules FF_PEOEPB.dump FF_PEOEPB.nres = true.
Proof. exact FF_PEOEPB.table_eq. Qed.
Theorem C01_table_eq_SWANSON : check_build FF_SWANSON.rows FF_SWANSON.rules FF_SWANSON.dump FF_SWANSON.nres = true.
Proof. exact FF_SWANSON.table_eq. Qed.
Theorem C01_table_eq_TYL06 : check_build FF_TYL06.rows FF_TYL06.rules FF_TYL06.dump FF_TYL06.nres = true.
Proof. exact FF_TYL06.table_eq. Qed.

(* non-vacuity: the built-in maps are non-empty and a rule-produced alias
   (an entry whose key differs from its native row) exists *)
Example C01_nonvacuous :
  existsb (fun f => let '(r, a, e) := f in negb (Pos.eqb r (e_nres e)) || negb (Pos.eqb a (e_natom e)))
          (flatten FF_AMBER.built) = true.
Proof. vm_compute. reflexivity. Qed.

Print Assumptions C01_build_sound.
Print Assumptions C01_build_frame.
Print Assumptions C01_assign_hit_exact.
Print Assumptions C01_assign_miss_exact.
Print Assumptions C01_assign_partition.
Print Assumptions C01_same_map_lookup.
Print Assumptions C01_table_eq_AMBER.
Print Assumptions C01_table_eq_CHARMM.
Print Assumptions C01_table_eq_PARSE.
Print Assumptions C01_table_eq_PEOEPB.
Print Assumptions C01_table_eq_SWANSON.
Print Assumptions C01_table_eq_TYL06.
Print Assumptions C01_nonvacuous.
