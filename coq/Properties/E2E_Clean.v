(* E2E_Clean - `pdb2pqr --clean [--drop-water] [--keep-chain] [--whitespace] in.pdb out.pqr`
   end to end, as the composition of the C07 model (read_pdb ; drop_water ;
   Biomolecule.__init__), set_termini, and the C08 model (get_pqr_string ;
   print_biomolecule_atoms ; print_pqr).  Property theorems only; model in
   Model/CleanRun.v, proofs in Proofs/CleanRun.v (they compose Proofs/Group.v,
   Proofs/Ingest.v and Proofs/PqrFormat.v; nothing of C07 / C08 is re-proved).

   Objects:
     clean_run fok tab pt near r3 dropw keep ws lines
                           the strings print_pqr writes (None = an exception left main_driver);
                           oracles: fok = float(text) succeeds, r3 = '%.3f' of float(text),
                           near = the cyclic-chain test distance < 1.35; tab / pt = definition
                           and terminal-patch tables (regenerated from /repo by the harness)
     clean_items ...       results["lines"] of main_driver as items (atom line / TER / TER+END)
     cols_read lines       C07's independent column read of the input: ATOM/HETATM lines in front
                           of the second MODEL line, first listed per (chain, resSeq, iCode, name)
     in_crec r3 keep l     columns of input line l: chain (col 22, when --keep-chain), resSeq
                           (23-26), iCode (27), x y z (31-54) rendered to 0.001 by r3
     out_crec (read_fixed s)  the same columns of an OUTPUT line, read by the writer's columns (C08)
     in_nrec / out_nrec    record name (1-6), atom name (13-16), residue name (18-20 / 17-20)
     e2e_guard ... ok lines = C07's guard (G1, G2, G5)
                              && termini_quiet: set_termini returns the atoms unchanged
                              && every atom, with serial = position, meets ok (C08: fixed_ok / ws_ok)

   FULL STATEMENT (kept visible): for ALL line lists meeting C07's guard whose
   atoms meet C08's column capacities,

     exists its, clean_items ... false keep lines = Some its /\
       Permutation (map out_crec (map read_fixed (atom_lines its)))
                   (map (in_crec r3 keep) (cols_read lines))

   i.e. every coordinate record of the first model is in the output exactly once
   with its chain, resSeq, iCode and coordinates.  It is REFUTED by the faithful
   model (E2E_clean_run_faithful_refuted, replayed on the real CLI by the
   harness): set_termini - which main_driver runs before the --clean branch -
   applies the 5TERM patch, which REMOVES the 5' phosphate (P, O1P, O2P) of the
   first nucleotide of every chain; it also renames terminal atoms (H1 -> H,
   OT1 -> O ...), gives the residues in front of an internal OXT / H3T a new chain id
   (E2E_hidden_chain_refuted) and letters a blank chain.  What is proved for ALL
   inputs is the statement under the additional, decidable guard termini_quiet
   (_partial).  ORDER: the theorems state a Permutation (C07's record-level
   theorem is one); the order of the written file - chains sorted as Biomolecule
   sorts them ("" as "ZZ"), file order inside a chain - is checked by the harness
   (byte-for-byte correspondence + the independent slicer), not proved. *)
From Coq Require Import String List ZArith NArith Bool Permutation.
From PV Require Import Lib.Strings Lib.Decimal Model.PdbRead Model.Group Model.PdbSpec Model.CleanRun
  Proofs.CleanRun.
From PV Require Model.PqrFormat Proofs.PqrFormat.
Import ListNotations.
Local Open Scope string_scope.

Module MP := PV.Model.PqrFormat.
Module PP := PV.Proofs.PqrFormat.

(* default layout: reading the written file back by the writer's columns yields,
   as a multiset, exactly the chain / resSeq / iCode / coordinates (to 0.001) of
   the records C07's column read selects from the input - nothing lost, nothing
   twice, nothing from a later model, no water dropped *)
Theorem E2E_clean_run_faithful_partial :
  forall (fok : string -> bool) (tab : deftab) (pt : ptab) (near : atomrec -> atomrec -> bool)
         (r3 : string -> MP.fx) (keep : bool) (lines : list string),
  e2e_guard fok tab pt near r3 (MP.fixed_ok keep) lines = true ->
  exists its,
    clean_items fok tab pt near r3 false keep lines = Some its /\
    clean_run fok tab pt near r3 false keep false lines = Some (map MP.item_text its) /\
    Permutation (map out_crec (map MP.read_fixed (PP.atom_lines its)))
                (map (in_crec r3 keep) (cols_read lines)).
Proof. exact clean_run_faithful_partial. Qed.

(* and record type, atom name, residue name, when the residue classes left them as
   the columns have them (canon_guard: no ATOM<->HETATM normalisation, no alias
   renaming, no RNA residue renaming in this file) *)
Theorem E2E_clean_run_names_partial :
  forall (fok : string -> bool) (tab : deftab) (pt : ptab) (near : atomrec -> atomrec -> bool)
         (r3 : string -> MP.fx) (keep : bool) (lines : list string),
  e2e_guard fok tab pt near r3 (MP.fixed_ok keep) lines = true ->
  canon_guard fok tab lines = true ->
  exists its,
    clean_items fok tab pt near r3 false keep lines = Some its /\
    Permutation (map (fun f => (out_crec f, out_nrec f)) (map MP.read_fixed (PP.atom_lines its)))
                (map (fun l => (in_crec r3 keep l, in_nrec (strip l))) (cols_read lines)).
Proof. exact clean_run_names_partial. Qed.

(* --drop-water: the same statement about the input without its water lines
   (through C07_drop_water_iff; G1 on the whole file, the guard on the rest) *)
Theorem E2E_clean_run_drop_water_partial :
  forall (fok : string -> bool) (tab : deftab) (pt : ptab) (near : atomrec -> atomrec -> bool)
         (r3 : string -> MP.fx) (keep : bool) (lines : list string),
  forallb (g_line fok) lines = true ->
  e2e_guard fok tab pt near r3 (MP.fixed_ok keep) (no_water lines) = true ->
  exists its,
    clean_run fok tab pt near r3 true keep false lines = Some (map MP.item_text its) /\
    Permutation (map out_crec (map MP.read_fixed (PP.atom_lines its)))
                (map (in_crec r3 keep) (cols_read (no_water lines))).
Proof. exact clean_run_drop_water_partial. Qed.

(* --whitespace: pdb2pqr's own reader (io.read_pqr / Atom.from_pqr_line) on the
   written file returns the records (through C08_ws_file_roundtrip_partial) *)
Theorem E2E_clean_run_whitespace_partial :
  forall (fok : string -> bool) (tab : deftab) (pt : ptab) (near : atomrec -> atomrec -> bool)
         (r3 : string -> MP.fx) (keep : bool) (lines : list string),
  e2e_guard fok tab pt near r3 (MP.ws_ok keep) lines = true ->
  exists out ps,
    clean_run fok tab pt near r3 false keep true lines = Some out /\
    MP.read_pqr out = inl ps /\
    Permutation (map ws_crec ps) (map (in_crec r3 keep) (cols_read lines)).
Proof. exact clean_run_whitespace_partial. Qed.

(* ALL inputs, any flags, no guard: the default-layout file is the atom lines of
   Biomolecule.atoms in order, serial = position, TER between chains, "TER\nEND" last *)
Theorem E2E_clean_file_shape :
  forall (fok : string -> bool) (tab : deftab) (pt : ptab) (near : atomrec -> atomrec -> bool)
         (r3 : string -> MP.fx) (dropw keep : bool) (lines : list string) (atoms : list atomrec),
  clean_atoms fok tab pt near dropw lines = Some atoms ->
  clean_run fok tab pt near r3 dropw keep false lines =
    Some (map MP.item_text (MP.print_items keep (map (conv r3) atoms))) /\
  PP.atom_lines (MP.print_items keep (map (conv r3) atoms)) = PP.numbered keep 0 (map (conv r3) atoms).
Proof. exact clean_file_shape. Qed.

(* the full statement is refuted: a file inside C07's guard and the column
   capacities whose 5' phosphate record is not in the output *)
Theorem E2E_clean_run_faithful_refuted :
  guard py_float_ok etab ex_5prime = true /\
  List.length (cols_read ex_5prime) = 4 /\
  clean_file py_float_ok etab ept near_dec er3 false true false ex_5prime = Some ex_5prime_out /\
  (exists its, clean_items py_float_ok etab ept near_dec er3 false true ex_5prime = Some its /\
     List.length (PP.atom_lines its) = 3 /\
     ~ Permutation (map out_crec (map MP.read_fixed (PP.atom_lines its)))
                   (map (in_crec er3 true) (cols_read ex_5prime))).
Proof. exact five_prime_refuted. Qed.

(* with --keep-chain the chain id is not always the input's: hidden chain *)
Theorem E2E_hidden_chain_refuted :
  guard py_float_ok etab ex_hidden = true /\
  clean_file py_float_ok etab ept near_dec er3 false true false ex_hidden = Some ex_hidden_out.
Proof. exact hidden_chain_refuted. Qed.

(* non-vacuity: an 18-line file (header, two models, alt-locs, blank line, short
   line, negative resSeq with insertion code, TER, two chains, ligand, waters)
   meets every guard; 8 records selected, 6 without the waters; the exact files *)
Example E2E_nonvacuous :
  e2e_guard py_float_ok etab ept near_dec er3 (MP.fixed_ok true) ex_clean = true /\
  e2e_guard py_float_ok etab ept near_dec er3 (MP.ws_ok true) ex_clean = true /\
  canon_guard py_float_ok etab ex_clean = true /\
  forallb (g_line py_float_ok) ex_clean = true /\
  e2e_guard py_float_ok etab ept near_dec er3 (MP.fixed_ok true) (no_water ex_clean) = true /\
  List.length (cols_read ex_clean) = 8 /\
  List.length (cols_read (no_water ex_clean)) = 6 /\
  clean_file py_float_ok etab ept near_dec er3 false true false ex_clean = Some ex_clean_out /\
  clean_file py_float_ok etab ept near_dec er3 true true false ex_clean = Some ex_clean_out_dropw.
Proof. exact ex_clean_ok. Qed.

Print Assumptions E2E_clean_run_faithful_partial.
Print Assumptions E2E_clean_run_names_partial.
Print Assumptions E2E_clean_run_drop_water_partial.
Print Assumptions E2E_clean_run_whitespace_partial.
Print Assumptions E2E_clean_file_shape.
Print Assumptions E2E_clean_run_faithful_refuted.
Print Assumptions E2E_hidden_chain_refuted.
Print Assumptions E2E_nonvacuous.
