(* C06 - titration follows pKa versus pH and stays within force-field support.
   Property theorems only; proofs are in Proofs/Titration.v, the model in
   Model/Titration.v, the tables in Generated/Titration*.v, FF_*.v, Topology.v.

   Vocabulary: [decide ff pos g below] is the transcription of one site of
   Biomolecule.apply_pka_values; [lostf ff name] = atoms of state [name] the
   force field cannot parameterise, computed from the model-built map
   FF_<ff>.built (equal to pdb2pqr's loaded map, C01_table_eq_<ff>) and the
   topology templates; [target_supported] = the state wanted by "protonated iff
   pH < pKa" loses no atom the default state keeps.

   The model follows the code AFTER the repair of the guard lists of
   apply_pka_values (finding F10, fixed): decide_spec and never_dropped are the
   full statements over the property's quantifier (six force fields, positions
   N / internal / C, nine groups, all pH and pKa). The former F10 refutation
   witnesses are regression cases (corpus/C06, must pass on the real code).

   Still refuted by the code as it is (finding F11), kept visible:
     (termini)  a PROPKA row for N+ / C- reaches the N+ / C- site of apply_pka_values
   so C06_decide_spec speaks about apply_pka_values GIVEN its pKa dict; for the
   termini the pipeline never supplies the entry (C06_pipeline_terminus_refuted).
   The OUTPUT statements (C06_charge_monotone_output, C06_decided_state_parameterised)
   cover all four positions: the charge of a residue is the sum of the exact
   charges FF_<ff>.built gives the final atom set of its state (C02's state rows),
   atoms without parameters being omitted as apply_force_field omits them. A
   one-residue chain (N+C) is modelled as the code treats it: named N* only, so
   OXT / HO are written without parameters and only the N-terminal state charges it. *)
From Coq Require Import String List Bool ZArith QArith PArith.
From PV Require Import Lib.Strings Model.ForceField Model.Titration Proofs.Titration.
From PV Require Model.States Generated.States Generated.Titration.
Import ListNotations.

(* -- the group ends protonated exactly when pH < pKa, within support ------------- *)

(* for ALL pH and pKa, every built-in force field, the three chain positions,
   every group and every residue type carrying it *)
Theorem C06_decide_spec : forall ff pos g t (ph pka : Q),
  In ff six_ffs -> In pos proper_positions -> applicable pos g = true -> In t (carriers g) ->
  let o := decide ff pos g (below ph pka) in
  (target_supported (lostf ff) t pos g (below ph pka) = true ->
     (protonated_after g o = true <-> (ph < pka)%Q)) /\
  (target_supported (lostf ff) t pos g (below ph pka) = false ->
     o = Keep true).
Proof. exact decide_spec. Qed.

(* a user force field (--userff) matches no guard list *)
Theorem C06_decide_user_ff : forall pos g b, applicable pos g = true ->
  decide OtherFF pos g b =
  match g, wanted_patch g b with
  | _, None => Keep false
  | GARG, Some _ => Keep true
  | _, Some p => Patch p
  end.
Proof. exact decide_user_ff. Qed.

(* -- no residue is dropped because of titration -------------------------------------- *)

(* every residue type, the three positions, every combination of decided
   sites (N+, C-, side chain; absent / below / above): the state the code
   produces loses no atom the untitrated residue keeps *)
Theorem C06_never_dropped : forall ff t pos s,
  In ff six_ffs -> In pos proper_positions ->
  safe_cell (lostf ff) ff t pos s = true.
Proof. exact never_dropped. Qed.

(* the model's state names are the ones aa.py set_state produced when the
   tables were generated (every type x position x patch subset) *)
Theorem C06_naming_matches_code :
  forallb (fun row => let '(t, pos, ps, name) := row in existsb (String.eqb name) (ffname_after t pos ps))
          Generated.Titration.setstate_tbl = true /\ Generated.Titration.setstate_tbl <> [].
Proof. exact naming_matches_code. Qed.

(* -- the total charge never increases as pH rises -------------------------------------- *)

(* formal charge of the assigned states: ALL residue lists, ALL pKa
   assignments, all pH pairs, every force field (incl. user), all positions *)
Theorem C06_charge_monotone_formal : forall ff (rs : list tspec) (ph1 ph2 : Q),
  (ph1 <= ph2)%Q ->
  (total_charge (residue_formalZ formalf) ff ph2 rs <= total_charge (residue_formalZ formalf) ff ph1 rs)%Z.
Proof. exact charge_monotone_formal. Qed.

(* the formal charge is defined for every cell (no totalised default is used) *)
Theorem C06_formal_defined : forall ff t pos s, residue_formal formalf ff t pos s <> None.
Proof. exact formal_defined. Qed.

(* -- the charge that reaches the output ------------------------------------------------------- *)

(* cell_out ff t pos s = (charge written, atoms written without parameters) of the state
   the code produces: decide -> patches -> C02 state row(s) -> assigned over FF_<ff>.built;
   it is defined (all rows and alternatives agree) for every cell *)
Theorem C06_output_defined : forall ff t pos s, In ff six_ffs -> cell_out ff t pos s <> None.
Proof. exact out_defined. Qed.

(* the rows used are those of the state name(s) the naming model gives the cell *)
Theorem C06_state_rows_match_names : forall ff t pos s r,
  In r (rows_for PV.Generated.States.arows t pos (residue_patches ff t pos s)) ->
  exists n, In n (residue_names ff t pos s) /\
            name_id Generated.Titration.name_ids n = Some (PV.Model.States.ar_ff r).
Proof. exact rows_match_names. Qed.

(* FULL: ALL residue lists (all four positions, one-residue chains included), ALL pKa
   assignments, pH1 <= pH2, six force fields: the sum of the exact force-field charges of
   the states the code produces never increases *)
Theorem C06_charge_monotone_output : forall ff (rs : list tspec) (ph1 ph2 : Q),
  In ff six_ffs -> (ph1 <= ph2)%Q ->
  (total_charge exactZ ff ph2 rs <= total_charge exactZ ff ph1 rs)%Z.
Proof. exact charge_monotone_output. Qed.

(* titration never makes an atom unparameterised (all four positions): an atom the decided
   state is written without is one the untitrated residue is written without as well, or - in
   a one-residue chain - one of the atoms NEUTRAL-CTERM adds *)
Theorem C06_decided_state_parameterised : forall ff t pos s, In ff six_ffs ->
  exists q0 md q mx,
    cell_out ff t pos no_sides = Some (q0, md) /\ cell_out ff t pos s = Some (q, mx) /\
    forall a, In a mx -> In a md \/ (pos = PosNC /\ In a cterm_added).
Proof. exact decided_state_parameterised. Qed.

Theorem C06_decided_state_fully_parameterised : forall ff t pos s q0, In ff six_ffs -> In pos proper_positions ->
  cell_out ff t pos no_sides = Some (q0, []) ->
  exists q, cell_out ff t pos s = Some (q, []).
Proof. exact decided_state_fully_parameterised. Qed.

(* composition with C02 (StatesFF_<ff>.state_exact): a completely written state carries
   EXACTLY its formal charge, except the states C02 lists as findings (PARSE NEUTRAL-CPRO) *)
Theorem C06_output_is_formal : forall ff t pos ps r alt q, In ff six_ffs ->
  In r (rows_for PV.Generated.States.arows t pos ps) ->
  In alt (real_alts Generated.Titration.never_final r) ->
  ~ In (PV.Model.States.ar_key r) (exc_keys ff) ->
  assigned (builtf ff) (PV.Model.States.ar_ff r) alt = (q, []) ->
  q = (PV.Model.States.ar_formal r * PV.Model.States.SCALE)%Z.
Proof. exact output_is_formal. Qed.

(* the one-residue chain as the code treats it, and two ordinary cells *)
Example C06_one_residue_chain_as_is :
  (exists oxt, cell_out Amber ALA PosNC no_sides = Some (100000000%Z, [oxt])) /\
  (exists ho oxt, cell_out Parse ALA PosNC (mksides None (Some true) None) = Some (100000000%Z, [ho; oxt])) /\
  cell_out Parse ALA PosNC (mksides (Some false) None None) <> cell_out Parse ALA PosNC no_sides /\
  cell_out Amber CYS PosMid (mksides None None (Some false)) = Some ((-100000000)%Z, []) /\
  cell_out Amber ALA PosC no_sides = Some ((-100000000)%Z, []).
Proof. exact one_residue_chain_as_is. Qed.

(* -- keys ---------------------------------------------------------------------------------- *)

(* key_collision_guard: with pairwise distinct keys every site is decided from
   the value the pKa table holds for ITS key, whatever the other residues are *)
Theorem C06_key_collision_guard : forall ff ph d rs,
  NoDup (map i_key (flat_map items_of rs)) ->
  fst (apply_pka_values ff ph d rs) = map (site_result ff ph d) (flat_map items_of rs).
Proof. exact apply_pka_independent. Qed.

(* without the guard: two residues differing only in insertion code share a key *)
Theorem C06_key_collision_refuted :
  exists ff ph d (r1 r2 : residue),
    key_side r1 = key_side r2 /\
    fst (apply_pka_values ff ph d [r1; r2]) <> map (site_result ff ph d) (flat_map items_of [r1; r2]).
Proof. exact key_collision_refuted. Qed.

(* for ALL integers (negative, zero, 4+ digits) and names / chain ids without outer
   whitespace: the dict key main.py builds from res_name, res_num, chain_id is the key
   apply_pka_values computes for that residue, so the row is found at its site *)
Theorem C06_row_key_is_lookup_key : forall (name chain label : string) (num : Z) (pka : Q) (am nt ct : bool),
  lstrip name = name -> name <> EmptyString -> rstrip chain = chain -> chain <> EmptyString ->
  row_key (mkpkarow name num chain label pka) = key_side (mkres am name num chain nt ct).
Proof. exact row_key_is_lookup_key. Qed.

Theorem C06_row_reaches_site : forall (name chain label : string) (num : Z) (pka : Q) (am nt ct : bool),
  lstrip name = name -> name <> EmptyString -> rstrip chain = chain -> chain <> EmptyString ->
  prefix_of name label = true ->
  sget (dict_of_rows [mkpkarow name num chain label pka]) (key_side (mkres am name num chain nt ct)) = Some pka.
Proof. exact row_reaches_site. Qed.

(* the pH compared with the pKa values is the REQUESTED pH (model: ph_of_args is the
   identity). This is the model side of a tie that the check enforces at run time: in every
   end-to-end run the float arriving at apply_pka_values must equal float(requested text),
   for pH and pKa drawn at full float resolution, through three entry points *)
Theorem C06_requested_ph_decides : forall ff (ph : Q) rows rs,
  run_titration ff ph rows rs = pipeline ff ph rows rs.
Proof. exact requested_ph_decides. Qed.

Example C06_requested_ph_full_resolution :
  let row := mkpkarow "ASP" 2 "A" (propka_label "ASP" 2 "A") (38 # 10)%Q in
  let r := mkres true "ASP" 2 "A" false false in
  fst (run_titration Parse (3796 # 1000)%Q [row] [r]) = [Decided GASP (Patch P_ASH)] /\
  fst (run_titration Parse (3799999 # 1000000)%Q [row] [r]) = [Decided GASP (Patch P_ASH)] /\
  fst (run_titration Parse (38 # 10)%Q [row] [r]) = [Decided GASP (Keep false)].
Proof. exact requested_ph_full_resolution. Qed.

(* main.py keeps only rows whose PROPKA label starts with the residue name *)
Theorem C06_rows_filtered : forall rows,
  Forall (fun r => prefix_of (row_resname r) (row_label r) = false) rows ->
  dict_of_rows rows = [].
Proof. exact rows_filtered. Qed.

(* ... so a terminus row ("N+"/"C-" label) never reaches its site, although
   PARSE supports the neutral terminus and decide would apply it (F11) *)
Theorem C06_pipeline_terminus_refuted :
  exists (t : rtype) (ph pka : Q) (r : residue) (row : pkarow),
    row_label row = propka_label "N+" (r_seq r) (r_chain r) /\
    r_nterm r = true /\ r_name r = rtype_name t /\
    target_supported (lostf Parse) t PosN GNplus (below ph pka) = true /\
    decide Parse PosN GNplus (below ph pka) = Patch P_NEUTRAL_NTERM /\
    fst (pipeline Parse ph [row] [r]) = [Absent; Absent].
Proof. exact pipeline_terminus_refuted. Qed.

(* -- non-vacuity ------------------------------------------------------------------------------ *)

Example C06_nonvacuous :
  target_supported (lostf Parse) CYS PosN GCYS false = true /\ decide Parse PosN GCYS false = Patch P_CYM /\
  target_supported (lostf Charmm) CYS PosMid GCYS false = false /\ decide Charmm PosMid GCYS false = Keep true /\
  residue_formal formalf Parse CYS PosN (mksides None None (Some false)) = Some 0%Z /\
  residue_formal formalf Parse CYS PosN (mksides None None (Some true)) = Some 1%Z /\
  safe_cell (lostf Parse) Parse CYS PosN (mksides None None (Some false)) = true /\
  decide Amber PosN GCYS false = Keep true /\ decide Amber PosMid GCYS false = Patch P_CYM.
Proof. exact nonvacuous. Qed.

(* the former F10 witness of the output-charge statement, now a regression fact *)
Example C06_former_f10_witness :
  (total_charge exactZ Amber (10 # 1)%Q [mktspec CYS PosC None None (Some (8 # 1)%Q)]
   <= total_charge exactZ Amber (7 # 1)%Q [mktspec CYS PosC None None (Some (8 # 1)%Q)])%Z /\
  decide Amber PosC GCYS false = Keep true.
Proof. exact charge_monotone_output_former_witness. Qed.

Print Assumptions C06_decide_spec.
Print Assumptions C06_decide_user_ff.
Print Assumptions C06_never_dropped.
Print Assumptions C06_naming_matches_code.
Print Assumptions C06_charge_monotone_formal.
Print Assumptions C06_formal_defined.
Print Assumptions C06_output_defined.
Print Assumptions C06_state_rows_match_names.
Print Assumptions C06_charge_monotone_output.
Print Assumptions C06_decided_state_parameterised.
Print Assumptions C06_decided_state_fully_parameterised.
Print Assumptions C06_output_is_formal.
Print Assumptions C06_one_residue_chain_as_is.
Print Assumptions C06_key_collision_guard.
Print Assumptions C06_key_collision_refuted.
Print Assumptions C06_row_key_is_lookup_key.
Print Assumptions C06_row_reaches_site.
Print Assumptions C06_requested_ph_decides.
Print Assumptions C06_requested_ph_full_resolution.
Print Assumptions C06_rows_filtered.
Print Assumptions C06_pipeline_terminus_refuted.
Print Assumptions C06_nonvacuous.
Print Assumptions C06_former_f10_witness.
