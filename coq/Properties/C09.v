(* C09 - formatting and naming options never change the computed model.
   Property theorems only; proofs are in Proofs/Pipeline.v (generic),
   Proofs/StagesC09.v (facts about the stage table generated from main.py),
   Proofs/PqrFormat.v (C08's string model of the writer) and
   Proofs/PqrFormatC09.v (what the print-time options can change in a line). *)
From Coq Require Import String List Bool Arith ZArith.
From PV Require Import Model.ForceField Model.States Proofs.States Proofs.NeutralC09.
From PV Require Generated.States Generated.FF_PARSE Generated.StatesFF_PARSE.
From PV Require Import Model.Pipeline Proofs.Pipeline Generated.Stages Proofs.StagesC09.
From PV Require Import Lib.Strings Model.PqrFormat Proofs.PqrFormat Proofs.PqrFormatC09.
Import ListNotations.
Local Open Scope string_scope.

(* For ALL stage lists whose descriptors satisfy the boolean obligation and whose
   run functions respect their descriptors, and ALL option assignments agreeing
   outside F = format_opts: (1) the compute stages alone fail together or yield
   the same compute state; (2) two complete runs end with the same coordinates,
   charges, radii and atom order; (3) a complete run's physical model is the one
   the compute stages produce. *)
Theorem C09_format_noninterference :
  forall (value state M P : Type) (model : state -> M) (phys : M -> P) (F : list opt)
         (sts : list (stage value state)),
    Forall (stage_ok model phys) sts -> c09_obligation F (map desc sts) = true ->
    forall (o1 o2 : store value) (s : state), agree_outside F o1 o2 ->
      same_result value state M model F (exec_compute sts o1 s) (exec_compute sts o2 s)
      /\ (forall r1 r2, exec sts o1 s = Some r1 -> exec sts o2 s = Some r2 ->
            phys (model (snd r1)) = phys (model (snd r2))
            /\ agree_outside F (fst r1) (fst r2))
      /\ (forall r, exec sts o1 s = Some r ->
            exists t', exec_compute sts o1 s = Some (fst r, t')
                       /\ phys (model t') = phys (model (snd r))).
Proof. exact format_noninterference. Qed.

(* the obligation holds for the table generated from the current main.py *)
Theorem C09_generated_obligation : c09_obligation format_opts stages = true.
Proof. exact generated_c09_obligation. Qed.

(* hence for every implementation of the generated table *)
Theorem C09_generated_noninterference :
  forall (value state M P : Type) (model : state -> M) (phys : M -> P)
         (sts : list (stage value state)),
    map desc sts = stages -> Forall (stage_ok model phys) sts ->
    forall (o1 o2 : store value) (s : state) r1 r2,
      agree_outside format_opts o1 o2 ->
      exec sts o1 s = Some r1 -> exec sts o2 s = Some r2 ->
      phys (model (snd r1)) = phys (model (snd r2)).
Proof. exact generated_noninterference. Qed.

(* --ffout: renaming is a Rename stage placed after the parameter lookup and the
   integrality guard *)
Theorem C09_ffout_after_params :
  forall i j k da db dc,
    nth_error stages i = Some da -> sd_name da = "apply_force_field" ->
    nth_error stages j = Some db -> sd_name db = "raise_if_charge_err" ->
    nth_error stages k = Some dc -> sd_name dc = "apply_name_scheme" ->
    i < j /\ j < k /\ sd_kind dc = Rename.
Proof. exact generated_ffout_after_params. Qed.

(* apply_name_scheme (for ALL naming tables) keeps every atom's coordinates,
   charge, radius, and the atom order *)
Theorem C09_name_scheme_touches_names_only :
  forall (Ph : Type) (f : natom Ph -> option (string * string)) (l : list (natom Ph)),
    map a_phys (apply_name_scheme f l) = map a_phys l
    /\ length (apply_name_scheme f l) = length l.
Proof. exact name_scheme_touches_names_only. Qed.

(* --drop-water, for ALL record lists: it is exactly the deletion of the water
   records, distributes over concatenation, is idempotent *)
Theorem C09_drop_water_is_deletion :
  forall (X : Type) (l : list (prec X)),
    drop_water l = filter (fun r => negb (is_water r)) l
    /\ forallb (fun r => negb (is_water r)) (drop_water l) = true
    /\ (forall r, In r (drop_water l) <-> In r l /\ is_water r = false)
    /\ drop_water (drop_water l) = drop_water l.
Proof.
  exact (fun X l => conj (drop_water_filter X l) (conj (drop_water_no_water X l)
          (conj (drop_water_In X l) (drop_water_idem X l)))).
Qed.

Theorem C09_drop_water_app :
  forall (X : Type) (l1 l2 : list (prec X)),
    drop_water (l1 ++ l2)%list = (drop_water l1 ++ drop_water l2)%list.
Proof. exact drop_water_app. Qed.

(* ... and commutes with any line-by-line record parser: dropping waters from
   the parsed records = parsing the input with its water lines deleted *)
Theorem C09_drop_water_commutes :
  forall (X line : Type) (parse_line : line -> list (prec X)) (water_line : line -> bool),
    (forall l, water_line l = true -> forallb is_water (parse_line l) = true) ->
    (forall l, water_line l = false -> forallb (fun r => negb (is_water r)) (parse_line l) = true) ->
    forall ls : list line,
      drop_water (flat_map parse_line ls)
      = flat_map parse_line (filter (fun l => negb (water_line l)) ls).
Proof. exact drop_water_commutes. Qed.

(* the hypotheses of C09_format_noninterference are met by a concrete pipeline in
   which the two option sets differ on F and the final states differ *)
Example C09_nonvacuous :
  Forall (stage_ok Demo.dmodel Demo.dphys) Demo.sts
  /\ c09_obligation format_opts (map desc Demo.sts) = true
  /\ agree_outside format_opts Demo.o1 Demo.o2
  /\ Demo.o1 "keep_chain" <> Demo.o2 "keep_chain" /\ Demo.o1 "ffout" <> Demo.o2 "ffout"
  /\ exists r1 r2,
       exec Demo.sts Demo.o1 (0, false, 0, 0) = Some r1 /\ exec Demo.sts Demo.o2 (0, false, 0, 0) = Some r2
       /\ snd r1 <> snd r2
       /\ Demo.dphys (Demo.dmodel (snd r1)) = 1 /\ Demo.dphys (Demo.dmodel (snd r2)) = 1.
Proof. exact Demo.demo_nonvacuous. Qed.

(* ---- printing side: concrete theorems over C08's string model of
        Atom.get_pqr_string / io.print_biomolecule_atoms / main.print_pqr ---- *)

(* --keep-chain changes column 22 only (ALL atoms, no guard) *)
Theorem C09_chainflag_only_col22 : forall a : atom,
  exists pre c post,
    String.length pre = 21 /\ String.length c = 1 /\
    pqr_string true a = pre ++ c ++ post /\
    pqr_string false a = pre ++ " " ++ post.
Proof. exact chainflag_only_col22. Qed.

(* the --ffout renaming (ANY new names) changes columns 13-20 only *)
Theorem C09_rename_only_name_columns : forall (cf : bool) (a : atom) (n r : string),
  take 12 (pqr_string cf (with_names n r a)) = take 12 (pqr_string cf a)
  /\ drop 20 (pqr_string cf (with_names n r a)) = drop 20 (pqr_string cf a).
Proof. exact rename_cols. Qed.

(* --whitespace: the five numeric tokens after re-spacing are the five numeric
   column slices before it, in order (ALL atoms whose numeric fields fit their
   columns - the region C08 proves; outside it C08 has the refutations) *)
Theorem C09_respace_keeps_numeric_tokens : forall (cf : bool) (a : atom),
  num_ok a = true ->
  exists front,
    tokens (ws_line cf a) = (front ++ num_tokens a)%list /\
    map (fun c => strip (slice (fst c) (snd c) (pqr_string cf a))) num_cols = num_tokens a.
Proof. exact respace_keeps_numeric_tokens. Qed.

(* ... also across --keep-chain and renaming: tokens of the option run's line =
   numeric columns of the plain run's line.  GUARD (explicit hypothesis): num_ok a,
   i.e. the insertion code is at most one character, x/y/z rendered with three
   decimals fit 8 columns (-999.999 .. 9999.999), the charge fits 7 of its 8 and the
   radius 6 of its 7 columns (a separating blank remains).  Outside the guard the
   statement is NOT claimed (C08 has the refutation witnesses: clipped/fused
   fields); such atoms are covered by real run pairs only (check module). *)
Theorem C09_whitespace_options_keep_numeric_tokens :
  forall (cf1 cf2 : bool) (f : atom -> option (string * string)) (a : atom),
  num_ok a = true ->
  exists front,
    tokens (ws_line cf1 (rename_with f a)) = (front ++ num_tokens a)%list
    /\ map (fun c => strip (slice (fst c) (snd c) (pqr_string cf2 a))) num_cols = num_tokens a.
Proof. exact whitespace_options_keep_numeric_tokens. Qed.

(* line i renders atom i with serial i+1; nothing is reordered *)
Theorem C09_serial_is_position : forall (cf : bool) (l : list atom) (i : nat),
  nth_error (atom_lines (print_items cf l)) i =
  option_map (fun a => pqr_string cf (with_serial (Z.of_nat i + 1) a)) (nth_error l i).
Proof. exact serial_is_position. Qed.

Theorem C09_order_preserved : forall (cf : bool) (l : list atom),
  atom_lines (print_items cf l) = numbered cf 0 l.
Proof. exact order_preserved. Qed.

(* ALL atom lists, ALL renamings, both chain flags: the printed atom lines of
   the renamed list under one flag and of the original list under the other
   agree line by line in columns 31.. (x y z charge radius) and 1-11 (record
   type, serial), and there is one line per atom *)
Theorem C09_print_options_keep_numbers :
  forall (cf1 cf2 : bool) (f : atom -> option (string * string)) (l : list atom),
  map (drop 30) (atom_lines (print_items cf1 (map (rename_with f) l)))
    = map (drop 30) (atom_lines (print_items cf2 l))
  /\ map (take 11) (atom_lines (print_items cf1 (map (rename_with f) l)))
    = map (take 11) (atom_lines (print_items cf2 l))
  /\ List.length (atom_lines (print_items cf1 (map (rename_with f) l))) = List.length l.
Proof. exact print_options_keep_numbers. Qed.

Example C09_print_nonvacuous :
  num_ok base_atom = true
  /\ pqr_string true (rename_with (fun _ => Some ("LYN", "HZ1")) base_atom) <> pqr_string false base_atom
  /\ drop 30 (pqr_string true (rename_with (fun _ => Some ("LYN", "HZ1")) base_atom))
     = drop 30 (pqr_string false base_atom)
  /\ String.length (drop 30 (pqr_string false base_atom)) = 39.
Proof. exact print_options_nonvacuous. Qed.

(* ---- --neutraln / --neutralc (PARSE): over C02's model of set_termini/set_state
        and the state tables generated from the current dat/ files ---- *)

(* which residues the flags can touch: against the run without the flags, the
   terminus part of a residue's ffname is unchanged, or an N-flagged non-PRO
   residue goes N -> NEUTRAL-N under --neutraln, or a C-flagged residue (without
   the N flag) goes C -> NEUTRAL-C under --neutralc.  ALL options, classes, residue
   states; a residue without terminus flags is never touched; NPRO stays NPRO *)
Theorem C09_neutral_only_termini : forall (o : opts) (cls : aclass) (r : rstate),
  term_prefix o cls r = term_prefix base_opts cls r
  \/ (rs_n r = true /\ cls <> C_PRO /\ o_neutraln o = true
      /\ term_prefix base_opts cls r = PN /\ term_prefix o cls r = PNN)
  \/ (rs_n r = false /\ rs_c r = true /\ o_neutralc o = true
      /\ term_prefix base_opts cls r = PC /\ term_prefix o cls r = PNC).
Proof. exact term_prefix_cases. Qed.

Theorem C09_neutral_internal_untouched : forall (o1 o2 : opts) (cls : aclass) (r : rstate),
  rs_n r = false -> rs_c r = false -> term_prefix o1 cls r = term_prefix o2 cls r.
Proof. exact term_prefix_internal. Qed.

Theorem C09_neutral_npro_unchanged : forall (o : opts) (r : rstate),
  rs_n r = true -> term_prefix o C_PRO r = PN.
Proof. exact term_prefix_pro. Qed.

(* a residue that is BOTH ends of its chain (one-residue amino chain; it carries both
   termini patches and takes the N name): --neutralc never changes its state, whatever
   --neutraln is; --neutraln moves it N -> NEUTRAL-N (not PRO, N not already bonded to
   two heavy atoms) whatever --neutralc is.  Each flag acts only through its own role *)
Theorem C09_neutral_both_ends_attribution : forall (o : opts) (cls : aclass) (r : rstate),
  rs_n r = true -> rs_c r = true ->
  term_prefix (mkopts (o_neutraln o) true) cls r = term_prefix (mkopts (o_neutraln o) false) cls r
  /\ (cls <> C_PRO -> rd_nheavy2 (rs_d r) = false ->
      term_prefix (mkopts true (o_neutralc o)) cls r = PNN
      /\ term_prefix (mkopts false (o_neutralc o)) cls r = PN).
Proof. exact term_prefix_both_ends. Qed.

(* ... and in the state table generated from the current set_state the rows of such a
   residue that differ only in the C-terminal patch (T_N_C/T_N_NC, T_NN_C/T_NN_NC)
   have the same state name and force-field residue: --neutralc cannot change which
   parameters a both-ends residue receives *)
Theorem C09_neutral_both_ends_same_parameters : forall r1 r2,
  In r1 Generated.States.arows -> In r2 Generated.States.arows -> same_residue r1 r2 = true ->
  c_only_pair (ar_term r1) (ar_term r2) = true ->
  ar_name r1 = ar_name r2 /\ ar_ff r1 = ar_ff r2.
Proof. exact (both_ends_table _ generated_both_ends_names). Qed.

(* the row kinds of the generated state table carry exactly those name prefixes *)
Theorem C09_neutral_rows_match_prefix : forall r, In r Generated.States.arows ->
  fst (ar_name r) = prefix_of_tkind (ar_cls r) (ar_term r).
Proof. exact (term_prefix_table _ generated_term_prefix). Qed.

(* ALL residue lists (PARSE): if every residue is either in the same state in both
   runs or a terminus actually neutralised (row N -> NEUTRAL-N or C -> NEUTRAL-C of
   the same residue type and side-chain state, both fully parameterised, not the
   known exception NEUTRAL-CPRO), the exact total charge moves by
   -1 per neutralised N-terminus and +1 per neutralised C-terminus *)
Theorem C09_neutral_shift : forall l : list rpair,
  Forall (step_ok StatesFF_PARSE.built StatesFF_PARSE.known_exceptions Generated.States.arows) l ->
  zsum (map p_q2 l)
  = (zsum (map p_q1 l) + (Z.of_nat (c_neutralised l) - Z.of_nat (n_neutralised l)) * SCALE)%Z.
Proof. exact (neutral_shift_total _ _ _ StatesFF_PARSE.neutral_shift). Qed.

(* ... and a residue whose state differs is such a terminus, shifted by exactly
   one unit; every non-terminal residue (row kind T_I) is unchanged *)
Theorem C09_neutral_changes_only_termini : forall p : rpair,
  step_ok StatesFF_PARSE.built StatesFF_PARSE.known_exceptions Generated.States.arows p ->
  unchanged p
  \/ (ar_term (p_r1 p) = T_N /\ ar_term (p_r2 p) = T_NN /\ p_q2 p = (p_q1 p - SCALE)%Z)
  \/ (ar_term (p_r1 p) = T_C /\ ar_term (p_r2 p) = T_NC /\ p_q2 p = (p_q1 p + SCALE)%Z).
Proof. exact (neutral_changes_only_termini _ _ _ StatesFF_PARSE.neutral_shift). Qed.

Theorem C09_neutral_internal_unchanged : forall p : rpair,
  step_ok StatesFF_PARSE.built StatesFF_PARSE.known_exceptions Generated.States.arows p ->
  ar_term (p_r1 p) = T_I -> unchanged p.
Proof. exact (neutral_internal_unchanged _ _ _ StatesFF_PARSE.neutral_shift). Qed.

Example C09_neutral_nonvacuous :
  Forall (step_ok StatesFF_PARSE.built StatesFF_PARSE.known_exceptions Generated.States.arows) ex_pairs
  /\ n_neutralised ex_pairs = 1 /\ c_neutralised ex_pairs = 1
  /\ map p_q1 ex_pairs = [SCALE; 0; - SCALE]%Z /\ map p_q2 ex_pairs = [0; 0; 0]%Z
  /\ ar_term (pick 1) = T_N /\ ar_term (pick 3) = T_NN /\ ar_term (pick 0) = T_I.
Proof. exact neutral_nonvacuous. Qed.

Print Assumptions C09_format_noninterference.
Print Assumptions C09_generated_obligation.
Print Assumptions C09_generated_noninterference.
Print Assumptions C09_ffout_after_params.
Print Assumptions C09_name_scheme_touches_names_only.
Print Assumptions C09_drop_water_is_deletion.
Print Assumptions C09_drop_water_app.
Print Assumptions C09_drop_water_commutes.
Print Assumptions C09_nonvacuous.
Print Assumptions C09_chainflag_only_col22.
Print Assumptions C09_rename_only_name_columns.
Print Assumptions C09_respace_keeps_numeric_tokens.
Print Assumptions C09_whitespace_options_keep_numeric_tokens.
Print Assumptions C09_serial_is_position.
Print Assumptions C09_order_preserved.
Print Assumptions C09_print_options_keep_numbers.
Print Assumptions C09_print_nonvacuous.
Print Assumptions C09_neutral_only_termini.
Print Assumptions C09_neutral_internal_untouched.
Print Assumptions C09_neutral_npro_unchanged.
Print Assumptions C09_neutral_rows_match_prefix.
Print Assumptions C09_neutral_shift.
Print Assumptions C09_neutral_changes_only_termini.
Print Assumptions C09_neutral_internal_unchanged.
Print Assumptions C09_neutral_nonvacuous.
Print Assumptions C09_neutral_both_ends_attribution.
Print Assumptions C09_neutral_both_ends_same_parameters.
