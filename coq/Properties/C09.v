(* C09 - formatting and naming options never change the computed model.
   Property theorems only; proofs are in Proofs/Pipeline.v (generic) and
   Proofs/StagesC09.v (facts about the stage table generated from main.py). *)
From Coq Require Import String List Bool Arith.
From PV Require Import Model.Pipeline Proofs.Pipeline Generated.Stages Proofs.StagesC09.
Import ListNotations.
Local Open Scope string_scope.

(* For ALL stage lists whose descriptors satisfy the boolean obligation and whose
   run functions respect their descriptors, and ALL option assignments agreeing
   outside F = format_opts: (1) the compute stages alone fail together or yield
   the same compute state; (2) two complete runs end with the same coordinates,
   charges, radii and atom order; (3) a complete run's physical model is the one
   the compute stages produce. *)
Theorem C09_format_noninterference :
  forall (value state M P : Type) (model : state -> M) (phys : M -> P) (F : list opt)
         (sts : list (stage value state)),
    Forall (stage_ok model phys) sts -> c09_obligation F (map desc sts) = true ->
    forall (o1 o2 : store value) (s : state), agree_outside F o1 o2 ->
      same_result value state M model F (exec_compute sts o1 s) (exec_compute sts o2 s)
      /\ (forall r1 r2, exec sts o1 s = Some r1 -> exec sts o2 s = Some r2 ->
            phys (model (snd r1)) = phys (model (snd r2))
            /\ agree_outside F (fst r1) (fst r2))
      /\ (forall r, exec sts o1 s = Some r ->
            exists t', exec_compute sts o1 s = Some (fst r, t')
                       /\ phys (model t') = phys (model (snd r))).
Proof. exact format_noninterference. Qed.

(* the obligation holds for the table generated from the current main.py *)
Theorem C09_generated_obligation : c09_obligation format_opts stages = true.
Proof. exact generated_c09_obligation. Qed.

(* hence for every implementation of the generated table *)
Theorem C09_generated_noninterference :
  forall (value state M P : Type) (model : state -> M) (phys : M -> P)
         (sts : list (stage value state)),
    map desc sts = stages -> Forall (stage_ok model phys) sts ->
    forall (o1 o2 : store value) (s : state) r1 r2,
      agree_outside format_opts o1 o2 ->
      exec sts o1 s = Some r1 -> exec sts o2 s = Some r2 ->
      phys (model (snd r1)) = phys (model (snd r2)).
Proof. exact generated_noninterference. Qed.

(* --ffout: renaming is a Rename stage placed after the parameter lookup and the
   integrality guard *)
Theorem C09_ffout_after_params :
  forall i j k da db dc,
    nth_error stages i = Some da -> sd_name da = "apply_force_field" ->
    nth_error stages j = Some db -> sd_name db = "raise_if_charge_err" ->
    nth_error stages k = Some dc -> sd_name dc = "apply_name_scheme" ->
    i < j /\ j < k /\ sd_kind dc = Rename.
Proof. exact generated_ffout_after_params. Qed.

(* apply_name_scheme (for ALL naming tables) keeps every atom's coordinates,
   charge, radius, and the atom order *)
Theorem C09_name_scheme_touches_names_only :
  forall (Ph : Type) (f : natom Ph -> option (string * string)) (l : list (natom Ph)),
    map a_phys (apply_name_scheme f l) = map a_phys l
    /\ length (apply_name_scheme f l) = length l.
Proof. exact name_scheme_touches_names_only. Qed.

(* --drop-water, for ALL record lists: it is exactly the deletion of the water
   records, distributes over concatenation, is idempotent *)
Theorem C09_drop_water_is_deletion :
  forall (X : Type) (l : list (prec X)),
    drop_water l = filter (fun r => negb (is_water r)) l
    /\ forallb (fun r => negb (is_water r)) (drop_water l) = true
    /\ (forall r, In r (drop_water l) <-> In r l /\ is_water r = false)
    /\ drop_water (drop_water l) = drop_water l.
Proof.
  exact (fun X l => conj (drop_water_filter X l) (conj (drop_water_no_water X l)
          (conj (drop_water_In X l) (drop_water_idem X l)))).
Qed.

Theorem C09_drop_water_app :
  forall (X : Type) (l1 l2 : list (prec X)),
    drop_water (l1 ++ l2)%list = (drop_water l1 ++ drop_water l2)%list.
Proof. exact drop_water_app. Qed.

(* ... and commutes with any line-by-line record parser: dropping waters from
   the parsed records = parsing the input with its water lines deleted *)
Theorem C09_drop_water_commutes :
  forall (X line : Type) (parse_line : line -> list (prec X)) (water_line : line -> bool),
    (forall l, water_line l = true -> forallb is_water (parse_line l) = true) ->
    (forall l, water_line l = false -> forallb (fun r => negb (is_water r)) (parse_line l) = true) ->
    forall ls : list line,
      drop_water (flat_map parse_line ls)
      = flat_map parse_line (filter (fun l => negb (water_line l)) ls).
Proof. exact drop_water_commutes. Qed.

(* the hypotheses of C09_format_noninterference are met by a concrete pipeline in
   which the two option sets differ on F and the final states differ *)
Example C09_nonvacuous :
  Forall (stage_ok Demo.dmodel Demo.dphys) Demo.sts
  /\ c09_obligation format_opts (map desc Demo.sts) = true
  /\ agree_outside format_opts Demo.o1 Demo.o2
  /\ Demo.o1 "keep_chain" <> Demo.o2 "keep_chain" /\ Demo.o1 "ffout" <> Demo.o2 "ffout"
  /\ exists r1 r2,
       exec Demo.sts Demo.o1 (0, false, 0, 0) = Some r1 /\ exec Demo.sts Demo.o2 (0, false, 0, 0) = Some r2
       /\ snd r1 <> snd r2
       /\ Demo.dphys (Demo.dmodel (snd r1)) = 1 /\ Demo.dphys (Demo.dmodel (snd r2)) = 1.
Proof. exact Demo.demo_nonvacuous. Qed.

Print Assumptions C09_format_noninterference.
Print Assumptions C09_generated_obligation.
Print Assumptions C09_generated_noninterference.
Print Assumptions C09_ffout_after_params.
Print Assumptions C09_name_scheme_touches_names_only.
Print Assumptions C09_drop_water_is_deletion.
Print Assumptions C09_drop_water_app.
Print Assumptions C09_drop_water_commutes.
Print Assumptions C09_nonvacuous.
