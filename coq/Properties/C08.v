(* C08 - the PQR file is a faithful, re-readable serialisation of the model.
   Property theorems only; model in Model/PqrFormat.v (guards fixed_ok / ws_ok /
   num_ok / in_quantifier are defined there), proofs in Proofs/PqrFormat.v.

   FULL STATEMENTS over the property's quantifier (serials to millions, resSeq
   -9999..99999, insertion codes, 1-4 character names, |coordinate| <= 99999.999):

     (F) forall cf a, in_quantifier a = true ->
           read_fixed (pqr_string cf a) = expected_fixed cf a
     (W) forall cf a, in_quantifier a = true ->
           from_pqr_line (ws_line cf a) = PAtom (expected_ws cf a)
           (and the insertion code recoverable from the tokens)

   Both are REFUTED by the faithful model - theorems C08_*_refuted below, each
   with a witness inside the quantifier that the harness replays on the real
   code.  What is proved for ALL atoms is (F) under fixed_ok and (W) under
   ws_ok (C08_*_partial), i.e. exactly while every rendered field fits its
   columns and the tokens stay separated. *)
From Coq Require Import String List ZArith NArith.
From PV Require Import Lib.Strings Lib.Decimal Model.PqrFormat Proofs.PqrFormat.
Import ListNotations.
Local Open Scope string_scope.

(* ---- default layout ---- *)

(* for ALL atoms within the column capacities: slicing the formatted line at
   the writer's columns gives back every field (type, serial, names, chain when
   printed, resSeq, iCode, x y z at 10^-3, charge and radius at 10^-4) *)
Theorem C08_fixed_roundtrip_partial : forall (cf : bool) (a : atom),
  fixed_ok cf a = true -> read_fixed (pqr_string cf a) = expected_fixed cf a.
Proof. exact fixed_roundtrip. Qed.

(* whole atom lists: line i is atom i with serial i+1 and reads back *)
Theorem C08_fixed_file_roundtrip_partial : forall (cf : bool) (l : list atom),
  all_ok (fixed_ok cf) 0 l ->
  map read_fixed (atom_lines (print_items cf l)) = map (expected_fixed cf) (renumbered 0 l).
Proof. exact fixed_file_roundtrip. Qed.

(* serial >= 100000 is cut to its five leading digits *)
Theorem C08_fixed_serial_refuted :
  exists a, in_quantifier a = true /\ a_serial a = 100000%Z /\
    pqr_string false a = "ATOM  10000  CA  ALA    12       1.000  -2.500   3.125 -0.5000 1.8000" /\
    f_serial (read_fixed (pqr_string false a)) = Some 10000%Z.
Proof. exact fixed_serial_refuted. Qed.

(* resSeq >= 10000 is cut to four digits *)
Theorem C08_fixed_res_seq_refuted :
  exists a, in_quantifier a = true /\ a_res_seq a = 10000%Z /\
    f_res_seq (read_fixed (pqr_string false a)) = Some 1000%Z.
Proof. exact fixed_res_seq_refuted. Qed.

(* a coordinate >= 10000 or <= -1000 overflows its 8 columns: 10000.123 reads
   back as 10000.12, -1000.123 as -1000.12 *)
Theorem C08_fixed_coord_refuted :
  (exists a, in_quantifier a = true /\ a_x a = mkfx false 10000123 /\
     f_x (read_fixed (pqr_string false a)) = Some (PF false 1000012 2)) /\
  (exists a, in_quantifier a = true /\ a_x a = mkfx true 1000123 /\
     f_x (read_fixed (pqr_string false a)) = Some (PF true 100012 2)).
Proof. exact fixed_coord_refuted. Qed.

(* ---- --whitespace layout ---- *)

(* for ALL atoms in the region where tokens stay separated: pdb2pqr's own
   reader applied to the re-spaced line returns the atom *)
Theorem C08_ws_roundtrip_partial : forall (cf : bool) (a : atom),
  ws_ok cf a = true -> from_pqr_line (ws_line cf a) = PAtom (expected_ws cf a).
Proof. exact ws_roundtrip. Qed.

(* whole atom lists through print_biomolecule_atoms, print_pqr, read_pqr *)
Theorem C08_ws_file_roundtrip_partial : forall (cf : bool) (l : list atom),
  all_ok (ws_ok cf) 0 l ->
  read_pqr (file_chunks true false (print_atoms cf l)) =
  inl (map (expected_ws cf) (renumbered 0 l)).
Proof. exact ws_file_roundtrip. Qed.

(* --keep-chain: chain id + resSeq of 4 characters fuse into one token *)
Theorem C08_ws_chain_res_seq_refuted :
  exists a, in_quantifier a = true /\ fixed_ok true a = true /\ a_res_seq a = 1000%Z /\
    tokens (ws_line true a) =
      ["ATOM"; "1"; "CA"; "ALA"; "A1000"; "1.000"; "-2.500"; "3.125"; "-0.5000"; "1.8000"] /\
    from_pqr_line (ws_line true a) = PValueError.
Proof. exact ws_chain_res_seq_refuted. Qed.

(* resSeq + insertion code fuse into one token, with or without --keep-chain *)
Theorem C08_ws_ins_code_refuted :
  exists a, in_quantifier a = true /\ fixed_ok true a = true /\ a_ins a = "B" /\
    tokens (ws_line false a) =
      ["ATOM"; "1"; "CA"; "ALA"; "12B"; "1.000"; "-2.500"; "3.125"; "-0.5000"; "1.8000"] /\
    from_pqr_line (ws_line false a) = PValueError /\
    from_pqr_line (ws_line true a) = PValueError.
Proof. exact ws_ins_code_refuted. Qed.

(* a digit as chain id is silently read as resSeq; every later field shifts *)
Theorem C08_ws_digit_chain_refuted :
  exists a p, in_quantifier a = true /\ fixed_ok true a = true /\ a_chain a = "1" /\
    a_res_seq a = 12%Z /\
    from_pqr_line (ws_line true a) = PAtom p /\
    p_chain p = None /\ p_res_seq p = 1%Z /\ p_x p = PF false 12 0 /\ p_radius p = PF true 5000 4.
Proof. exact ws_digit_chain_refuted. Qed.

(* outside physical sizes: charge <= -10 e fuses with z, radius >= 10 A with the charge *)
Theorem C08_ws_charge_radius_fused :
  (fixed_ok false wit_charge = true /\
   tokens (ws_line false wit_charge) =
     ["ATOM"; "1"; "CA"; "ALA"; "12"; "1.000"; "-2.500"; "3.125-10.5000"; "1.8000"] /\
   from_pqr_line (ws_line false wit_charge) = PValueError) /\
  (fixed_ok false wit_radius = true /\
   tokens (ws_line false wit_radius) =
     ["ATOM"; "1"; "CA"; "ALA"; "12"; "1.000"; "-2.500"; "3.125"; "-0.500010.5000"] /\
   from_pqr_line (ws_line false wit_radius) = PValueError).
Proof. exact ws_charge_radius_fused. Qed.

(* CIF input: the "#" line print_pqr appends makes pdb2pqr's own reader raise on
   an otherwise faithful file *)
Theorem C08_ws_cif_trailer_refuted :
  ws_ok false base_atom = true /\
  file_chunks true true (print_atoms false [base_atom]) =
    [ws_line false (with_serial 1 base_atom); "#" ++ nl] /\
  read_pqr (file_chunks true true (print_atoms false [base_atom])) = inr PValueError /\
  read_pqr (file_chunks true false (print_atoms false [base_atom])) =
    inl [expected_ws false (with_serial 1 base_atom)].
Proof. exact ws_cif_trailer_refuted. Qed.

(* ---- printing-side lemmas reused by C09 ---- *)

(* --keep-chain changes column 22 only (no guard) *)
Theorem C08_chainflag_only_col22 : forall a : atom,
  exists pre c post,
    String.length pre = 21 /\ String.length c = 1 /\
    pqr_string true a = pre ++ c ++ post /\
    pqr_string false a = pre ++ " " ++ post.
Proof. exact chainflag_only_col22. Qed.

(* the five numeric tokens after re-spacing are the five numeric column slices
   before it, in order, whatever the name/chain/resSeq part looks like *)
Theorem C08_respace_keeps_numeric_tokens : forall (cf : bool) (a : atom),
  num_ok a = true ->
  exists front,
    tokens (ws_line cf a) = (front ++ num_tokens a)%list /\
    map (fun c => strip (slice (fst c) (snd c) (pqr_string cf a))) num_cols = num_tokens a.
Proof. exact respace_keeps_numeric_tokens. Qed.

(* line i renders atom i with serial i+1; TER lines aside, nothing is reordered *)
Theorem C08_serial_is_position : forall (cf : bool) (l : list atom) (i : nat),
  nth_error (atom_lines (print_items cf l)) i =
  option_map (fun a => pqr_string cf (with_serial (Z.of_nat i + 1) a)) (nth_error l i).
Proof. exact serial_is_position. Qed.

Theorem C08_order_preserved : forall (cf : bool) (l : list atom),
  atom_lines (print_items cf l) = numbered cf 0 l.
Proof. exact order_preserved. Qed.

(* the --whitespace file is exactly the re-spaced atom lines in order (TER and
   END are dropped) *)
Theorem C08_ws_file_lines : forall (cf : bool) (l : list atom),
  all_types_ok l ->
  print_pqr true false (print_atoms cf l) =
  String.concat "" (map (fun s => respace (s ++ nl)) (numbered cf 0 l)).
Proof. exact ws_file_lines. Qed.

(* non-vacuity: atoms on the column boundaries satisfy the guards *)
Example C08_nonvacuous :
  fixed_ok true edge_atom = true /\
  pqr_string true edge_atom =
    "HETATM99999 HD11LIG1 Z-999X   -999.9999999.999  -0.000-99.999999.9999" /\
  read_fixed (pqr_string true edge_atom) = expected_fixed true edge_atom /\
  ws_ok true edge_atom_ws = true /\ ws_ok false edge_atom_ws = true /\
  in_quantifier edge_atom_ws = true /\
  ws_line true edge_atom_ws =
    "HETATM 99999 HD11 LIG1 Z -99    -999.999 9999.999   -0.000 -9.9999 0.0000" ++ nl /\
  from_pqr_line (ws_line true edge_atom_ws) = PAtom (expected_ws true edge_atom_ws).
Proof. exact guards_nonvacuous. Qed.

Print Assumptions C08_fixed_roundtrip_partial.
Print Assumptions C08_fixed_file_roundtrip_partial.
Print Assumptions C08_fixed_serial_refuted.
Print Assumptions C08_fixed_res_seq_refuted.
Print Assumptions C08_fixed_coord_refuted.
Print Assumptions C08_ws_roundtrip_partial.
Print Assumptions C08_ws_file_roundtrip_partial.
Print Assumptions C08_ws_chain_res_seq_refuted.
Print Assumptions C08_ws_ins_code_refuted.
Print Assumptions C08_ws_digit_chain_refuted.
Print Assumptions C08_ws_charge_radius_fused.
Print Assumptions C08_ws_cif_trailer_refuted.
Print Assumptions C08_chainflag_only_col22.
Print Assumptions C08_respace_keeps_numeric_tokens.
Print Assumptions C08_serial_is_position.
Print Assumptions C08_order_preserved.
Print Assumptions C08_ws_file_lines.
Print Assumptions C08_nonvacuous.
