(* C08 - the PQR file is a faithful, re-readable serialisation of the model.
   Property theorems only; model in Model/PqrFormat.v (guards fixed_ok / ws_ok /
   num_ok / in_quantifier are defined there), proofs in Proofs/PqrFormat.v.
   The model is /repo WITH the repairs of C08-F4, C08-F5, the z|charge|radius
   fusion and C08-F7 (print_pqr puts a blank at every field boundary;
   from_pqr_line skips "#" lines).

   FULL STATEMENTS over the property's quantifier (serials to millions, resSeq
   -9999..99999, insertion codes, 1-4 character names, |coordinate| <= 99999.999):

     (F) forall cf a, in_quantifier a = true ->
           read_fixed (pqr_string cf a) = expected_fixed cf a
     (W) forall cf a, in_quantifier a = true ->
           from_pqr_line (ws_line cf a) = PAtom (expected_ws cf a)

   Both are REFUTED by the faithful model - theorems C08_*_refuted below, each
   with a witness inside the quantifier that the harness replays on the real
   code: the column capacities (serial, resSeq, coordinates: C08-F1..F3, both
   layouts) and the two ambiguities of the token grammar (digit chain id,
   digit insertion code: C08-F6, C08-F8).  What is proved for ALL atoms is (F)
   under fixed_ok and (W) under ws_ok = fixed_ok + non-empty names + chain id
   and insertion code not a digit (C08_*_partial), including chain id with a
   4-character resSeq and insertion codes (C08_ws_chain_res_seq_roundtrip,
   C08_ws_ins_code_roundtrip - the repaired C08-F4 / C08-F5), and the "#"
   trailer of mmCIF input (C08_ws_file_roundtrip_partial with is_cif = true,
   the repaired C08-F7). *)
From Coq Require Import String List ZArith NArith Bool.
From PV Require Import Lib.Strings Lib.Decimal Model.PqrFormat Proofs.PqrFormat.
Import ListNotations.
Local Open Scope string_scope.

(* ---- default layout ---- *)

(* for ALL atoms within the column capacities: slicing the formatted line at
   the writer's columns gives back every field (type, serial, names, chain when
   printed, resSeq, iCode, x y z at 10^-3, charge and radius at 10^-4) *)
Theorem C08_fixed_roundtrip_partial : forall (cf : bool) (a : atom),
  fixed_ok cf a = true -> read_fixed (pqr_string cf a) = expected_fixed cf a.
Proof. exact fixed_roundtrip. Qed.

(* whole atom lists: line i is atom i with serial i+1 and reads back *)
Theorem C08_fixed_file_roundtrip_partial : forall (cf : bool) (l : list atom),
  all_ok (fixed_ok cf) 0 l ->
  map read_fixed (atom_lines (print_items cf l)) = map (expected_fixed cf) (renumbered 0 l).
Proof. exact fixed_file_roundtrip. Qed.

(* serial >= 100000 is cut to its five leading digits *)
Theorem C08_fixed_serial_refuted :
  exists a, in_quantifier a = true /\ a_serial a = 100000%Z /\
    pqr_string false a = "ATOM  10000  CA  ALA    12       1.000  -2.500   3.125 -0.5000 1.8000" /\
    f_serial (read_fixed (pqr_string false a)) = Some 10000%Z.
Proof. exact fixed_serial_refuted. Qed.

(* resSeq >= 10000 is cut to four digits *)
Theorem C08_fixed_res_seq_refuted :
  exists a, in_quantifier a = true /\ a_res_seq a = 10000%Z /\
    f_res_seq (read_fixed (pqr_string false a)) = Some 1000%Z.
Proof. exact fixed_res_seq_refuted. Qed.

(* a coordinate >= 10000 or <= -1000 overflows its 8 columns: 10000.123 reads
   back as 10000.12, -1000.123 as -1000.12 *)
Theorem C08_fixed_coord_refuted :
  (exists a, in_quantifier a = true /\ a_x a = mkfx false 10000123 /\
     f_x (read_fixed (pqr_string false a)) = Some (PF false 1000012 2)) /\
  (exists a, in_quantifier a = true /\ a_x a = mkfx true 1000123 /\
     f_x (read_fixed (pqr_string false a)) = Some (PF true 100012 2)).
Proof. exact fixed_coord_refuted. Qed.

(* ---- --whitespace layout ---- *)

(* for ALL atoms within the column capacities whose chain id / insertion code
   is not a digit: pdb2pqr's own reader applied to the re-spaced line returns
   the atom - type, serial, names, chain (with --keep-chain), resSeq, insertion
   code, x y z at 10^-3, charge and radius at 10^-4 *)
Theorem C08_ws_roundtrip_partial : forall (cf : bool) (a : atom),
  ws_ok cf a = true -> from_pqr_line (ws_line cf a) = PAtom (expected_ws cf a).
Proof. exact ws_roundtrip. Qed.

(* the guard is exactly: column capacities, non-empty names, no digit chain id
   (when printed), no digit insertion code *)
Theorem C08_ws_guard : forall (cf : bool) (a : atom),
  ws_ok cf a =
  fixed_ok cf a && negb (is_empty (a_name a)) && negb (is_empty (a_res_name a))
  && (negb cf || negb (any_char is_digit (a_chain a)))
  && negb (any_char is_digit (a_ins a)).
Proof. reflexivity. Qed.

(* whole atom lists through print_biomolecule_atoms, print_pqr, read_pqr, for
   PDB input and for mmCIF input (is_cif = true: TER lines dropped, "#" line
   appended - repaired C08-F7) *)
Theorem C08_ws_file_roundtrip_partial : forall (cf is_cif : bool) (l : list atom),
  all_ok (ws_ok cf) 0 l ->
  read_pqr (file_chunks true is_cif (print_atoms cf l)) =
  inl (map (expected_ws cf) (renumbered 0 l)).
Proof. exact ws_file_roundtrip. Qed.

(* repaired C08-F4: --keep-chain, chain id and resSeq (also of 4 characters)
   are read back separately, for ALL atoms within the guard *)
Theorem C08_ws_chain_res_seq_roundtrip : forall a : atom,
  ws_ok true a = true -> is_empty (a_chain a) = false ->
  exists p, from_pqr_line (ws_line true a) = PAtom p /\
    p_chain p = Some (a_chain a) /\ p_res_seq p = a_res_seq a.
Proof. exact ws_chain_res_seq_roundtrip. Qed.

(* repaired C08-F5: resSeq and insertion code are read back separately, with or
   without --keep-chain, for ALL atoms within the guard *)
Theorem C08_ws_ins_code_roundtrip : forall (cf : bool) (a : atom),
  ws_ok cf a = true -> is_empty (a_ins a) = false ->
  exists p, from_pqr_line (ws_line cf a) = PAtom p /\
    p_res_seq p = a_res_seq a /\ p_ins p = Some (a_ins a).
Proof. exact ws_ins_code_roundtrip. Qed.

(* the former refutation witnesses of the repaired defects now round-trip:
   chain A + resSeq 1000, resSeq 12 + iCode B, charge -10.5 / radius 10.5 (no
   longer fused with z / the charge), the "#" trailer of mmCIF input *)
Theorem C08_ws_repaired_witnesses :
  (in_quantifier wit_chain_resseq = true /\ ws_ok true wit_chain_resseq = true /\
   ws_line true wit_chain_resseq =
     "ATOM       1  CA   ALA A 1000        1.000   -2.500    3.125  -0.5000  1.8000" ++ nl /\
   from_pqr_line (ws_line true wit_chain_resseq) = PAtom (expected_ws true wit_chain_resseq)) /\
  (in_quantifier wit_inscode = true /\ ws_ok true wit_inscode = true /\
   ws_ok false wit_inscode = true /\
   ws_line false wit_inscode =
     "ATOM       1  CA   ALA     12 B      1.000   -2.500    3.125  -0.5000  1.8000" ++ nl /\
   ws_line true wit_inscode =
     "ATOM       1  CA   ALA A   12 B      1.000   -2.500    3.125  -0.5000  1.8000" ++ nl /\
   p_ins (expected_ws false wit_inscode) = Some "B" /\
   from_pqr_line (ws_line false wit_inscode) = PAtom (expected_ws false wit_inscode) /\
   from_pqr_line (ws_line true wit_inscode) = PAtom (expected_ws true wit_inscode)) /\
  (ws_ok false wit_charge = true /\
   tokens (ws_line false wit_charge) =
     ["ATOM"; "1"; "CA"; "ALA"; "12"; "1.000"; "-2.500"; "3.125"; "-10.5000"; "1.8000"] /\
   from_pqr_line (ws_line false wit_charge) = PAtom (expected_ws false wit_charge)) /\
  (ws_ok false wit_radius = true /\
   tokens (ws_line false wit_radius) =
     ["ATOM"; "1"; "CA"; "ALA"; "12"; "1.000"; "-2.500"; "3.125"; "-0.5000"; "10.5000"] /\
   from_pqr_line (ws_line false wit_radius) = PAtom (expected_ws false wit_radius)) /\
  (file_chunks true true (print_atoms false [base_atom]) =
     [ws_line false (with_serial 1 base_atom); "#" ++ nl] /\
   from_pqr_line ("#" ++ nl) = PNone /\
   read_pqr (file_chunks true true (print_atoms false [base_atom])) =
     inl [expected_ws false (with_serial 1 base_atom)]).
Proof. exact ws_repaired_witnesses. Qed.

(* C08-F6: a digit as chain id is silently read as resSeq; every later field shifts *)
Theorem C08_ws_digit_chain_refuted :
  exists a p, in_quantifier a = true /\ fixed_ok true a = true /\ a_chain a = "1" /\
    a_res_seq a = 12%Z /\
    from_pqr_line (ws_line true a) = PAtom p /\
    p_chain p = None /\ p_res_seq p = 1%Z /\ p_x p = PF false 12 0 /\ p_radius p = PF true 5000 4.
Proof. exact ws_digit_chain_refuted. Qed.

(* C08-F8: a digit as insertion code is silently read as x; every later field shifts *)
Theorem C08_ws_digit_ins_refuted :
  exists a p, in_quantifier a = true /\ fixed_ok false a = true /\ a_ins a = "1" /\
    a_x a = mkfx false 1000 /\
    tokens (ws_line false a) =
      ["ATOM"; "1"; "CA"; "ALA"; "12"; "1"; "1.000"; "-2.500"; "3.125"; "-0.5000"; "1.8000"] /\
    from_pqr_line (ws_line false a) = PAtom p /\
    p_res_seq p = 12%Z /\ p_ins p = None /\ p_x p = PF false 1 0 /\ p_y p = PF false 1000 3 /\
    p_radius p = PF true 5000 4.
Proof. exact ws_digit_ins_refuted. Qed.

(* ---- printing-side lemmas reused by C09 ---- *)

(* --keep-chain changes column 22 only (no guard) *)
Theorem C08_chainflag_only_col22 : forall a : atom,
  exists pre c post,
    String.length pre = 21 /\ String.length c = 1 /\
    pqr_string true a = pre ++ c ++ post /\
    pqr_string false a = pre ++ " " ++ post.
Proof. exact chainflag_only_col22. Qed.

(* the five numeric tokens after re-spacing are the five numeric column slices
   before it, in order, whatever the name/chain/resSeq part looks like; _wide:
   the same under the full column widths of charge (8) and radius (7) *)
Theorem C08_respace_keeps_numeric_tokens_wide : forall (cf : bool) (a : atom),
  num_fits a = true ->
  exists front,
    tokens (ws_line cf a) = (front ++ num_tokens a)%list /\
    map (fun c => strip (slice (fst c) (snd c) (pqr_string cf a))) num_cols = num_tokens a.
Proof. exact respace_keeps_numeric_tokens_wide. Qed.

Theorem C08_respace_keeps_numeric_tokens : forall (cf : bool) (a : atom),
  num_ok a = true ->
  exists front,
    tokens (ws_line cf a) = (front ++ num_tokens a)%list /\
    map (fun c => strip (slice (fst c) (snd c) (pqr_string cf a))) num_cols = num_tokens a.
Proof. exact respace_keeps_numeric_tokens. Qed.

(* line i renders atom i with serial i+1; TER lines aside, nothing is reordered *)
Theorem C08_serial_is_position : forall (cf : bool) (l : list atom) (i : nat),
  nth_error (atom_lines (print_items cf l)) i =
  option_map (fun a => pqr_string cf (with_serial (Z.of_nat i + 1) a)) (nth_error l i).
Proof. exact serial_is_position. Qed.

Theorem C08_order_preserved : forall (cf : bool) (l : list atom),
  atom_lines (print_items cf l) = numbered cf 0 l.
Proof. exact order_preserved. Qed.

(* the --whitespace file is exactly the re-spaced atom lines in order (TER and
   END are dropped) *)
Theorem C08_ws_file_lines : forall (cf : bool) (l : list atom),
  all_types_ok l ->
  print_pqr true false (print_atoms cf l) =
  String.concat "" (map (fun s => respace (s ++ nl)) (numbered cf 0 l)).
Proof. exact ws_file_lines. Qed.

(* non-vacuity: atoms on the column boundaries satisfy the guards *)
Example C08_nonvacuous :
  fixed_ok true edge_atom = true /\
  pqr_string true edge_atom =
    "HETATM99999 HD11LIG1 Z-999X   -999.9999999.999  -0.000-99.999999.9999" /\
  read_fixed (pqr_string true edge_atom) = expected_fixed true edge_atom /\
  ws_ok true edge_atom = true /\
  ws_line true edge_atom =
    "HETATM 99999 HD11 LIG1 Z -999 X   -999.999 9999.999   -0.000 -99.9999 99.9999" ++ nl /\
  from_pqr_line (ws_line true edge_atom) = PAtom (expected_ws true edge_atom) /\
  ws_ok true edge_atom_ws = true /\ ws_ok false edge_atom_ws = true /\
  in_quantifier edge_atom_ws = true /\
  ws_line true edge_atom_ws =
    "HETATM 99999 HD11 LIG1 Z  -99     -999.999 9999.999   -0.000  -9.9999  0.0000" ++ nl /\
  from_pqr_line (ws_line true edge_atom_ws) = PAtom (expected_ws true edge_atom_ws) /\
  in_quantifier edge_atom_ws4 = true /\ ws_ok true edge_atom_ws4 = true /\
  ws_ok false edge_atom_ws4 = true /\
  p_chain (expected_ws true edge_atom_ws4) = Some "Z" /\
  p_res_seq (expected_ws true edge_atom_ws4) = (-999)%Z /\
  p_ins (expected_ws true edge_atom_ws4) = Some "X" /\
  from_pqr_line (ws_line true edge_atom_ws4) = PAtom (expected_ws true edge_atom_ws4) /\
  from_pqr_line (ws_line false edge_atom_ws4) = PAtom (expected_ws false edge_atom_ws4).
Proof. exact guards_nonvacuous. Qed.

Print Assumptions C08_fixed_roundtrip_partial.
Print Assumptions C08_fixed_file_roundtrip_partial.
Print Assumptions C08_fixed_serial_refuted.
Print Assumptions C08_fixed_res_seq_refuted.
Print Assumptions C08_fixed_coord_refuted.
Print Assumptions C08_ws_roundtrip_partial.
Print Assumptions C08_ws_guard.
Print Assumptions C08_ws_file_roundtrip_partial.
Print Assumptions C08_ws_chain_res_seq_roundtrip.
Print Assumptions C08_ws_ins_code_roundtrip.
Print Assumptions C08_ws_repaired_witnesses.
Print Assumptions C08_ws_digit_chain_refuted.
Print Assumptions C08_ws_digit_ins_refuted.
Print Assumptions C08_chainflag_only_col22.
Print Assumptions C08_respace_keeps_numeric_tokens.
Print Assumptions C08_respace_keeps_numeric_tokens_wide.
Print Assumptions C08_serial_is_position.
Print Assumptions C08_order_preserved.
Print Assumptions C08_ws_file_lines.
Print Assumptions C08_nonvacuous.
