(* C07 - every coordinate record of the first model of a PDB input is ingested.
   Property theorems only; proofs are in Proofs/PdbRead.v, Proofs/Group.v,
   Proofs/Ingest.v (universal statements) and Proofs/C07Witness.v (concrete
   witnesses).  The models follow /repo WITH the C07-F3..F6 repairs.

   Objects (Model/PdbRead.v, Model/Group.v, Model/PdbSpec.v):
     ingest fok tab dropw lines   pdb.read_pdb ; [main.drop_water] ; Biomolecule.__init__
                                  on the readline() chunks [lines]; fok = "float(text) succeeds"
                                  (oracle), tab = definition table (regenerated from /repo)
     cols_read lines              the independent fixed-column read: ATOM/HETATM lines in front
                                  of the second MODEL line, first listed per
                                  (chain, resSeq, iCode, name)
     guard fok tab lines          G1 every ATOM/HETATM/MODEL line starts in column 1 and is read
                                     by the column parser (no fallback, no ValueError), no
                                     EOF sentinel inside the list
                                  G2 (design) blank-chain lettering inert: no TER, or no blank
                                     chain on a non-water record (with TER records a blank
                                     chain id means "the chain of this TER segment")
                                  G5 (design) no two alias names of one atom inside one residue

   FULL STATEMENT (property text, all inputs), kept visible:

     forall fok tab lines, forallb (g_line fok) lines = true ->
       exists rs, ingest fok tab false lines = Done rs /\
         Permutation (map a_src (all_atoms rs)) (map strip (cols_read lines))
     /\ ingest fok tab false lines = ingest fok tab false (first_model false lines)
     /\ ingest fok tab true lines =
        ingest fok tab false (filter (fun l => negb (is_water_line l)) lines)

   Since the repairs of C07-F3 (second MODEL always ends the read), C07-F4
   (record_type() = columns 1-6) and C07-F5 (an identity listed again after its
   residue was closed is skipped) the former guards G3 (pending residue at the
   2nd MODEL), G4 (identities only inside one residue run) and the fused-serial
   guard are GONE: C07_ingest_complete needs G1, G2, G5 only,
   C07_drop_water_iff holds under G1 alone, C07_later_models_ignored under G1, G2.
   The two design guards cannot be dropped (C07_blank_chain_segments_refuted,
   C07_alias_names_refuted - behaviour by design, not defects); the collision of
   C07-F6 is repaired (C07_regressions) but G2 stays because the raw-column
   identity of cols_read cannot express TER-segment chains.  The invariance
   clauses (blank lines, unrecognised lines, line endings, trailing columns) hold
   at full strength with no guard. *)
From Coq Require Import String Ascii List Arith NArith ZArith Bool Permutation.
From PV Require Import Lib.Strings Lib.Decimal Model.PdbRead Model.Group Model.PdbSpec
  Proofs.PdbRead Proofs.Group Proofs.Ingest Proofs.Ingest2 Proofs.Other Proofs.FileLayer Proofs.C07Witness.
Import ListNotations.
Local Open Scope string_scope.

(* the atoms of the Biomolecule are exactly the records the column read selects
   (as source lines: each selected line yields one atom, nothing else does) *)
Theorem C07_ingest_complete : forall (fok : string -> bool) (tab : deftab) (lines : list string),
  guard fok tab lines = true ->
  exists rs, ingest fok tab false lines = Done rs /\
    Permutation (map a_src (all_atoms rs)) (map strip (cols_read lines)).
Proof. exact ingest_complete. Qed.

(* and every atom carries the serial, chain, resSeq, iCode and coordinate text of
   the columns of its line *)
Theorem C07_atom_fields : forall (fok : string -> bool) (tab : deftab) (lines : list string)
  (rs : list resid),
  guard fok tab lines = true -> ingest fok tab false lines = Done rs ->
  forall a, In a (all_atoms rs) ->
    exists l, In l (cols_read lines) /\
      a_src a = strip l /\
      Some (a_serial a) = py_int (slice 6 11 l) /\
      a_chain a = strip (slice 21 22 l) /\
      Some (a_resseq a) = py_int (slice 22 26 l) /\
      a_icode a = strip (slice 26 27 l) /\
      a_x a = strip (slice 30 38 l) /\ a_y a = strip (slice 38 46 l) /\
      a_z a = strip (slice 46 54 l).
Proof. exact atom_fields. Qed.

(* a blank or whitespace-only line anywhere changes nothing (any file, with or
   without --drop-water, error outcomes included) *)
Theorem C07_blank_lines_irrelevant : forall (fok : string -> bool) (tab : deftab) (d : bool)
  (l1 : list string) (b : string) (l2 : list string),
  blank_line b -> ingest fok tab d (l1 ++ b :: l2) = ingest fok tab d (l1 ++ l2).
Proof. exact ingest_blank. Qed.

(* a line whose record name is not a PDB record name changes nothing *)
Theorem C07_unknown_lines_irrelevant : forall (fok : string -> bool) (tab : deftab) (d : bool)
  (l1 : list string) (u : string) (l2 : list string),
  unknown_line u -> ingest fok tab d (l1 ++ u :: l2) = ingest fok tab d (l1 ++ l2).
Proof. exact ingest_unknown. Qed.

(* \n, \r\n, missing final newline, trailing blanks/padding: two files whose lines
   have pairwise the same body followed by whitespace are ingested identically *)
Theorem C07_crlf_and_trailing : forall (fok : string -> bool) (tab : deftab) (d : bool)
  (ls ls' : list string),
  Forall2 same_body ls ls' -> ingest fok tab d ls = ingest fok tab d ls'.
Proof. exact ingest_same_body. Qed.

(* cutting a coordinate line anywhere at or after column 54 changes neither the
   exception class nor any kept field of the parsed record *)
Theorem C07_trailing_columns : forall (fok : string -> bool) (het : bool) (src l : string) (n : nat),
  54 <= n -> pforget (parse_cols fok het src (take n l)) = pforget (parse_cols fok het src l).
Proof. exact parse_cols_take. Qed.

(* later models are ignored - for ALL line lists meeting G1, G2 (full strength
   with respect to MODEL/END/ENDMDL placement since the C07-F3 repair) *)
Theorem C07_later_models_ignored : forall (fok : string -> bool) (tab : deftab)
  (lines : list string),
  guard_models fok lines = true ->
  ingest fok tab false lines = ingest fok tab false (first_model false lines).
Proof. exact later_models_ignored. Qed.

(* --drop-water = deleting the water coordinate lines beforehand, for ALL line
   lists meeting G1 (any serial numbers since the C07-F4 repair); without the
   flag waters are kept by C07_ingest_complete *)
Theorem C07_drop_water_iff : forall (fok : string -> bool) (tab : deftab)
  (lines : list string),
  forallb (g_line fok) lines = true ->
  ingest fok tab true lines =
  ingest fok tab false (filter (fun l => negb (is_water_line l)) lines).
Proof. exact drop_water_is_deletion. Qed.

(* the former refutation witnesses of the repaired defects, now regression
   examples: END in front of MODEL 2 (F3), HETATM10000 water (F4), alt-loc B
   listed after another residue (F5; meets the whole guard), blank chain next
   to an explicit chain A (F6; outside G2, conclusion holds nevertheless) *)
Theorem C07_regressions :
  (guard py_float_ok wtab w_model = true /\
   serials_of (ingest py_float_ok wtab false w_model) = [1]%Z) /\
  (forallb (g_line py_float_ok) w_water = true /\
   serials_of (ingest py_float_ok wtab true w_water) = [1]%Z /\
   serials_of (ingest py_float_ok wtab false w_water) = [1; 9999; 10000]%Z) /\
  (guard py_float_ok wtab w_noncontig = true /\
   serials_of (ingest py_float_ok wtab false w_noncontig) = [1; 2]%Z /\
   List.length (cols_read w_noncontig) = 2) /\
  (serials_of (ingest py_float_ok wtab false w_letter) = [2; 1]%Z /\
   List.length (cols_read w_letter) = 2 /\
   conclusion wtab w_letter).
Proof.
  exact (conj model_end_regression (conj water_serial_regression
          (conj noncontiguous_regression lettering_regression))).
Qed.

(* G2 cannot be dropped (design): blank chain ids in two TER segments are two chains *)
Theorem C07_blank_chain_segments_refuted :
  exists lines,
    forallb (g_line py_float_ok) lines = true /\
    forallb (alias_ok wtab) (lsegs [] 0 [] (flat_map (line_recs py_float_ok) lines)) = true /\
    serials_of (ingest py_float_ok wtab false lines) = [1; 2]%Z /\
    List.length (cols_read lines) = 1 /\
    ~ conclusion wtab lines.
Proof. exact segments_refuted. Qed.

(* G5 cannot be dropped (design): HN and H of one alanine are one atom *)
Theorem C07_alias_names_refuted :
  exists lines,
    forallb (g_line py_float_ok) lines = true /\
    inert (flat_map (line_recs py_float_ok) lines) = true /\
    serials_of (ingest py_float_ok wtab false lines) = [1]%Z /\
    List.length (cols_read lines) = 2 /\
    ~ conclusion wtab lines.
Proof. exact alias_refuted. Qed.

(* non-vacuity: a 15-line file (header, two models, alt-loc duplicate, blank
   line, CRLF, line cut at column 54, unknown record, negative resSeq with
   insertion code, TER, water) meets the guards; 4 of its 6 coordinate
   records are selected, --drop-water removes exactly the water *)
Example C07_nonvacuous :
  guard py_float_ok wtab ex_ok = true /\
  guard_models py_float_ok ex_ok = true /\
  serials_of (ingest py_float_ok wtab false ex_ok) = [1; 3; 4; 5]%Z /\
  serials_of (ingest py_float_ok wtab true ex_ok) = [1; 3; 4]%Z /\
  List.length (cols_read ex_ok) = 4.
Proof. exact ex_ok_guard. Qed.

(* ==== ALL line lists: the column-1 / parses-by-columns guard G1 replaced by G1' ====

   read_pdb strips every line, so the record a line holds is named by columns 1-6
   of the STRIPPED line (leading blanks/tabs are ignored; a lower-case or fused
   record name is an unknown record).  A coordinate line is read by fixed columns
   from [spec_line]: itself when it has more than 26 (ATOM) / 16 (HETATM) characters,
   else the fixed-column line pdb.read_atom rebuilds from the words of the line;
   when that cannot be built the read fails with ValueError (bd8c339).
   cols_read2 = coordinate lines in front of the second MODEL line (every MODEL
   line counts, 04a78e7), first listed per identity read from [spec_line].

   G1' = every line is a readline() chunk (not "").  Since the repairs of C07-F7 and
   C07-F8 nothing else is needed: guard2 = G1' + the two DESIGN guards G2
   (blank-chain lettering inert) and G5 (no two alias names of one atom in a
   residue), which C07_blank_chain_segments_refuted / C07_alias_names_refuted show
   cannot be dropped (behaviour by design). *)

(* loud or complete, for ALL line lists: the read either fails with ValueError -
   exactly when some coordinate line raises in its parser - or every coordinate
   line of the first model yields its atom; nothing is dropped silently *)
Theorem C07_loud_or_complete : forall (fok : string -> bool) (tab : deftab)
  (lines : list string),
  guard2 fok tab lines = true ->
  if existsb (raises fok) lines
  then ingest fok tab false lines = Raised "ValueError"
  else exists rs, ingest fok tab false lines = Done rs /\
         Permutation (map a_src (all_atoms rs)) (map strip (cols_read2 fok lines)).
Proof. exact loud_or_complete. Qed.

(* ... and each atom carries the fixed-column fields of the text [spec_line] names *)
Theorem C07_atom_fields_all_lines : forall (fok : string -> bool) (tab : deftab)
  (lines : list string) (rs : list resid),
  guard2 fok tab lines = true -> ingest fok tab false lines = Done rs ->
  forall a, In a (all_atoms rs) ->
    exists l l', In l (cols_read2 fok lines) /\ spec_line fok l = Some l' /\
      a_src a = strip l /\
      Some (a_serial a) = py_int (slice 6 11 l') /\
      a_chain a = strip (slice 21 22 l') /\
      Some (a_resseq a) = py_int (slice 22 26 l') /\
      a_icode a = strip (slice 26 27 l') /\
      a_x a = strip (slice 30 38 l') /\ a_y a = strip (slice 38 46 l') /\
      a_z a = strip (slice 46 54 l').
Proof. exact atom_fields2. Qed.

(* what ONE coordinate line does, for every stripped line s: it raises, or it is read
   by columns from eff_line (itself or the fallback line); it is never skipped *)
Theorem C07_coordinate_line_cases : forall (fok : string -> bool) (het : bool) (s : string),
  atom_outcome fok het s = ORaise \/
  (exists a l', atom_outcome fok het s = ORec (RAtom a) /\ eff_line fok het s = Some l' /\
                parse_cols fok het s l' = POk a).
Proof. exact atom_outcome_cases. Qed.

(* read_pdb on ALL chunk lists: None exactly when a coordinate line raises, else
   precisely the records of the lines, in order *)
Theorem C07_read_total : forall (fok : string -> bool) (lines : list string),
  forallb chunk_ok lines = true ->
  if existsb (raises fok) lines then read_pdb fok lines = None
  else exists e, read_pdb fok lines = Some (flat_map (line_recs fok) lines, e).
Proof. exact read_total. Qed.

(* later models are ignored, over ALL line lists that do not fail loudly (design
   guard G2; a raising coordinate line of a later model still fails the read) *)
Theorem C07_later_models_ignored_all_lines : forall (fok : string -> bool) (tab : deftab)
  (lines : list string),
  forallb chunk_ok lines = true -> existsb (raises fok) lines = false ->
  inert (flat_map (line_recs fok) lines) = true ->
  ingest fok tab false lines = ingest fok tab false (first_model2 false lines).
Proof. exact later_models_all. Qed.

(* --drop-water = deleting the water coordinate lines, over ALL line lists that do
   not fail loudly (no other guard) *)
Theorem C07_drop_water_iff_all_lines : forall (fok : string -> bool) (tab : deftab)
  (lines : list string),
  forallb chunk_ok lines = true -> existsb (raises fok) lines = false ->
  ingest fok tab true lines =
  ingest fok tab false (filter (fun l => negb (is_water_line2 fok l)) lines).
Proof. exact drop_water_all. Qed.

(* --drop-water, complete statement: for ALL line lists, with the flag the read is
   loud or the atoms are exactly the NON-WATER coordinate lines of the first model
   (water = residue name HOH or WAT in the columns the record is read from; TIP, SOL,
   DOD ... are not waters), first listed per identity - whatever the serial numbers,
   chains or positions of waters and non-waters *)
Theorem C07_drop_water_complete : forall (fok : string -> bool) (tab : deftab) (lines : list string),
  forallb chunk_ok lines = true ->
  guard2 fok tab (filter (fun l => negb (is_water_line2 fok l)) lines) = true ->
  if existsb (raises fok) lines
  then ingest fok tab true lines = Raised "ValueError"
  else exists rs, ingest fok tab true lines = Done rs /\
         Permutation (map a_src (all_atoms rs))
           (map strip (cols_read2 fok (filter (fun l => negb (is_water_line2 fok l)) lines))).
Proof. exact drop_water_complete. Qed.

(* record level: drop_water tests the residue name and nothing else *)
Theorem C07_drop_water_by_residue_name : forall (a : atomrec) (recs : list rec),
  (In (RAtom a) recs -> mem_str (a_resname a) water_names = false -> In (RAtom a) (drop_water recs)) /\
  (tok0_ok a = true -> mem_str (a_resname a) water_names = true -> ~ In (RAtom a) (drop_water recs)).
Proof. intros a recs. split; [apply drop_water_keeps | apply drop_water_removes]. Qed.

(* a water and a non-water (and a TIP "water", and a later-model water) with the same
   serial numbers: --drop-water removes the HOH only *)
Example C07_drop_water_shared_serials :
  guard2 py_float_ok wtab (filter (fun l => negb (is_water_line2 py_float_ok l)) w_dupserial) = true /\
  existsb (raises py_float_ok) w_dupserial = false /\
  map (fun a => (a_serial a, a_resname a))
      (match ingest py_float_ok wtab true w_dupserial with Done rs => all_atoms rs | _ => [] end) =
    [(1, "ALA"); (2, "ALA"); (2, "TIP")]%Z /\
  serials_of (ingest py_float_ok wtab false w_dupserial) = [1; 2; 1; 2]%Z.
Proof. exact dupserial_example. Qed.

(* ---- records of the OTHER classes (HET, SSBOND, CONECT, CRYST1, SEQRES, ..., unknown
   names): [ingestG] is the ingest with their parsers' behaviour explicit as an
   oracle oerr (true = KeyError/ValueError: the name goes on errlist and suppresses
   later records OF THAT NAME).  For EVERY oracle the result is that of the model
   that ignores them, because errlist suppression is an exact match on the record
   name and errlist never holds ATOM/HETATM/TER/END/MODEL. *)
Theorem C07_other_records_exact : forall (fok oerr : string -> bool) (tab : deftab) (d : bool)
  (lines : list string),
  ingestG fok oerr tab d lines = ingest fok tab d lines.
Proof. exact ingestG_exact. Qed.

(* inserting ANY line that is neither a coordinate record nor TER/END/MODEL -
   parsable or not, known record name or not, ENDMDL included - changes nothing *)
Theorem C07_other_records_irrelevant : forall (fok : string -> bool) (tab : deftab)
  (oerr : string -> bool) (d : bool) (l1 : list string) (u : string) (l2 : list string),
  other_line u ->
  ingestG fok oerr tab d (l1 ++ u :: l2) = ingestG fok oerr tab d (l1 ++ l2).
Proof. exact other_records_irrelevant. Qed.

(* the former refutation witnesses of the repaired defects C07-F7 / C07-F8 now pass:
   the line without coordinates fails the read loudly, "MODEL 1"/"MODEL 2" separate
   models; and a HET record its parser rejects does not hide HETATM records *)
Theorem C07_all_lines_regressions :
  ((guard2 py_float_ok wtab w_short = true /\
    existsb (raises py_float_ok) w_short = true /\
    ingest py_float_ok wtab false w_short = Raised "ValueError") /\
   (guard2 py_float_ok wtab w_model_free = true /\
    existsb (raises py_float_ok) w_model_free = false /\
    serials_of (ingest py_float_ok wtab false w_model_free) = [1]%Z /\
    List.length (cols_read2 py_float_ok w_model_free) = 1)) /\
  (serials_of (ingestG py_float_ok (fun _ => true) wtab false w_het) = [1; 2; 3]%Z /\
   serials_of (ingestG py_float_ok (fun _ => false) wtab false w_het) = [1; 2; 3]%Z).
Proof. exact (conj all_lines_regressions het_regression). Qed.

(* ==== the FILE layer: io.get_pdb_file opens the file in universal-newline text mode.
   chunks_of_text t = the readline() chunks of a file whose decoded contents are t:
   "\r\n" and a lone "\r" end a line exactly like "\n"; chunks_of_bytes removes
   one leading UTF-8 byte order mark first (encoding="utf-8-sig").  For ANY bodies
   (free of CR/LF), ANY two assignments of LF / CRLF / CR to the lines (no lone CR
   directly in front of an LF, which would BE a CRLF) and any unterminated last
   line, the chunks - hence ingest - are the same.  (A CR-only "classic Mac" file
   reads like the LF file.) *)
Theorem C07_line_endings_irrelevant : forall (fok : string -> bool) (tab : deftab) (d : bool)
  (ls ls' : list (string * FileLayer.eol)) (last : string),
  map fst ls = map fst ls' ->
  forallb no_eol (map fst ls) = true -> no_eol last = true ->
  seq_ok ls last = true -> seq_ok ls' last = true ->
  ingest fok tab d (chunks_of_text (file_text ls last)) =
  ingest fok tab d (chunks_of_text (file_text ls' last)).
Proof. exact line_endings_irrelevant. Qed.

(* the side condition holds whenever the file has no EMPTY line (whitespace-only
   lines are fine); an empty LF-terminated line after a CR-terminated one merges
   into one CRLF and only a blank line vanishes (C07_blank_lines_irrelevant) *)
Theorem C07_line_endings_side_condition : forall (ls : list (string * FileLayer.eol)) (last : string),
  forallb (fun b => negb (is_empty b) && no_eol b) (map fst ls) = true -> no_eol last = true ->
  seq_ok ls last = true.
Proof. exact seq_ok_nonempty. Qed.

Example C07_line_endings_nonvacuous :
  seq_ok (with_eols [CR; CR; CR; CR]) "END" = true /\
  seq_ok (with_eols [CR; CRLF; LF; CR]) "END" = true /\
  seq_ok (with_eols [CR; LF; LF; LF]) "END" = false /\
  chunks_of_bytes (file_text (with_eols [CR; CR; CR; CR]) "END") =
    (map (fun b => b ++ nl)%string fl_bodies ++ ["END"])%list /\
  chunks_of_bytes (bom_bytes ++ file_text (with_eols [CR; CRLF; LF; CR]) "END")%string =
    (map (fun b => b ++ nl)%string fl_bodies ++ ["END"])%list /\
  List.length (chunks_of_bytes (file_text (with_eols [CR; LF; LF; LF]) "END")) = 4.
Proof. exact fl_example. Qed.

(* the byte order mark of a UTF-8 file is not text (d3864ae, was C07-F9): for ANY
   contents, the file with a leading BOM gives the chunks of the file without it *)
Theorem C07_bom_irrelevant : forall t : string,
  chunks_of_bytes (bom_bytes ++ t)%string = chunks_of_text t /\
  (prefix_of bom_bytes t = false -> chunks_of_bytes t = chunks_of_text t).
Proof. intros t. split; [apply chunks_bom | apply chunks_no_bom]. Qed.

Theorem C07_bom_regression :
  serials_of (ingest py_float_ok wtab false (chunks_of_bytes w_bom_text)) = [1; 2]%Z /\
  serials_of (ingest py_float_ok wtab false (chunks_of_bytes (bom_bytes ++ w_bom_text))) = [1; 2]%Z.
Proof. exact bom_regression. Qed.

(* ---- every cut position of a coordinate line (C07_trailing_columns covers k >= 54) ---- *)

(* cut after column 27..46: always ValueError (the z field is empty) *)
Theorem C07_cut_before_z : forall (fok : string -> bool) (het : bool) (src l : string) (k : nat),
  27 <= k -> k <= 46 -> 26 < String.length l -> fok "" = false ->
  parse_cols fok het src (take k l) = PVal.
Proof. exact cut_before_z. Qed.

(* cut inside the z field (46..54): if the record is accepted at all, every field is
   that of the uncut line except z, which is SILENTLY the first k-46 columns of it *)
Theorem C07_cut_inside_z : forall (fok : string -> bool) (het : bool) (src l : string) (k : nat)
  (a : atomrec),
  46 <= k -> k <= 54 -> parse_cols fok het src (take k l) = POk a ->
  a_src a = src /\
  Some (a_serial a) = py_int (slice 6 11 l) /\ a_name a = strip (slice 12 16 l) /\
  a_resname a = strip (slice 17 20 l) /\ a_chain a = strip (slice 21 22 l) /\
  Some (a_resseq a) = py_int (slice 22 26 l) /\ a_icode a = strip (slice 26 27 l) /\
  a_x a = strip (slice 30 38 l) /\ a_y a = strip (slice 38 46 l) /\
  a_z a = strip (slice 46 k l).
Proof. exact cut_inside_z. Qed.

(* a HETATM line of 17..26 characters raises; an ATOM line of at most 26 and a
   HETATM line of at most 16 go to the fallback or raise (C07_coordinate_line_cases) *)
Theorem C07_cut_hetatm_short : forall (fok : string -> bool) (src l : string),
  16 < String.length l -> String.length l <= 26 -> parse_cols fok true src l = PVal.
Proof. exact cut_hetatm_short. Qed.

(* non-vacuity of G1' OUTSIDE the old G1: leading blanks and a tab, a line read
   through the fallback, a line cut inside z, a lower-case record name, " END";
   and a file that fails loudly *)
Example C07_nonvacuous_all_lines :
  (guard2 py_float_ok wtab ex2 = true /\
   forallb (g_line py_float_ok) ex2 = false /\
   existsb (raises py_float_ok) ex2 = false /\
   serials_of (ingest py_float_ok wtab false ex2) = [1; 2; 5; 3]%Z /\
   List.length (cols_read2 py_float_ok ex2) = 4 /\
   map (spec_line py_float_ok) (cols_read2 py_float_ok ex2) =
     [ Some "ATOM      1  N   ALA A   1      11.000  12.000  13.000  1.00  0.00           N";
       Some "ATOM      2  CA  ALA A   1      12.000  12.000  13.000";
       Some "ATOM      3 1 2 3 4 5   3          1       2       3     4     5";
       Some "ATOM      5  N   GLY A   2      15.000  12.000  13.5" ]) /\
  (guard2 py_float_ok wtab ex2_loud = true /\ existsb (raises py_float_ok) ex2_loud = true /\
   ingest py_float_ok wtab false ex2_loud = Raised "ValueError").
Proof. exact (conj ex2_guard ex2_loud_raises). Qed.

Print Assumptions C07_ingest_complete.
Print Assumptions C07_atom_fields.
Print Assumptions C07_blank_lines_irrelevant.
Print Assumptions C07_unknown_lines_irrelevant.
Print Assumptions C07_crlf_and_trailing.
Print Assumptions C07_trailing_columns.
Print Assumptions C07_later_models_ignored.
Print Assumptions C07_drop_water_iff.
Print Assumptions C07_regressions.
Print Assumptions C07_blank_chain_segments_refuted.
Print Assumptions C07_alias_names_refuted.
Print Assumptions C07_nonvacuous.
Print Assumptions C07_loud_or_complete.
Print Assumptions C07_atom_fields_all_lines.
Print Assumptions C07_coordinate_line_cases.
Print Assumptions C07_read_total.
Print Assumptions C07_later_models_ignored_all_lines.
Print Assumptions C07_drop_water_iff_all_lines.
Print Assumptions C07_other_records_exact.
Print Assumptions C07_other_records_irrelevant.
Print Assumptions C07_all_lines_regressions.
Print Assumptions C07_cut_before_z.
Print Assumptions C07_cut_inside_z.
Print Assumptions C07_cut_hetatm_short.
Print Assumptions C07_nonvacuous_all_lines.
Print Assumptions C07_line_endings_irrelevant.
Print Assumptions C07_line_endings_nonvacuous.
Print Assumptions C07_bom_irrelevant.
Print Assumptions C07_bom_regression.
Print Assumptions C07_line_endings_side_condition.
Print Assumptions C07_drop_water_complete.
Print Assumptions C07_drop_water_by_residue_name.
Print Assumptions C07_drop_water_shared_serials.
