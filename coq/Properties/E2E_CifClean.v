(* E2E_CifClean - the mmCIF route of `pdb2pqr --clean` equals the PDB route.
   Property theorems only; model in Model/CleanRunCif.v (C10's cif.atom_site model composed
   with Model/CleanRun.v), proofs in Proofs/CleanRunCif.v (they compose C10's
   atom_site_single_partial, C07's read_guarded and E2E_clean_run_faithful_partial).

   Objects:
     clean_run_cif fok tab pt near r3 mv dropw keep ws rows
         the strings print_pqr writes for a .cif input whose _atom_site loop holds [rows]
         (C10's row type): cif.atom_site's records (C10 [atom_site]: one assembled line per
         row, MODEL n / rows / ENDMDL blocks when the loop has more than one model number),
         each built by pdb.ATOM/HETATM = C07's [parse_cols] on the assembled line; then
         [drop_water] ; Biomolecule (C07 [group]; read_cif makes no TER / END record) ;
         set_termini ; print_biomolecule_atoms ; print_pqr with is_cif = True (chunks that
         start with "TER" are dropped, "#\n" is appended: C08 [file_chunks ws true]).
     clean_items_cif ...   the item list (atom lines with serials, TER positions) before print_pqr
     pdb_lines rows        the PDB v3.3 rendering of the same rows (C10's [pdb_line_of_row]),
                           one model; pdb_lines_models: MODEL n / ... / ENDMDL per model
     row_agree fok mv r    (decidable) the record the CIF route makes of row r equals the record
                           the PDB reader makes of r's PDB line, and that line meets C07's G1

   FULL STATEMENT wanted: for ALL row lists within C10's guard, any number of models, the two
   routes write byte-identical atom lines.  PROVED (_partial): one model number, rows within
   C10's guard and [row_agree].  [row_agree] is a semantic per-row check; the syntactic
   condition [row_syntactic] (C10's guard, blank charge columns - C10-F8 -, float-readable
   coordinates) implies it on every generated row of every run (checked by the harness, 0
   counterexamples) but that implication is NOT proved: it needs the equivalence of C10's and
   C07's models of int() on column text.  Several models: not proved either; the byte-level
   correspondence and the example below cover them (the second model is ignored on both routes).
   Outside the guard the routes differ by design of the code (recorded findings): atom / residue
   names are read from label_* items (C10-F9), pdbx_formal_charge is not transferred (C10-F8). *)
From Coq Require Import String List ZArith NArith Bool Permutation.
From PV Require Import Lib.Strings Lib.Decimal Model.PdbRead Model.Group Model.PdbSpec Model.CleanRun
  Model.CleanRunCif Proofs.CleanRun Proofs.CleanRunCif.
From PV Require Model.PqrFormat Proofs.PqrFormat Model.CifLine.
Import ListNotations.
Local Open Scope string_scope.

Module MP := PV.Model.PqrFormat.
Module PP := PV.Proofs.PqrFormat.
Module CL := PV.Model.CifLine.

(* the two encodings of one structure give the SAME printed item list in --clean mode, for
   every missing-value convention C10 covers and all flags; the CIF file is that list without
   its TER/END chunks plus "#", the PDB-route file is the list itself: the atom lines -
   serial, names, chain, resSeq, iCode, coordinates, 0.0000 charge/radius - are byte-identical *)
Theorem E2E_cif_clean_eq_pdb_clean_partial :
  forall fok tab pt near (r3 : string -> MP.fx) mv dropw keep ws rows m,
  CL.mv_ok mv = true -> rows <> [] ->
  (forall r, In r rows -> CL.guard r = true /\ CL.pdbx_PDB_model_num r = CL.Tok m) ->
  forallb (row_agree fok mv) rows = true ->
  clean_items_cif fok tab pt near r3 mv dropw keep rows =
    clean_items fok tab pt near r3 dropw keep (pdb_lines rows) /\
  clean_run_cif fok tab pt near r3 mv dropw keep ws rows =
    option_map (fun its => MP.file_chunks ws true (map MP.item_text its))
               (clean_items fok tab pt near r3 dropw keep (pdb_lines rows)) /\
  clean_run fok tab pt near r3 dropw keep ws (pdb_lines rows) =
    option_map (fun its => MP.written_chunks ws false (map MP.item_text its))
               (clean_items fok tab pt near r3 dropw keep (pdb_lines rows)).
Proof. exact cif_clean_eq_pdb_clean_partial. Qed.

(* corollary through E2E_clean_run_faithful_partial: reading the CIF-route output back by the
   writer's columns yields, as a multiset, the chain / resSeq / iCode / coordinates of the
   rows (as their PDB rendering lists them; first listed per identity) *)
Theorem E2E_cif_clean_faithful_partial :
  forall fok tab pt near (r3 : string -> MP.fx) mv keep rows m,
  CL.mv_ok mv = true -> rows <> [] ->
  (forall r, In r rows -> CL.guard r = true /\ CL.pdbx_PDB_model_num r = CL.Tok m) ->
  forallb (row_agree fok mv) rows = true ->
  e2e_guard fok tab pt near r3 (MP.fixed_ok keep) (pdb_lines rows) = true ->
  exists its,
    clean_items_cif fok tab pt near r3 mv false keep rows = Some its /\
    clean_run_cif fok tab pt near r3 mv false keep false rows =
      Some (MP.file_chunks false true (map MP.item_text its)) /\
    Permutation (map out_crec (map MP.read_fixed (PP.atom_lines its)))
                (map (in_crec r3 keep) (cols_read (pdb_lines rows))).
Proof. exact cif_clean_faithful_partial. Qed.

(* ALL inputs: the CIF-route file is what print_pqr keeps of the item list, then "#" *)
Theorem E2E_cif_file_shape :
  forall fok tab pt near (r3 : string -> MP.fx) mv dropw keep ws rows its,
  clean_items_cif fok tab pt near r3 mv dropw keep rows = Some its ->
  clean_run_cif fok tab pt near r3 mv dropw keep ws rows =
    Some (MP.written_chunks ws true (map MP.item_text its) ++ [("#" ++ nl)%string])%list.
Proof. exact cif_file_shape. Qed.

(* non-vacuity: 7 rows (insertion code + negative resSeq, alt-locs, the 4-character name HD21,
   an 8-character coordinate, 4-digit resSeq, a ZN HETATM group with formal charge 0, a water,
   two chains) meet every guard under both library conventions; the exact file; and the same
   rows as two models give the same file and the same atom lines on both routes *)
Example E2E_cif_nonvacuous :
  forallb CL.guard ex_rows = true /\
  forallb (row_agree py_float_ok CL.mv_installed) ex_rows = true /\
  forallb (row_agree py_float_ok CL.mv_legacy) ex_rows = true /\
  forallb (row_syntactic py_float_ok) ex_rows = true /\
  e2e_guard py_float_ok etab ept near_dec er3 (MP.fixed_ok true) (pdb_lines ex_rows) = true /\
  List.length (cols_read (pdb_lines ex_rows)) = 6 /\
  clean_file_cif py_float_ok etab ept near_dec er3 CL.mv_installed false true false ex_rows = Some ex_cif_out /\
  clean_file_cif py_float_ok etab ept near_dec er3 CL.mv_legacy false true false ex_rows = Some ex_cif_out /\
  clean_file_cif py_float_ok etab ept near_dec er3 CL.mv_installed false true false ex_rows_2models = Some ex_cif_out /\
  option_map (fun its => PP.atom_lines its)
    (clean_items py_float_ok etab ept near_dec er3 false true (pdb_lines_models ex_rows_2models)) =
  option_map (fun its => PP.atom_lines its)
    (clean_items_cif py_float_ok etab ept near_dec er3 CL.mv_installed false true ex_rows_2models).
Proof. exact ex_cif_ok. Qed.

Print Assumptions E2E_cif_clean_eq_pdb_clean_partial.
Print Assumptions E2E_cif_clean_faithful_partial.
Print Assumptions E2E_cif_file_shape.
Print Assumptions E2E_cif_nonvacuous.
