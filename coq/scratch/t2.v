From Coq Require Import String List ZArith QArith Bool Lia Lqa.
From PV Require Import Lib.Strings Model.Psize.
Import ListNotations.
Local Open Scope Q_scope.

Lemma Qltb_lt a b : Qltb a b = true <-> a < b.
Proof.
  unfold Qltb. rewrite negb_true_iff. split; intros H.
  - apply Qnot_le_lt. intros H1. apply Qle_bool_iff in H1. congruence.
  - destruct (Qle_bool b a) eqn:E; [|reflexivity]. apply Qle_bool_iff in E. lra.
Qed.
Lemma Qltb_ge a b : Qltb a b = false <-> b <= a.
Proof.
  unfold Qltb. rewrite negb_false_iff. apply Qle_bool_iff.
Qed.

Ltac qconst :=
  unfold Qdiv, inject_Z in *;
  change (/ (2 # 1)) with (1 # 2) in *; change (/ (10 # 1)) with (1 # 10) in *;
  change (/ (32 # 1)) with (1 # 32) in *; change (/ (1024 # 1)) with (1 # 1024) in *.
Ltac qcase :=
  match goal with
  | |- context [Qltb ?a ?b] =>
      let E := fresh "E" in
      destruct (Qltb a b) eqn:E; [apply Qltb_lt in E | apply Qltb_ge in E]
  end.

Goal forall mx mn cfac fadd : Q, 1 <= cfac -> 0 <= fadd ->
  let mol := mol_len1 QA mx mn in
  let coarse := coarse1 QA cfac mol in
  let fine := fine1 QA fadd mol coarse in
  let c := center1 QA mx mn in
  c - fine / 2 <= mn /\ mx <= c + fine / 2 /\ c - coarse / 2 <= mn /\ mx <= c + coarse / 2 /\ fine <= coarse /\ c == (mx+mn)/2.
Proof.
  intros mx mn cfac fadd Hc Hf. cbv zeta.
  unfold fine1, coarse1, mol_len1, center1, pmin, pmax, tenth. cbn [ltb add sub mul div ofZ QA].
  repeat qcase; rewrite ?Qred_correct in *; qconst; repeat split; try nra.
Qed.
