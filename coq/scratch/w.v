From Coq Require Import String List ZArith NArith Permutation.
From PV Require Import Lib.Strings Lib.Decimal Model.PdbRead Model.Group Model.PdbSpec.
Import ListNotations.
Open Scope string_scope.
Definition TAB : deftab := [("ALA", (KAmino, [("HN","H")])); ("GLY", (KAmino, [])); ("HOH", (KWater, [("OW","O")])); ("WAT", (KWater, []))].
Definition ex : list string := [
 "HEADER    TEST" ++ nl;
 "MODEL        1" ++ nl;
 "ATOM      1  N  AALA A   1      11.000  12.000  13.000  1.00  0.00           N" ++ nl;
 "ATOM      2  N  BALA A   1      11.500  12.000  13.000  1.00  0.00           N" ++ nl;
 "   " ++ nl;
 "ATOM      3  CA  ALA A   1      12.000  12.000  13.000" ++ bs [13;10]%N;
 "FOO bar" ++ nl;
 "ATOM      4  N   GLY A  -2A     14.000  12.000  13.000  1.00  0.00           N" ++ nl;
 "TER" ++ nl;
 "HETATM    5  O   HOH A 100      20.000  12.000  13.000  1.00  0.00           O" ++ nl;
 "ENDMDL" ++ nl;
 "MODEL        2" ++ nl;
 "ATOM      6  N   ALA A   1      31.000  12.000  13.000  1.00  0.00           N" ++ nl;
 "ENDMDL" ++ nl;
 "END" ++ nl ].
Eval vm_compute in guard py_float_ok TAB ex.
Eval vm_compute in show_result (ingest py_float_ok TAB false ex).
Eval vm_compute in show_result (ingest py_float_ok TAB true ex).
Eval vm_compute in map strip (cols_read ex).
