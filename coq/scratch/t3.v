From Coq Require Import ZArith QArith Lqa.
Local Open Scope Q_scope.
Goal forall x:Q, x/2 + x/2 == x. intros. Fail lra. unfold Qdiv. Fail lra. change (/ 2) with (1#2). lra. Qed.
Goal forall x:Q, x/2 + x/2 == x. intros. field. Qed.
Goal forall x y:Q, 0 <= y -> 1 <= x -> y <= x * y. intros. nra. Qed.
