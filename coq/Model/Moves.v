(* Model of the side-chain moveable-set selection (C04, C05):
   Biomolecule.set_reference_distance (ranks) + Residue.get_moveable_names,
   and the graph conditions under which rotating that set about the dihedral's
   middle bond is a rigid motion of the residue. *)
From Coq Require Import List PArith Bool Arith.
From PV Require Import Model.ForceField Model.Topology.
Import ListNotations.

(* a residue as a bond graph: atom name -> bonded names (within the residue) *)
Definition graph := list (id * list id).

Definition nbrs (g : graph) (a : id) : list id :=
  match find (fun p => Pos.eqb (fst p) a) g with Some p => snd p | None => [] end.

Definition nodes (g : graph) : list id := map fst g.

Definition mem (a : id) (l : list id) : bool := existsb (Pos.eqb a) l.

(* breadth-first distances from [src]: layer k = nodes at distance k.
   utilities.shortest_path is an exhaustive shortest-path search, so
   len(path) - 1 is this distance. *)
Definition add_new (seen acc : list id) (b : id) : list id :=
  if mem b seen || mem b acc then acc else acc ++ [b].

Fixpoint bfs (g : graph) (fuel : nat) (seen frontier : list id) (d : nat) (acc : list (id * nat))
  : list (id * nat) :=
  match fuel with
  | 0 => acc
  | S f =>
      match frontier with
      | [] => acc
      | _ =>
          let acc' := acc ++ map (fun a => (a, d)) frontier in
          let next := fold_left (add_new seen) (flat_map (nbrs g) frontier) [] in
          bfs g f (seen ++ next) next (S d) acc'
      end
  end.

Definition dist_table (g : graph) (src : id) : list (id * nat) :=
  bfs g (S (length g)) [src] [src] 0 [].

Definition dist_to (tbl : list (id * nat)) (a : id) : option nat :=
  match find (fun p => Pos.eqb (fst p) a) tbl with Some p => Some (snd p) | None => None end.

(* ranks as Z-like: backbone = -1 is represented by None-less encoding:
   rank r is stored as r + 1 in nat (backbone 0, CA-neighbour side chain 2, ...) *)
Record names := mknames {
  nm_backbone : list id;   (* config.BACKBONE *)
  nm_CA : id; nm_HO : id; nm_H2 : id; nm_H3 : id
}.

(* None = the ValueError "Found gap in biomolecule structure" *)
Definition rank1 (nm : names) (is_n_term is_c_term : bool) (tbl : list (id * nat)) (a : id) : option nat :=
  if mem a (nm_backbone nm) then Some 0
  else if is_c_term && Pos.eqb a (nm_HO nm) then Some 4
  else if is_n_term && (Pos.eqb a (nm_H3 nm) || Pos.eqb a (nm_H2 nm)) then Some 3
  else match dist_to tbl a with Some d => Some (S d) | None => None end.

Definition ranks (nm : names) (nt ct : bool) (g : graph) : option (list (id * nat)) :=
  let tbl := dist_table g (nm_CA nm) in
  fold_right (fun a acc =>
                match acc, rank1 nm nt ct tbl a with
                | Some l, Some r => Some ((a, r) :: l)
                | _, _ => None
                end) (Some []) (nodes g).

(* Residue.get_moveable_names(pivot) (after fix a31aee4): the atoms reachable
   from the pivot through bonded atoms of this residue whose rank is strictly
   greater than the pivot's, in residue atom order, without the pivot itself. *)
Fixpoint reach (g : graph) (ok : id -> bool) (fuel : nat) (seen stack : list id) : list id :=
  match fuel with
  | 0 => seen
  | S f =>
      match stack with
      | [] => seen
      | a :: rest =>
          let new := fold_left (fun acc v => if mem v seen || mem v acc || negb (ok v) then acc else acc ++ [v])
                               (nbrs g a) [] in
          reach g ok f (seen ++ new) (new ++ rest)
      end
  end.

Definition moveable (g : graph) (rk : list (id * nat)) (pivot : id) : list id :=
  match dist_to rk pivot with
  | None => []
  | Some rp =>
      let ok := fun v => match dist_to rk v with Some r => Nat.ltb rp r | None => false end in
      let s := reach g ok (S (length g)) [pivot] [pivot] in
      filter (fun a => mem a s && negb (Pos.eqb a pivot)) (nodes g)
  end.

(* the selection before the fix (rank only), kept to state what was wrong *)
Definition moveable_by_rank (rk : list (id * nat)) (pivot : id) : list id :=
  match dist_to rk pivot with
  | None => []
  | Some rp => map fst (filter (fun p => Nat.ltb rp (snd p)) rk)
  end.

(* ---- rigidity conditions for rotating M about the bond b - c (c = pivot) --- *)

Section Conditions.
  Variable keep : id -> bool.   (* which atoms the statement is about (heavy / all) *)
  Variable g : graph.
  Variables b c : id.
  Variable M : list id.

  Definition inM (a : id) : bool := mem a M.

  (* (1) every bond of a moved atom (that we care about) goes to a moved atom or to the pivot *)
  Definition cond_closed : bool :=
    forallb (fun u => negb (keep u) || negb (inM u) ||
                      forallb (fun v => negb (keep v) || inM v || Pos.eqb v c) (nbrs g u)) (nodes g).
  (* (2) every neighbour of the pivot is the axis partner or moved *)
  Definition cond_pivot : bool :=
    forallb (fun v => negb (keep v) || inM v || Pos.eqb v b) (nbrs g c).
  (* (3) axis atoms do not move *)
  Definition cond_axis : bool := negb (inM b) && negb (inM c).
  (* symmetric bond lists, so that (1) also covers bonds listed from the unmoved side *)
  Definition cond_sym : bool :=
    forallb (fun u => forallb (fun v => mem u (nbrs g v)) (nbrs g u)) (nodes g).

  Definition rigid_ok : bool := cond_closed && cond_pivot && cond_axis && cond_sym.
End Conditions.

Definition is_hydrogen_name (hyd : list id) (a : id) : bool := mem a hyd.

(* the check for one template dihedral "a b c d": pivot = c, axis b - c *)
Definition dihedral_ok (keep : id -> bool) (nm : names) (nt ct : bool) (g : graph)
           (dh : id * id * id * id) : bool :=
  let '(_, b, c, _) := dh in
  match ranks nm nt ct g with
  | None => false
  | Some rk => rigid_ok keep g b c (moveable g rk c) && negb (existsb (fun a => mem a (nm_backbone nm)) (moveable g rk c))
  end.

(* the same check for the pre-fix selection *)
Definition dihedral_ok_by_rank (keep : id -> bool) (nm : names) (nt ct : bool) (g : graph)
           (dh : id * id * id * id) : bool :=
  let '(_, b, c, _) := dh in
  match ranks nm nt ct g with
  | None => false
  | Some rk => rigid_ok keep g b c (moveable_by_rank rk c)
  end.

Definition graph_of (t : tres) : graph := map (fun a => (ta_name a, ta_bonds a)) (tr_atoms t).

(* restrict a graph to the nodes present (bonds to absent atoms dropped) *)
Definition restrict (g : graph) : graph :=
  map (fun p => (fst p, filter (fun v => mem v (nodes g)) (snd p))) g.

(* ---- other storage orders of the same residue ------------------------------
   residue.atoms and atom.bonds are lists whose order is an accident of the
   input file (and of repair_heavy, which appends rebuilt atoms): the moved set
   must not depend on it.  [rev_graph] / [sort_graph] store the same bond graph
   in reversed and in id (= alphabetical name) order. *)
Definition rev_graph (g : graph) : graph := rev (map (fun p => (fst p, rev (snd p))) g).

Fixpoint insert_id (a : id) (l : list id) : list id :=
  match l with
  | [] => [a]
  | b :: t => if Pos.leb a b then a :: l else b :: insert_id a t
  end.
Definition sort_ids (l : list id) : list id := fold_right insert_id [] l.

Fixpoint insert_node (p : id * list id) (l : graph) : graph :=
  match l with
  | [] => [p]
  | q :: t => if Pos.leb (fst p) (fst q) then p :: l else q :: insert_node p t
  end.
Definition sort_graph (g : graph) : graph :=
  fold_right insert_node [] (map (fun p => (fst p, sort_ids (snd p))) g).

Definition same_set (l1 l2 : list id) : bool :=
  forallb (fun a => mem a l2) l1 && forallb (fun a => mem a l1) l2.

(* the moved set of pivot c is the same SET when the residue is stored as g' instead of g *)
Definition same_moved (nm : names) (nt ct : bool) (g g' : graph) (c : id) : bool :=
  match ranks nm nt ct g, ranks nm nt ct g' with
  | Some rk, Some rk' => same_set (moveable g rk c) (moveable g' rk' c)
  | None, None => true
  | _, _ => false
  end.

Definition order_insensitive (nm : names) (g : graph) (c : id) : bool :=
  forallb (fun f : bool * bool =>
             same_moved nm (fst f) (snd f) g (rev_graph g) c && same_moved nm (fst f) (snd f) g (sort_graph g) c)
          [(false, false); (true, false); (false, true); (true, true)].
