(* Model of the residue-state logic of pdb2pqr (C02):

   - aa.py  Amino.set_state and the overrides of ARG ASP CYS GLU HIS LYS TYR PRO,
     na.py  Nucleic.set_state and the five subclasses      -> [set_state], [ffname_of], [nuc_state]
   - biomolecule.py  assign_termini / set_termini          -> [assign], [scan], [termini]
   - the per-state charge tables (Generated/States.v x Generated/FF_<ff>.v)
                                                           -> [check_arows], [check_strand], [check_water]
   - main.py integrality guard / utilities.noninteger_charge -> [guard_ok]

   Names are structural: (prefix, base) for amino acids, (base, 5' flag, 3' flag)
   for nucleotides; [show_sname]/[show_nname] render the python string.
   No geometry: the cyclic test dist(N, C) < 1.35 enters as a predicate on
   residue ids.  Executable only; proofs are in Proofs/States.v. *)
From Coq Require Import List Bool ZArith PArith String Ascii Arith.
From PV Require Import Lib.Decimal Model.ForceField.
Import ListNotations.

(* ---------------------------------------------------------------------- *)
(* names                                                                   *)

(* python classes of aa.py *)
Inductive aclass :=
  C_ALA | C_ARG | C_ASN | C_ASP | C_CYS | C_GLN | C_GLU | C_GLY | C_HIS | C_ILE
| C_LEU | C_LYS | C_MET | C_PHE | C_PRO | C_SER | C_THR | C_TRP | C_TYR | C_VAL.

(* residue names / ffname cores *)
Inductive base :=
  B_ALA | B_ARG | B_ASN | B_ASP | B_CYS | B_GLN | B_GLU | B_GLY | B_HIS | B_ILE
| B_LEU | B_LYS | B_MET | B_PHE | B_PRO | B_SER | B_THR | B_TRP | B_TYR | B_VAL
| B_AR0 | B_ASH | B_CYX | B_CYM | B_GLH | B_HID | B_HIE | B_HIP | B_HSD | B_HSE
| B_HSP | B_LYN | B_TYM.

Inductive prefix := PNone | PN | PC | PNN | PNC.

Definition sname := (prefix * base)%type.

(* entries of residue.patches the code looks at, plus the ones it ignores *)
Inductive patch :=
  P_AR0 | P_ASH | P_CYX | P_CYM | P_GLH | P_HIP | P_LYN | P_TYM
| P_NEUTRAL_NTERM | P_NEUTRAL_CTERM | P_NTERM | P_CTERM | P_PEPTIDE | P_5TERM | P_3TERM.

Definition base_idx (b : base) : nat :=
  match b with
  | B_ALA => 0 | B_ARG => 1 | B_ASN => 2 | B_ASP => 3 | B_CYS => 4 | B_GLN => 5 | B_GLU => 6
  | B_GLY => 7 | B_HIS => 8 | B_ILE => 9 | B_LEU => 10 | B_LYS => 11 | B_MET => 12 | B_PHE => 13
  | B_PRO => 14 | B_SER => 15 | B_THR => 16 | B_TRP => 17 | B_TYR => 18 | B_VAL => 19
  | B_AR0 => 20 | B_ASH => 21 | B_CYX => 22 | B_CYM => 23 | B_GLH => 24 | B_HID => 25
  | B_HIE => 26 | B_HIP => 27 | B_HSD => 28 | B_HSE => 29 | B_HSP => 30 | B_LYN => 31 | B_TYM => 32
  end.
Definition base_eqb (a b : base) : bool := Nat.eqb (base_idx a) (base_idx b).

Definition patch_idx (p : patch) : nat :=
  match p with
  | P_AR0 => 0 | P_ASH => 1 | P_CYX => 2 | P_CYM => 3 | P_GLH => 4 | P_HIP => 5 | P_LYN => 6
  | P_TYM => 7 | P_NEUTRAL_NTERM => 8 | P_NEUTRAL_CTERM => 9 | P_NTERM => 10 | P_CTERM => 11
  | P_PEPTIDE => 12 | P_5TERM => 13 | P_3TERM => 14
  end.
Definition patch_eqb (a b : patch) : bool := Nat.eqb (patch_idx a) (patch_idx b).

Definition prefix_idx (p : prefix) : nat :=
  match p with PNone => 0 | PN => 1 | PC => 2 | PNN => 3 | PNC => 4 end.
Definition prefix_eqb (a b : prefix) : bool := Nat.eqb (prefix_idx a) (prefix_idx b).

Definition sname_eqb (a b : sname) : bool :=
  prefix_eqb (fst a) (fst b) && base_eqb (snd a) (snd b).

(* the base name a class starts from (residue.name of an unmodified residue) *)
Definition base_of_class (c : aclass) : base :=
  match c with
  | C_ALA => B_ALA | C_ARG => B_ARG | C_ASN => B_ASN | C_ASP => B_ASP | C_CYS => B_CYS
  | C_GLN => B_GLN | C_GLU => B_GLU | C_GLY => B_GLY | C_HIS => B_HIS | C_ILE => B_ILE
  | C_LEU => B_LEU | C_LYS => B_LYS | C_MET => B_MET | C_PHE => B_PHE | C_PRO => B_PRO
  | C_SER => B_SER | C_THR => B_THR | C_TRP => B_TRP | C_TYR => B_TYR | C_VAL => B_VAL
  end.

(* ---------------------------------------------------------------------- *)
(* aa.py set_state                                                         *)

(* what set_state reads of a residue *)
Record adesc := mkad {
  ad_cls : aclass;         (* python class *)
  ad_name : base;          (* residue.name; Amino.__init__ sets ffname = name *)
  ad_nterm : bool;         (* truthiness of is_n_term *)
  ad_cterm : bool;         (* truthiness of is_c_term *)
  ad_patches : list patch; (* residue.patches *)
  ad_ss : bool;            (* CYS.ss_bonded *)
  ad_hg : bool;            (* has_atom("HG") *)
  ad_hd1 : bool;           (* has_atom("HD1") *)
  ad_he2 : bool;           (* has_atom("HE2") *)
  ad_nd1_don : bool;       (* get_atom("ND1").hdonor *)
  ad_nd1_acc : bool;       (* get_atom("ND1").hacceptor *)
  ad_ne2_don : bool;
  ad_ne2_acc : bool
}.

Definition has_patch (p : patch) (d : adesc) : bool := existsb (patch_eqb p) (ad_patches d).
Definition name_is (b : base) (d : adesc) : bool := base_eqb (ad_name d) b.

(* Amino.set_state applied to the current ffname f:
   if is_n_term ... elif is_c_term ... *)
Definition amino_term (d : adesc) (f : base) : sname :=
  if ad_nterm d then
    (if has_patch P_NEUTRAL_NTERM d then (PNN, f) else (PN, f))
  else if ad_cterm d then
    (if has_patch P_NEUTRAL_CTERM d then (PNC, f) else (PC, f))
  else (PNone, f).

(* PRO.set_state: no NEUTRAL-NTERM test *)
Definition pro_term (d : adesc) (f : base) : sname :=
  if ad_nterm d then (PN, f)
  else if ad_cterm d then
    (if has_patch P_NEUTRAL_CTERM d then (PNC, f) else (PC, f))
  else (PNone, f).

(* HIS.set_state, first half: which of HD1/HE2 are left *)
Definition his_atoms (d : adesc) : bool * bool :=
  if negb (has_patch P_HIP d) && negb (name_is B_HIP d || name_is B_HSP d) then
    if ad_nd1_don d && negb (ad_nd1_acc d) then (ad_hd1 d, false)
    else if (ad_ne2_don d && negb (ad_ne2_acc d)) || (ad_nd1_acc d && negb (ad_nd1_don d))
         then (false, ad_he2 d)
    else (ad_hd1 d, false)
  else (ad_hd1 d, ad_he2 d).

(* result of set_state: the new ffname (None = TypeError raised) and the
   HD1/HE2 presence afterwards *)
Record sresult := mksr { sr_name : option sname; sr_hd1 : bool; sr_he2 : bool }.

Definition plain (d : adesc) (n : sname) : sresult := mksr (Some n) (ad_hd1 d) (ad_he2 d).

Definition set_state (d : adesc) : sresult :=
  let f0 := ad_name d in
  match ad_cls d with
  | C_ARG => plain d (amino_term d (if has_patch P_AR0 d || name_is B_AR0 d then B_AR0 else f0))
  | C_ASP => plain d (amino_term d (if has_patch P_ASH d || name_is B_ASH d then B_ASH else f0))
  | C_CYS =>
      plain d (amino_term d
        (if has_patch P_CYX d || name_is B_CYX d || ad_ss d then B_CYX
         else if has_patch P_CYM d || name_is B_CYM d then B_CYM
         else if negb (ad_hg d) then B_CYX
         else f0))
  | C_GLU => plain d (amino_term d (if has_patch P_GLH d || name_is B_GLH d then B_GLH else f0))
  | C_LYS => plain d (amino_term d (if has_patch P_LYN d || name_is B_LYN d then B_LYN else f0))
  | C_TYR => plain d (amino_term d (if has_patch P_TYM d || name_is B_TYM d then B_TYM else f0))
  | C_HIS =>
      let '(h1, h2) := his_atoms d in
      if h1 && h2 then mksr (Some (amino_term d B_HIP)) h1 h2
      else if h1 then mksr (Some (amino_term d B_HID)) h1 h2
      else if h2 then mksr (Some (amino_term d B_HIE)) h1 h2
      else mksr None h1 h2
  | C_PRO => plain d (pro_term d f0)
  | _ => plain d (amino_term d f0)
  end.

Definition ffname_of (d : adesc) : option sname := sr_name (set_state d).

(* ---------------------------------------------------------------------- *)
(* na.py set_state                                                         *)

Inductive nclass := K_ADE | K_CYT | K_GUA | K_THY | K_URA.
Inductive nbase := N_DA | N_DC | N_DG | N_DT | N_RA | N_RC | N_RG | N_RU.
Definition nname := (nbase * bool * bool)%type.   (* base, "5" appended, "3" appended *)

Record ndesc := mknd { nd_cls : nclass; nd_o2 : bool (* has_atom("O2'") *); nd_five : bool; nd_three : bool }.

Definition nuc_state (d : ndesc) : nname :=
  (match nd_cls d with
   | K_ADE => if nd_o2 d then N_RA else N_DA
   | K_CYT => if nd_o2 d then N_RC else N_DC
   | K_GUA => if nd_o2 d then N_RG else N_DG
   | K_THY => N_DT
   | K_URA => N_RU
   end, nd_five d, nd_three d).

Definition nbase_idx (b : nbase) : nat :=
  match b with N_DA => 0 | N_DC => 1 | N_DG => 2 | N_DT => 3 | N_RA => 4 | N_RC => 5 | N_RG => 6 | N_RU => 7 end.
Definition nname_eqb (a b : nname) : bool :=
  let '(x, f, t) := a in let '(y, g, u) := b in
  Nat.eqb (nbase_idx x) (nbase_idx y) && Bool.eqb f g && Bool.eqb t u.

(* class and O2' flag of a residue read under the template name b *)
Definition nclass_of (b : nbase) : nclass :=
  match b with N_DA | N_RA => K_ADE | N_DC | N_RC => K_CYT | N_DG | N_RG => K_GUA | N_DT => K_THY | N_RU => K_URA end.
Definition is_ribo (b : nbase) : bool :=
  match b with N_RA | N_RC | N_RG | N_RU => true | _ => false end.

(* ---------------------------------------------------------------------- *)
(* rendering (python strings)                                              *)

Local Open Scope string_scope.

Definition show_base (b : base) : string :=
  match b with
  | B_ALA => "ALA" | B_ARG => "ARG" | B_ASN => "ASN" | B_ASP => "ASP" | B_CYS => "CYS" | B_GLN => "GLN"
  | B_GLU => "GLU" | B_GLY => "GLY" | B_HIS => "HIS" | B_ILE => "ILE" | B_LEU => "LEU" | B_LYS => "LYS"
  | B_MET => "MET" | B_PHE => "PHE" | B_PRO => "PRO" | B_SER => "SER" | B_THR => "THR" | B_TRP => "TRP"
  | B_TYR => "TYR" | B_VAL => "VAL" | B_AR0 => "AR0" | B_ASH => "ASH" | B_CYX => "CYX" | B_CYM => "CYM"
  | B_GLH => "GLH" | B_HID => "HID" | B_HIE => "HIE" | B_HIP => "HIP" | B_HSD => "HSD" | B_HSE => "HSE"
  | B_HSP => "HSP" | B_LYN => "LYN" | B_TYM => "TYM"
  end.

Definition show_prefix (p : prefix) : string :=
  match p with PNone => "" | PN => "N" | PC => "C" | PNN => "NEUTRAL-N" | PNC => "NEUTRAL-C" end.

Definition show_sname (n : sname) : string := show_prefix (fst n) ++ show_base (snd n).

Definition show_class (c : aclass) : string := show_base (base_of_class c).

Definition show_patch (p : patch) : string :=
  match p with
  | P_AR0 => "AR0" | P_ASH => "ASH" | P_CYX => "CYX" | P_CYM => "CYM" | P_GLH => "GLH" | P_HIP => "HIP"
  | P_LYN => "LYN" | P_TYM => "TYM" | P_NEUTRAL_NTERM => "NEUTRAL-NTERM" | P_NEUTRAL_CTERM => "NEUTRAL-CTERM"
  | P_NTERM => "NTERM" | P_CTERM => "CTERM" | P_PEPTIDE => "PEPTIDE" | P_5TERM => "5TERM" | P_3TERM => "3TERM"
  end.

Definition show_nbase (b : nbase) : string :=
  match b with N_DA => "DA" | N_DC => "DC" | N_DG => "DG" | N_DT => "DT"
             | N_RA => "RA" | N_RC => "RC" | N_RG => "RG" | N_RU => "RU" end.

Definition show_nname (n : nname) : string :=
  let '(b, f, t) := n in show_nbase b ++ (if f then "5" else "") ++ (if t then "3" else "").

Definition show_nclass (c : nclass) : string :=
  match c with K_ADE => "ADE" | K_CYT => "CYT" | K_GUA => "GUA" | K_THY => "THY" | K_URA => "URA" end.

Definition sb (b : bool) : string := if b then "1" else "0".

Fixpoint concat_str (l : list string) : string :=
  match l with [] => "" | s :: r => s ++ concat_str r end.

Fixpoint join_str (sep : string) (l : list string) : string :=
  match l with [] => "" | [s] => s | s :: r => s ++ sep ++ join_str sep r end.

Definition show_nat (n : nat) : string := Z_to_string (Z.of_nat n).

(* "CLS/NAME/nc/p1+p2/ss hg/hd1 he2/flags" *)
Definition show_adesc (d : adesc) : string :=
  concat_str [show_class (ad_cls d); "/"; show_base (ad_name d); "/"; sb (ad_nterm d); sb (ad_cterm d); "/";
              join_str "+" (map show_patch (ad_patches d)); "/"; sb (ad_ss d); sb (ad_hg d); "/";
              sb (ad_hd1 d); sb (ad_he2 d); "/";
              sb (ad_nd1_don d); sb (ad_nd1_acc d); sb (ad_ne2_don d); sb (ad_ne2_acc d)].

Definition show_sresult (r : sresult) : string :=
  match sr_name r with
  | None => "TypeError"
  | Some n => show_sname n
  end ++ ":" ++ sb (sr_hd1 r) ++ sb (sr_he2 r).

(* ---------------------------------------------------------------------- *)
(* enumeration of the descriptor space (for the exhaustive correspondence) *)

Definition bools : list bool := [false; true].

Fixpoint subsets {A} (l : list A) : list (list A) :=
  match l with
  | [] => [[]]
  | x :: r => let s := subsets r in (s ++ map (cons x) s)%list
  end.

(* every descriptor of class c named nm whose patch list is a subset of ps;
   the CYS / HIS specific fields vary only for those classes *)
Definition enum_adesc (c : aclass) (nm : base) (ps : list patch) : list adesc :=
  let cys := match c with C_CYS => bools | _ => [false] end in
  let his := match c with C_HIS => bools | _ => [false] end in
  flat_map (fun nt => flat_map (fun ct => flat_map (fun pl =>
  flat_map (fun ss => flat_map (fun hg =>
  flat_map (fun hd1 => flat_map (fun he2 =>
  flat_map (fun a => flat_map (fun b => flat_map (fun c' => flat_map (fun e =>
    [mkad c nm nt ct pl ss hg hd1 he2 a b c' e]) his) his) his) his) his) his) cys) cys)
  (subsets ps)) bools) bools.

Definition show_enum (c : aclass) (nm : base) (ps : list patch) : string :=
  join_str ";" (map (fun d => show_adesc d ++ "=" ++ show_sresult (set_state d)) (enum_adesc c nm ps)).

Definition enum_ndesc : list ndesc :=
  flat_map (fun k => flat_map (fun o => flat_map (fun f => flat_map (fun t => [mknd k o f t]) bools) bools) bools)
           [K_ADE; K_CYT; K_GUA; K_THY; K_URA].

Definition show_enum_n : string :=
  join_str ";" (map (fun d => concat_str [show_nclass (nd_cls d); "/"; sb (nd_o2 d); sb (nd_five d); sb (nd_three d);
                                           "="; show_nname (nuc_state d)]) enum_ndesc).

Local Close Scope string_scope.

(* ---------------------------------------------------------------------- *)
(* generated state tables and the charge checks                            *)

Inductive tkind := T_I | T_N | T_C | T_NN | T_NC | T_N_C | T_N_NC | T_NN_C | T_NN_NC.

Record arow := mkarow {
  ar_key : nat;
  ar_cls : aclass;
  ar_state : base;             (* side-chain state *)
  ar_term : tkind;
  ar_name : sname;             (* what the real set_state produced, structurally *)
  ar_ff : id;                  (* the same name, interned *)
  ar_formal : Z;               (* formal charge of the state *)
  ar_descs : list adesc;       (* descriptors (routes) that reach the state *)
  ar_alts : list (list id)     (* alternatives of the final atom-name set *)
}.

Record nrow := mknrow {
  nr_base : nbase; nr_five : bool; nr_three : bool;
  nr_ff : id; nr_phos : bool; nr_alts : list (list id)
}.

Fixpoint assoc {A B} (eqb : A -> A -> bool) (k : A) (l : list (A * B)) : option B :=
  match l with [] => None | (k', v) :: r => if eqb k k' then Some v else assoc eqb k r end.

Definition opt_sname_eqb (a : option sname) (b : sname) : bool :=
  match a with Some x => sname_eqb x b | None => false end.

Definition opt_id_eqb (a : option id) (b : id) : bool :=
  match a with Some x => Pos.eqb x b | None => false end.

(* the model reproduces the name on every route, and the structural name is
   the interned string *)
Definition arow_name_ok (ids : list (sname * id)) (r : arow) : bool :=
  forallb (fun d => opt_sname_eqb (ffname_of d) (ar_name r)) (ar_descs r)
  && negb (Nat.eqb (List.length (ar_descs r)) 0)
  && opt_id_eqb (assoc sname_eqb (ar_name r) ids) (ar_ff r).

Definition nrow_name_ok (ids : list (nname * id)) (r : nrow) : bool :=
  let n := nuc_state (mknd (nclass_of (nr_base r)) (is_ribo (nr_base r)) (nr_five r) (nr_three r)) in
  nname_eqb n (nr_base r, nr_five r, nr_three r)
  && opt_id_eqb (assoc nname_eqb n ids) (nr_ff r)
  && Bool.eqb (nr_phos r) (negb (nr_five r)).

Local Open Scope Z_scope.

Definition SCALE : Z := 100000000.   (* charges are value * 10^8 *)
Definition TOL : Z := 100000.        (* 1e-3 e *)

(* sum of the charges of the atoms under residue name [res]; None when some
   atom has no parameters (the residue is not fully parameterised) *)
Fixpoint resolve (m : ffmap) (res : id) (atoms : list id) : option Z :=
  match atoms with
  | [] => Some 0
  | a :: r =>
      match lookup m res a, resolve m res r with
      | Some e, Some q => Some (e_q e + q)
      | _, _ => None
      end
  end.

Definition within (q target tol : Z) : bool := Z.abs (q - target) <=? tol.

(* tol = TOL is the code's own tolerance (config.CHARGE_ERROR); tol = 0 demands the exact sum *)
Definition alt_ok (tol : Z) (m : ffmap) (ff : id) (formal : Z) (alt : list id) : bool :=
  match resolve m ff alt with
  | None => true
  | Some q => within q (formal * SCALE) tol
  end.

Definition mem_nat (k : nat) (l : list nat) : bool := existsb (Nat.eqb k) l.

Definition arow_ok (tol : Z) (m : ffmap) (exc : list nat) (r : arow) : bool :=
  mem_nat (ar_key r) exc || forallb (alt_ok tol m (ar_ff r) (ar_formal r)) (ar_alts r).

Definition keys_distinct (rows : list arow) : bool :=
  (fix go (l : list nat) := match l with [] => true | k :: r => negb (mem_nat k r) && go r end) (map ar_key rows).

(* every excluded row really fails (the exception list hides nothing else) *)
Definition exc_tight (tol : Z) (m : ffmap) (exc : list nat) (rows : list arow) : bool :=
  forallb (fun k => existsb (fun r => Nat.eqb (ar_key r) k && negb (arow_ok tol m [] r)) rows) exc.

Definition check_arows (tol : Z) (m : ffmap) (exc : list nat) (rows : list arow) : bool :=
  forallb (arow_ok tol m exc) rows && keys_distinct rows && exc_tight tol m exc rows.

(* a row is excluded only if its (real) name is one of [names], and every listed name is used *)
Definition check_exception_names (exc : list nat) (names : list sname) (rows : list arow) : bool :=
  forallb (fun r => negb (mem_nat (ar_key r) exc) || existsb (sname_eqb (ar_name r)) names) rows
  && forallb (fun n => existsb (fun r => mem_nat (ar_key r) exc && sname_eqb (ar_name r) n) rows) names.

Definition is_some {A} (o : option A) : bool := match o with Some _ => true | None => false end.

Definition row_resolves (m : ffmap) (r : arow) : bool :=
  existsb (fun alt => is_some (resolve m (ar_ff r) alt)) (ar_alts r).

Definition skipped_rows (m : ffmap) (rows : list arow) : list nat :=
  map ar_key (filter (fun r => negb (row_resolves m r)) rows).
Definition covered_rows (m : ffmap) (rows : list arow) : list nat :=
  map ar_key (filter (row_resolves m) rows).

(* charges of the resolvable alternatives of a nucleotide row *)
Definition nrow_charges (m : ffmap) (r : nrow) : list Z :=
  flat_map (fun alt => match resolve m (nr_ff r) alt with Some q => [q] | None => [] end) (nr_alts r).

Definition covered_nrows (m : ffmap) (rows : list nrow) : list (nbase * bool * bool) :=
  map (fun r => (nr_base r, nr_five r, nr_three r)) (filter (fun r => negb (Nat.eqb (List.length (nrow_charges m r)) 0)) rows).

Definition is_internal (r : nrow) : bool := negb (nr_five r) && negb (nr_three r).
Definition is_five (r : nrow) : bool := nr_five r && negb (nr_three r).
Definition is_three (r : nrow) : bool := nr_three r && negb (nr_five r).

(* per force field table facts behind the strand theorem: an internal
   nucleotide carries -1, and ANY 5' end plus ANY 3' end carry -1 together *)
(* mixed = false: only 5'/3' pairs of the same sugar type (both DNA or both RNA) are paired *)
Definition pairable (mixed : bool) (r5 r3 : nrow) : bool :=
  mixed || Bool.eqb (is_ribo (nr_base r5)) (is_ribo (nr_base r3)).

Definition check_strand (tol : Z) (mixed : bool) (m : ffmap) (rows : list nrow) : bool :=
  forallb (fun r => if is_internal r then forallb (fun q => within q (- SCALE) tol) (nrow_charges m r) else true) rows
  && forallb (fun r5 => if is_five r5 then
        forallb (fun r3 => if is_three r3 && pairable mixed r5 r3 then
           forallb (fun q5 => forallb (fun q3 => within (q5 + q3) (- SCALE) tol) (nrow_charges m r3)) (nrow_charges m r5)
         else true) rows
      else true) rows
  && forallb (fun r => Bool.eqb (nr_phos r) (negb (nr_five r))) rows.

Definition check_water (tol : Z) (m : ffmap) (wat : id) (atoms : list id) : bool :=
  match resolve m wat atoms with Some q => within q 0 tol | None => false end.

(* ---------------------------------------------------------------------- *)
(* totals and the integrality guard (main.py:706-717, utilities.noninteger_charge) *)

Definition zsum (l : list Z) : Z := fold_right Z.add 0 l.

(* a structure = list of residues = list of atom-charge lists *)
Definition res_charge (r : list Z) : Z := zsum r.
Definition total_charge (rs : list (list Z)) : Z := zsum (map res_charge rs).

(* distance of T (scaled by SCALE) to the nearest integer: abs(charge - round(charge)) *)
Definition int_dist (t : Z) : Z := let d := t mod SCALE in Z.min d (SCALE - d).

(* noninteger_charge(total) == "" *)
Definition guard_ok (t : Z) : bool := int_dist t <=? TOL.

(* Residue.charge returns float(f"{charge:.4f}"): in exact decimals, the nearest multiple of
   1e-4 (half up; ties cannot occur for the table states, whose sums are multiples of 1e-4) *)
Definition round4 (q : Z) : Z := ((q + 5000) / 10000) * 10000.

(* main.non_trivial: total_charge = sum of residue.charge over all residues, then
   noninteger_charge(total_charge) must be "" or ValueError is raised *)
Definition guard_total (qs : list Z) : Z := zsum (map round4 qs).
Definition guard_raises (qs : list Z) : bool := negb (guard_ok (guard_total qs)).

(* every resolvable nucleotide charge is a multiple of 1e-4 *)
Definition check_round4 (m : ffmap) (rows : list nrow) : bool :=
  forallb (fun r => forallb (fun q => q mod 10000 =? 0) (nrow_charges m r)) rows.

(* charges of the resolvable alternatives of an amino state row *)
Definition row_charges (m : ffmap) (r : arow) : list Z :=
  flat_map (fun alt => match resolve m (ar_ff r) alt with Some q => [q] | None => [] end) (ar_alts r).

Definition shift_of (t1 t2 : tkind) : option Z :=
  match t1, t2 with T_N, T_NN => Some (-1) | T_C, T_NC => Some 1 | _, _ => None end.

Definition same_residue (r1 r2 : arow) : bool :=
  base_eqb (base_of_class (ar_cls r1)) (base_of_class (ar_cls r2)) && base_eqb (ar_state r1) (ar_state r2).

(* --neutraln / --neutralc: the neutral terminus state of a residue carries exactly one unit
   less / more than the charged one, wherever both are fully parameterised *)
Definition check_neutral_shift (m : ffmap) (exc : list nat) (rows : list arow) : bool :=
  forallb (fun r1 => forallb (fun r2 =>
    if same_residue r1 r2 && negb (mem_nat (ar_key r2) exc) then
      match shift_of (ar_term r1) (ar_term r2) with
      | Some s => forallb (fun q1 => forallb (fun q2 => q2 =? q1 + s * SCALE) (row_charges m r2)) (row_charges m r1)
      | None => true
      end
    else true) rows) rows.

Definition is_neutral_name (n : sname) : bool := match fst n with PNN | PNC => true | _ => false end.

(* the force field knows no atom of any NEUTRAL-N* / NEUTRAL-C* state *)
Definition check_neutral_absent (m : ffmap) (rows : list arow) : bool :=
  forallb (fun r => if is_neutral_name (ar_name r)
                    then forallb (forallb (fun a => negb (is_some (lookup m (ar_ff r) a)))) (ar_alts r)
                    else true) rows.

Local Close Scope Z_scope.

(* ---------------------------------------------------------------------- *)
(* assign_termini / set_termini                                            *)

Inductive rkind := KAmino | KNucleic | KWater | KOther.

(* what the termini logic reads of a residue; static during set_termini *)
Record rdesc := mkrd {
  rd_id : nat;          (* identity (position in the input), used by the cyclic predicate *)
  rd_kind : rkind;      (* isinstance Amino / Nucleic / WAT / anything else *)
  rd_cap : bool;        (* name in ["NH2", "NME"] *)
  rd_oxt : bool;        (* has_atom("OXT") *)
  rd_h3t : bool;        (* has_atom("H3T") or name.endswith("3") *)
  rd_hasN : bool;       (* "N" in map *)
  rd_hasC : bool;       (* "C" in map *)
  rd_nheavy2 : bool     (* N bonded to more than one heavy atom *)
}.

Record rstate := mkrs {
  rs_d : rdesc;
  rs_n : bool; rs_c : bool; rs_5 : bool; rs_3 : bool;   (* is_n_term is_c_term is5term is3term *)
  rs_patches : list patch;
  rs_chain : string                                      (* residue.chain_id *)
}.

Definition fresh_res (cid : string) (d : rdesc) : rstate := mkrs d false false false false [] cid.

Record opts := mkopts { o_neutraln : bool; o_neutralc : bool }.

(* N-terminus / 5' end of res0 *)
Definition setN (o : opts) (r : rstate) : rstate :=
  match rd_kind (rs_d r) with
  | KAmino =>
      mkrs (rs_d r) true (rs_c r) (rs_5 r) (rs_3 r)
           (rs_patches r ++ [if o_neutraln o || rd_nheavy2 (rs_d r) then P_NEUTRAL_NTERM else P_NTERM])
           (rs_chain r)
  | KNucleic => mkrs (rs_d r) (rs_n r) (rs_c r) true (rs_3 r) (rs_patches r ++ [P_5TERM]) (rs_chain r)
  | _ => r
  end.

Inductive cact := CSet (r : rstate) | CStop | CNext.

(* one step of the C-terminus search (reslast itself, then the fallback loop
   from the chain end): Amino -> flag; NH2/NME -> stop; Nucleic -> flag 3' *)
Definition c_action (o : opts) (r : rstate) : cact :=
  match rd_kind (rs_d r) with
  | KAmino =>
      CSet (mkrs (rs_d r) (rs_n r) true (rs_5 r) (rs_3 r)
                 (rs_patches r ++ [if o_neutralc o then P_NEUTRAL_CTERM else P_CTERM]) (rs_chain r))
  | KNucleic => CSet (mkrs (rs_d r) (rs_n r) (rs_c r) (rs_5 r) true (rs_patches r ++ [P_3TERM]) (rs_chain r))
  | _ => if rd_cap (rs_d r) then CStop else CNext
  end.

(* over the reversed chain *)
Fixpoint c_scan (o : opts) (l : list rstate) : list rstate :=
  match l with
  | [] => []
  | r :: t => match c_action o r with
              | CSet r' => r' :: t
              | CStop => r :: t
              | CNext => r :: c_scan o t
              end
  end.

Definition setC (o : opts) (l : list rstate) : list rstate := rev (c_scan o (rev l)).

Definition upd_head {A} (f : A -> A) (l : list A) : list A :=
  match l with [] => [] | x :: r => f x :: r end.

(* the ring-closure test of assign_termini (after fix C02-F3): waters and other groups
   without a backbone N (C) listed under the chain's id before (after) the peptide are not
   part of the ring:
     ring0    = first residue of the chain with "N" in map
     ringlast = last residue of the chain with "C" in map
     cyclic  <->  both exist and dist(ring0.N, ringlast.C) < 1.35 *)
Definition first_N (l : list rstate) : option rstate := find (fun r => rd_hasN (rs_d r)) l.
Definition last_C (l : list rstate) : option rstate := find (fun r => rd_hasC (rs_d r)) (rev l).

Definition cyclic (close : nat -> nat -> bool) (l : list rstate) : bool :=
  match first_N l, last_C l with
  | Some r0, Some rl => close (rd_id (rs_d r0)) (rd_id (rs_d rl))
  | _, _ => false
  end.

(* assign_termini(chain); None = IndexError (chain has 0 residues) *)
Definition assign (o : opts) (close : nat -> nat -> bool) (l : list rstate) : option (list rstate) :=
  match l with
  | [] => None
  | _ => if cyclic close l then Some l else Some (setC o (upd_head (setN o) l))
  end.

(* "Look for ending termini" *)
Definition fixflag (r : rstate) : bool :=
  match rd_kind (rs_d r) with
  | KAmino => rd_oxt (rs_d r) && negb (rs_c r)
  | KNucleic => rd_h3t (rs_d r) && negb (rs_3 r)
  | _ => false
  end.

(* chain id search: A, B, ..., z, AA, BB, ..., zz, AAA, ... first one not a key of chainmap *)
Local Open Scope string_scope.
Definition letters : string := "ABCDEFGHIJKLMNOPQRSTUVWXYZabcdefghijklmnopqrstuvwxyz".
Local Close Scope string_scope.

Fixpoint rep_char (c : ascii) (n : nat) : string :=
  match n with 0 => EmptyString | S k => String c (rep_char c k) end.

Definition letter (i : nat) : ascii :=
  match String.get i letters with Some c => c | None => "A"%char end.

Definition mem_string (s : string) (l : list string) : bool := existsb (String.eqb s) l.

(* candidate number k (0-based): letters[k mod 52] * (1 + k / 52) *)
Definition candidate (k : nat) : string := rep_char (letter (k mod 52)) (1 + k / 52).

Fixpoint fresh_from (fuel k : nat) (keys : list string) : option string :=
  match fuel with
  | 0 => None
  | S f => if mem_string (candidate k) keys then fresh_from f (S k) keys else Some (candidate k)
  end.

Definition fresh (keys : list string) : option string := fresh_from (S (List.length keys)) 0 keys.

Definition first_char (s : string) : string :=
  match s with EmptyString => EmptyString | String c _ => String c EmptyString end.

Definition set_chain (c : string) (r : rstate) : rstate :=
  mkrs (rs_d r) (rs_n r) (rs_c r) (rs_5 r) (rs_3 r) (rs_patches r) c.

Inductive outcome (A : Type) := Done (a : A) | IndexError | OutOfFuel.
Arguments Done {A} a.
Arguments IndexError {A}.
Arguments OutOfFuel {A}.

(* the hidden-chain loop over one chain: acc = reslist, rest = residues of
   origlist not yet visited (= chain.residues after the last split, with
   their current flags).  Returns the new chainmap keys, the split-off chains
   in order and what is left of the chain. *)
Fixpoint scan (fuel : nat) (o : opts) (close : nat -> nat -> bool) (keys : list string)
         (acc rest : list rstate) : outcome (list string * list (list rstate) * list rstate) :=
  match fuel with
  | 0 => OutOfFuel
  | S f =>
      match rest with
      | [] => Done (keys, [], acc)
      | r :: rest' =>
          let acc' := (acc ++ [r])%list in
          if fixflag r then
            match fresh keys with
            | None => OutOfFuel
            | Some cid =>
                let newc := map (set_chain (first_char cid)) acc' in
                match assign o close rest', assign o close newc with
                | Some rest'', Some newc' =>
                    match scan f o close (cid :: keys) [] rest'' with
                    | Done (k, segs, fin) => Done (k, newc' :: segs, fin)
                    | IndexError => IndexError
                    | OutOfFuel => OutOfFuel
                    end
                | _, _ => IndexError
                end
            end
          else scan f o close keys acc' rest'
      end
  end.

(* first loop of set_termini *)
Fixpoint assign_all (o : opts) (close : nat -> nat -> bool) (cs : list (list rstate)) : option (list (list rstate)) :=
  match cs with
  | [] => Some []
  | c :: r => match assign o close c, assign_all o close r with
              | Some c', Some r' => Some (c' :: r')
              | _, _ => None
              end
  end.

(* second loop: all chains in order, chainmap keys threaded *)
Fixpoint scan_all (o : opts) (close : nat -> nat -> bool) (keys : list string) (cs : list (list rstate))
  : outcome (list string * list (list rstate)) :=
  match cs with
  | [] => Done (keys, [])
  | c :: r =>
      match scan (S (List.length c)) o close keys [] c with
      | Done (k, segs, fin) =>
          match scan_all o close k r with
          | Done (k', out) => Done (k', (segs ++ [fin] ++ out)%list)
          | IndexError => IndexError
          | OutOfFuel => OutOfFuel
          end
      | IndexError => IndexError
      | OutOfFuel => OutOfFuel
      end
  end.

Definition is_water (r : rstate) : bool := match rd_kind (rs_d r) with KWater => true | _ => false end.

(* tail of set_termini: residues still carrying the blank chain id are
   relabelled unless the LAST chain consists of waters only *)
Definition rename_blank (keys : list string) (cs : list (list rstate)) : outcome (list (list rstate)) :=
  if mem_string EmptyString keys then
    if forallb is_water (last cs []) then Done cs
    else match fresh keys with
         | None => OutOfFuel
         | Some cid =>
             Done (map (fun c => map (fun r => if String.eqb (rs_chain r) EmptyString
                                                then set_chain (first_char cid) r else r) c) cs)
         end
  else Done cs.

(* set_termini on chains given as (chain id, residue descriptors), in the
   order of Biomolecule.chains; chainmap keys = the chain ids *)
Definition termini (o : opts) (close : nat -> nat -> bool) (chains : list (string * list rdesc))
  : outcome (list (list rstate)) :=
  let cs := map (fun c => map (fresh_res (fst c)) (snd c)) chains in
  match assign_all o close cs with
  | None => IndexError
  | Some cs1 =>
      match scan_all o close (map fst chains) cs1 with
      | Done (keys, out) => rename_blank keys out
      | IndexError => IndexError
      | OutOfFuel => OutOfFuel
      end
  end.

(* rendering for the correspondence check *)
Local Open Scope string_scope.
Definition show_rstate (r : rstate) : string :=
  concat_str [show_nat (rd_id (rs_d r)); ":"; sb (rs_n r); sb (rs_c r); sb (rs_5 r); sb (rs_3 r); ":";
              join_str "+" (map show_patch (rs_patches r)); ":"; rs_chain r].

Definition show_termini (x : outcome (list (list rstate))) : string :=
  match x with
  | Done cs => join_str "|" (map (fun c => join_str "," (map show_rstate c)) cs)
  | IndexError => "IndexError"
  | OutOfFuel => "OutOfFuel"
  end.

Definition close_of (pairs : list (nat * nat)) (a b : nat) : bool :=
  existsb (fun p => Nat.eqb (fst p) a && Nat.eqb (snd p) b) pairs.
Local Close Scope string_scope.
