(* Model of pdb2pqr.psize.Psize (parse_lines, set_length ... set_focus,
   set_all, the memory report of __str__), of the `mol pqr` / ELEC rendering of
   pdb2pqr.inputgen.Input/Elec as used by pdb2pqr.io.dump_apbs (C17).

   The arithmetic is written once over a record of operations [Arith A]
   (python float operations); it is instantiated below with exact rationals
   [Q] (normalised with Qred) for proofs and for exact evaluation.  Grid counts
   are [Z].  Python exceptions are explicit ([res]).  The model follows the
   code as it is (after commit 54cff74 and the repairs of findings C17-F11 -
   fixed-column fallback in parse_lines -, C17-F13 - last five words of a
   whitespace-delimited record - and C17-F12 - integer nsmall and proc_grid):
   quirks are kept, see comments marked QUIRK.  No proofs in this
   file. *)
From Coq Require Import String Ascii List ZArith QArith Bool.
From PV Require Import Lib.Strings Lib.Decimal.
Import ListNotations.

(* ---- exceptions ------------------------------------------------------- *)

Inductive err :=
| ErrFloat       (* ValueError: could not convert string to float *)
| ErrNone        (* TypeError: None - None in set_length (no atom measured) *)
| ErrZeroDiv     (* ZeroDivisionError *)
| ErrCeiling     (* ValueError raised by set_smallest (ceiling too small) *)
| ErrLog         (* ValueError: math domain error *)
| ErrFuel        (* model only: loop fuel exhausted (proved unreachable for Q) *)
| ErrUnmodelled. (* model only: outside the modelled parameter domain *)

Inductive res (T : Type) := Ok (t : T) | Err (e : err).
Arguments Ok {T} t.
Arguments Err {T} e.

Definition bind {T U : Type} (r : res T) (f : T -> res U) : res U :=
  match r with Ok t => f t | Err e => Err e end.

(* ---- arithmetic record ------------------------------------------------- *)

Record Arith (A : Type) := mkArith {
  add : A -> A -> A;
  sub : A -> A -> A;
  mul : A -> A -> A;
  div : A -> A -> A;          (* divisor already known non-zero where python would raise *)
  ltb : A -> A -> bool;       (* python a < b *)
  ofZ : Z -> A;               (* float(int) / literals *)
  trunc : A -> Z;             (* int(a) : truncation toward zero *)
  round : A -> Z;             (* round(a) : nearest integer, ties to even *)
  ilog1 : A -> A -> res Z     (* int(log(x) / log(r) + 1.0) *)
}.

Definition vec3 (T : Type) : Type := (T * T * T)%type.
Definition map3 {T U : Type} (f : T -> U) (v : vec3 T) : vec3 U :=
  let '(a, b, c) := v in (f a, f b, f c).
Definition zip3 {T U V : Type} (f : T -> U -> V) (v : vec3 T) (w : vec3 U) : vec3 V :=
  let '(a, b, c) := v in let '(d, e, g) := w in (f a d, f b e, f c g).

Section Generic.
  Context {A : Type} (ops : Arith A).

  Definition gtb (a b : A) : bool := ltb A ops b a.
  Definition leb (a b : A) : bool := negb (ltb A ops b a).
  Definition eqbA (a b : A) : bool := negb (ltb A ops a b) && negb (ltb A ops b a).
  Definition pmax (a b : A) : A := if ltb A ops a b then b else a. (* max(a, b) *)
  Definition pmin (a b : A) : A := if ltb A ops b a then b else a. (* min(a, b) *)
  Definition zero : A := ofZ A ops 0.
  Definition one : A := ofZ A ops 1.
  Definition half : A := div A ops (ofZ A ops 1) (ofZ A ops 2).   (* 0.5 *)
  Definition tenth : A := div A ops (ofZ A ops 1) (ofZ A ops 10). (* 0.1 *)

  (* sizing parameters of Psize.__init__; gmemfac is stored by the code but
     never read by any method (QUIRK: the memory formulas use the literal 200) *)
  Record params := mkParams {
    p_cfac : A; p_fadd : A; p_space : A; p_gmemfac : A;
    p_gmemceil : A; p_ofrac : A; p_redfac : A
  }.

  (* ---- parse_lines ----------------------------------------------------- *)

  (* x y z charge radius *)
  Definition atom : Type := (A * A * A * A * A)%type.

  (* minlen/maxlen are lists of three None, all set by the first measured atom *)
  Record pstate := mkState {
    gotatom : Z; gothet : Z; charge : A;
    box : option (vec3 A * vec3 A)        (* (minlen, maxlen) *)
  }.

  Definition init_state : pstate := mkState 0 0 zero None.

  (* what one line contributes *)
  Inductive event :=
  | EvSkip                      (* neither ATOM nor HETATM: `continue` (54cff74) *)
  | EvCount (het : bool)        (* counted, fewer than 5 words after column 30 *)
  | EvAtom (het : bool) (a : atom)
  | EvBad (het : bool).         (* float() raised ValueError *)

  Definition acc_box (b : option (vec3 A * vec3 A)) (c : vec3 A) (rad : A) : vec3 A * vec3 A :=
    let lo := map3 (fun ci => sub A ops ci rad) c in
    let hi := map3 (fun ci => add A ops ci rad) c in
    match b with
    | None => (lo, hi)
    | Some (mn, mx) =>
        (zip3 (fun l m => if ltb A ops l m then l else m) lo mn,   (* center - rad < minlen *)
         zip3 (fun h m => if gtb h m then h else m) hi mx)         (* center + rad > maxlen *)
    end.

  Definition count (st : pstate) (het : bool) : pstate :=
    if het then mkState (gotatom st) (gothet st + 1) (charge st) (box st)
    else mkState (gotatom st + 1) (gothet st) (charge st) (box st).

  Definition step (st : pstate) (ev : event) : res pstate :=
    match ev with
    | EvSkip => Ok st
    | EvCount h => Ok (count st h)
    | EvBad _ => Err ErrFloat
    | EvAtom h (x, y, z, q, r) =>
        let st' := count st h in
        Ok (mkState (gotatom st') (gothet st') (add A ops (charge st') q)
                    (Some (acc_box (box st') (x, y, z) r)))
    end.

  Fixpoint run_events (st : pstate) (evs : list event) : res pstate :=
    match evs with
    | [] => Ok st
    | e :: r => bind (step st e) (fun st' => run_events st' r)
    end.

  (* ---- set_length ... set_center (one axis) ---------------------------- *)

  Definition mol_len1 (mx mn : A) : A := pmax (sub A ops mx mn) tenth.
  Definition coarse1 (cfac mol : A) : A := mul A ops cfac mol.
  Definition fine1 (fadd mol coarse : A) : A := pmin (add A ops mol fadd) coarse.
  Definition center1 (mx mn : A) : A := div A ops (add A ops mx mn) (ofZ A ops 2).

  (* ---- set_fine_grid_points -------------------------------------------- *)

  (* int(fine_length / space + 0.5) *)
  Definition temp_pre1 (space fine : A) : A := add A ops (div A ops fine space) half.
  Definition temp_num1 (space fine : A) : Z := trunc A ops (temp_pre1 space fine).
  (* max(32 * int((t - 1) / 32.0 + 0.5) + 1, 33) *)
  Definition ngrid_of_temp (t : Z) : Z :=
    Z.max (32 * trunc A ops (add A ops (div A ops (ofZ A ops (t - 1)) (ofZ A ops 32)) half) + 1) 33.

  (* ---- set_smallest ---------------------------------------------------- *)

  (* nsmall is a list of python ints: a copy of ngrid, reduced with floor
     division (C17-F12 repaired: it used to be true division, i.e. floats) *)

  (* 200.0 * n0 * n1 * n2 / 1024 / 1024 ; QUIRK: literal 200, not gmemfac *)
  Definition mem_mb (n : vec3 Z) : A :=
    let '(a, b, c) := n in
    div A ops (div A ops (mul A ops (mul A ops (mul A ops (ofZ A ops 200) (ofZ A ops a)) (ofZ A ops b)) (ofZ A ops c))
                   (ofZ A ops 1024)) (ofZ A ops 1024).

  (* 32 * ((n - 1) // 32 - 1) + 1 on python ints (floor division) *)
  Definition reduce (n : Z) : Z := (32 * ((n - 1) / 32 - 1) + 1)%Z.

  (* one pass of the `while 1` loop body after the memory test:
     i = nsmall.index(max(nsmall)); reduce; `<= 0` raises *)
  Definition shrink (n : vec3 Z) : res (vec3 Z) :=
    let '(a, b, c) := n in
    let m := Z.max (Z.max a b) c in
    if (a =? m)%Z then
      let v := reduce a in if (v <=? 0)%Z then Err ErrCeiling else Ok (v, b, c)
    else if (b =? m)%Z then
      let v := reduce b in if (v <=? 0)%Z then Err ErrCeiling else Ok (a, v, c)
    else
      let v := reduce c in if (v <=? 0)%Z then Err ErrCeiling else Ok (a, b, v).

  Fixpoint smallest (fuel : nat) (ceil : A) (n : vec3 Z) : res (vec3 Z) :=
    match fuel with
    | O => Err ErrFuel
    | S f =>
        if ltb A ops (mem_mb n) ceil then Ok n
        else bind (shrink n) (smallest f ceil)
    end.

  (* enough fuel for a grid with entries 32k+1 (proved in Proofs/Psize.v) *)
  Definition smallest_fuel (ng : vec3 Z) : nat :=
    let '(a, b, c) := ng in
    S (S (Z.to_nat ((a - 1) / 32 + (b - 1) / 32 + (c - 1) / 32))).

  (* ---- set_proc_grid --------------------------------------------------- *)

  Definition zofac (ofrac : A) : A := add A ops one (mul A ops (ofZ A ops 2) ofrac).
  Definition nproc_pre1 (ofrac : A) (ng ns : Z) : A :=
    add A ops (div A ops (mul A ops (zofac ofrac) (ofZ A ops ng)) (ofZ A ops ns)) one.
  (* proc_grid[i] = 1; if ngrid[i] > nsmall[i]: int(zofac * ngrid / nsmall + 1.0)
     (C17-F12 repaired: the unreduced axes used to keep the float ratio 1.0) *)
  Definition nproc1 (ofrac : A) (ng ns : Z) : Z :=
    if (ns <? ng)%Z then trunc A ops (nproc_pre1 ofrac ng ns) else 1%Z.

  (* ---- set_focus ------------------------------------------------------- *)

  Definition focus_arg1 (fine : A) (np : Z) (coarse : A) : A :=
    div A ops (div A ops fine (ofZ A ops np)) coarse.
  Definition nfoc1 (redfac fine : A) (np : Z) (coarse : A) : res Z :=
    if (np =? 0)%Z then Err ErrZeroDiv
    else if eqbA coarse zero then Err ErrZeroDiv
    else ilog1 A ops (focus_arg1 fine np coarse) redfac.
  Definition nfocus_of (a b c : Z) : Z :=
    let m := Z.max c (Z.max b a) in if (0 <? m)%Z then (m + 1)%Z else m.

  (* ---- set_all --------------------------------------------------------- *)

  Record sizing := mkSizing {
    s_mol : vec3 A; s_coarse : vec3 A; s_fine : vec3 A; s_center : vec3 A;
    s_temp : vec3 Z; s_ngrid : vec3 Z;
    s_nsmall : vec3 Z; s_nproc : vec3 Z; s_nfocus : Z
  }.

  Definition mol_of (mn mx : vec3 A) : vec3 A := zip3 mol_len1 mx mn.
  Definition coarse_of (p : params) (mn mx : vec3 A) : vec3 A :=
    map3 (coarse1 (p_cfac p)) (mol_of mn mx).
  Definition fine_of (p : params) (mn mx : vec3 A) : vec3 A :=
    zip3 (fine1 (p_fadd p)) (mol_of mn mx) (coarse_of p mn mx).
  Definition center_of (mn mx : vec3 A) : vec3 A := zip3 center1 mx mn.
  Definition temp_of (p : params) (mn mx : vec3 A) : vec3 Z :=
    map3 (temp_num1 (p_space p)) (fine_of p mn mx).
  Definition ngrid_of (p : params) (mn mx : vec3 A) : vec3 Z :=
    map3 ngrid_of_temp (temp_of p mn mx).

  Definition set_all (p : params) (st : pstate) : res sizing :=
    match box st with
    | None => Err ErrNone
    | Some (mn, mx) =>
        let mol := mol_of mn mx in
        let coarse := coarse_of p mn mx in
        let fine := fine_of p mn mx in
        let cen := center_of mn mx in
        if eqbA (p_space p) zero then Err ErrZeroDiv else
        let temp := temp_of p mn mx in
        let ng := ngrid_of p mn mx in
        bind (smallest (smallest_fuel ng) (p_gmemceil p) ng) (fun ns =>
        let np := zip3 (nproc1 (p_ofrac p)) ng ns in
        let '(f0, f1, f2) := fine in
        let '(n0, n1, n2) := np in
        let '(c0, c1, c2) := coarse in
        bind (nfoc1 (p_redfac p) f0 n0 c0) (fun k0 =>
        bind (nfoc1 (p_redfac p) f1 n1 c1) (fun k1 =>
        bind (nfoc1 (p_redfac p) f2 n2 c2) (fun k2 =>
        Ok (mkSizing mol coarse fine cen temp ng ns np (nfocus_of k0 k1 k2))))))
    end.

  (* ---- the memory part of Psize.__str__ -------------------------------- *)

  (* every operand of a ':d' format (ngrid, nproc, nsmall) is a python int
     since C17-F12 was repaired; what can still raise is a division *)

  Definition milli : A := div A ops (ofZ A ops 1) (ofZ A ops 1000).            (* 0.001 *)
  (* 1 + 2 * ofrac - 0.001 *)
  Definition glob_den (ofrac : A) : A := sub A ops (zofac ofrac) milli.
  (* xglob = nproc * round(nsmall / (1 + 2*ofrac - 0.001)); if nproc == 1: xglob = nsmall *)
  Definition glob1 (ofrac : A) (np ns : Z) : Z :=
    if (np =? 1)%Z then ns
    else (np * round A ops (div A ops (ofZ A ops ns) (glob_den ofrac)))%Z.
  (* fine_length[i] / (n - 1) for the three axes *)
  Definition spacing_ok (n : vec3 Z) : bool :=
    let '(a, b, c) := n in negb ((a =? 1)%Z || (b =? 1)%Z || (c =? 1)%Z).

  Record mem_report := mkReport {
    r_parallel : bool;
    r_grid : vec3 Z;        (* the grid the figures are computed from *)
    r_est_mb : A;           (* "Estimated mem. required for ... solve" *)
    r_per_proc_mb : A       (* "Memory per processor" *)
  }.

  (* None = "No ATOM entries in file!" *)
  Definition report (p : params) (st : pstate) (sz : sizing) : res (option mem_report) :=
    if (0 <? gotatom st)%Z then
      let gmem := mem_mb (s_ngrid sz) in
      let nsmem := mem_mb (s_nsmall sz) in
      if gtb gmem (p_gmemceil p) then
        if eqbA (glob_den (p_ofrac p)) zero then Err ErrZeroDiv
        else if spacing_ok (zip3 (glob1 (p_ofrac p)) (s_nproc sz) (s_nsmall sz))
        then Ok (Some (mkReport true (s_nsmall sz) nsmem (mem_mb (s_nsmall sz))))
        else Err ErrZeroDiv
      else if spacing_ok (s_ngrid sz)
      then Ok (Some (mkReport false (s_ngrid sz) gmem (mem_mb (s_ngrid sz))))
      else Err ErrZeroDiv
    else Ok None.

  (* ---- string level: one line of parse_lines --------------------------- *)

  Variable pfloat : string -> option A.   (* float(word); None = ValueError *)

  (* s.replace("-", " -") *)
  Fixpoint dash_sp (s : string) : string :=
    match s with
    | EmptyString => EmptyString
    | String c r =>
        if Ascii.eqb c "-"%char then String " "%char (String "-"%char (dash_sp r))
        else String c (dash_sp r)
    end.

  (* line[30:].replace("-", " -").split() *)
  Definition words_after30 (line : string) : list string := tokens (dash_sp (drop 30 line)).

  (* line[34:51:8] == "..." : the characters at 34, 42, 50 exist and are '.' *)
  Definition is_dot (o : option ascii) : bool :=
    match o with Some c => Ascii.eqb c "."%char | None => false end.
  Definition coord_dots (line : string) : bool :=
    is_dot (String.get 34 line) && is_dot (String.get 42 line) && is_dot (String.get 50 line).

  (* the five columns of the fixed-width record, blank ones dropped:
     [line[i:j] ...] filtered with word.strip() *)
  Definition fixed_fields (line : string) : list string :=
    filter (fun w => negb (all_chars is_ws w))
      [slice 30 38 line; slice 38 46 line; slice 46 54 line; slice 54 62 line; slice 62 69 line].

  (* words[-5:] *)
  Definition last5 (w : list string) : list string := skipn (List.length w - 5) w.

  (* no decimal points in the PDB coordinate columns: a whitespace-delimited
     record, its last five words count (C17-F13: the --whitespace layout has the
     insertion code at index 30).  Otherwise the blank split, and the columns
     when that leaves fewer than five words (C17-F11 repaired) *)
  Definition fields_after30 (line : string) : list string :=
    let w := words_after30 line in
    if negb (coord_dots line) then last5 w
    else if (List.length w <? 5)%nat then fixed_fields line else w.

  Definition parse_line (line : string) : event :=
    let isa := prefix_of "ATOM" line in      (* line.find("ATOM") == 0 *)
    let ish := prefix_of "HETATM" line in
    if isa || ish then
      let het := negb isa in
      match fields_after30 line with
      | w0 :: w1 :: w2 :: w3 :: w4 :: _ =>
          match pfloat w3, pfloat w4, pfloat w0, pfloat w1, pfloat w2 with
          | Some q, Some r, Some x, Some y, Some z => EvAtom het (x, y, z, q, r)
          | _, _, _, _, _ => EvBad het
          end
      | _ => EvCount het
      end
    else EvSkip.

  Definition parse_lines (st : pstate) (lines : list string) : res pstate :=
    run_events st (map parse_line lines).

  (* Psize.run_psize on a fresh object *)
  Definition run_psize (p : params) (lines : list string) : res (pstate * sizing) :=
    bind (parse_lines init_state lines) (fun st =>
    bind (set_all p st) (fun sz => Ok (st, sz))).

  (* io.dump_apbs: parse_input, then run_psize = parse_input again + set_all
     (QUIRK: counts and charge double, the box does not) *)
  Definition run_dump_apbs (p : params) (lines : list string) : res (pstate * sizing) :=
    bind (parse_lines init_state lines) (fun st1 =>
    bind (parse_lines st1 lines) (fun st =>
    bind (set_all p st) (fun sz => Ok (st, sz)))).

  (* ---- inputgen: Input.__str__ / Elec.__str__ as used by dump_apbs ------ *)

  Variable fmt4 : A -> string.   (* f"{v:.4f}" *)

  Local Open Scope string_scope.

  Definition z3_line (key : string) (v : vec3 Z) : string :=
    let '(a, b, c) := v in
    "    " ++ key ++ " " ++ Z_to_string a ++ " " ++ Z_to_string b ++ " " ++ Z_to_string c ++ nl.
  Definition f3_line (key : string) (v : vec3 A) : string :=
    let '(a, b, c) := v in
    "    " ++ key ++ " " ++ fmt4 a ++ " " ++ fmt4 b ++ " " ++ fmt4 c ++ nl.

  (* str(Elec(pqrpath, size, "mg-auto", 0, potdx=True)) : dime = size.ngrid *)
  Definition elec_auto_text (pqrpath : string) (sz : sizing) : string :=
    "elec " ++ nl ++
    "    mg-auto" ++ nl ++
    z3_line "dime" (s_ngrid sz) ++
    f3_line "cglen" (s_coarse sz) ++
    f3_line "fglen" (s_fine sz) ++
    "    cgcent mol 1" ++ nl ++
    "    fgcent mol 1" ++ nl ++
    "    mol 1" ++ nl ++
    "    lpbe" ++ nl ++
    "    bcfl sdh" ++ nl ++
    "    pdie 2.0000" ++ nl ++
    "    sdie 78.5400" ++ nl ++
    "    srfm smol" ++ nl ++
    "    chgm spl2" ++ nl ++
    "    sdens 10.00" ++ nl ++
    "    srad 1.40" ++ nl ++
    "    swin 0.30" ++ nl ++
    "    temp 298.15" ++ nl ++
    "    calcenergy total" ++ nl ++
    "    calcforce no" ++ nl ++
    "    write pot dx " ++ pqrpath ++ nl ++
    "end" ++ nl.

  (* Input.__str__ *)
  Definition input_text (pqrname : string) (elecs prints : list string) : string :=
    "read" ++ nl ++ "    mol pqr " ++ pqrname ++ nl ++ "end" ++ nl ++
    String.concat "" elecs ++ String.concat "" prints ++ nl ++ "quit" ++ nl.

End Generic.

(* ---- pathlib.PurePosixPath(p).name ---------------------------------------- *)

Local Open Scope string_scope.

(* (first segment, remaining segments) of s.split(c) *)
Fixpoint segs (c : ascii) (s : string) : string * list string :=
  match s with
  | EmptyString => (EmptyString, [])
  | String a r =>
      let (h, t) := segs c r in
      if Ascii.eqb a c then (EmptyString, h :: t) else (String a h, t)
  end.
Definition split_chr (c : ascii) (s : string) : list string :=
  let (h, t) := segs c s in h :: t.

(* pathlib drops empty and "." components; the name is the last one left
   ("" for "", ".", "/") *)
Definition path_part_ok (s : string) : bool := negb (is_empty s) && negb (s =? ".").
Definition path_parts (p : string) : list string := filter path_part_ok (split_chr "/"%char p).
Definition basename (p : string) : string := last (path_parts p) "".

(* the text io.dump_apbs writes for (pqrpath, size):
   Input(pqrpath, size, "mg-auto", 0, potdx=True) -> elecs = [elec1, ""],
   prints = ["print elecEnergy 1 end"] *)
Definition dump_apbs_text {A : Type} (fmt4 : A -> string) (pqrpath : string) (sz : sizing (A:=A)) : string :=
  input_text (basename pqrpath) [elec_auto_text fmt4 pqrpath sz; ""] ["print elecEnergy 1 end"].

(* ---- the fixed-column numeric tail written by Atom.get_pqr_string ---------- *)

(* xs ys zs = f"{v:8.3f}", qs rs = f"{v:.4f}" (format results are inputs here):
   ljust(8)[:8] x3, rjust(8)[:8], rjust(7)[:7] *)
Definition pqr_tail (xs ys zs qs rs : string) : string :=
  take 8 (ljust 8 xs) ++ take 8 (ljust 8 ys) ++ take 8 (ljust 8 zs) ++
  take 8 (rjust 8 qs) ++ take 7 (rjust 7 rs).

(* ---- exact instance: Q ----------------------------------------------------- *)

Local Close Scope string_scope.
Local Open Scope Q_scope.

Definition Qltb (a b : Q) : bool := negb (Qle_bool b a).
Definition Qtrunc (q : Q) : Z := Z.quot (Qnum q) (Zpos (Qden q)).

(* largest k >= 0 with r^k >= x, for 0 < r < 1, 0 < x <= 1; p = r^k.
   log(x)/log(r) lies in [k, k+1), so int(. + 1.0) = k + 1 *)
Fixpoint ilog_loop (fuel : nat) (x r p : Q) (k : Z) : res Z :=
  match fuel with
  | O => Err ErrFuel
  | S f =>
      let p' := Qred (p * r) in
      if Qltb p' x then Ok (k + 1)%Z else ilog_loop f x r p' (k + 1)%Z
  end.

Definition Qilog1 (x r : Q) : res Z :=
  if Qle_bool x 0 then Err ErrLog
  else if Qle_bool r 0 then Err ErrLog
  else if Qeq_bool r 1 then Err ErrZeroDiv
  else if Qltb r 1 && Qle_bool x 1 then ilog_loop (Z.to_nat 3000) x r 1 0
  else Err ErrUnmodelled.

(* round(q): nearest integer, ties to the even one *)
Definition Qround (q : Q) : Z :=
  let d := Zpos (Qden q) in
  let n := (Qnum q / d)%Z in                             (* floor *)
  let twice_frac := (2 * (Qnum q - n * d))%Z in
  if (d <? twice_frac)%Z || ((twice_frac =? d)%Z && Z.odd n) then (n + 1)%Z else n.

Definition QA : Arith Q :=
  mkArith Q
    (fun a b => Qred (a + b)) (fun a b => Qred (a - b))
    (fun a b => Qred (a * b)) (fun a b => Qred (a / b))
    Qltb inject_Z Qtrunc Qround Qilog1.

(* ---- rendering of results for the correspondence harness ------------------- *)

Local Open Scope string_scope.

Definition show_Q (q : Q) : string := Z_to_string (Qnum q) ++ "/" ++ Z_to_string (Zpos (Qden q)).
Definition show_v3 {T : Type} (f : T -> string) (v : vec3 T) : string :=
  let '(a, b, c) := v in f a ++ "," ++ f b ++ "," ++ f c.
(* "i" = python int (the harness checks the type of nsmall / proc_grid entries) *)
Definition show_pynum (n : Z) : string := "i" ++ Z_to_string n.
Definition show_err (e : err) : string :=
  match e with
  | ErrFloat => "ValueError-float" | ErrNone => "TypeError-None" | ErrZeroDiv => "ZeroDivisionError"
  | ErrCeiling => "ValueError-ceiling" | ErrLog => "ValueError-log"
  | ErrFuel => "MODEL-FUEL" | ErrUnmodelled => "MODEL-UNMODELLED"
  end.

Definition show_report (r : res (option (mem_report (A:=Q)))) : string :=
  match r with
  | Err e => "ERR:" ++ show_err e
  | Ok None => "NOATOM"
  | Ok (Some m) =>
      (if r_parallel m then "par" else "seq") ++ ";" ++ show_Q (r_est_mb m) ++ ";" ++ show_Q (r_per_proc_mb m)
  end.

(* pre-rounding values of every int() site, so that the harness can tell a
   genuine disagreement from a float landing on a rounding boundary *)
Definition show_sites (p : params (A:=Q)) (sz : sizing (A:=Q)) : string :=
  show_v3 show_Q (map3 (temp_pre1 QA (p_space p)) (s_fine sz)) ++ ";" ++
  show_v3 show_Q (zip3 (nproc_pre1 QA (p_ofrac p)) (s_ngrid sz) (s_nsmall sz)) ++ ";" ++
  show_v3 show_Q (zip3 (fun fc np => focus_arg1 QA (fst fc) np (snd fc))
                       (zip3 pair (s_fine sz) (s_coarse sz)) (s_nproc sz)).

Definition show_result (p : params (A:=Q)) (r : res (pstate (A:=Q) * sizing (A:=Q))) : string :=
  match r with
  | Err e => "ERR:" ++ show_err e
  | Ok (st, sz) =>
      "OK|" ++ Z_to_string (gotatom st) ++ "|" ++ Z_to_string (gothet st) ++ "|" ++ show_Q (charge st) ++ "|" ++
      match box st with
      | Some (mn, mx) => show_v3 show_Q mn ++ "|" ++ show_v3 show_Q mx
      | None => "-|-"
      end ++ "|" ++
      show_v3 show_Q (s_mol sz) ++ "|" ++ show_v3 show_Q (s_coarse sz) ++ "|" ++
      show_v3 show_Q (s_fine sz) ++ "|" ++ show_v3 show_Q (s_center sz) ++ "|" ++
      show_v3 Z_to_string (s_ngrid sz) ++ "|" ++ show_v3 show_pynum (s_nsmall sz) ++ "|" ++
      show_v3 show_pynum (s_nproc sz) ++ "|" ++ Z_to_string (s_nfocus sz) ++ "|" ++
      show_sites p sz ++ "|" ++ show_report (report QA p st sz)
  end.

(* parameters as exact rationals (float.as_integer_ratio of the python values) *)
Definition mkP (cfac fadd space gmemfac gmemceil ofrac redfac : Q) : params (A:=Q) :=
  mkParams cfac fadd space gmemfac gmemceil ofrac redfac.

(* stream A: atoms already parsed; coordinates/charge/radius are integers
   scaled by 10^4 (PQR text has at most 4 decimals) *)
Definition atomZ (t : bool * Z * Z * Z * Z * Z) : event (A:=Q) :=
  let '(het, x, y, z, q, r) := t in
  let d := fun v : Z => Qred (v # 10000) in
  EvAtom het (d x, d y, d z, d q, d r).

Definition run_atoms (p : params (A:=Q)) (twice : bool) (atoms : list (bool * Z * Z * Z * Z * Z)) : string :=
  let evs := map atomZ atoms in
  show_result p
    (bind (run_events QA (init_state QA) evs) (fun st1 =>
     bind (if twice then run_events QA st1 evs else Ok st1) (fun st =>
     bind (set_all QA p st) (fun sz => Ok (st, sz))))).

(* stream B: text level; float() is a python-filled table word -> exact value *)
Fixpoint lookup_float (tab : list (string * option Q)) (w : string) : option Q :=
  match tab with
  | [] => None
  | (k, v) :: r => if String.eqb k w then v else lookup_float r w
  end.

Definition run_text (p : params (A:=Q)) (twice : bool) (tab : list (string * option Q)) (lines : list string) : string :=
  show_result p
    (if twice then run_dump_apbs QA (lookup_float tab) p lines
     else run_psize QA (lookup_float tab) p lines).

(* f"{q:.4f}" on an exact rational: round half to even at the 4th decimal *)
Definition pad0 (w : nat) (s : string) : string := repeat_char "0"%char (w - String.length s) ++ s.
Definition Qfmt4_abs (q : Q) : string :=
  let s := Qred (q * 10000) in
  let n := (Qnum s / Zpos (Qden s))%Z in               (* floor, q >= 0 *)
  let twice_frac := (2 * (Qnum s - n * Zpos (Qden s)))%Z in
  let d := Zpos (Qden s) in
  let up := (d <? twice_frac)%Z || ((twice_frac =? d)%Z && Z.odd n) in
  let m := if up then (n + 1)%Z else n in
  Z_to_string (m / 10000) ++ "." ++ pad0 4 (Z_to_string (m mod 10000)).
Definition Qfmt4 (q : Q) : string :=
  if Qltb q 0 then "-" ++ Qfmt4_abs (Qopp q) else Qfmt4_abs q.

Definition run_dump_text (p : params (A:=Q)) (tab : list (string * option Q)) (pqrpath : string)
    (lines : list string) : string :=
  match run_dump_apbs QA (lookup_float tab) p lines with
  | Err e => "ERR:" ++ show_err e
  | Ok (_, sz) => dump_apbs_text Qfmt4 pqrpath sz
  end.
