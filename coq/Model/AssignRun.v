(* End-to-end model of `pdb2pqr --assign-only --ff=<FF> [--drop-water] [--keep-chain]
   [--whitespace] in.pdb out.pqr` as the COMPOSITION of

     C07  ingest               pdb.read_pdb ; main.drop_water ; Biomolecule.__init__
     E2E  set_termini_res      Biomolecule.set_termini (Model/CleanRun.v), flags kept
     C02  States.set_state / nuc_state     residue.set_state() -> ffname
     C01  ForceField.assign / lookup       Biomolecule.apply_force_field / Forcefield.get_params
     C02  States.round4 / guard_raises     Residue.charge, the integrality guard of non_trivial
     C08  print_items / written_chunks     print_biomolecule_atoms(matched) ; print_pqr

   main_driver with args.assign_only (transform_arguments switches debump and opt off):
     get_molecule ; [drop_water] ; setup_molecule ; set_termini ; update_bonds ;
     non_trivial:  Forcefield(ff) ; hydrogens.create_handler() ; Debump(biomolecule)   (no effect)
                   biomolecule.set_hip()         every aa.HIS instance gets the patch "HIP"
                   -- SKIPPED in this mode: is_repairable / repair_heavy, update_ss_bridges,
                      debumping, PROPKA, add_hydrogens, hydrogen optimisation, cleanup
                   set_states ; apply_force_field ; [ligand: not modelled, --ligand absent]
                   `if not matched_atoms: raise ValueError`
                   total charge = sum of Residue.charge ; noninteger_charge -> ValueError
                   [--ffout: not modelled, absent] ; header (built, then IGNORED by print_pqr)
                   print_biomolecule_atoms(matched_atoms, keep_chain)
     print_pqr: the header and the "missed" lines only produce a log warning; the file
                contains the atom lines of the MATCHED atoms, TER between chains, TER END.

   What the state logic reads in this mode: update_ss_bridges is not run, so CYS.ss_bonded
   stays 0; no pKa / optimisation step applies AR0/ASH/CYM/GLH/LYN/TYM patches, so only
   residue NAMES select those states; hdonor/hacceptor flags are never set, and "HIP" is
   in the patches of every HIS, so HIS.set_state deletes nothing and names the residue by
   the presence of HD1 / HE2 (neither: TypeError).  neutraln = neutralc = False.

   Names: C01's maps are keyed by interned ids; [sid names unk] turns a string into
   its id (a string outside the closed universe gets the unused id [unk]: no map has it).
   Charges / radii are value * 10^8 (exact decimals of the DAT text); '%.4f' of the float
   is [q4] (rounding of the decimal; compared with Python for EVERY entry of the six maps).
   Residue.charge = float(f"{sum:.4f}") is States.round4 on exact decimals.
   No proofs here. *)
From Coq Require Import String Ascii List Arith NArith ZArith PArith Bool.
From PV Require Import Lib.Strings Lib.Decimal Model.PdbRead Model.Group Model.PdbSpec Model.CleanRun.
From PV Require Model.PqrFormat Model.ForceField Model.States.
Import ListNotations.
Local Open Scope string_scope.

Module FF := PV.Model.ForceField.
Module ST := PV.Model.States.

(* ---- strings <-> the structural names of C02 ----------------------------------- *)

Definition all_classes : list ST.aclass :=
  [ST.C_ALA; ST.C_ARG; ST.C_ASN; ST.C_ASP; ST.C_CYS; ST.C_GLN; ST.C_GLU; ST.C_GLY; ST.C_HIS; ST.C_ILE;
   ST.C_LEU; ST.C_LYS; ST.C_MET; ST.C_PHE; ST.C_PRO; ST.C_SER; ST.C_THR; ST.C_TRP; ST.C_TYR; ST.C_VAL].

Definition all_bases : list ST.base :=
  [ST.B_ALA; ST.B_ARG; ST.B_ASN; ST.B_ASP; ST.B_CYS; ST.B_GLN; ST.B_GLU; ST.B_GLY; ST.B_HIS; ST.B_ILE;
   ST.B_LEU; ST.B_LYS; ST.B_MET; ST.B_PHE; ST.B_PRO; ST.B_SER; ST.B_THR; ST.B_TRP; ST.B_TYR; ST.B_VAL;
   ST.B_AR0; ST.B_ASH; ST.B_CYX; ST.B_CYM; ST.B_GLH; ST.B_HID; ST.B_HIE; ST.B_HIP; ST.B_HSD; ST.B_HSE;
   ST.B_HSP; ST.B_LYN; ST.B_TYM].

Definition all_nclasses : list ST.nclass := [ST.K_ADE; ST.K_CYT; ST.K_GUA; ST.K_THY; ST.K_URA].

Definition class_of_str (s : string) : option ST.aclass :=
  find (fun c => ST.show_class c =? s) all_classes.
Definition base_of_str (s : string) : option ST.base :=
  find (fun b => ST.show_base b =? s) all_bases.
Definition nclass_of_str (s : string) : option ST.nclass :=
  find (fun c => ST.show_nclass c =? s) all_nclasses.

Definition is_his (c : ST.aclass) : bool := match c with ST.C_HIS => true | _ => false end.

(* residue name -> python class name (aa.<X>.__name__ / na.<X>.__name__), regenerated from /repo *)
Definition ctab := list (string * string).

(* the descriptor set_state reads, in assign-only mode *)
Definition adesc_of (c : ST.aclass) (b : ST.base) (t : tres) : ST.adesc :=
  ST.mkad c b (t_nterm t) (t_cterm t)
          (if is_his c then [ST.P_HIP] else [])      (* set_hip; the terminus patches are not read *)
          false                                       (* ss_bonded: update_ss_bridges is not run *)
          (has_atom "HG" (t_r t)) (has_atom "HD1" (t_r t)) (has_atom "HE2" (t_r t))
          false false false false.                    (* hdonor / hacceptor: never set in this mode *)

Inductive sres := SName (n : string) | STypeError | SOutside.

(* residue.set_state() ; the name apply_force_field looks up *)
Definition state_name (ct : ctab) (t : tres) : sres :=
  let r := t_r t in
  match t_kind t with
  | KAmino =>
      match lookup (r_name r) ct with
      | Some cn =>
          match class_of_str cn, base_of_str (r_name r) with
          | Some c, Some b =>
              match ST.ffname_of (adesc_of c b t) with
              | Some n => SName (ST.show_sname n)
              | None => STypeError
              end
          | _, _ => SOutside
          end
      | None => SOutside
      end
  | KNucleic =>
      match lookup (r_name r) ct with
      | Some cn =>
          match nclass_of_str cn with
          | Some k => SName (ST.show_nname (ST.nuc_state (ST.mknd k (has_atom "O2'" r) (t_5term t) (t_3term t))))
          | None => SOutside
          end
      | None => SOutside
      end
  | KWater => SName "WAT"
  | KGeneric => SName (r_name r)
  end.

(* ---- ids ---------------------------------------------------------------------------- *)

Section Ids.
  Variable names : list (string * positive).
  Variable unk : positive.

  Definition sid (s : string) : FF.id :=
    match lookup s names with Some i => i | None => unk end.

  (* the residue as apply_force_field sees it *)
  Definition ff_res (fn : string) (t : tres) : @FF.res atomrec :=
    (sid fn, map (fun a => (a, sid (a_name a))) (r_atoms (t_r t))).
End Ids.

(* ---- numbers ------------------------------------------------------------------------ *)

(* '%.4f' of float(text) for a value given as value * 10^8 (the exact decimal of the DAT
   text).  Two things the exact decimal does not determine are oracle tables, computed
   by the harness from the DAT texts for EVERY entry of the map and compared exhaustively:
     rn_ties  a decimal tie at the 4th place (e.g. 0.01155) is decided by the binary double:
              value -> rounded up?
     rn_negz  a charge written "-0.000" is the float -0.0 and prints "-0.0000": the native
              (residue, atom) rows of such entries *)
Record rnd := mkRnd { rn_ties : list (Z * bool); rn_negz : list (positive * positive) }.

Fixpoint zassoc (k : Z) (l : list (Z * bool)) : option bool :=
  match l with [] => None | (k', v) :: r => if (k =? k')%Z then Some v else zassoc k r end.

Definition q4 (rn : rnd) (v : Z) : PqrFormat.fx :=
  let a := Z.abs v in
  let q := (a / 10000)%Z in
  let r := (a mod 10000)%Z in
  let up := if (r =? 5000)%Z then match zassoc v (rn_ties rn) with Some b => b | None => true end
            else (5000 <? r)%Z in
  PqrFormat.mkfx (v <? 0)%Z (Z.to_N (if up then q + 1 else q)).

Definition q4_charge (rn : rnd) (e : FF.entry) : PqrFormat.fx :=
  if (FF.e_q e =? 0)%Z && existsb (fun p => Pos.eqb (fst p) (FF.e_nres e) && Pos.eqb (snd p) (FF.e_natom e)) (rn_negz rn)
  then PqrFormat.mkfx true 0 else q4 rn (FF.e_q e).

Definition conv_hit (rn : rnd) (r3 : string -> PqrFormat.fx) (h : atomrec * FF.entry) : PqrFormat.atom :=
  let a := fst h in
  PqrFormat.mkatom (show_bool (a_het a)) (a_serial a) (a_name a) (a_resname a) (a_chain a)
                   (a_resseq a) (a_icode a) (r3 (a_x a)) (r3 (a_y a)) (r3 (a_z a))
                   (Some (q4_charge rn (snd h))) (Some (q4 rn (FF.e_r (snd h)))).

(* sum of the assigned charges of one residue (Residue.charge before the rounding) *)
Definition res_sum (m : FF.ffmap) (r : @FF.res atomrec) : Z :=
  ST.zsum (map (fun h => FF.e_q (snd h)) (fst (FF.assign_res m r))).

(* ---- the run -------------------------------------------------------------------------- *)

Inductive ares :=
  | AOk (chunks : list string) (missed : list atomrec)
  | AErr (cls : string).           (* the exception class that leaves main_driver *)

Fixpoint names_of (ct : ctab) (l : list tres) : sres + list (tres * string) :=
  match l with
  | [] => inr []
  | t :: r =>
      match state_name ct t with
      | SName n => match names_of ct r with inr ns => inr ((t, n) :: ns) | inl e => inl e end
      | e => inl e
      end
  end.

Section Run.
  Variable fok : string -> bool.
  Variable tab : deftab.
  Variable ct : ctab.
  Variable pt : ptab.
  Variable near : atomrec -> atomrec -> bool.
  Variable r3 : string -> PqrFormat.fx.
  Variable names : list (string * positive).
  Variable unk : positive.
  Variable m : FF.ffmap.           (* Forcefield(ff).map : Generated.FF_<ff>.built *)
  Variable rn : rnd.

  (* the residues with the name each is looked up under; None/inl = exception *)
  Definition named_residues (dropw : bool) (lines : list string)
    : string + list (tres * string) :=
    match ingest fok tab dropw lines with
    | Raised e => inl e
    | Done rs =>
        match set_termini_res tab pt near rs with
        | None => inl "IndexError"
        | Some trs =>
            match names_of ct trs with
            | inr ns => inr ns
            | inl STypeError => inl "TypeError"
            | inl _ => inl "OutsideModel"
            end
        end
    end.

  Definition ff_residues (ns : list (tres * string)) : list (@FF.res atomrec) :=
    map (fun tn => ff_res names unk (snd tn) (fst tn)) ns.

  Definition assign_only_run (dropw keep ws : bool) (lines : list string) : ares :=
    match named_residues dropw lines with
    | inl e => AErr e
    | inr ns =>
        let rs := ff_residues ns in
        let hm := FF.assign m rs in
        match fst hm with
        | [] => AErr "RuntimeError"        (* ValueError "no atom could be assigned", re-raised by main_driver as RuntimeError *)
        | _ =>
            if ST.guard_raises (map (res_sum m) rs) then AErr "RuntimeError"   (* ValueError of the integrality guard, re-raised as RuntimeError *)
            else
              AOk (PqrFormat.written_chunks ws false
                     (PqrFormat.print_atoms keep (map (conv_hit rn r3) (fst hm))))
                  (snd hm)
        end
    end.
End Run.

(* ---- show functions for the harness ------------------------------------------------ *)

Definition show_ares (r : ares) : string :=
  match r with
  | AErr e => "EXC:" ++ e
  | AOk chunks missed =>
      "OK:" ++ join "," (map (fun a => Z_to_string (a_serial a) ++ "/" ++ a_name a) missed) ++ "|" ++
      String.concat "" chunks
  end.

(* every distinct (charge, radius) rendering of a map, as the writer renders them *)
Definition qkey (rn : rnd) (e : FF.entry) : Z * Z * bool :=
  (FF.e_q e, FF.e_r e, PqrFormat.fx_neg (q4_charge rn e)).
Definition qkey_eqb (a b : Z * Z * bool) : bool :=
  let '(q1, r1, n1) := a in let '(q2, r2, n2) := b in (q1 =? q2)%Z && (r1 =? r2)%Z && Bool.eqb n1 n2.

Definition distinct_entries (rn : rnd) (m : FF.ffmap) : list FF.entry :=
  snd (fold_left (fun acc f => let '(_, _, e) := f in
                    if existsb (qkey_eqb (qkey rn e)) (fst acc) then acc
                    else (qkey rn e :: fst acc, e :: snd acc))
                 (FF.flatten m) ([], [])).

Definition show_map_q4 (rn : rnd) (m : FF.ffmap) : string :=
  join ";" (map (fun e => PqrFormat.fmt_fixed 4 (q4_charge rn e) ++ "," ++ PqrFormat.fmt_fixed 4 (q4 rn (FF.e_r e)))
                (distinct_entries rn m)).
