(* Model of pdb2pqr.pdb.read_pdb and the ATOM/HETATM parsers (C07), string level.

   Follows the code of /repo after commit 621953b (blank lines are skipped,
   only EOF - readline() returning "" - ends the loop) and after the C07-F4 fix
   (BaseRecord.record_type() is the record name of columns 1-6):

     read_pdb       the line loop: strip, blank skip, record name = line[0:6].strip(),
                    errlist suppression, KeyError/ValueError/IndexError handling
     ATOM/HETATM    the column parser with every slice / strip / int() / float()
                    in the order the code evaluates them (the first failing
                    operation decides ValueError vs IndexError)
     read_atom      the whitespace fallback used after an IndexError
     MODEL          always kept (04a78e7: the number is read leniently, never raises)
     TER/END/ENDMDL never raise

   Abstractions (stated in notes/C07.md):
   * float() is an oracle [fok : string -> bool] (does float(text) succeed?);
     coordinates are kept as their stripped source text.  The executable
     instance is the recogniser [py_float_ok] below (Python's float grammar on
     ASCII), compared with float() on every run by the harness.
   * int() is modelled for ASCII input: surrounding blanks, optional sign,
     digits with single underscores between digits ('+5', '1_0', '007' are in
     the model; non-ASCII digits are outside it).
   * the ~50 other record classes are not modelled: their objects are ignored by
     Biomolecule.__init__ and their parsers raise nothing but ValueError /
     IndexError (checked by the harness), which read_pdb swallows.  So a line of
     such a type has no effect on the records kept here.  The trailing optional
     fields of ATOM/HETATM (occupancy ... charge) sit in a try/except that
     cannot raise and are not kept.
   * the list of relevant records keeps ATOM/HETATM, TER, END, MODEL only. *)
From Coq Require Import String Ascii List Arith NArith ZArith Bool.
From PV Require Import Lib.Strings Lib.Decimal.
Import ListNotations.
Local Open Scope string_scope.

(* ---- Python int() / float() on ASCII text ------------------------------ *)

Definition is_digit (c : ascii) : bool :=
  let n := N_of_ascii c in ((48 <=? n) && (n <=? 57))%N.

Definition is_us (c : ascii) : bool := Ascii.eqb c "_"%char.

(* after a digit: digits, or one underscore followed by a digit; the whole
   rest must be consumed.  Returns the digits without underscores. *)
Fixpoint dclean (s : string) : option string :=
  match s with
  | EmptyString => Some EmptyString
  | String c r =>
      if is_digit c then option_map (String c) (dclean r)
      else if is_us c then
        match r with
        | String d r' => if is_digit d then option_map (String d) (dclean r') else None
        | EmptyString => None
        end
      else None
  end.

Definition clean_digits (s : string) : option string :=
  match s with
  | String d r => if is_digit d then option_map (String d) (dclean r) else None
  | EmptyString => None
  end.

(* int(s), base 10; None = ValueError *)
Definition py_int (s0 : string) : option Z :=
  let s := strip s0 in
  match s with
  | String "-"%char r =>
      match clean_digits r with
      | Some ds => option_map Z.opp (Z_of_string ds)
      | None => None
      end
  | String "+"%char r =>
      match clean_digits r with Some ds => Z_of_string ds | None => None end
  | _ => match clean_digits s with Some ds => Z_of_string ds | None => None end
  end.

(* float(s) succeeds?  sign? (inf|infinity|nan | digits[.digits?][exp] | .digits[exp]) *)
Definition lower (c : ascii) : ascii :=
  let n := N_of_ascii c in
  if ((65 <=? n) && (n <=? 90))%N then ascii_of_N (n + 32) else c.

Fixpoint lower_s (s : string) : string :=
  match s with EmptyString => EmptyString | String c r => String (lower c) (lower_s r) end.

(* rest after [_]digit ... ; stops in front of an underscore not followed by a digit *)
Fixpoint dtail (s : string) : string :=
  match s with
  | EmptyString => EmptyString
  | String c r =>
      if is_digit c then dtail r
      else if is_us c then
        match r with
        | String d r' => if is_digit d then dtail r' else s
        | EmptyString => s
        end
      else s
  end.

Definition digitpart (s : string) : option string :=
  match s with
  | String d r => if is_digit d then Some (dtail r) else None
  | EmptyString => None
  end.

Definition unsign (s : string) : string :=
  match s with
  | String "-"%char r => r
  | String "+"%char r => r
  | _ => s
  end.

Definition after_frac (s : string) : bool :=
  match s with
  | EmptyString => true
  | String e r =>
      if Ascii.eqb (lower e) "e"%char then
        match digitpart (unsign r) with Some EmptyString => true | _ => false end
      else false
  end.

Definition py_float_ok (s0 : string) : bool :=
  let s := unsign (strip s0) in
  if mem_str (lower_s s) ["inf"; "infinity"; "nan"] then true
  else
    match digitpart s with
    | Some r1 =>
        match r1 with
        | String "."%char r =>
            match digitpart r with Some r2 => after_frac r2 | None => after_frac r end
        | _ => after_frac r1
        end
    | None =>
        match s with
        | String "."%char r =>
            match digitpart r with Some r2 => after_frac r2 | None => false end
        | _ => false
        end
    end.

(* ---- records ------------------------------------------------------------ *)

Record atomrec := mkA {
  a_het : bool;        (* HETATM class (true) / ATOM class (false); later: Atom.type *)
  a_tok0 : string;     (* record_type(): original_text[0:6].strip() (since the C07-F4 fix) *)
  a_serial : Z;
  a_name : string;
  a_alt : string;
  a_resname : string;
  a_chain : string;
  a_resseq : Z;
  a_icode : string;
  a_x : string;        (* stripped source text of the coordinate fields *)
  a_y : string;
  a_z : string;
  a_src : string       (* the stripped input line this record was made from *)
}.

Inductive rec := RAtom (a : atomrec) | RTer | REnd | RModel.

Inductive presult := POk (a : atomrec) | PVal (* ValueError *) | PIdx (* IndexError *).

Definition char_field (c : ascii) : string := strip (String c EmptyString).

Definition first_token (s : string) : string :=
  match tokens s with t :: _ => t | [] => EmptyString end.

Definition rec_name (line : string) : string := strip (slice 0 6 line).

Section Parsers.
  Variable fok : string -> bool.   (* float(text) does not raise *)

  (* ATOM.__init__ / HETATM.__init__ on [line]; [src] is the line read_pdb saw *)
  Definition parse_cols (het : bool) (src line : string) : presult :=
    if negb (rec_name line =? (if het then "HETATM" else "ATOM")) then PVal (* BaseRecord *)
    else
    match py_int (slice 6 11 line) with
    | None => PVal
    | Some serial =>
        let name := strip (slice 12 16 line) in
        match String.get 16 line with
        | None => PIdx
        | Some c16 =>
            let resname := strip (slice 17 20 line) in
            match String.get 21 line with
            | None => if het then PVal else PIdx
            | Some c21 =>
                match py_int (slice 22 26 line) with
                | None => PVal
                | Some resseq =>
                    match String.get 26 line with
                    | None => if het then PVal else PIdx
                    | Some c26 =>
                        let x := strip (slice 30 38 line) in
                        let y := strip (slice 38 46 line) in
                        let z := strip (slice 46 54 line) in
                        if fok x && fok y && fok z then
                          POk (mkA het (rec_name line) serial name (char_field c16) resname
                                   (char_field c21) resseq (char_field c26) x y z src)
                        else PVal
                    end
                end
            end
        end
    end.

  (* index (from the right end, 0-based) of the word that completes the first
     run of five consecutive float-parsable words, scanning words[size]..words[1] *)
  Fixpoint find5 (l : list string) (i consec : nat) : option nat :=
    match l with
    | [] => None
    | e :: r =>
        if fok e then (if (consec + 1 =? 5)%nat then Some i else find5 r (S i) (consec + 1)%nat)
        else find5 r (S i) 0%nat
    end.

  (* the fixed-column line read_atom(line) rebuilds: words[b-1] is the residue
     number, words[b..b+4] the five numbers; columns 1-22 are kept as they are.
     None: no five consecutive float words (words[size+1] -> IndexError) *)
  Definition fallback_line (line : string) : option string :=
    let words := tokens line in
    let size := (List.length words - 1)%nat in
    match find5 (rev (tl words)) 0 0 with
    | None => None
    | Some iword =>
        let b := (size - iword)%nat in
        match nth_error words (b - 1), nth_error words b, nth_error words (b + 1),
              nth_error words (b + 2), nth_error words (b + 3), nth_error words (b + 4) with
        | Some w0, Some w1, Some w2, Some w3, Some w4, Some w5 =>
            Some (slice 0 22 line ++ rjust 4 w0 ++ rjust 3 "" ++ rjust 8 w1 ++ rjust 8 w2
                  ++ rjust 8 w3 ++ rjust 6 w4 ++ rjust 6 w5)
        | _, _, _, _, _, _ => None
        end
    end.

  (* read_atom(line) *)
  Definition read_atom (het : bool) (line : string) : presult :=
    match fallback_line line with
    | None => PIdx
    | Some newline => parse_cols het line newline
    end.

  (* ---- the line loop ---------------------------------------------------- *)

  Definition known_records : list string :=
    ["ANISOU"; "ATOM"; "AUTHOR"; "CAVEAT"; "CISPEP"; "COMPND"; "CONECT"; "CRYST1"; "DBREF";
     "END"; "ENDMDL"; "EXPDTA"; "FORMUL"; "HEADER"; "HELIX"; "HET"; "HETATM"; "HETNAM";
     "HETSYN"; "HYDBND"; "JRNL"; "KEYWDS"; "LINK"; "MASTER"; "MODEL"; "MODRES"; "MTRIX1";
     "MTRIX2"; "MTRIX3"; "NUMMDL"; "OBSLTE"; "ORIGX1"; "ORIGX2"; "ORIGX3"; "REMARK";
     "REVDAT"; "SCALE1"; "SCALE2"; "SCALE3"; "SEQADV"; "SEQRES"; "SHEET"; "SIGATM";
     "SIGUIJ"; "SITE"; "SLTBRG"; "SOURCE"; "SPRSDE"; "SSBOND"; "TER"; "TITLE"; "TURN"; "TVECT"].

  (* what one non-blank stripped line does, given that its record name is not
     suppressed by errlist *)
  Inductive outcome :=
  | OSkip                    (* parsed into an object Biomolecule ignores, or IndexError swallowed *)
  | ORec (r : rec)           (* appended to pdblist *)
  | OErr                     (* record name appended to errlist *)
  | ORaise.                  (* ValueError leaves read_pdb *)

  Definition atom_outcome (het : bool) (line : string) : outcome :=
    match parse_cols het line line with
    | POk a => ORec (RAtom a)
    | PVal => ORaise
    | PIdx =>
        match read_atom het line with
        | POk a => ORec (RAtom a)
        | PVal => ORaise        (* raised inside the except-handler: propagates *)
        | PIdx => ORaise        (* no five numbers: ValueError since bd8c339 (C07-F7 fix) *)
        end
    end.

  Definition line_outcome (line : string) : outcome :=
    let r := rec_name line in
    if negb (mem_str r known_records) then OErr            (* KeyError *)
    else if r =? "ATOM" then atom_outcome false line
    else if r =? "HETATM" then atom_outcome true line
    else if r =? "TER" then ORec RTer
    else if r =? "END" then ORec REnd
    else if r =? "MODEL" then ORec RModel   (* never raises since 04a78e7 (C07-F8 fix) *)
    else OSkip.

  (* pdblist is accumulated in reverse; None = ValueError raised *)
  Fixpoint read_loop (lines : list string) (acc : list rec) (errl : list string)
    : option (list rec * list string) :=
    match lines with
    | [] => Some (rev acc, errl)
    | raw :: rest =>
        if is_empty raw then Some (rev acc, errl)            (* readline() == "" : EOF *)
        else
          let line := strip raw in
          if is_empty line then read_loop rest acc errl      (* blank line: continue *)
          else if mem_str (rec_name line) errl then read_loop rest acc errl
          else
            match line_outcome line with
            | OSkip => read_loop rest acc errl
            | ORec r => read_loop rest (r :: acc) errl
            | OErr => read_loop rest acc (errl ++ [rec_name line])%list
            | ORaise => None
            end
    end.

  Definition read_pdb (lines : list string) : option (list rec * list string) :=
    read_loop lines [] [].

End Parsers.

(* ---- the line loop with the OTHER record classes made explicit -----------------
   The ~50 record classes Biomolecule ignores are not modelled; what their parsers
   do on a line is an oracle [oerr] (true: KeyError/ValueError, the record name goes
   on errlist and suppresses later records OF THAT NAME; false: an object is
   appended, or an IndexError is swallowed).  [read_pdbG] is read_pdb with that
   made explicit; Proofs/Other.v shows it yields the same relevant records as
   [read_pdb] for EVERY oracle, because errlist suppression is an exact match on
   the record name. *)
Definition five_names : list string := ["ATOM"; "HETATM"; "TER"; "END"; "MODEL"].

Section ParsersG.
  Variable fok : string -> bool.
  Variable oerr : string -> bool.

  Definition line_outcomeG (line : string) : outcome :=
    let r := rec_name line in
    if mem_str r five_names || negb (mem_str r known_records) then line_outcome fok line
    else if oerr line then OErr else OSkip.

  Fixpoint read_loopG (lines : list string) (acc : list rec) (errl : list string)
    : option (list rec * list string) :=
    match lines with
    | [] => Some (rev acc, errl)
    | raw :: rest =>
        if is_empty raw then Some (rev acc, errl)
        else
          let line := strip raw in
          if is_empty line then read_loopG rest acc errl
          else if mem_str (rec_name line) errl then read_loopG rest acc errl
          else
            match line_outcomeG line with
            | OSkip => read_loopG rest acc errl
            | ORec r => read_loopG rest (r :: acc) errl
            | OErr => read_loopG rest acc (errl ++ [rec_name line])%list
            | ORaise => None
            end
    end.

  Definition read_pdbG (lines : list string) : option (list rec * list string) :=
    read_loopG lines [] [].
End ParsersG.

(* file text -> readline() chunks of an io.StringIO (split after every \n) *)
Fixpoint rl (s : string) : string * list string :=
  match s with
  | EmptyString => (EmptyString, [])
  | String c r =>
      let (h, t) := rl r in
      if Ascii.eqb c (ascii_of_N 10) then (String c EmptyString, cons_ne h t)
      else
        (* c belongs to the first line of r, unless r starts a new line *)
        (String c h, t)
  end.
