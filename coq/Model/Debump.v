(* Model of Debump.debump_residue + Residue.pick_dihedral_angle +
   Debump.set_dihedral_angle (pdb2pqr/debump.py:233-298,425-472,
   pdb2pqr/residue.py:255-301) for property C04.

   Level of the model: the residue is its list of reference dihedrals (axis
   atoms b - c and the moveable set get_moveable_names(c), which Model/Moves.v
   models and ties separately); the state is the list residue.dihedrals
   (None = an atom of the dihedral is missing), the list of rotation operations
   performed so far (dihedral index, delta angle) and the list of
   set_dihedral_angle calls (index, requested angle).  Every GEOMETRIC decision
   is an oracle: the value of score_dihedral_angle, the names returned by
   find_residue_conflicts, and the dihedral that set_dihedral_angle measures
   after its rotation (utilities.dihedral; this is what the code stores in
   residue.dihedrals, NOT the requested angle).  The oracle is a state machine
   over an arbitrary "world" W, so that both a scripted answer sequence
   (W = what is left of the script) and real geometry (W = the coordinates)
   are instances.

   Arithmetic on angles and scores is the record [Arith] of Model/Quatfit.v:
   [FArith] (binary64, bit-identical with CPython for + - * abs < ==) is the
   instance executed against the code, [RArith] the one used for the
   net-rotation theorem.

   Definitions only; proofs are in Proofs/Debump.v. *)
From Coq Require Import List PArith Bool Arith ZArith String.
From Coq Require Import PrimFloat Uint63.
From PV Require Import Lib.Decimal Model.ForceField Model.Topology Model.Moves Model.Quatfit.
Import ListNotations.

(* config.py *)
Definition DEBUMP_ANGLE_STEPS : nat := 72.
Definition DEBUMP_ANGLE_STEP_SIZE : Z := 5.        (* float(360 // DEBUMP_ANGLE_STEPS) *)
Definition DEBUMP_ANGLE_TEST_COUNT : nat := 10.
(* config.SMALL_NUMBER = 1e-7 is [a_small] of the Arith record *)

(* one reference dihedral "a b c d" of the residue: the rotation axis b - c
   (c = the pivot) and the atoms that rotate, residue.get_moveable_names(c) *)
Record dihedral := mkdihedral { d_b : id; d_c : id; d_mov : list id }.

Fixpoint list_eqb (l1 l2 : list id) : bool :=
  match l1, l2 with
  | [], [] => true
  | x :: t1, y :: t2 => Pos.eqb x y && list_eqb t1 t2
  | _, _ => false
  end.

Fixpoint remove_at {X : Type} (n : nat) (l : list X) : list X :=
  match l with
  | [] => []
  | x :: t => match n with 0 => t | S k => x :: remove_at k t end
  end.

Fixpoint upd {X : Type} (n : nat) (x : X) (l : list X) : list X :=
  match l with
  | [] => []
  | y :: t => match n with 0 => x :: t | S k => y :: upd k x t end
  end.

(* ---- Residue.pick_dihedral_angle ------------------------------------- *)

(* ilist = list(range(n)); if oldnum is not None and oldnum >= 0 and ilist:
   del ilist[oldnum]; test = ilist[oldnum:] + ilist[:oldnum]  else test = ilist.
   oldnum = None and oldnum = -1 (the first call of debump_residue) are both
   [None] here.  (del with oldnum >= n would be an IndexError; debump_residue
   only passes a number that pick_dihedral_angle returned: pick_lt.) *)
Definition test_indices (n : nat) (old : option nat) : list nat :=
  match old with
  | Some o =>
      match seq 0 n with
      | [] => []
      | il => let il' := remove_at o il in (skipn o il' ++ firstn o il')%list
      end
  | None => seq 0 n
  end.

(* for name in conflict_names: if name in moveablenames: score += 1;
   if score > best: best = score; bestnum = i *)
Definition count_hits (conf mov : list id) (i : nat) (best : nat) (bestnum : option nat)
  : nat * option nat :=
  let '(_, b, bn) :=
    fold_left (fun (acc : nat * nat * option nat) name =>
                 let '(score, best, bestnum) := acc in
                 if mem name mov then
                   let s := S score in
                   if Nat.ltb best s then (s, s, Some i) else (s, best, bestnum)
                 else acc)
              conf (0, best, bestnum) in
  (b, bn).

Section Pick.
  Context {A : Type}.
  Variable dihs : list dihedral.
  Variable angles : list (option A).      (* residue.dihedrals *)
  Variable conf : list id.                (* conflict_names *)
  Variable old : option nat.

  (* the for loop; result None = -1 *)
  Fixpoint pick_loop (test : list nat) (best : nat) (bestnum : option nat) : option nat :=
    match test with
    | [] => bestnum
    | i :: rest =>
        if match old with Some o => Nat.eqb i o | None => false end then pick_loop rest best bestnum
        else match nth_error angles i with
             | Some (Some _) =>
                 let mov := match nth_error dihs i with Some d => d_mov d | None => [] end in
                 if list_eqb conf mov then Some i
                 else let '(b, bn) := count_hits conf mov i best bestnum in pick_loop rest b bn
             | _ => pick_loop rest best bestnum      (* self.dihedrals[i] is None *)
             end
    end.

  Definition pick_dihedral_angle : option nat :=
    pick_loop (test_indices (List.length angles) old) 0 None.
End Pick.

(* ---- the oracle and the state ----------------------------------------- *)

Record oracle (A W : Type) := mkoracle {
  (* score_dihedral_angle(residue, anglenum) *)
  o_score : W -> nat -> A * W;
  (* find_residue_conflicts(residue) *)
  o_conf : W -> list id * W;
  (* the geometric part of set_dihedral_angle(residue, anglenum, angle): rotate the moveable
     atoms by delta = angle - residue.dihedrals[anglenum] about b - c, then measure the
     dihedral.  Arguments: index, requested angle (informational), delta; result: the
     measured dihedral *)
  o_set : W -> nat -> A -> A -> A * W
}.

Record dstate (A W : Type) := mkst {
  st_dih : list (option A);       (* residue.dihedrals *)
  st_ops : list (nat * A);        (* rotations done, newest first: (index, delta) *)
  st_calls : list (nat * A);      (* set_dihedral_angle calls, newest first: (index, angle) *)
  st_err : bool;                  (* a TypeError/IndexError path of the code was taken *)
  st_w : W
}.
Arguments mkst {A W}.
Arguments st_dih {A W}.
Arguments st_ops {A W}.
Arguments st_calls {A W}.
Arguments st_err {A W}.
Arguments st_w {A W}.

Inductive scan_out (A W : Type) :=
| ScanTrue (st : dstate A W)                                  (* return True *)
| ScanDone (st : dstate A W) (bestangle bestscore : A) (found : bool).
Arguments ScanTrue {A W}.
Arguments ScanDone {A W}.

Inductive att_out (A W : Type) :=
| AttTrue (st : dstate A W)                                   (* return True *)
| AttError (st : dstate A W)
| AttNext (st : dstate A W) (bestangle : A) (found : bool) (conf : list id).
Arguments AttTrue {A W}.
Arguments AttError {A W}.
Arguments AttNext {A W}.

Section Debump.
  Context {A : Type} (ar : Arith A) {W : Type} (o : oracle A W).
  Variable dihs : list dihedral.

  Definition with_w (st : dstate A W) (w : W) : dstate A W :=
    mkst (st_dih st) (st_ops st) (st_calls st) (st_err st) w.

  (* Debump.set_dihedral_angle: oldangle = residue.dihedrals[anglenum];
     diff = angle - oldangle; rotate; residue.dihedrals[anglenum] = measured *)
  Definition set_dihedral_angle (st : dstate A W) (n : nat) (angle : A) : dstate A W :=
    match nth_error (st_dih st) n with
    | Some (Some oldangle) =>
        let diff := a_sub A ar angle oldangle in
        let '(m, w') := o_set A W o (st_w st) n angle diff in
        mkst (upd n (Some m) (st_dih st)) ((n, diff) :: st_ops st) ((n, angle) :: st_calls st)
             (st_err st) w'
    | _ => mkst (st_dih st) (st_ops st) (st_calls st) true (st_w st)
    end.

  (* newangle = orig_angle + (DEBUMP_ANGLE_STEP_SIZE * i) *)
  Definition step_angle (orig : A) (i : nat) : A :=
    a_add A ar orig (a_mul A ar (a_ofZ A ar DEBUMP_ANGLE_STEP_SIZE) (a_ofZ A ar (Z.of_nat i))).

  (* for i in range(1, DEBUMP_ANGLE_STEPS): fuel = iterations left, i = loop variable *)
  Fixpoint scan (fuel i n : nat) (orig : A) (st : dstate A W) (bestscore bestangle : A) (found : bool)
    : scan_out A W :=
    match fuel with
    | 0 => ScanDone st bestangle bestscore found
    | S f =>
        let newangle := step_angle orig i in
        let st1 := set_dihedral_angle st n newangle in
        let '(score, w2) := o_score A W o (st_w st1) n in
        let st2 := with_w st1 w2 in
        if a_eqb A ar score (a_zero A ar) then
          let '(cn, w3) := o_conf A W o w2 in
          let st3 := with_w st2 w3 in
          match cn with
          | [] => ScanTrue st3
          | _ => ScanDone st3 newangle bestscore true                (* break *)
          end
        else if a_ltb A ar score bestscore then
          (* diff = abs(bestscore - score); if diff > SMALL_NUMBER *)
          if a_ltb A ar (a_small A ar) (a_abs A ar (a_sub A ar bestscore score))
          then scan f (S i) n orig st2 score newangle true
          else scan f (S i) n orig st2 bestscore bestangle found
        else scan f (S i) n orig st2 bestscore bestangle found
    end.

  (* the body of the attempt loop once pick_dihedral_angle returned n *)
  Definition attempt (st : dstate A W) (n : nat) : att_out A W :=
    let '(bestscore, w1) := o_score A W o (st_w st) n in
    let st1 := with_w st w1 in
    match nth_error (st_dih st1) n with
    | Some (Some orig) =>
        match scan (DEBUMP_ANGLE_STEPS - 1) 1 n orig st1 bestscore orig false with
        | ScanTrue st' => AttTrue st'
        | ScanDone st2 bestangle _ found =>
            let st3 := set_dihedral_angle st2 n bestangle in
            let '(cn, w4) := o_conf A W o (st_w st3) in
            AttNext (with_w st3 w4) bestangle found cn
        end
    | _ => AttError (mkst (st_dih st1) (st_ops st1) (st_calls st1) true (st_w st1))
    end.

  (* for _ in range(DEBUMP_ANGLE_TEST_COUNT) *)
  Fixpoint attempts (fuel : nat) (st : dstate A W) (old : option nat) (conf : list id)
    : bool * dstate A W :=
    match fuel with
    | 0 => (false, st)
    | S f =>
        match pick_dihedral_angle dihs (st_dih st) conf old with
        | None => (false, st)                                      (* anglenum == -1 *)
        | Some n =>
            match attempt st n with
            | AttTrue st' => (true, st')
            | AttError st' => (false, st')
            | AttNext st' _ _ cn => attempts f st' (Some n) cn
            end
        end
    end.

  Definition debump_residue (angles : list (option A)) (w : W) (conflict_names : list id)
    : bool * dstate A W :=
    attempts DEBUMP_ANGLE_TEST_COUNT (mkst angles [] [] false w) None conflict_names.

  (* the rotations of a run, oldest first *)
  Definition ops_of (st : dstate A W) : list (nat * A) := rev (st_ops st).
  Definition calls_of (st : dstate A W) : list (nat * A) := rev (st_calls st).
End Debump.

(* ---- coordinates: the effect of the rotations --------------------------- *)

Section Coordinates.
  Context {A P : Type}.
  (* rotf pb pc delta = the motion "rotate by delta about the axis through pb and pc" *)
  Variable rotf : P -> P -> A -> P -> P.
  Variable dihs : list dihedral.

  (* one set_dihedral_angle: exactly the moveable set of dihedral n follows the rotation *)
  Definition apply_op (pos : id -> P) (op : nat * A) : id -> P :=
    match nth_error dihs (fst op) with
    | Some d => fun a => if mem a (d_mov d) then rotf (pos (d_b d)) (pos (d_c d)) (snd op) (pos a) else pos a
    | None => pos
    end.

  Definition apply_ops (ops : list (nat * A)) (pos : id -> P) : id -> P :=
    fold_left apply_op ops pos.

  (* geometry as the oracle: ANY score / conflict / dihedral-measuring functions of the
     coordinates; the world is the coordinate map and set_dihedral_angle moves it *)
  Variable score_fn : (id -> P) -> nat -> A.
  Variable conf_fn : (id -> P) -> list id.
  Variable meas_fn : (id -> P) -> nat -> A.

  Definition geo_oracle : oracle A (id -> P) :=
    mkoracle A (id -> P)
      (fun pos n => (score_fn pos n, pos))
      (fun pos => (conf_fn pos, pos))
      (fun pos n _ delta => let pos' := apply_op pos (n, delta) in (meas_fn pos' n, pos')).
End Coordinates.

(* the dihedral list of a residue built from a topology template: the moveable set of each
   reference dihedral is the one Model/Moves.v computes (ranks + get_moveable_names) *)
Definition template_dihedrals (nm : names) (nt ct : bool) (g : graph) (dl : list (id * id * id * id))
  : list dihedral :=
  match ranks nm nt ct g with
  | None => []
  | Some rk => map (fun dh : id * id * id * id => let '(_, b, c, _) := dh in mkdihedral b c (moveable g rk c)) dl
  end.

(* ---- scripted oracle (what the harness executes) --------------------------- *)

Record script (A : Type) := mkscript {
  sc_scores : list A;
  sc_confs : list (list id);
  sc_meas : list A;
  sc_under : bool            (* an answer was asked for after the script ran out *)
}.
Arguments mkscript {A}.
Arguments sc_scores {A}.
Arguments sc_confs {A}.
Arguments sc_meas {A}.
Arguments sc_under {A}.

Definition script_oracle {A : Type} (dflt : A) : oracle A (script A) :=
  mkoracle A (script A)
    (fun w _ => match sc_scores w with
                | s :: r => (s, mkscript r (sc_confs w) (sc_meas w) (sc_under w))
                | [] => (dflt, mkscript [] (sc_confs w) (sc_meas w) true)
                end)
    (fun w => match sc_confs w with
              | c :: r => (c, mkscript (sc_scores w) r (sc_meas w) (sc_under w))
              | [] => ([], mkscript (sc_scores w) [] (sc_meas w) true)
              end)
    (fun w _ _ _ => match sc_meas w with
                    | m :: r => (m, mkscript (sc_scores w) (sc_confs w) r (sc_under w))
                    | [] => (dflt, mkscript (sc_scores w) (sc_confs w) [] true)
                    end).

(* a third, axiom-free executable instance (integer angles and scores) used for the
   non-vacuity example: a_small = 0, a_ofZ = identity *)
Definition ZAr : Arith Z :=
  mkArith Z 0%Z 1%Z 2%Z 0%Z 0%Z 0%Z 57%Z 180%Z Z.add Z.sub Z.mul Z.div Z.sqrt Z.abs Z.ltb Z.leb Z.eqb (fun z => z).

Local Open Scope string_scope.

Definition show_nat (n : nat) : string := Z_to_string (Z.of_nat n).

Definition show_call (c : nat * float) : string := show_nat (fst c) ++ ":" ++ show_float (snd c).

Definition show_angle (a : option float) : string :=
  match a with Some f => show_float f | None => "None" end.

(* "<result>|<err>|<underflow>|<scores left>,<confs left>,<meas left>|calls|deltas|final dihedrals" *)
Definition show_debump (dihs : list dihedral) (angles : list (option float))
           (scores : list float) (confs : list (list id)) (meas : list float) (conf0 : list id) : string :=
  let '(r, st) := debump_residue FArith (script_oracle 0%float) dihs angles
                                 (mkscript scores confs meas false) conf0 in
  (if r then "True" else "False") ++ "|" ++
  (if st_err st then "ERR" else "ok") ++ "|" ++
  (if sc_under (st_w st) then "UNDER" else "ok") ++ "|" ++
  show_nat (List.length (sc_scores (st_w st))) ++ "," ++ show_nat (List.length (sc_confs (st_w st))) ++ ","
    ++ show_nat (List.length (sc_meas (st_w st))) ++ "|" ++
  String.concat " " (map show_call (calls_of st)) ++ "|" ++
  String.concat " " (map show_call (ops_of st)) ++ "|" ++
  String.concat " " (map show_angle (st_dih st)).

(* comparison inside Coq (printing ~10^5 floats in decimal is the slow part): the harness passes
   what the code did; the answer is "OK" or the first difference *)
Definition feqb (x y : float) : bool :=
  (PrimFloat.is_nan x && PrimFloat.is_nan y)
  || (PrimFloat.eqb x y && Bool.eqb (PrimFloat.get_sign x) (PrimFloat.get_sign y)).

Definition call_eqb (a b : nat * float) : bool := Nat.eqb (fst a) (fst b) && feqb (snd a) (snd b).

Definition angle_eqb (a b : option float) : bool :=
  match a, b with Some x, Some y => feqb x y | None, None => true | _, _ => false end.

Fixpoint first_diff {X : Type} (eqb : X -> X -> bool) (show : X -> string) (i : nat) (code model : list X)
  : option string :=
  match code, model with
  | [], [] => None
  | x :: t1, y :: t2 =>
      if eqb x y then first_diff eqb show (S i) t1 t2
      else Some ("item " ++ show_nat i ++ ": code " ++ show x ++ " model " ++ show y)
  | x :: _, [] => Some ("item " ++ show_nat i ++ ": code " ++ show x ++ " model <end>")
  | [], y :: _ => Some ("item " ++ show_nat i ++ ": code <end> model " ++ show y)
  end.

Definition check_debump (dihs : list dihedral) (angles : list (option float))
           (scores : list float) (confs : list (list id)) (meas : list float) (conf0 : list id)
           (c_result : bool) (c_calls c_deltas : list (nat * float)) (c_final : list (option float)) : string :=
  let '(r, st) := debump_residue FArith (script_oracle 0%float) dihs angles
                                 (mkscript scores confs meas false) conf0 in
  if negb (Bool.eqb r c_result) then "result: code " ++ (if c_result then "True" else "False") ++ " model " ++ (if r then "True" else "False")
  else if st_err st then "model took an error path"
  else match first_diff call_eqb show_call 0 c_calls (calls_of st) with
  | Some d => "set_dihedral_angle calls: " ++ d
  | None =>
  match first_diff call_eqb show_call 0 c_deltas (ops_of st) with
  | Some d => "rotation deltas: " ++ d
  | None =>
  match first_diff angle_eqb show_angle 0 c_final (st_dih st) with
  | Some d => "final residue.dihedrals: " ++ d
  | None =>
  if sc_under (st_w st) then "model asked for more answers than the code"
  else match sc_scores (st_w st), sc_confs (st_w st), sc_meas (st_w st) with
       | [], [], [] => "OK"
       | _, _, _ => "answers left over: " ++ show_nat (List.length (sc_scores (st_w st))) ++ " scores, "
                    ++ show_nat (List.length (sc_confs (st_w st))) ++ " conflict lists, "
                    ++ show_nat (List.length (sc_meas (st_w st))) ++ " measurements"
       end
  end end end.

Definition show_pick (dihs : list dihedral) (angles : list (option float)) (conf : list id) (old : option nat) : string :=
  match pick_dihedral_angle dihs angles conf old with Some n => show_nat n | None => "-1" end.

Definition show_constants : string :=
  show_nat DEBUMP_ANGLE_STEPS ++ " " ++ show_float (a_ofZ float FArith DEBUMP_ANGLE_STEP_SIZE) ++ " "
  ++ show_nat DEBUMP_ANGLE_TEST_COUNT ++ " " ++ show_float (a_small float FArith).
