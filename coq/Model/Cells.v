(* Model of pdb2pqr/cells.py (C14).

   Coordinates are the exact values of the floats: x = m / D with one common
   positive denominator D per scenario (D = 2^K works for every finite set of
   binary64 values), so everything is integer arithmetic.
   Atoms are numbered; the state is (cellmap, atom.cell, atom position). *)
From Coq Require Import ZArith List Bool Arith.
Import ListNotations.
Local Open Scope Z_scope.

(* ---- bucket function --------------------------------------------------- *)

(* add_cell, one axis:
     x = (int(x) - 1) // size * size if x < 0 else int(x) // size * size
   int() truncates toward zero (Z.quot); // is floor division (Z.div);
   "x < 0" is "m < 0" (a float -0.0 is not < 0 and has m = 0). *)
Definition key_code (size D m : Z) : Z :=
  if m <? 0 then (Z.quot m D - 1) / size * size else (Z.quot m D) / size * size.

(* the partition it induces, as a cell index for cell width S = D*size *)
Definition idx (S m : Z) : Z :=
  if m <? 0 then - ((- m) / S) - 1 else m / S.

Definition key := (Z * Z * Z)%type.
Definition pos := (Z * Z * Z)%type.

Definition key_of (size D : Z) (p : pos) : key :=
  let '(x, y, z) := p in (key_code size D x, key_code size D y, key_code size D z).

Definition key_eqb (a b : key) : bool :=
  let '(a1, a2, a3) := a in let '(b1, b2, b3) := b in
  (a1 =? b1) && (a2 =? b2) && (a3 =? b3).

(* ---- state -------------------------------------------------------------- *)

Record state := mk {
  cellmap : key -> list nat;      (* missing key = [] (KeyError is caught) *)
  cell_of : nat -> option key;    (* atom.cell *)
  posn : nat -> pos               (* atom.x, atom.y, atom.z as numerators over D *)
}.

Definition upd {A} (eqb : A -> A -> bool) {B} (f : A -> B) (k : A) (v : B) : A -> B :=
  fun k' => if eqb k k' then v else f k'.

Definition init (p0 : nat -> pos) : state := mk (fun _ => []) (fun _ => None) p0.

(* list.remove(x): first occurrence *)
Fixpoint remove_first (a : nat) (l : list nat) : list nat :=
  match l with
  | [] => []
  | b :: r => if Nat.eqb a b then r else b :: remove_first a r
  end.

Section Ops.
  Variables size D : Z.

  (* Cells.add_cell(atom) - no check whether the atom is already registered *)
  Definition add_cell (s : state) (a : nat) : state :=
    let k := key_of size D (posn s a) in
    mk (upd key_eqb (cellmap s) k (cellmap s k ++ [a]))
       (upd Nat.eqb (cell_of s) a (Some k))
       (posn s).

  (* Cells.remove_cell(atom) *)
  Definition remove_cell (s : state) (a : nat) : state :=
    match cell_of s a with
    | None => s
    | Some k =>
        mk (upd key_eqb (cellmap s) k (remove_first a (cellmap s k)))
           (upd Nat.eqb (cell_of s) a None)
           (posn s)
    end.

  (* a raw coordinate write: atom.x = ...; the cell map is not told *)
  Definition move (s : state) (a : nat) (p : pos) : state :=
    mk (cellmap s) (cell_of s) (upd Nat.eqb (posn s) a p).

  (* range(-size, 2*size, size) = [-size; 0; size], three nested loops *)
  Definition offsets : list Z := [- size; 0; size].

  Definition neighbour_keys (k : key) : list key :=
    let '(x, y, z) := k in
    flat_map (fun i => flat_map (fun j => map (fun l => (x + i, y + j, z + l)) offsets) offsets) offsets.

  (* Cells.get_near_cells(atom) *)
  Definition get_near_cells (s : state) (a : nat) : list nat :=
    match cell_of s a with
    | None => []
    | Some k =>
        flat_map (fun k' => filter (fun b => negb (Nat.eqb a b)) (cellmap s k')) (neighbour_keys k)
    end.

  Inductive op :=
  | Add (a : nat)
  | Remove (a : nat)
  | Move (a : nat) (p : pos).

  Definition step (s : state) (o : op) : state :=
    match o with
    | Add a => add_cell s a
    | Remove a => remove_cell s a
    | Move a p => move s a p
    end.

  Definition run (s : state) (ops : list op) : state := fold_left step ops s.

  (* squared distance times D^2, and "dist < cutoff" with cutoff = c/D *)
  Definition sqdist (p q : pos) : Z :=
    let '(x1, y1, z1) := p in let '(x2, y2, z2) := q in
    (x1 - x2) * (x1 - x2) + (y1 - y2) * (y1 - y2) + (z1 - z2) * (z1 - z2).

  Definition within (c : Z) (s : state) (a b : nat) : bool :=
    sqdist (posn s a) (posn s b) <? c * c.
End Ops.

(* ---- executable driver for the correspondence check -------------------- *)
From Coq Require Import String.
From PV Require Import Lib.Decimal.

(* outputs of Query ops in a trace; atoms with position table *)
Inductive xop := XAdd (a : nat) | XRemove (a : nat) | XMove (a : nat) (p : pos) | XQuery (a : nat).

Fixpoint xrun (size D : Z) (s : state) (ops : list xop) (acc : list (list nat)) : list (list nat) :=
  match ops with
  | [] => rev acc
  | XAdd a :: r => xrun size D (add_cell size D s a) r acc
  | XRemove a :: r => xrun size D (remove_cell s a) r acc
  | XMove a p :: r => xrun size D (move s a p) r acc
  | XQuery a :: r => xrun size D s r (get_near_cells size s a :: acc)
  end.

Definition show_nats (l : list nat) : string :=
  String.concat "," (map (fun n => Z_to_string (Z.of_nat n)) l).

Definition show_queries (q : list (list nat)) : string :=
  String.concat ";" (map show_nats q).

Definition table (l : list (nat * pos)) : nat -> pos :=
  fun a => match find (fun e => Nat.eqb (fst e) a) l with Some e => snd e | None => (0, 0, 0) end.

Definition run_trace (size D : Z) (p0 : list (nat * pos)) (ops : list xop) : string :=
  show_queries (xrun size D (init (table p0)) ops []).
